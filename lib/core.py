"""Shared machinery of ./check: translate -> build proofs -> Print Assumptions -> run model
(vm_compute over generated cases files) -> evidence / violations / known findings."""
import fcntl
import hashlib
import json
import os
import random
import re
import subprocess
import sys
import time

VERIF = os.path.dirname(os.path.dirname(os.path.abspath(__file__)))
REPO = os.environ.get('AV_REPO', '/repo')
COQ = os.path.join(VERIF, 'coq')
WORK = os.path.join(COQ, '.work')
PY = '/venv/bin/python'
sys.path.insert(0, os.path.join(VERIF, 'translator'))
sys.path.insert(0, VERIF)

ALLOWED_AXIOMS = set()   # target: every theorem closed under the global context

FORBIDDEN = re.compile(r'\b(Admitted|admit|Axiom|Parameter|Conjecture|Unset\s+Guard|bypass_check|Admit\s+Obligations)\b'
                       r'|-type-in-type|-impredicative-set')


def sh(cmd, timeout=600, cwd=None, env=None):
    t0 = time.time()
    try:
        p = subprocess.run(cmd, shell=isinstance(cmd, str), cwd=cwd, env=env, timeout=timeout,
                           stdout=subprocess.PIPE, stderr=subprocess.STDOUT, text=True)
        return p.returncode, p.stdout, time.time() - t0
    except subprocess.TimeoutExpired as e:
        out = e.stdout if isinstance(e.stdout, str) else (e.stdout or b'').decode('utf-8', 'replace')
        return 124, out + '\n[timeout]', time.time() - t0


class Lock:
    """exclusive while translating / building, shared while evaluating compiled models (checks may run in parallel)"""

    def __init__(self, shared=False):
        self.shared = shared

    def __enter__(self):
        os.makedirs(COQ, exist_ok=True)
        self.f = open(os.path.join(COQ, '.lock'), 'a')
        fcntl.flock(self.f, fcntl.LOCK_SH if self.shared else fcntl.LOCK_EX)
        return self

    def __exit__(self, *a):
        fcntl.flock(self.f, fcntl.LOCK_UN)
        self.f.close()


def all_v_files():
    out = []
    for d in ('Generated', 'Model', 'Spec', 'Proofs', 'Props'):
        p = os.path.join(COQ, d)
        if os.path.isdir(p):
            for f in sorted(os.listdir(p)):
                if f.endswith('.v'):
                    out.append(f'{d}/{f}')
    return out


def write_if_changed(path, content):
    try:
        with open(path) as f:
            if f.read() == content:
                return False
    except FileNotFoundError:
        pass
    with open(path, 'w') as f:
        f.write(content)
    return True


def translate():
    import py2coq
    return py2coq.translate(REPO, os.path.join(COQ, 'Generated'))


def ensure_makefile():
    files = all_v_files()
    proj = '-Q . AV\n-arg -w -arg -notation-overridden,-deprecated-hint-without-locality,-deprecated-instance-without-locality\n' + '\n'.join(files) + '\n'
    changed = write_if_changed(os.path.join(COQ, '_CoqProject'), proj)
    if changed or not os.path.exists(os.path.join(COQ, 'Makefile')):
        rc, out, _ = sh('coq_makefile -f _CoqProject -o Makefile', cwd=COQ, timeout=120)
        if rc != 0:
            raise RuntimeError('coq_makefile failed: ' + out)


def forbidden_scan():
    bad = []
    for rel in all_v_files():
        with open(os.path.join(COQ, rel)) as f:
            for i, line in enumerate(f, 1):
                code = re.sub(r'\(\*.*?\*\)', '', line)
                if FORBIDDEN.search(code):
                    bad.append(f'{rel}:{i}: {line.strip()}')
    return bad


def make(targets, jobs=16, timeout=1500):
    """Build .vo targets (full build, never -vos). Returns (ok, log, failing_file)."""
    ensure_makefile()
    rc, out, dt = sh(f'timeout {timeout} make -j{jobs} ' + ' '.join(targets), cwd=COQ, timeout=timeout + 30)
    failing = None
    if rc != 0:
        m = re.findall(r'File "\./([^"]+)", line (\d+)', out)
        if m:
            failing = f'{m[-1][0]}:{m[-1][1]}'
    return rc == 0, out, failing, dt


def print_assumptions(prop_id, module, theorems):
    """Returns dict theorem -> 'closed' | list of axiom lines."""
    os.makedirs(WORK, exist_ok=True)
    src = f'Require Import AV.Props.{module}.\n'
    for t in theorems:
        src += f'Goal True. idtac "@@BEGIN {t}". exact I. Qed.\nPrint Assumptions {t}.\n'
    src += 'Goal True. idtac "@@END". exact I. Qed.\n'
    path = os.path.join(WORK, f'Assum_{prop_id}.v')
    with open(path, 'w') as f:
        f.write(src)
    rc, out, _ = sh(f'timeout 300 coqc -Q . AV -w none .work/Assum_{prop_id}.v', cwd=COQ, timeout=330)
    res = {}
    if rc != 0:
        return None, out
    cur = None
    buf = []
    for line in out.splitlines():
        if line.startswith('@@BEGIN '):
            if cur:
                res[cur] = buf
            cur = line.split(' ', 1)[1].strip()
            buf = []
        elif line.startswith('@@END'):
            if cur:
                res[cur] = buf
            cur = None
        elif cur is not None:
            buf.append(line)
    final = {}
    for t, lines in res.items():
        text = '\n'.join(lines).strip()
        if 'Closed under the global context' in text:
            final[t] = 'closed'
        else:
            ax = [l.split(':')[0].strip() for l in lines if re.match(r'^[A-Za-z_][\w\.\']*\s*:', l)]
            final[t] = ax or [text]
    return final, out


# ----------------------------------------------------------------------------------------
# Coq term printing helpers for cases files
# ----------------------------------------------------------------------------------------

def cz(n):
    return f'({n})' if n < 0 else str(n)


def czl(xs):
    return '[' + ';'.join(cz(x) for x in xs) + ']'


def cbool(b):
    return 'true' if b else 'false'


def copt(x, f=cz):
    return 'None' if x is None else f'(Some {f(x)})'


def cstr(s):
    """python str -> list Z of code points"""
    return czl([ord(c) for c in s])


def cbytes(b):
    return czl(list(b))


def run_cases(prop_id, name, imports, fn_expr, cases, shard=400, timeout=900, preamble='', abstain=None):
    """Evaluate the model on cases inside Coq with vm_compute and diff against expected.

    cases: list of (input_term, expected_listZ_term) as Coq source text; fn_expr is a Coq
    expression of type  <input type> -> list Z  (the model function composed with its
    serializer).  Returns list of indices whose model output differs from expected.
    One coqc per shard, run in parallel; each prints only the mismatching indices.
    """
    d = os.path.join(WORK, prop_id)
    os.makedirs(d, exist_ok=True)
    files = []
    for si in range(0, len(cases), shard):
        chunk = cases[si:si + shard]
        fname = f'{name}_{si // shard}.v'
        src = 'From Coq Require Import ZArith List Bool.\nImport ListNotations.\nOpen Scope Z_scope.\n'
        for imp in imports:
            src += f'Require Import {imp}.\n'
        src += preamble + '\n'
        src += 'Fixpoint leqb (a b : list Z) : bool := match a, b with [], [] => true | x :: a, y :: b => Z.eqb x y && leqb a b | _, _ => false end.\n'
        src += f'Definition f := {fn_expr}.\n'
        src += 'Definition cases := [\n' + ';\n'.join(f'({i + si}, {inp}, {exp})' for i, (inp, exp) in enumerate(chunk)) + '].\n'
        # `abstain`: a result with which the model declares the input outside its domain (e.g. [2; 99] = Err EXN_Unmodelled: a text codec of
        # the standard library that is not modelled); such a case is no disagreement - and no agreement either: it is simply not compared
        ab = f' && negb (leqb (f (snd (fst c))) {abstain})' if abstain else ''
        src += (f'Definition bad := map (fun c => fst (fst c)) (filter (fun c => negb (leqb (f (snd (fst c))) (snd c)){ab}) cases).\n'
                'Definition out := Eval vm_compute in bad.\n'
                'Goal True. let v := eval unfold out in out in idtac "@@BAD" v. exact I. Qed.\n')
        with open(os.path.join(d, fname), 'w') as f:
            f.write(src)
        files.append(fname)
    bad = []
    errors = []
    procs = []
    maxp = 14
    pending = list(files)
    with Lock(shared=True):         # no rebuild of the compiled model (by a check running in parallel) while it is being evaluated
        while pending or procs:
            while pending and len(procs) < maxp:
                fn = pending.pop(0)
                p = subprocess.Popen(f'ulimit -s unlimited 2>/dev/null; timeout {timeout} coqc -Q . AV -w none .work/{prop_id}/{fn}',
                                     shell=True, cwd=COQ, stdout=subprocess.PIPE, stderr=subprocess.STDOUT, text=True)
                procs.append((fn, p))
            fn, p = procs.pop(0)
            out, _ = p.communicate()
            m = re.search(r'@@BAD\s*\[([^\]]*)\]', out.replace('\n', ' '))
            if p.returncode != 0 or not m:
                errors.append((fn, out[-2000:]))
            else:
                body = m.group(1).strip()
                if body:
                    bad.extend(int(x.strip().strip('()')) for x in body.split(';') if x.strip())
    # clean large case files (keep on error for diagnosis)
    if not errors:
        for fn in files:
            for ext in ('.v', '.vo', '.glob', '.vok', '.vos'):
                try:
                    os.remove(os.path.join(d, fn[:-2] + ext))
                except FileNotFoundError:
                    pass
    return bad, errors


def coq_eval(prop_id, name, imports, exprs, timeout=300):
    """Evaluate closed Coq expressions of type list Z; returns list of python int lists."""
    d = os.path.join(WORK, prop_id)
    os.makedirs(d, exist_ok=True)
    src = 'From Coq Require Import ZArith List Bool.\nImport ListNotations.\nOpen Scope Z_scope.\n'
    for imp in imports:
        src += f'Require Import {imp}.\n'
    for i, e in enumerate(exprs):
        src += f'Definition e{i} : list Z := Eval vm_compute in ({e}).\n'
        src += f'Goal True. let v := eval unfold e{i} in e{i} in idtac "@@R" "{i}" v "@@E". exact I. Qed.\n'
    with open(os.path.join(d, name + '.v'), 'w') as f:
        f.write(src)
    rc, out, _ = sh(f'timeout {timeout} coqc -Q . AV -w none .work/{prop_id}/{name}.v', cwd=COQ, timeout=timeout + 30)
    if rc != 0:
        return None, out
    flat = out.replace('\n', ' ')
    res = {}
    for m in re.finditer(r'@@R\s+(\d+)\s+\[(.*?)\]\s+@@E', flat):
        body = m.group(2).strip()
        res[int(m.group(1))] = [int(x.strip().strip('()')) for x in body.split(';') if x.strip()] if body else []
    return [res.get(i) for i in range(len(exprs))], out


# ----------------------------------------------------------------------------------------
# known findings
# ----------------------------------------------------------------------------------------

def load_known_findings():
    """known_findings.txt lines:  finding: property=Cxx key=<signature> <text>   |  fixed: property=Cxx <commit> <text>"""
    out = {'finding': [], 'fixed': []}
    p = os.path.join(VERIF, 'known_findings.txt')
    if not os.path.exists(p):
        return out
    with open(p) as f:
        for line in f:
            line = line.strip()
            if not line or line.startswith('#'):
                continue
            m = re.match(r'^(finding|fixed):\s+property=(\S+)\s+(.*)$', line)
            if not m:
                continue
            kind, pid, rest = m.groups()
            key = None
            km = re.match(r'key=(\S+)\s*(.*)$', rest)
            if km:
                key, rest = km.groups()
            out[kind].append({'property': pid, 'key': key, 'text': rest})
    return out


# ----------------------------------------------------------------------------------------
# check context
# ----------------------------------------------------------------------------------------

class Ctx:
    def __init__(self, prop_id, tier, seed):
        self.prop_id = prop_id
        self.tier = tier
        self.seed = seed
        self.rng = random.Random(seed)
        self.t0 = time.time()
        self.obligations = []          # theorem names
        self.discharged = []
        self.assumptions_report = {}
        self.trusted_base = []
        self.assumptions = []
        self.evaluations = 0
        self.nontrivial = set()
        self.samples = []
        self.distribution = {}
        self.rule = ''
        self.violations = []           # (replay_path, found_input:bool)
        self.known_hits = {}           # key -> text
        self.notes = []
        self.traces = 0
        self.exhaustive = None
        kf = load_known_findings()
        self.known = [k for k in kf['finding'] if k['property'] == prop_id]
        self.fixed = [k for k in kf['fixed'] if k['property'] == prop_id]
        self.extra = {}

    @property
    def thorough(self):
        return self.tier == 'thorough'

    def count(self, key, n=1):
        self.distribution[key] = self.distribution.get(key, 0) + n

    def case(self, sig, nontrivial=True):
        """Register one evaluated case; sig identifies it for distinctness."""
        self.evaluations += 1
        if nontrivial:
            if not isinstance(sig, (str, bytes, int, tuple)):
                sig = repr(sig)
            self.nontrivial.add(hashlib.blake2b(repr(sig).encode(), digest_size=8).digest())

    def sample(self, s, cap=12):
        if len(self.samples) < cap:
            self.samples.append(s)

    def violation(self, what, replay, found_input=True):
        """Record a violation unless it matches a known finding (by signature key)."""
        key = replay.get('finding_key')
        if key is not None:
            for k in self.known:
                if k['key'] == key:
                    self.known_hits[key] = k['text']
                    return False
        os.makedirs(os.path.join(VERIF, 'replays'), exist_ok=True)
        body = dict(replay)
        body['property'] = self.prop_id
        body['what'] = what
        body['seed'] = self.seed
        body['tier'] = self.tier
        body['found_failing_input'] = found_input
        h = hashlib.blake2b(json.dumps(body, sort_keys=True, default=str).encode(), digest_size=6).hexdigest()
        path = os.path.join(VERIF, 'replays', f'{self.prop_id}-{h}.json')
        with open(path, 'w') as f:
            json.dump(body, f, indent=1, default=str)
        # at most 20 lines of each kind; violations with a failing input are listed first
        if sum(1 for _p, fi, _w in self.violations if fi == found_input) < 20:
            self.violations.append((path, found_input, what))
            self.violations.sort(key=lambda v: not v[1])
        return True

    # ---- standard steps -------------------------------------------------------------------
    def prove(self, module, theorems, targets=None, refuted=()):
        """Translate, build the property's cone, collect Print Assumptions. Returns True if all ok.
        On failure records self.broken (file/line or theorem) but does NOT emit a violation:
        the caller then searches for a failing input and calls finish()."""
        self.obligations = list(theorems)
        self.module = module
        self.broken = []
        with Lock():
            changed, terrs = translate()
            for f, m in terrs:
                self.broken.append(f'translator: {f}: {m}')
            bad = forbidden_scan()
            if bad:
                self.broken.append('forbidden constructs in coq/: ' + '; '.join(bad[:5]))
            ok, log, failing, dt = make(targets or [f'Props/{module}.vo'])
            self.extra['make_s'] = round(dt, 1)
            if not ok:
                tail = '\n'.join(log.splitlines()[-25:])
                self.broken.append(f'coq build failed at {failing}: ' + tail)
                self.build_log_tail = tail
                self.build_failing = failing
                return False
            rep, out = print_assumptions(self.prop_id, module, theorems)
        if rep is None:
            self.broken.append('Print Assumptions failed: ' + out[-800:])
            return False
        self.assumptions_report = rep
        for t in theorems:
            r = rep.get(t)
            if r == 'closed':
                self.discharged.append(t)
            elif r is None:
                self.broken.append(f'theorem {t} not found')
            else:
                extra = [a for a in r if a not in ALLOWED_AXIOMS]
                if extra:
                    self.broken.append(f'theorem {t} depends on axioms: {extra}')
                else:
                    self.discharged.append(t)
        return not self.broken

    def finish(self, level='proof', checker_cmd=None):
        """Emit VIOLATION / KNOWN-FINDING lines, write evidence, return exit code."""
        # a broken obligation with no failing input found is still a violation
        if getattr(self, 'broken', None) and not any(fi for _p, fi, _w in self.violations):
            self.violation('proof obligation or translation no longer checks',
                           {'broken': self.broken, 'theorems': self.obligations,
                            'note': 'no failing input found by the replay search'}, found_input=False)
        for key, text in sorted(self.known_hits.items()):
            print(f'KNOWN-FINDING: property={self.prop_id} {text}')
        for path, found, what in self.violations:
            tail = '' if found else ' no-failing-input-found'
            print(f'VIOLATION property={self.prop_id} replay={path}{tail}')
        cov = {
            'obligations': max(1, len(self.obligations)),
            'discharged': len(self.discharged),
            'checker_cmd': checker_cmd or f'cd /verif/coq && make Props/{getattr(self, "module", self.prop_id)}.vo  (coqc 8.16.1, full .vo build) + Print Assumptions per theorem',
            'trusted_base': self.trusted_base,
            'theorems': {t: self.assumptions_report.get(t, 'not built') for t in self.obligations},
            'evaluations': self.evaluations,
            'distinct_nontrivial': len(self.nontrivial),
            'rule': self.rule,
            'samples': self.samples if self.samples else ['(none)'],
            'traces_validated_against_impl': self.traces,
            'input_distribution': self.distribution,
            'known_findings_reproduced': sorted(self.known_hits),
            'notes': self.notes,
        }
        if self.exhaustive is not None:
            cov['exhaustive'] = self.exhaustive
        cov.update(self.extra)
        ev = {
            'property_id': self.prop_id, 'tier': self.tier, 'seed': self.seed, 'level': level,
            'coverage': cov, 'assumptions': self.assumptions,
            'wall_s': round(time.time() - self.t0, 2), 'violations': len(self.violations),
        }
        os.makedirs(os.path.join(VERIF, 'evidence'), exist_ok=True)
        with open(os.path.join(VERIF, 'evidence', f'{self.prop_id}.json'), 'w') as f:
            json.dump(ev, f, indent=1, default=str)
        return 1 if self.violations else 0


def impl_env():
    env = dict(os.environ)
    env['PYTHONPATH'] = REPO
    env['PYTHONHASHSEED'] = '0'
    env['AIOSMPPLIB_VERIF'] = '1'
    return env


def pickle_b64(obj):
    """objects (messages) stored in replay files so that a replay re-executes the failing operation on the same input"""
    import base64
    import pickle
    try:
        return base64.b64encode(pickle.dumps(obj)).decode()
    except Exception:  # noqa: BLE001
        return None


def unpickle_b64(text):
    import base64
    import pickle
    return pickle.loads(base64.b64decode(text))


def status_key(k):
    """key of SimpleCorrelator._segment_status_store ('ref/seq of the first segment') as the model's integer skey ref seq"""
    k = str(k)
    if '/' in k:
        ref, seq = k.split('/')
        return int(ref) + 65536 * (int(seq) + 1)
    return int(k)
