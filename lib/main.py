import argparse
import asyncio
import importlib
import os
import sys
import traceback

sys.path.insert(0, os.path.dirname(os.path.dirname(os.path.abspath(__file__))))
from lib import core


def setup():
    with core.Lock():
        changed, errs = core.translate()
        for f, m in errs:
            print('translator error:', f, m)
        core.ensure_makefile()
        ok, log, failing, dt = core.make(['all'], timeout=3000)
        print(log[-3000:])
        print(f'setup build ok={ok} in {dt:.0f}s')
        return 0 if ok and not errs else 1


def main():
    ap = argparse.ArgumentParser()
    ap.add_argument('prop', nargs='?')
    ap.add_argument('--tier', default=os.environ.get('VERIF_TIER', 'quick'))
    ap.add_argument('--replay')
    ap.add_argument('--setup', action='store_true')
    a = ap.parse_args()
    if a.setup:
        sys.exit(setup())
    tier = a.tier if a.tier in ('quick', 'thorough') else 'quick'
    try:
        seed = int(os.environ.get('VERIF_SEED', '20260930'))
    except ValueError:
        seed = 20260930
    ctx = core.Ctx(a.prop, tier, seed)
    # watchdog: a check that does not terminate (e.g. code under test that waits for ever) fails closed
    import signal
    limit = int(os.environ.get('VERIF_WATCHDOG_S', '2400' if tier == 'quick' else '14400'))

    def on_alarm(_sig, _frm):
        ctx.broken = getattr(ctx, 'broken', []) + [f'the check did not terminate within {limit} s (a coroutine of the code under test never completed?)']
        rc = ctx.finish()
        sys.stdout.flush()
        sys.stderr.flush()
        os._exit(rc)
    signal.signal(signal.SIGALRM, on_alarm)
    signal.alarm(limit)
    try:
        mod = importlib.import_module(f'harness.{a.prop}')
        if a.replay:
            rc = mod.replay(ctx, a.replay)
        else:
            rc = mod.run(ctx)
    except (Exception, asyncio.CancelledError):   # fail closed: a crashing check is a violation without a witness
        tb = traceback.format_exc()
        sys.stderr.write(tb)
        ctx.broken = getattr(ctx, 'broken', []) + ['check crashed: ' + tb[-1500:]]
        rc = ctx.finish()
    sys.exit(rc)


main()
