#!/usr/bin/env python3
"""Regenerates /verif/MANIFEST.json from the table below (run after adding a property check)."""
import json
import os

VERIF = os.path.dirname(os.path.dirname(os.path.abspath(__file__)))

CLAIMED = {
    'C10': dict(
        text='Machine-checked Coq theorems (Props/C10.v) over an executable Gallina model of GSM7BitCodec whose tables are '
             'regenerated from codec.py on every run: round trip for every string over the alphabet in every error mode, '
             'per-character homomorphism (cost 1/2 septets, escape first; strict/ignore/replace behaviour for arbitrary strings), '
             'decoder equations for every octet in both states, and equality of the generated tables with the hand-transcribed '
             '3GPP TS 23.038 tables. The model is tied to codec.py by a differential run (vm_compute inside Coq) on single code points, '
             'alphabet pairs, every octet in both decoder states and random strings.',
        note='Trusted: Coq kernel + vm_compute, translator (table literals), Spec/Gsm0338.v transcription, CPython str/bytes/struct '
             'semantics as modelled, correspondence sampling (model = code is checked on generated inputs, not proved). Since fix 9b35d23 an escape followed by ANY code without extension entry - octets above 0x7F and the escape code itself - yields one placeholder (the forced hypothesis x <> ESCAPE is gone; the oracle judges repeated escapes). No axioms.',
        technique='Coq proof by list induction + vm_compute table facts over translator-generated tables; differential correspondence',
        design='6 (C10)'),
    'C11': dict(
        text='Coq theorems (Props/C11.v): for every list of septets, of any length, the Python pack loop (modelled index by index) equals '
             'the 3GPP TS 23.038 bit-stream packing (Spec/Septets.v); its length is ceil(7n/8); unpacking returns the septets, plus one zero '
             'septet exactly for 8n-1 septets; at text level encode = packing of the unpacked encoding and decode returns the text, with a '
             'trailing commercial-at only in the 8n-1 case. Proof by induction in periods of 8 septets/7 octets, per-alignment arithmetic '
             'discharged by exhaustive kernel sweeps over septet pairs and lia. Model tied to codec.py by differential runs.',
        note='Trusted: Coq kernel + vm_compute, translator (tables), Spec/Septets.v transcription, CPython int/bytearray semantics as modelled, '
             'correspondence sampling. No axioms.',
        technique='Coq proof by chunk induction + exhaustive finite sweeps (vm_compute) + lia; differential correspondence',
        design='6 (C11)'),
    'C13': dict(
        text='Coq theorems (Props/C13.v): (a) every number of SimpleSequenceGenerator lies in its range for any start state, the closed form of the '
             'k-th number, and freshness: after ANY history the next number differs from the number of every outstanding request sent fewer than one '
             'period ago, also across wrap-around; default range = 1..0x7FFFFFFF passes assert_valid_sequence. (b) over a transition system of '
             '_send_data (number assignment and correlator.put as separate, arbitrarily interleaved events), _handle_response (filter, pop, '
             'compatibility test over the generated COMMAND_RESPONSE_MAP) and expiry: for every history no request is attributed twice; an attribution '
             'happens only on a response with the request\'s number and a compatible command while it is stored; unknown/wrong-type responses attribute '
             'nothing; no KeyError. The model is tied to the code by replaying seeded histories through the real ESME/SimpleCorrelator (sending hook '
             'suspended between assignment and put) and comparing outcomes and final store with the model evaluated in Coq.',
        note='Trusted: Coq kernel, translator (maps/tuples/bounds), harness (fake transport, hook), asyncio cooperative scheduling (atomic between awaits). '
             'Expiry is an arbitrary environment deletion here; its timing is C14. Whole sessions with connection loss while requests are outstanding are checked by '
             'an oracle on the numbers written on all connections; that nothing rewinds the generators is read off esme.py by the translator (C13_generators_only_advanced). The bind response is '
             'taken positionally by connect(), outside the correlator. Proved for the code after fix afc8c80 (a response of another type used up the outstanding '
             'request; C13_other_type_leaves_request) and c0a3355 (after a restart on a persisted correlator the default generator continues after the stored numbers; two lives on one directory are run on every check). No axioms.',
        technique='Coq invariant proofs by induction over event histories (occurrence-count invariant, ghost ids) + modular arithmetic; trace correspondence against the real ESME',
        design='6 (C13)'),
    'C17': dict(
        text='Coq theorems (Props/C17.v) over an executable model of datetime_to_smpp_time / smpp_time_to_datetime (incl. Python int() parsing, '
             'datetime validity, timedelta normalisation): for every civil time 2000-2099 with valid fields, any microsecond and any UTC offset of '
             '15*k minutes, -48<=k<=48, or naive, the wire string is YYMMDDhhmmsstnnp with nn=|k| and p its sign and parses back to the same fields '
             'at 0.1 s resolution with the same offset; every whole-second duration up to 63 weeks prints as YYMMDDhhmmss000R and parses back '
             'exactly; anything beyond 63 weeks is ValueError. Model tied to protocol.py by differential runs over boundary sweeps, random values '
             'and a malformed-string stream (exception class compared).',
        note='Trusted: Coq kernel + vm_compute sweeps, CPython datetime/strftime/int() semantics as modelled (sampled by the differential run), harness. '
             'FixedOffset.from_timezone (named by the property as a mechanism, not on the conversion path) is modelled and proved for every sign/hour/minute. '
             'Proved for the code after fixes e177386 (the pinned code failed the absolute part) and 21e6c58 (from_timezone wrong for every negative offset). No axioms.',
        technique='Coq proof (digit printing/parsing lemmas by finite sweep, lia with Euclidean division); differential correspondence',
        design='6 (C17)'),
    'C20': dict(
        text='Coq theorems (Props/C20.v) over an executable model of DeliverSm.parse_receipt (the find(":")/find(" ") scanner on suffixes, int(), '
             'the backtracking alternatives of strptime %y%m%d%H%M, id fallback to the receipted_message_id TLV) and encode_receipt: for every '
             'receipt with id/stat free of spaces, counts/err 0..999, dates 1969-2068 to the minute and any text, and for ANY casing of the eight '
             'field names, parsing the built text returns the dictionary (text up to padding; id from the TLV exactly when the text has none); '
             'unknown name:value tokens are kept as strings under the lower-cased name; a non-receipt parses to {}. Model tied to protocol.py by '
             'differential runs on built receipts (re-cased names, TLV present/absent, extra tokens), non-receipt esm_class values, a malformed '
             'stream and ambiguous date strings (exception classes compared).',
        note='Trusted: Coq kernel + vm_compute sweeps, CPython str/int/strptime semantics as modelled (sampled), ASCII field names, harness. Since fix e2a3177 a text that is refused is refused at every call (the harness parses each malformed text twice). No axioms.',
        technique='Coq proof (scanner lemmas over list append, finite sweeps for number/date fields); differential correspondence',
        design='6 (C20)'),
    'C08': dict(
        text='Coq theorems (Props/C08.v) over executable models of split_sms / split_sms_udh (the while loops on encoded septets / UTF-16BE '
             'octets with the escape and high-surrogate guards), the UCS2 codec and the segmentation block of ESME._dequeue_messages: for EVERY text '
             '(any length, any mix of GSM basic/extension, BMP and astral characters), both methods and every reference 0..255, whatever the '
             'sender emits is accepted by an independent receiver (Spec/Receiver.v: SAR TLVs / 3GPP 23.040 concatenation IEs) that checks the '
             'single-PDU limits (254 octets; UDH: 140 octets or 160 septets incl. header), one reference, total n<=255, sequence 1..n, equal '
             'esm_class/data_coding, and that each segment decodes on its own in strict mode (no split escape or surrogate pair), and it returns '
             'exactly the text; 16-bit references for split_sms_udh; generic loop lemmas (lossless, sized) for any limit. Tied to the code by '
             'differential runs of the split functions and by running the real ESME sender (fake transport) and parsing the written PDUs with an '
             'independent SMPP reference parser; two thirds of the sender-path variants set every option of the message away from its default (TON/NPI, protocol_id, '
             'priority, both time fields, replace_if_present, sm_default_msg_id) and each PDU of the message must carry all of them (oracle), and the translator reads off the code that every segment is smpp_message.clone() and that clone() passes every constructor field of the dataclass (C08_segments_are_full_copies).',
        note='Trusted: Coq kernel, translator (tables, size constants), harness + smppref.py. Domain: default alphabet gsm0338, automatic encoding, '
             'strict error handling. Proved for the code after fix 164ba1d (the pinned code cut GSM texts on characters). No axioms.',
        technique='Coq proof: generic chunking invariants by induction on fuel, byte/unit commutation for UTF-16, decoder-state lemmas; differential + wire-level correspondence',
        design='6 (C08)'),
    'C18': dict(
        text='Coq theorems (Props/C18.v) over an exact-rational model of SimpleRateLimiter (per clock reading: credit, then pass or sleep) and '
             'SimpleThrottleHandler: for EVERY rate r>0 (also below 1/s), every strictly increasing clock and every window [a,a+T], at most '
             'r*T+r+1 messages pass inside the window whatever happened before, the limiter never raises, and a waiting message passes after at '
             'most k one-second sleeps whenever k*r>1 (k=floor(1/r)+1); the throttle decision is characterised state-wise (denied iff >= sample_size '
             'responses since the window restarted and the two-decimal percentage exceeds deny_request_at; restart rule), with the rounding effect '
             'bounded by 0.005. Tied to the code by running the real classes under a scripted clock (time.monotonic/asyncio.sleep replaced in '
             'their modules) and by driving the real ESME sender with a recording limiter/throttle handler (every submit_sm write has its own '
             'limiter pass and a last answer allow; nothing is written after a denial).',
        note='Trusted: Coq kernel (QArith, lra/nra), harness; binary64 rounding is not modelled (inputs are dyadic; histories with an exact rounding '
             'tie are skipped and counted); The sender-level '
             'statement is checked on whole sessions (real limiter + real throttle handler on a virtual-time loop: wire-level rate bound, denial condition evaluated '
             'at every submit_sm write) and on traces of the real sender, not proved. Proved for the code after fixes b4cec97, dd102c0, a0e77b7 (throttle handler '
             'asked before the wait in the rate limiter), ac3f46b (ZeroDivisionError on equal clock readings; the theorems now hold for non-decreasing clocks). Stated limit: a throttled response handled while the application\'s sending hook is suspended (between allow_request and the write) is not taken into account. Since fix 2041393 the throttle decision is taken on the exact share (throttled*100 > deny_request_at*total); model, C18_throttle_decision and the oracle are exact (the two-decimal rounding only reaches the log). No axioms.',
        technique='Coq proof: potential/supply argument by induction over clock readings (Q, lra/nra), liveness by state-invariance of failed readings; scripted-clock correspondence',
        design='6 (C18)'),
    'C14': dict(
        text='Coq theorems (Props/C14.v) over an executable model of SimpleCorrelator (request store, segment stores, expired(), put/get) in '
             'which the expiry sweep is cut at every await: a run is ANY sequence of begin / one-sweep-iteration / finish events of concurrent '
             'tasks, so every schedule and every suspension of the send_error hook is covered. Proved for all runs: an entry is expired only when '
             'more than the TTL has elapsed since it was stored; no entry is expired twice and none is both expired and matched by a response; every '
             'call (the first request after the TTL, keep-alive probes included) sweeps everything present when it begins and leaves nothing '
             'overdue when its sweep is done; an expiring plain SubmitSm is reported as itself. Tied to the code by driving the real '
             'SimpleCorrelator with three concurrent tasks, a suspending recording hook and a scripted clock and comparing hook calls, get results and '
             'final stores with the model evaluated in Coq; an oracle checks the hook log directly.',
        note='Trusted: Coq kernel, harness (scripted time.monotonic in correlator.py), asyncio cooperative scheduling. Part (d) of the design '
             '(a response arriving within the TTL always finds its request) is REFUTED for the session: known finding '
             'response-before-put-under-backpressure (reproduced on the real ESME with a paused transport; witness theorem in Props/C14.v). '
             'The correlator\'s share of (d) is proved: put() stores the request in its first atomic piece, before its sweep can suspend in the hook '
             '(C14_put_visible_at_once). Session scenarios: slow sending hook (TTL counts from the write), send_error hook suspended inside put()., a segment that is never answered while its sibling is accepted late or REJECTED (exactly one failing outcome). '
             'Answers in every shape an SMSC uses (message id, empty C-string, no body, vendor specific or reserved status, generic_nack) must be the only outcome; reconnects with a keep-alive short enough to reach an outstanding number again. Proved for the code after fixes 6160d29 (the sweep no longer raises KeyError), 83211c4 (put() swept before storing) and 1e300e5 (a vendor specific command_status ended the receiver). No axioms.',
        technique='Coq invariant proof (ownership counting + sweep-coverage invariant) by induction over arbitrary event interleavings; trace correspondence with suspending hooks',
        design='6 (C14)'),
    'C09': dict(
        text='Coq theorem (Props/C09.v) over an executable model of put_delivery_segmented: for ANY family of messages with pairwise distinct '
             'references, each cut into any number >= 2 of segments, and ANY arrival order and interleaving without duplicates, the k-th arrival '
             'returns the complete text (segments joined in numeric order - proved through a sorting-uniqueness lemma) exactly when it is the last '
             'missing segment of its message and nothing otherwise, and never fails; once every message begun is complete the delivery segment store is empty again (C09_store_empty_when_complete), so any later stream - in particular later messages under the SAME references, as an 8-bit reference must be used again after 256 messages - is treated as by a fresh correlator (C09_reference_free_after_completion: reassemble (arr ++ later) = reassemble arr ++ reassemble later). Tied to the code by feeding deliver_sm PDUs built by an '
             'independent encoder (SAR TLVs, UDH 8/16-bit, GSM/UCS2, short_message/message_payload) to the real receiver loop '
             '(_receive_data + from_pdu + SimpleCorrelator) and comparing the received-hook calls with the model; the oracle also checks one '
             'delivery per message with the exact text and a deliver_sm_resp echoing every segment; one family in four is followed by a second family under the same references; all permutations of 2..5 (thorough 6) segments.',
        note='Trusted: Coq kernel, harness + smppref.py, asyncio. Domain: no duplicate segments, distinct references among concurrently incomplete '
             'messages, delivery TTL not reached. Proved for the code after fixes 7dca4fc, 00c3b4e, d468104 (16-bit reference, numeric join order, UDH in message_payload). No axioms.',
        technique='Coq proof: invariant over arrival prefixes + uniqueness of strictly sorted lists; PDU-level trace correspondence through the real receiver',
        design='6 (C09)'),
    'C02': dict(
        text='Coq theorems (Props/C02.v) over an executable model of the decision logic of ESME._handle_response / the receipt branch of '
             '_handle_request and the SimpleCorrelator operations they call (get with segment-status update, put_delivery, get_delivery, '
             'get_segmented, cumulated status): an accepted response stores the original message under the SMSC id; a receipt for a stored id of '
             'an unsegmented message carries that identity and consumes the id (duplicates become unknown); unknown or id-less receipts get empty '
             'identity and change nothing; and for one segmented message accepted in full, with ANY number k>=2 of segments and ANY admissible '
             'interleaving of its puts, responses and receipts, every receipt but the completing one yields the placeholder and the completing one '
             'exactly one receipt event with the message identity - a failing one as soon as any segment failed; the receipt of an unsegmented message keeps its identity in ANY state of the segment bookkeeping (C02_receipt_unsegmented: its sequence number may belong to a newer message by now); any integer as receipt error code is handled like the booked code below the internal status markers (C02_any_error_code). Tied to the code by driving the real '
             'handlers and correlator with real PDUs (independent encoder) over histories of 1-5 concurrent messages and comparing hook outputs, '
             'throttle counters and all four stores with the model evaluated in Coq.',
        note='Trusted: Coq kernel, translator, harness + smppref.py. The segmented theorem holds for ANY NUMBER of messages outstanding at once and any interleaving of their events (C02_concurrent_receipts: '
             'footprint and frame lemmas over the one-message invariant, Proofs/ConcurrentReceipts.v); mixes with plain messages, duplicates and unknown ids are '
             'covered by the correspondence runs and the oracle. Hypotheses: error codes '
             'below 65532 (the internal status codes), segments of two messages with the same reference are not stored interleaved (references may coincide since fix 78b3543: a message accepted in '
             'full keeps its own status cell while a later message re-uses its 8-bit reference; regression histories on every run), no '
             'expiry during the history (sessions with receipts a minute, an hour and two days after the response run beside the histories), 2..255 segments. Message ids are case-sensitive strings whose neighbours differ only in case; receipt texts whose echoed text looks like receipt fields are generated; sequence numbers of answered unsegmented messages are re-used. KNOWN FINDING reproduced on every run: a sequence number re-used while a SEGMENTED message accepted under it waits for receipts (needs a generator that restarts or has a short period since fix c0a3355). Proved for the code after fixes d1270d3, 78b3543, 5cf0a3e (receipt text in message_payload), 0693b94 (1..255 segments), ccc4a36 (receipt of an unsegmented message under a re-used number), fbeb784 (error codes in the range of the status markers). No axioms.',
        technique='Coq proof: per-message phase invariant over dict lookups, one lemma per event kind, induction over admissible event lists; PDU-level trace correspondence',
        design='6 (C02)'),
    'C03': dict(
        text='Coq theorems (Props/C03.v) over an executable model of pdu()/parse_header/from_pdu for all 15 classes (Model/Pdu.v): command_length '
             'equals the number of bytes produced for every class, field assignment and default alphabet; the header reads back exactly; exact round '
             'trips, for all field values in range, of the header-only classes, submit_sm_resp/deliver_sm_resp, the three binds and the three bind '
             'responses; and for submit_sm/deliver_sm: for every assignment of the mandatory fields, any text the chosen alphabet carries (GSM, IA5, '
             'Latin-1, UCS2, automatic selection with UCS2 fallback) of any length, ANY list of optional parameters in any order and any default '
             'alphabet, decode(encode(m)) is m up to exactly the documented normalisations (sm_back: message_payload beyond 254 octets, explicit '
             'default alphabet -> automatic, unset flags absent; the two time fields as the time parser reads the strings written - C17). The proof '
             'goes through the specification layout (C04) and a parser theorem for any optional-parameter list. Tied to the code by comparing '
             'model and implementation on generated messages over the whole field space (bytes and exception classes of pdu(), fields and exception '
             'classes of from_pdu, also on truncated and corrupted PDUs) plus a direct round-trip oracle.',
        note='Trusted: Coq kernel, translator (enums, TLV tables), harness + pdugen.py. Outside the submit_sm theorem: messages with the UDHI bit '
             '(C08/C09), non-strict error handlers, stdlib codecs, the packed GSM codec as a default (C11). Domain exclusion: a GSM alphabet named '
             'explicitly under a different session default has no data_coding of its own in SMPP 3.4. Proved for the code after fixes acc3db3, '
             '77053b5, d468104, 5ac7354. Since fixes 6c5706e and 1ffc4ee the round trip covers Octet String parameters with any octets and messages with an empty text. No axioms.',
        technique='Coq proof: positional parser lemmas (skipn cursor), induction over the optional-parameter list, refinement through the specification layout; differential correspondence on generated PDUs incl. malformed stream',
        design='6 (C03)'),
    'C04': dict(
        text='Coq theorems (Props/C04.v) relating the executable model of pdu()/from_pdu to Spec/Smpp34.v, a transcription of SMPP 3.4 sections 3.2, '
             '4.x, 5.1.2.1 and 5.3.2 written independently of the code: command ids and the supported set, every row (tag, kind, width) of the optional-'
             'parameter table, TLV bytes for every row and in-range value, the byte layout of every class (header, mandatory-field order and widths, '
             'C-octet termination, sm_length, message_payload and optional parameters) for whatever the encoder produces, and that the data_coding sent '
             'is one under which the text bytes decode to the text supplied (GSM, IA5, Latin-1, UCS2; from the C10 round-trip theorem). Decoding: '
             'specification PDUs of the responses (body present or omitted), bind responses (with/without sc_interface_version, body omitted) and binds '
             'decode to the values they were built from; 8- and 16-bit concatenation headers decode to (ref, total, seq); and a specification '
             'submit_sm/deliver_sm with mandatory fields of any admissible value, ANY number of optional parameters in ANY order (message_payload '
             'anywhere), any known data_coding and default alphabet decodes to exactly the values it was built from (C04_sm_decode, with the '
             'meaning of each parameter given by tlvs_meaning; the loop theorem C04_tlv_loop by induction over the parameter list). PDUs built by an '
             'independent encoder (harness/smppref.py) are fed to the real parse_header/from_pdu and to the model; the real pdu() bytes are '
             'compared octet by octet with the independent encoder.',
        note='Trusted: Coq kernel, Spec/Smpp34.v and smppref.py as transcriptions of the standard, translator, harness. The time strings of a foreign PDU enter '
             'C04_sm_decode through smpp_to_time (C17); User Data Headers with any information elements before / after the concatenation element, or none, are covered (C04_udh_any_order). Proved '
             'for the code after fixes 7dca4fc, d468104, 0c64b68 (bind response without body), 5ac7354 (final zero octet of Octet String TLVs), 9e89d20 (UDH read as if the concatenation element came first). Since fixes 6c5706e and 1ffc4ee Octet String parameters carry any octets (C04_octet_string_tlv for all octets 0..255) and a message with an empty text decodes (C04_foreign_sm without the non-empty hypothesis); foreign PDUs with binary octet strings and empty texts are generated. No axioms.',
        technique='Coq proof: refinement of the model encoder to an independent specification layout + table sweeps; differential check against an independent reference encoder/decoder',
        design='6 (C04)'),
    'C12': dict(
        text='Coq theorem (Props/C12.v) over an executable model of json_encode/_json_default and json_decode/dict_to_smpp_message/the per-class '
             'from_json methods (Model/Json.v): for EVERY message of all 15 classes whose attributes are its dataclass fields with values of their '
             'types - any log_id/extra_data strings, any command_status member, any optional-parameter list, naive/aware datetimes and timedeltas - '
             'of_json (to_json m) = m; the encoded object names the message type and decoding dispatches on that name. Tied to the code by comparing, '
             'on generated messages, the real JSON value tree with the model\'s, the real decoder\'s fields and exception classes with the model\'s '
             '(also on documents with one fault), plus the direct oracle json_decode(json_encode(m)) == m on the real code.',
        note='Trusted: Coq kernel, the JSON text layer (json/orjson) and the stdlib round trips isoformat/fromisoformat and '
             'total_seconds/timedelta(seconds=) which the model represents as leaves (checked on every generated value), harness. '
             'Proved for the code after fix 8f9830c (from_json dropped log_id, extra_data and command_status). No axioms.',
        technique='Coq proof: generic record round trip over a class table + table facts by evaluation; differential correspondence incl. malformed stream',
        design='6 (C12)'),
    'C19': dict(
        text='Coq theorems (Props/C19.v) over an executable model of PersistingDict (Model/Persist.v): (1) crash atomicity - for ANY previous content, new '
             'content, leftover temporary file and parser, every state a crash can leave during _save (before it, after the temporary file is created, '
             'after a torn write of any prefix, after close, after the rename) loads as the state before or the state after; the truncating protocol the '
             'code used before is refuted with a witness; (2) write-through - after ANY sequence of dictionary operations in which no in-place update is '
             'left without a later saving operation, the file holds exactly the dictionary; (3) restart - the JSON form of all five stores (nested '
             'messages in SegmentStatus included, any number of entries) is revived by a new instance to exactly the store saved (on top of the C12 '
             'round-trip theorem). Tied to the code on a real directory: the I/O primitives of the real _save are compared with the model protocol; the '
             'dictionary-level trace of every SimpleCorrelator call (in-place updates detected by snapshots) is validated and replayed in Coq; file trees '
             'and reloaded stores are compared with the model; oracles restart after every prefix of every history and crash at every I/O primitive '
             '(with torn writes) and require each file to load as before or after.',
        note='Trusted: Coq kernel, atomicity of os.replace, JSON text layer, harness (simulated crash = exception at an I/O primitive, then the directory '
             'is re-read). Crash = process death; power loss would additionally need fsync, which _save does not do (stated assumption). Proved for the '
             'code after fixes 0dd80e4 (atomic save), 2324e37 (nested revival), 30e5325 (in-place updates saved), 8f9830c (from_json keeps tracking fields). No axioms.',
        technique='Coq proof: crash-state enumeration of a write protocol, dirty-flag invariant over operation traces, JSON revival round trip; I/O-primitive and dictionary-level trace validation with fault injection',
        design='6 (C19)'),
    'C05': dict(
        text='Coq theorems (Props/C05.v) over an executable model of the receive side (Model/Recv.v on top of the PDU and receipt models): '
             '(1) for EVERY byte string, header and default alphabet, from_pdu followed by parse_receipt ends normally or with ValueError '
             '(incl. UnicodeDecodeError), struct.error or KeyError - exactly the classes the handlers catch (the OverflowError branches of the '
             'time parser are proved unreachable); (2) the reaction to a PDU never raises; every request with a recognised header is answered by '
             'exactly one PDU echoing its sequence number - generic_nack(ESME_RINVCMDID) for unsupported commands, generic_nack(ESME_RSYSERR) for an '
             'unparsable body, its own response otherwise - and responses are never answered; (3) for every byte stream of every length, with or '
             'without EOF, the Receiver task keeps waiting, returns, or ends with an exception that _end_task swallows or the connect cycle catches '
             '(the except clauses are generated from esme.py), and PDUs after an answered one are processed as if they came first. Tied to the code '
             'by feeding generated and perturbed byte streams to the real ESME.start() on a virtual-time loop and comparing PDUs written, PDUs '
             'handled and the way the Receiver task ended with the model; an oracle with an independent framer checks start() alive, one echoing '
             'answer per request, and normal service after a reconnect.',
        note='Trusted: Coq kernel, translator, harness (virtual-time loop, scripted SMSC over real asyncio streams). Outside the model: the stdlib '
             'text codecs of data_coding 5,6,7,9,10,13,14 (oracle only) and the correlator calls after a successful parse (C02/C09/C14). Proved '
             'for the code after fixes be2f32d, 66de80c, 4d29cd7, 205ac9b, cefdd18 (single-segment deliver_sm KeyError). No axioms.',
        technique='Coq proof: exception-class closure of the parser by structural error-set lemmas, reaction case analysis, induction over the byte stream; trace correspondence of the real session on a virtual-time loop',
        design='6 (C05)'),
    'C06': dict(
        text='Coq theorems (Props/C06.v) over an executable model of the loop body of _dequeue_messages for a SubmitSm (Model/Send.v: segmentation '
             'decision for every encoding name, clones with SAR parameters, per-segment sequence number and pdu(), classification of errors in the '
             'guarded region - the build-error classes and the extent of the guarded region are read off esme.py by the translator): building the '
             'PDUs of ANY constructor-valid SubmitSm under ANY default alphabet ends normally or with ValueError (incl. UnicodeEncodeError), '
             'struct.error, KeyError or LookupError, all of which the sender reports to send_error and survives; one queued message is either '
             'written in full or handed to send_error exactly once; a queue of any length never ends the Sender task and is handled in order. '
             'Tied to the code by queueing generated SubmitSm objects (negative and boundary integers, names without codec, UDHI, every size '
             'limit, NUL/non-ASCII strings, out-of-range optional parameters) on the real ESME.start() over a virtual-time loop and comparing the '
             'order and bytes of sending/send_error hook calls with the model; an oracle checks start() and the Sender alive, one connection, '
             'wire = announced PDUs, outcomes in queue order, at most one send_error per message.',
        note='Trusted: Coq kernel, translator, harness. Outside the model: stdlib codecs and non-GSM codecs under non-strict error handlers (oracle only); '
             'transport failures (they end the cycle by design: C07). The generator also names Python codecs that are not text codecs, datetimes with every '
             'kind of tzinfo, and queues a message in the window between the loss of a connection and the end of the idle sender. Proved for the code after '
             'fixes 77053b5, e3719d2 (build errors other than ValueError ended the session), eac4e7b (segmentation errors escaped the guarded region), '
             'a118bb8 (TypeError from a non-text codec ended the session). No axioms.',
        technique='Coq proof: exception-class closure of the encoder and splitters by structural error-set lemmas, induction over the queue; trace correspondence of the real session on a virtual-time loop',
        design='6 (C06)'),
    'C07': dict(
        text='Coq theorems (Props/C07.v) over a transition-system model of start()/stop() and SimpleExponentialBackoff (Model/Lifecycle.v; the except '
             'clauses of start() and _end_task are generated from esme.py): every network/peer fault class (ConnectionError and subclasses, '
             'TimeoutError, SmppError, IncompleteReadError, OSError, ValueError), raised by connect() or by a session task, is caught by the connect '
             'cycle; ANY sequence of faulty cycles of ANY length leaves start() running; start() returns only when the shutting-down flag is seen '
             'and then makes no further attempt; for ANY minimum and number of increases the k-th wait after a reset sleeps 0, min, 2min, 4min ... '
             'capped at min*2^increases (closed form, bounds, doubling), the loop sleeps exactly these delays during a failure streak and starts '
             'over after a successful bind. Tied to the code by playing fault scripts and stop() times against the real ESME.start() on a '
             'virtual-time loop: the delays slept by the real retry timer, the exception class each cycle ended with and the way start() ended '
             'are compared with the model; an oracle states the property on the observations (back-off values and attempt times, start() alive '
             'without stop; after stop(): bounded return, state CLOSED, unbind sent if the session was bound, every transport closed).',
        note='Trusted: Coq kernel, translator, harness (virtual time), asyncio semantics of wait_for/cancel/close. PARTIAL: the bounded-time part of '
             'stop() is checked by the oracle on the played scenarios (bound 4*socket_timeout + max back-off + enquire_link_interval + 5 s), not '
             'proved - it depends on asyncio scheduling of three tasks. Proved for the code after fixes 480fe1d and 600b0b5 (connection left open '
             'when stop() came before the session was bound). Scenarios of rounds 7-9: stop() on a connection the SMSC has already closed (9f650fd), stop() whose unbind is held up in the sending hook while the session ends underneath it (6756439: bounded return; the unbind itself is not written in that schedule - hooks are assumed to return promptly). No axioms.',
        technique='Coq proof: induction over cycle sequences of a transition system, closed form of the back-off recurrence (nia/lia); trace correspondence of the real session with fault injection on a virtual-time loop',
        design='6 (C07)'),
    'C16': dict(
        text='Coq theorems (Props/C16.v) over a timed-automaton model of _connection_keeper (Model/Keeper.v, times in ms, answers and unsolicited '
             'traffic both arrivals): the probe goes out exactly when nothing has been received for the interval (earlier traffic restarts the '
             'interval at its arrival without a probe); after a probe the connection is dropped exactly socket_timeout later if and only if '
             'nothing at all arrived in between, and any arrival restarts the keeper; a peer that answers every probe within the time-out is '
             'NEVER dropped, for any interval, time-out, other traffic and horizon (mutual induction); a silent peer is probed once after exactly '
             'the interval and dropped exactly socket_timeout later. Tied to the code by playing traffic patterns (none, periodic just below/above '
             'the interval, bursts, arrivals at the very timer instant, random) and answer delays (0, small, just below/above the time-out, never) '
             'against the real keeper inside ESME.start() on a virtual-time loop and comparing probe times and drop time to the millisecond; an '
             'oracle states the three sentences of the property on the observed time stamps.',
        note='Trusted: Coq kernel, harness (virtual-time loop: timers fire in time order), asyncio.wait/wait_for semantics. An answer exactly '
             'socket_timeout after the probe is outside the statement (model and code both treat it as too late). Scenarios of round 9: a peer that stops reading (write back-pressure) must be dropped and the next connection must work (7876ebb: the detached probe task is cancelled with the keeper); a hook that never returns must not keep start() from replacing a lost session (aadaefa/0d0edab); what the ESME sends itself is no sign of life. No axioms.',
        technique='Coq proof: step lemmas and mutual induction over a timed transition system; timed trace correspondence of the real task on a virtual-time loop',
        design='6 (C16)'),
    'C15': dict(
        text='Coq theorems (Props/C15.v) over Model/Wire.v: every PDU the library builds carries its own length (from C03), hence for ANY set of tasks '
             'writing through _send_data and ANY interleaving an independent framer cuts the byte stream back into exactly the PDUs written; for any '
             'number of tasks sending any PDUs, interleaved in ANY way at their await points (merge relation), every write was announced to the '
             'sending hook before with exactly those bytes (multiset invariant by induction over the merge); in every run of the connect / bind / '
             'bound / cycle-end transition system with gated writers the bind request is the first PDU of its connection and every other PDU is '
             'written on a connection whose bind has succeeded; mode -> bind command and session state per table. The echo of sequence numbers and '
             'one answer per request are C05_one_answer. Tied to the code by trace validation: concurrent sessions on the real ESME.start() (sender, '
             'receiver answering, keeper, stop(), suspending hooks, delayed bind responses, reconnects, probes suspended across a reconnect, '
             'messages queued during teardown) produce a global event log that is checked by wire_ok evaluated in Coq and by an oracle with an '
             'independent framer (whole PDUs announced beforehand, bind first, response after the received hook, each inbound PDU to the hook once, '
             'no submit_sm from a receiver, state matches mode). Model/RecvActions.v: handler, received hook and answer of one PDU as ordered actions with writes that may fail, parameterised by the order facts the translator reads off _receive_data/_handle_pdu/_handle_request: every PDU read reaches the hook exactly once whichever write of its handling fails (C15_handed_over_exactly_once), also when the receiver is cancelled while handling it (C15_read_pdu_survives_cancellation), and a parsed request is answered only after the hook returned (C15_answer_after_hook); compared with sessions whose answers cannot be written.',
        note='Trusted: Coq kernel, harness (global event log, virtual-time loop), atomicity of coroutine code between awaits, one transport.write per '
             'StreamWriter.write. The task and gate models are validated against real traces (every real trace satisfies the checked predicate), '
             'not derived from the source. Proved for the code after fixes 480fe1d, e8e2198 (AssertionError ended start() when stop() raced a '
             'sender), d33e5be (a probe whose hook outlived a reconnect was written before the new bind response), 986282b (request whose negative answer could not be written never reached the hook) and 1858318 (response lost when the receiver was cancelled inside its correlation). No axioms.',
        technique='Coq proof: multiset invariant over all interleavings (merge relation), transition-system invariant for the bound gate, framing lemma from the command_length theorem; trace validation of real concurrent sessions',
        design='6 (C15)'),
    'C01': dict(
        text='Coq theorems (Props/C01.v) over the executable model of response handling, per-segment status, cumulated status and expiry '
             '(Model/Handlers.v, Model/Correlator.v): for ANY NUMBER of segmented messages in flight at once (distinct sequence numbers, ANY references incl. equal ones; theorem C01_concurrent_messages by '
             'footprint/frame lemmas over the one-message invariant), each of ANY number k>=2 of segments, and ANY admissible interleaving of '
             'their events (each segment stored after its write in the order sent, then accepted / rejected with any status / generic_nack / timed out) '
             'the hooks see NO outcome while a segment is unprocessed and EXACTLY ONE once all are, carrying the message\'s log; it is the accepting '
             'submit_sm_resp iff every segment was accepted, otherwise a failure (send_error, or a nack / error-status response) - by a phase invariant '
             'over the correlator dictionaries with one lemma per event kind; the hook calls equal the specification event by event; a message that '
             'is not segmented gets its response at once and its time-out through send_error; the sender torn down in the middle of a message (Model/SenderCancel.v, rule read off the CancelledError handler by the translator): wherever the cancellation strikes - before or inside correlator.put() of any part - either the handler reports the message and the correlator never produces an outcome for it, or the handler keeps quiet and every part is recorded, so the outcome theorem applies (C01_cancelled_sender, C01_cancelled_plain; compared with the real _dequeue_messages cancelled at every such point). Tied to the code by driving the real '
             '_handle_response / SimpleCorrelator (expiry through the real sweep) with histories of 1-5 concurrent messages incl. re-used 8-bit '
             'references and comparing hook calls and all stores with the model; whole sessions on a virtual-time loop (real sender, SMSC '
             'accepting/rejecting/nacking/ignoring segments, suspending hooks, connection loss, reference wrap, unbuildable messages) are checked '
             'by an oracle: exactly one outcome per queued message, with its own log_id/extra_data and the right polarity.',
        note='Trusted: Coq kernel, translator, harness. The concurrent theorem allows EQUAL references among the messages in flight (status cells are keyed by '
             'reference + first sequence number since fix 78b3543); its hypothesis is that segments of two messages with the same reference are not stored '
             'interleaved (the sender stores one message after the other). Regression scenario: 257 reference-taking messages queued at once. '
             'Plain messages mixed in, connection loss and the sender '
             'side (C06) are covered by the correspondence runs and the session oracle. '
             'Eventual delivery of the time-out relies on correlator traffic driving the sweep (keep-alive). Outside: the C14 known finding '
             '(response before put under write back-pressure: the message is then reported as timed out - still exactly one outcome). Proved for the '
             'code after fixes 66de80c, d1270d3, 8306826, 93e2bc6, 057982f, 900ad9f, d022cf6, 78b3543 (status cells keyed by reference alone), 8bacccc (stale '
             'segment entry under a re-used sequence number), 0693b94 (1..255 segments: the theorems say 2 <= k <= 255), 750ead8 (sender cancelled inside put() reported twice), 1858318 (response lost when the receiver is cancelled inside its correlation). Sessions added in rounds 6-7: the application re-queues the object handed to send_error; the connection is lost while the send_error hook of an older message runs inside put() / inside get(). No axioms.',
        technique='Coq proof: phase invariant over dict lookups with one lemma per event kind, induction over admissible event lists; PDU-level trace correspondence and session-level oracle on a virtual-time loop',
        design='6 (C01)'),
}

PENDING_REASON = 'check not built yet in this round (planned, see DESIGN.md section 6); not claimed until its proof and correspondence run exist'


def main():
    with open(os.path.join(VERIF, 'properties.jsonl')) as f:
        ids = [json.loads(l)['id'] for l in f if l.strip()]
    checks = []
    for pid in ids:
        if pid not in CLAIMED:
            continue
        c = CLAIMED[pid]
        checks.append({
            'property_id': pid,
            'quick_cmd': f'./check {pid} --tier quick',
            'thorough_cmd': f'./check {pid} --tier thorough',
            'evidence_file': f'/verif/evidence/{pid}.json',
            'replay_cmd_template': f'./check {pid} --replay {{path}}',
            'engine': 'coq-proof+correspondence',
            'level_claimed': {'category': c.get('category', 'proof'), 'text': c['text'], 'design_ref': 'DESIGN.md section ' + c['design']},
            'level_note': c['note'],
            'technique': c['technique'],
        })
    man = {
        'version': 1,
        'setup_cmd': './check --setup',
        'hooks': {
            'guard': 'AIOSMPPLIB_VERIF',
            'enable': 'no source hooks: the harness instruments by wrapping injectables and monkey-patching from the check process; '
                      'checks set AIOSMPPLIB_VERIF=1 for uniformity',
            'baseline_off_cmd': 'cd /repo && /venv/bin/python -m pytest -ra -q -p no:cacheprovider --timeout=900 --continue-on-collection-errors',
            'source_commits': [],
            'add_only': True,
        },
        'engines': [{
            'name': 'coq-proof+correspondence', 'path': '/verif/check',
            'serves_properties': [c['property_id'] for c in checks],
            'kind_free_text': 'Coq 8.16.1 theorems over Gallina models (tables regenerated from /repo by translator/py2coq.py on every run) '
                              '+ differential correspondence of the models with the Python implementation (vm_compute inside Coq) '
                              '+ independent Python property oracles used only to search for replayable failing inputs',
        }],
        'checks': checks,
        'notes': 'See DESIGN.md. known findings: /verif/known_findings.txt',
        'not_applicable': [{'property_id': pid, 'reason': NOT_APPLICABLE.get(pid, PENDING_REASON)} for pid in ids if pid not in CLAIMED],
    }
    with open(os.path.join(VERIF, 'MANIFEST.json'), 'w') as f:
        json.dump(man, f, indent=1)
    print('claimed:', [c['property_id'] for c in checks])


NOT_APPLICABLE = {}

if __name__ == '__main__':
    main()
