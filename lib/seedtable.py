"""Regenerates section 0.7 of DESIGN.md (detection table) from the meta.json files under /verif/seeded."""
import json
import os
import re

ROOT = os.path.dirname(os.path.dirname(os.path.abspath(__file__)))


def rows():
    out = []
    for d in sorted(os.listdir(os.path.join(ROOT, 'seeded'))):
        mp = os.path.join(ROOT, 'seeded', d, 'meta.json')
        if not os.path.exists(mp):
            continue
        meta = json.load(open(mp))
        desc = (meta.get('description') or meta.get('summary') or meta.get('what') or '')
        desc = ' '.join(str(desc).split()).replace('|', '/')[:150]
        det = meta.get('detection') or {}
        cell = ', '.join(f'{p}: {"caught" if v.get("exit") == 1 or v.get("caught") else "MISSED"}' for p, v in sorted(det.items())) if isinstance(det, dict) else str(det)
        out.append(f'| {d} | {desc} | {cell or "not run"} |')
    return out


def main():
    path = os.path.join(ROOT, 'DESIGN.md')
    s = open(path).read()
    table = '| change | what it does | property check |\n|---|---|---|\n' + '\n'.join(rows()) + '\n'
    s2 = re.sub(r'(### 0\.7 Detection table[^\n]*\n\n)(\|.*?\n)(\n### 0\.8)', lambda m: m.group(1) + table + m.group(3), s, flags=re.S)
    open(path, 'w').write(s2)
    print(len(rows()), 'rows')


if __name__ == '__main__':
    main()
