#!/usr/bin/env python3
"""Seeded-change bookkeeping.
  seedtest.py confirm <worktree> <prop>   : re-verify each _out/mN of a sub-agent worktree (suite passes with the
                                            patch, demo fails with / passes without) and copy it to /verif/seeded/<prop>-mN
  seedtest.py detect <seeded dir> [props] : apply the patch to /repo, run ./check for the property (and extra props),
                                            undo, record the result in meta.json
"""
import json
import os
import shutil
import subprocess
import sys

VERIF = os.path.dirname(os.path.dirname(os.path.abspath(__file__)))


def sh(cmd, cwd=None, env=None, timeout=1800):
    p = subprocess.run(cmd, shell=True, cwd=cwd, env=env, stdout=subprocess.PIPE, stderr=subprocess.STDOUT, text=True, timeout=timeout)
    return p.returncode, p.stdout


def confirm(wt, prop):
    out = os.path.join(wt, '_out')
    env = dict(os.environ, PYTHONPATH=wt, PYTHONHASHSEED='0')
    for m in sorted(os.listdir(out)):
        d = os.path.join(out, m)
        patch = os.path.join(d, 'patch.diff')
        if not os.path.exists(patch):
            continue
        sh('git checkout -- .', cwd=wt)
        rc0, o0 = sh(f'/venv/bin/python {d}/demo.py', cwd=wt, env=env, timeout=300)
        rc, o = sh(f'git apply {patch}', cwd=wt)
        if rc != 0:
            print(prop, m, 'patch does not apply', o)
            continue
        rct, ot = sh('/venv/bin/python -m pytest -q -p no:cacheprovider -x 2>&1 | tail -1', cwd=wt, env=env, timeout=600)
        rc1, o1 = sh(f'/venv/bin/python {d}/demo.py', cwd=wt, env=env, timeout=300)
        sh('git checkout -- .', cwd=wt)
        ok = rc0 == 0 and rc1 != 0 and '133 passed' in ot
        print(prop, m, 'clean demo rc', rc0, '| patched demo rc', rc1, '| suite:', ot.strip(), '| CONFIRMED' if ok else '| REJECTED')
        if ok:
            # never overwrite an earlier change: take the next free number of this property (retired ones count)
            import re
            used = [int(x.group(1)) for base in (os.path.join(VERIF, 'seeded'), os.path.join(VERIF, 'seeded', 'retired')) if os.path.isdir(base)
                    for d2 in os.listdir(base) for x in [re.fullmatch(prop + r'-m(\d+)', d2)] if x]
            dst = os.path.join(VERIF, 'seeded', f'{prop}-m{max(used + [0]) + 1}')
            os.makedirs(dst, exist_ok=True)
            shutil.copy(patch, dst)
            shutil.copy(os.path.join(d, 'demo.py'), dst)
            meta = {}
            try:
                meta = json.load(open(os.path.join(d, 'meta.json')))
            except Exception:
                pass
            meta['property'] = prop
            meta['confirmed'] = {'suite': ot.strip(), 'demo_clean_rc': rc0, 'demo_patched_rc': rc1,
                                 'ran': f'git apply patch.diff; pytest (133 passed); PYTHONPATH=<worktree> python demo.py'}
            json.dump(meta, open(os.path.join(dst, 'meta.json'), 'w'), indent=1)


def detect(sd, props=None):
    meta = json.load(open(os.path.join(sd, 'meta.json')))
    props = props or [meta['property']]
    rc, o = sh('git status --porcelain', cwd='/repo')
    if o.strip():
        print('/repo not clean; abort')
        return
    rc, o = sh(f'git apply {sd}/patch.diff', cwd='/repo')
    if rc != 0:
        print('patch does not apply to /repo', o)
        return
    res = {}
    # the evidence files must keep describing the unchanged tree: save them and put them back afterwards
    saved = {}
    for p in props:
        ev = os.path.join(VERIF, 'evidence', f'{p}.json')
        if os.path.exists(ev):
            saved[ev] = open(ev).read()
    try:
        for p in props:
            rc, o = sh(f'./check {p} --tier quick', cwd=VERIF, timeout=3000)
            lines = [l for l in o.splitlines() if l.startswith('VIOLATION') or l.startswith('KNOWN-FINDING')]
            res[p] = {'exit': rc, 'lines': lines[:4]}
            print(os.path.basename(sd), p, 'exit', rc, lines[:2])
    finally:
        sh('git checkout -- .', cwd='/repo')
        for ev, content in saved.items():
            open(ev, 'w').write(content)
        sh('./check --setup', cwd=VERIF, timeout=3000)      # regenerate coq/Generated from the unchanged tree
    meta.setdefault('detection', {}).update(res)
    json.dump(meta, open(os.path.join(sd, 'meta.json'), 'w'), indent=1)


if __name__ == '__main__':
    if sys.argv[1] == 'confirm':
        confirm(sys.argv[2], sys.argv[3])
    elif sys.argv[1] == 'detect':
        detect(sys.argv[2].rstrip('/'), sys.argv[3:] or None)
