"""C03 - PDU round trip: proofs (Props/C03.v) + correspondence of Model/Pdu.v with pdu()/parse_header/from_pdu
for all 15 classes (bytes and exception classes) + direct round-trip oracle."""
from lib import core
from lib.core import czl
from harness import common, pdugen

THEOREMS = ['C03_command_length', 'C03_header_roundtrip', 'C03_plain_roundtrip', 'C03_smresp_roundtrip',
            'C03_bind_roundtrip', 'C03_bindresp_roundtrip', 'C03_sm_roundtrip', 'C03_optional_parameters', 'C03_nonvacuous']
IMPORTS = ['AV.Model.Base', 'AV.Model.Codec', 'AV.Model.Split', 'AV.Model.TimeFmt', 'AV.Model.Pdu']


def real_encode(m, default):
    from aiosmpplib.protocol import SubmitSm
    if isinstance(m, SubmitSm):
        m.set_encoding_info(default, None)
    try:
        return [0] + list(m.pdu())
    except Exception as e:  # noqa: BLE001
        return [1, common.exn_index(e)]


def real_decode(pdu, default):
    from aiosmpplib.protocol import SmppMessage, MESSAGE_TYPE_MAP
    try:
        h = SmppMessage.parse_header(bytes(pdu))
    except Exception as e:  # noqa: BLE001
        return [1, common.exn_index(e)], None
    try:
        cls = MESSAGE_TYPE_MAP[h.smpp_command]
        m = cls.from_pdu(bytes(pdu), h, default)
    except Exception as e:  # noqa: BLE001
        return [2, common.exn_index(e)], None
    return [0] + pdugen.msg_ser(m), m


def normalise(m):
    """the documented normalisations of the round trip, on the canonical serialisation of the wire-relevant fields"""
    import copy
    from aiosmpplib.protocol import SubmitSm
    x = copy.copy(m)
    if isinstance(m, SubmitSm):
        x.optional_params = [p for p in (m.optional_params or []) if not (isinstance(p.value, bool) and p.value is False)]
        if m.esm_class & 0x40:
            pass
    return x


def oracle_roundtrip(m0_ser_before, m, default, pdu_bytes, decoded, enc_after):
    """decode(encode(m)) == m up to: text > 254 octets travels in message_payload; an explicit default alphabet reads back
    as automatic; an unset boolean parameter is absent; command_length == number of bytes."""
    from aiosmpplib.protocol import SubmitSm
    import struct
    if struct.unpack('>I', bytes(pdu_bytes[:4]))[0] != len(pdu_bytes):
        return 'command_length differs from the number of bytes produced'
    if decoded is None:
        return 'the produced PDU does not decode'
    a = pdugen.msg_ser(m)
    b = pdugen.msg_ser(decoded)
    if not isinstance(m, SubmitSm):
        if type(m).__name__.startswith('Bind') and not type(m).__name__.endswith('Resp'):
            pass
        return None if a == b else f'decoded {type(m).__name__} differs: {b} vs {a}'
    # SubmitSm/DeliverSm: compare field by field with the normalisations
    want = dict(seq=m.sequence_num, src=(m.source.number, int(m.source.ton), int(m.source.npi)),
                dst=(m.destination.number, int(m.destination.ton), int(m.destination.npi)), service=m.service_type,
                esm=m.esm_class, pid=m.protocol_id, prio=m.priority_flag, regdel=m.registered_delivery, repl=m.replace_if_present_flag,
                defmsg=m.sm_default_msg_id)
    got = dict(seq=decoded.sequence_num, src=(decoded.source.number, int(decoded.source.ton), int(decoded.source.npi)),
               dst=(decoded.destination.number, int(decoded.destination.ton), int(decoded.destination.npi)), service=decoded.service_type,
               esm=decoded.esm_class, pid=decoded.protocol_id, prio=decoded.priority_flag, regdel=decoded.registered_delivery,
               repl=decoded.replace_if_present_flag, defmsg=decoded.sm_default_msg_id)
    if want != got:
        return f'mandatory fields differ: {got} vs {want}'
    text = m.short_message or m.message_payload
    dtext = decoded.short_message or decoded.message_payload
    if text != dtext:
        return f'text differs after the round trip ({dtext[:20]!r} vs {text[:20]!r})'
    enc = enc_after
    if enc == default:
        enc = None
    if decoded.encoding != enc:
        return f'encoding reads back as {decoded.encoding!r}, sent as {enc_after!r}'
    for name in ('schedule_delivery_time', 'validity_period'):
        t0, t1 = getattr(m, name), getattr(decoded, name)
        if t0 is None or t1 is None:
            if t0 is not t1:
                return f'{name} differs'
        elif hasattr(t0, 'microsecond'):
            if t1 != t0.replace(microsecond=t0.microsecond // 100000 * 100000) or t1.utcoffset() != t0.utcoffset():
                return f'{name}: instant or offset changed ({t1!r} vs {t0!r})'
        elif t0 != t1:
            return f'{name} differs ({t1!r} vs {t0!r})'
    wo = [(p.tag, p.value) for p in (m.optional_params or []) if not (p.value is False) and not (m.esm_class & 0x40 and p.tag in (0x020C, 0x020E, 0x020F))]
    go = [(p.tag, p.value) for p in (decoded.optional_params or [])]
    if wo != go:
        return f'optional parameters differ: {go} vs {wo}'
    return None


def run(ctx):
    ctx.rule = ('all 15 classes; SubmitSm/DeliverSm over the SMPP field space (boundary integers, TON/NPI members, C-octet strings up to their maxima, '
                'absolute/relative times, every TLV kind in any number/order, texts in GSM/UCS2/ascii/latin-1 around 0/254/255 octets, short_message or '
                'message_payload); an out-of-domain stream (negative/oversized integers, non-ascii strings, unknown encodings, other error handlers) for '
                'exception-class fidelity; decode also on truncations and byte flips of produced PDUs; non-trivial = has a body')
    ctx.trusted_base = ['Coq 8.16.1 kernel; no axioms', 'translator/py2coq.py (enums, TLV tables, constants)', 'correspondence harness harness/C03.py + pdugen.py']
    ctx.assumptions = ['stdlib codecs other than ascii/latin-1/UTF-16BE are outside the model (EXN_Unmodelled inputs are not generated)']
    proved = ctx.prove('C03', THEOREMS)
    from aiosmpplib import protocol as pr
    rng = ctx.rng
    enc_cases, dec_cases = [], []
    n = 3000 if ctx.thorough else 500
    for i in range(n):
        valid = rng.random() < 0.75
        k = rng.random()
        if k < 0.6:
            cls = pr.SubmitSm if rng.random() < 0.6 else pr.DeliverSm
            try:
                m, default = pdugen.gen_sm(rng, cls, valid_only=valid)
            except ValueError:
                continue
        else:
            m, default = pdugen.gen_simple(rng), 'gsm0338'
        term = pdugen.msg_term(m)
        before = pdugen.msg_ser(m)
        import copy
        m0 = copy.deepcopy(m)                      # pdu() may change the encoding attribute: replays start from the original
        r = real_encode(m, default)
        r2 = real_encode(m, default) if r[0] == 0 else r       # pdu() twice gives the same bytes
        enc_cases.append((f'({pdugen.DEFAULTS[default]}, {term})', czl(r)))
        ctx.case(('enc', type(m).__name__, tuple(before)), nontrivial=len(r) > 17)
        ctx.count('encode_' + type(m).__name__ + ('' if r[0] == 0 else '_error'))
        if r[0] == 0 and r2 != r:
            ctx.violation(f'{type(m).__name__}.pdu() gives different bytes when called twice', {'function': 'encode', 'message': repr(m)[:600], 'message_pickle': core.pickle_b64(m0)})
        if r[0] == 0:
            d, obj = real_decode(r[1:], default)
            dec_cases.append((f'({pdugen.DEFAULTS[default]}, {czl(r[1:])})', czl(d)))
            # data_coding 0 means "the SMSC default alphabet": a GSM alphabet named explicitly while the session default is
            # another one has no data_coding of its own in SMPP 3.4, so that assignment is outside the property's field space
            ambiguous = getattr(m, 'encoding', None) in ('gsm0338', 'gsm0338_packed') and m.encoding != default
            if ambiguous:
                ctx.count('wire_ambiguous_gsm_under_other_default_skipped')
            if valid and not ambiguous:
                msg = oracle_roundtrip(before, m, default, r[1:], obj, getattr(m, 'encoding', None))
                if msg:
                    ctx.violation(f'{type(m).__name__}: {msg}', {'function': 'roundtrip', 'message': repr(m)[:900], 'default': default, 'message_pickle': core.pickle_b64(m0)})
            # mutations of the bytes: model fidelity of the decoder on damaged input
            for _ in range(2):
                b = list(r[1:])
                op = rng.random()
                if op < 0.4 and len(b) > 17:
                    b = b[:rng.randint(16, len(b) - 1)]
                    b[0:4] = list(len(b).to_bytes(4, 'big'))
                elif op < 0.8 and len(b) > 16:
                    j = rng.randint(16, len(b) - 1)
                    b[j] = rng.choice([0, 0xFF, b[j] ^ 0x40, rng.randint(0, 255)])
                else:
                    b = b + [rng.randint(0, 255) for _ in range(rng.randint(1, 6))]
                    b[0:4] = list(len(b).to_bytes(4, 'big'))
                d2, _o = real_decode(b, default)
                if not (d2[0] == 0 and any(x > 127 for x in b[16:]) and b[4:8] in ([0, 0, 0, 4], [0, 0, 0, 5]) and False):
                    dec_cases.append((f'({pdugen.DEFAULTS[default]}, {czl(b)})', czl(d2)))
                    ctx.case(('dec', tuple(b)))
        elif valid:
            ctx.violation(f'{type(m).__name__}.pdu() raised {common.EXN_NAMES[r[1]]} on a message inside the SMPP field space',
                          {'function': 'encode', 'message': repr(m)[:900], 'default': default, 'message_pickle': core.pickle_b64(m0)})
        if i < 1:
            ctx.sample({'message': repr(m)[:300], 'pdu_hex': bytes(r[1:]).hex()[:120] if r[0] == 0 else r})
    if proved or not getattr(ctx, 'build_failing', None):
        for name, fn, cases in (
            ('encode', 'fun p : enc * message => ser_encode (fst p) (snd p)', enc_cases),
            ('decode', 'fun p : enc * list Z => ser_decode (fst p) (snd p)', dec_cases),
        ):
            # a damaged PDU may name a text codec of the standard library that the model does not cover (data_coding 5, 6, 7, 9, 10, 13, 14):
            # the model then answers Err EXN_Unmodelled = [2; 99] and the case is not compared
            bad, errs = core.run_cases('C03', name, IMPORTS, fn, cases, shard=150, abstain='[2; 99]' if name == 'decode' else None)
            for fnm, out in errs:
                ctx.broken.append(f'model evaluation failed ({fnm}): {out[-600:]}')
            for i in bad[:6]:
                inp, exp = cases[i]
                ctx.violation(f'model and implementation disagree on {name}', {
                    'correspondence': f'Model/Pdu.v vs protocol.py ({name})', 'input_term': inp[:2500], 'implementation_result': exp[:700]}, found_input=False)
            ctx.extra[f'correspondence_{name}_cases'] = len(cases)
            ctx.extra[f'correspondence_{name}_disagreements'] = len(bad)
    return ctx.finish()


def replay(ctx, path):
    import json
    rp = json.load(open(path))
    if rp.get('message_pickle'):
        import copy
        m = core.unpickle_b64(rp['message_pickle'])
        default = rp.get('default', 'gsm0338')
        m1 = copy.deepcopy(m)
        r = real_encode(m1, default)
        print('replay: message', repr(m)[:400])
        if r[0] != 0:
            print('replay: pdu() raised', common.EXN_NAMES[r[1]])
            return 1
        d, obj = real_decode(r[1:], default)
        print('replay: pdu', bytes(r[1:]).hex()[:200])
        msg = oracle_roundtrip(None, m, default, r[1:], obj, getattr(m1, 'encoding', None))
        print('replay: round-trip oracle says:', msg or 'property holds on this input')
        return 1 if msg else 0
    print('replay:', json.dumps(rp)[:1500])
    return 0
