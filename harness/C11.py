"""C11 - packed GSM codec: proofs (Props/C11.v) + correspondence of pack7/unpack7 and the packed
codec model with codec.py + independent bit-stream oracle."""
from lib import core
from lib.core import czl
from harness import common
from harness.C10 import spec_alphabet, CMODE, MODES

THEOREMS = ['C11_pack_is_3gpp_packing', 'C11_packed_length', 'C11_unpack_pack', 'C11_text_roundtrip', 'C11_nonvacuous']
IMPORTS = ['AV.Model.Base', 'AV.Model.Codec']


def ref_pack(septets):
    """bit-stream packing straight from TS 23.038 6.1.2.1.1 (independent of the code and of the model)."""
    bits = []
    for s in septets:
        bits.extend((s >> j) & 1 for j in range(7))
    while len(bits) % 8:
        bits.append(0)
    return [sum(bits[i + j] << j for j in range(8)) for i in range(0, len(bits), 8)]


def ref_unpack(octets):
    bits = []
    for o in octets:
        bits.extend((o >> j) & 1 for j in range(8))
    n = len(bits) // 7
    return [sum(bits[7 * k + j] << j for j in range(7)) for k in range(n)]


def run(ctx):
    ctx.rule = ('texts over the GSM alphabet built from septet sequences: every ordered pair of septets placed at each of the 8 bit '
                'alignments (sampled in quick, exhaustive in thorough), every length 0..64 over class representatives, random long texts '
                'with extension characters; decode additionally on random octet strings; non-trivial = non-empty; distinct by input')
    ctx.trusted_base = ['Coq 8.16.1 kernel (coqc, vm_compute); no axioms',
                        'translator/py2coq.py (GSM tables)', 'Spec/Septets.v (bit-stream packing transcribed from 3GPP TS 23.038 6.1.2.1.1)',
                        'correspondence harness harness/C11.py']
    ctx.assumptions = ['bytearray/int shift semantics of CPython as modelled in Model/Codec.v (>>,<<,& as /,*,mod on non-negative ints)']
    proved = ctx.prove('C11', THEOREMS)
    from aiosmpplib.codec import find_codec_info
    codec = find_codec_info('gsm0338_packed')
    plain = find_codec_info('gsm0338')
    basic, ext = spec_alphabet()
    dec = dict(basic)
    extd = dict(ext)
    # septet -> a text whose unpacked encoding is that septet (basic chars only; 0x1B needs a follower)
    rng = ctx.rng

    def text_of(septets):
        out = []
        i = 0
        while i < len(septets):
            s = septets[i]
            if s == 0x1B:
                if i + 1 < len(septets) and septets[i + 1] in extd:
                    out.append(chr(extd[septets[i + 1]]))
                    i += 2
                    continue
                return None
            out.append(chr(dec[s]))
            i += 1
        return ''.join(out)

    texts = []
    plain_septets = [s for s in range(128) if s != 0x1B]
    if ctx.thorough:
        pairs = [(a, b) for a in plain_septets for b in plain_septets]
    else:
        pairs = [(rng.choice(plain_septets), rng.choice(plain_septets)) for _ in range(500)]
        pairs += [(0, 0), (127, 127), (0, 127), (127, 0), (64, 1), (1, 64)]
    for a, b in pairs:
        for k in range(8):
            texts.append(text_of([rng.choice(plain_septets) for _ in range(k)] + [a, b]))
    ctx.count('pairs_x_8_alignments', len(pairs) * 8)
    reps = [0x00, 0x7F, 0x55, 0x2A, 0x40, 0x01]
    for L in range(0, 65):
        for r in reps:
            texts.append(text_of([r] * L))
        texts.append(text_of([rng.choice(plain_septets) for _ in range(L)]))
    ctx.count('lengths_0_64', 65 * 7)
    ext_codes = list(extd)
    for _ in range(1500 if ctx.thorough else 300):
        L = rng.randint(0, 300)
        seq = []
        while len(seq) < L:
            if rng.random() < 0.2:
                seq += [0x1B, rng.choice(ext_codes)]
            else:
                seq.append(rng.choice(plain_septets))
        texts.append(text_of(seq))
    ctx.count('random_long_with_extension', 1500 if ctx.thorough else 300)
    # extension pair straddling every octet boundary
    for k in range(0, 17):
        texts.append(text_of([1] * k + [0x1B, 0x65] + [2] * 3))
    enc_cases, dec_cases = [], []
    for t in texts:
        assert t is not None
        r = common.ser_res_bytes(lambda: codec.encode(t, 'strict')[0])
        enc_cases.append((f'(Strict, {core.cstr(t)})', czl(r)))
        ctx.case(('enc', t), nontrivial=len(t) > 0)
        # oracle: output = reference packing of the unpacked encoding; round trip up to one trailing '@'
        septs = list(plain.encode(t)[0])
        if r[0] != 0 or r[1:] != ref_pack(septs):
            ctx.violation(f'packed encode of {t!r} is not the 3GPP packing of its septets',
                          {'function': 'gsm0338_packed.encode', 'input': [ord(c) for c in t], 'observed': r, 'expected': ref_pack(septs)})
            continue
        d = common.ser_res_bytes(lambda: codec.decode(bytes(r[1:]), 'strict')[0])
        dec_cases.append((f'(Strict, {czl(r[1:])})', czl(d)))
        back = ''.join(map(chr, d[1:])) if d[0] == 0 else None
        ok = back == t or (len(septs) % 8 == 7 and back == t + '@')
        if not ok:
            ctx.violation(f'packed round trip of {t!r} gives {back!r}',
                          {'function': 'gsm0338_packed.decode', 'input': r[1:], 'text': [ord(c) for c in t], 'observed': d})
    # decode on arbitrary octets (model fidelity) in all modes
    for _ in range(3000 if ctx.thorough else 500):
        L = rng.randint(0, 30)
        data = [rng.randint(0, 255) for _ in range(L)]
        m = rng.choice(MODES)
        d = common.ser_res_bytes(lambda: codec.decode(bytes(data), m)[0])
        dec_cases.append((f'({CMODE[m]}, {czl(data)})', czl(d)))
        ctx.case(('dec', m, tuple(data)), nontrivial=L > 0)
    # encode with outside characters in all modes (model fidelity)
    for _ in range(600 if ctx.thorough else 150):
        L = rng.randint(0, 20)
        t = ''.join(rng.choice(['a', 'B', '€', '{', 'ç', '你', 'Δ', '@', '\x1b']) for _ in range(L))
        m = rng.choice(MODES)
        r = common.ser_res_bytes(lambda: codec.encode(t, m)[0])
        enc_cases.append((f'({CMODE[m]}, {core.cstr(t)})', czl(r)))
        ctx.case(('encm', m, t), nontrivial=L > 0)
    # ---- purity: same text encoded repeatedly (and after plain-codec calls) must give the same octets
    for k in range(300 if ctx.thorough else 100):
        L = rng.randint(1, 24)
        t = text_of([rng.choice(plain_septets) for _ in range(L)])
        outs = []
        for j in range(3):
            if (j + k) % 2:
                plain.encode(t)
            r = common.ser_res_bytes(lambda: codec.encode(t, 'strict')[0])
            enc_cases.append((f'(Strict, {core.cstr(t)})', czl(r)))
            outs.append(r)
        ctx.case(('purity', t))
        if outs[0] != outs[1] or outs[1] != outs[2]:
            ctx.violation(f'packed encode of {t!r} changes between repeated calls: {outs}',
                          {'function': 'gsm0338_packed.encode', 'input': [ord(c) for c in t], 'observed': outs[2], 'expected': ref_pack(list(plain.encode(t)[0]))})
    ctx.count('purity_repeated_calls', 300 if ctx.thorough else 100)
    ctx.sample({'text': 'H€', 'septets': list(plain.encode('H€')[0]), 'packed_impl': list(codec.encode('H€')[0]),
                'packed_reference': ref_pack(list(plain.encode('H€')[0]))})
    ctx.sample({'seven_septets': 'abcdefg', 'decoded_back': codec.decode(codec.encode('abcdefg')[0])[0]})
    if proved or not getattr(ctx, 'build_failing', None):
        for name, fn, cases in (
            ('penc', 'fun p : errmode * list Z => ser_res (gsm_packed_encode (fst p) (snd p))', enc_cases),
            ('pdec', 'fun p : errmode * list Z => ser_res (gsm_packed_decode (fst p) (snd p))', dec_cases),
        ):
            bad, errs = core.run_cases('C11', name, IMPORTS, fn, cases, shard=1500)
            for fnm, out in errs:
                ctx.broken.append(f'model evaluation failed ({fnm}): {out[-400:]}')
            for i in bad[:5]:
                inp, exp = cases[i]
                ctx.violation(f'model and implementation disagree on {name}', {
                    'correspondence': f'Model/Codec.v vs codec.py ({name})', 'input_term': inp[:2000],
                    'implementation_result': exp[:2000]}, found_input=False)
            ctx.extra[f'correspondence_{name}_cases'] = len(cases)
            ctx.extra[f'correspondence_{name}_disagreements'] = len(bad)
    if ctx.thorough:
        ctx.exhaustive = True
        ctx.notes.append('thorough: all 127^2 pairs of non-escape septets at each of the 8 alignments')
    return ctx.finish()


def replay(ctx, path):
    import json
    from aiosmpplib.codec import find_codec_info
    with open(path) as f:
        r = json.load(f)
    codec = find_codec_info('gsm0338_packed')
    plain = find_codec_info('gsm0338')
    if r.get('function') == 'gsm0338_packed.encode':
        t = ''.join(map(chr, r['input']))
        ok = list(codec.encode(t)[0]) == ref_pack(list(plain.encode(t)[0]))
    elif r.get('function') == 'gsm0338_packed.decode':
        t = ''.join(map(chr, r['text']))
        back = codec.decode(bytes(r['input']))[0]
        ok = back == t or back == t + '@'
    else:
        ok = True
    print('replay:', 'property holds on this input' if ok else 'property fails on this input')
    if not ok:
        print(f'VIOLATION property=C11 replay={path}')
    return 0 if ok else 1
