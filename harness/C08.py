"""C08 - segmentation: proofs (Props/C08.v) + correspondence of Model/Split.v with utils.split_sms /
split_sms_udh and with the wire PDUs the real ESME sender emits + independent receiver oracle."""
import asyncio

from lib import core
from lib.core import cz, czl
from harness import common, sess, smppref

THEOREMS = ['C08_segments_received', 'C08_at_most_255_segments', 'C08_udh_16bit_reference', 'C08_gsm_chunks', 'C08_ucs2_chunks', 'C08_limits', 'C08_segments_are_full_copies', 'C08_nonvacuous']
IMPORTS = ['AV.Model.Base', 'AV.Model.Codec', 'AV.Model.Split']


def ser_parts(fn):
    try:
        ps = fn()
    except Exception as e:  # noqa: BLE001
        return [1, common.exn_index(e)]
    out = [0]
    for p in ps:
        out.append(len(p))
        out += list(p)
    return out


def gen_texts(ctx):
    """Texts over {GSM basic, GSM extension, BMP non-GSM, astral}; two-unit characters around every
    segment boundary for 1-4 segments; all four limits (254/153 septets, 127/67 UTF-16 units)."""
    rng = ctx.rng
    out = []
    # astral characters of every high-surrogate octet: D8 (U+1xxxx), D9/DA (planes 5-12), DB (planes 13-16: tag characters, private use, U+10FFFF)
    for limit, two, one in ((254, '€', 'a'), (153, '{', 'b'), (152, '€', 'c'), (127, '😀', 'ы'), (67, '𝄞', 'ж'), (66, '😀', 'ы'),
                            (127, '\U000E0067', 'ы'), (67, '\U0010FFFF', 'ж'), (66, '\U000F0000', 'ы'), (127, '\U00050000', 'ы'), (67, '\U000CFFFF', 'ж')):
        offsets = range(-3, 3) if not ctx.thorough else range(-5, 5)
        for nseg in (1, 2, 3, 4):
            for off in offsets:
                pos = nseg * limit + off
                if pos < 0:
                    continue
                for tail in (0, 1, 2, limit // 2):
                    out.append(one * pos + two + one * tail)
                    if nseg <= 2:
                        out.append(one * pos + two + two + one * tail)
            if nseg <= 3:
                out.append(two * (nseg * limit // 2))
                out.append(two * (nseg * limit // 2) + one)
                out.append(one + two * (nseg * limit // 2))
    # every length 0.. a few segments (class representatives)
    maxlen = 520 if ctx.thorough else 330
    step = 1 if ctx.thorough else 3
    for L in range(1, maxlen, step):
        out.append('a' * L)
        if L < 300:
            out.append('ы' * L)
    for L in list(range(1, 140 if ctx.thorough else 70, 1)):
        out.append('€' * L)
        out.append('😀' * L)
    for _ in range(600 if ctx.thorough else 120):
        L = rng.randint(1, 700)
        kind = rng.random()
        if kind < 0.5:
            pool = 'abcXYZ 012@Δ' + '€{}[]~|^\\' * (2 if rng.random() < 0.5 else 0)
        else:
            pool = 'abыжя你好' + '😀𝄞\U000E0067\U0010FFFF\U00090000' * (2 if rng.random() < 0.5 else 0) + '€'
        out.append(''.join(rng.choice(pool) for _ in range(L)))
    # dedupe keeping order
    seen = set()
    res = []
    for t in out:
        if t and t not in seen:
            seen.add(t)
            res.append(t)
    return res


class OneShotBroker:
    def __init__(self, msg):
        self.msg = msg

    async def dequeue(self):
        return self.msg

    async def enqueue(self, m):
        pass


async def wire_segments(text, esm_class, ref, encoding=None, params=(), rich_options=False):
    """Run the real sender once on SubmitSm(text, esm_class, auto_message_payload=False); returns
    ('ok', [pdu...]) or ('err', exception)."""
    from aiosmpplib.protocol import SubmitSm
    from aiosmpplib.state import PhoneNumber
    from aiosmpplib.broker import AbstractBroker

    class B(AbstractBroker):
        def __init__(self, m):
            self.m = m

        async def enqueue(self, smpp_message):
            pass

        async def dequeue(self):
            return self.m
    from aiosmpplib.state import OptionalParam, TON, NPI
    from datetime import timedelta
    extra = {}
    src, dst = PhoneNumber('1000'), PhoneNumber('2000')
    if rich_options:
        # every option of the message away from its default (the expected octets are WIRE_OPTIONS, written from SMPP 3.4 5.2 / 7.1.1)
        src = PhoneNumber('1000', TON.NATIONAL, NPI.TELEX)
        dst = PhoneNumber('2000', TON.INTERNATIONAL, NPI.ISDN)
        extra = dict(protocol_id=0x41, priority_flag=2, schedule_delivery_time=timedelta(minutes=5), validity_period=timedelta(hours=6),
                     replace_if_present_flag=1, sm_default_msg_id=9)
    msg = SubmitSm(short_message=text, source=src, destination=dst,
                   esm_class=esm_class, auto_message_payload=False, log_id='L', service_type='ab', encoding=encoding,
                   optional_params=[OptionalParam(t, v) for t, v in params], **extra)
    loop = asyncio.get_running_loop()
    esme, hook = sess.make_esme(broker=B(msg), testing=True)
    _r, writer, tr, _p = sess.make_stream(loop)
    esme._writer = writer
    esme._bound.set()
    esme._session_state = esme.bind_mode.session_state
    esme._ref_seq_generator.sequence_num = ref - 1
    try:
        await esme._dequeue_messages()
    except Exception as e:  # noqa: BLE001
        return 'err', e, hook
    return 'ok', tr.written, hook


# mandatory fields of a submit_sm that are options of the MESSAGE (not of the segment): default set, and the set of wire_segments(rich_options)
WIRE_OPTIONS = {
    False: dict(src_ton=0, src_npi=0, dst_ton=0, dst_npi=0, protocol_id=0, priority_flag=0, schedule=b'', validity=b'',
                replace_if_present=0, sm_default_msg_id=0),
    True: dict(src_ton=2, src_npi=4, dst_ton=1, dst_npi=1, protocol_id=0x41, priority_flag=2, schedule=b'000000000500000R',
               validity=b'000000060000000R', replace_if_present=1, sm_default_msg_id=9),
}


def oracle_wire(text, esm_class, ref, pdus, params=(), rich_options=False):
    """Independent receiver: every PDU fits, boundaries are clean, numbering is right, text comes back."""
    fs = [smppref.decode_sm(p) for p in pdus]
    if not fs:
        return 'nothing was sent'
    for f in fs:
        if f['command'] != 0x4:
            return 'a non-submit_sm PDU was sent'
        if len(f['short_message']) > 254:
            return f'short_message of {len(f["short_message"])} octets'
        if (f['src'], f['dst'], f['service_type'], f['registered_delivery']) != (b'1000', b'2000', b'ab', 1):
            return 'a segment lost the addressing/options of the original'
        for k, want in WIRE_OPTIONS[rich_options].items():
            if f[k] != want:
                return f'PDU {fs.index(f) + 1} of {len(fs)} carries {k}={f[k]!r}, the message has {want!r}'
        if f['esm_class'] & ~0x40 != esm_class & ~0x40:
            return f'PDU {fs.index(f) + 1} of {len(fs)} carries esm_class {f["esm_class"]:#x}, the message has {esm_class:#x}'
    for f in fs:
        # the message's own optional parameters travel with every segment, once each; no concatenation parameter twice
        for tag, val in params:
            got = [v for t, v in f['tlvs'] if t == int(tag)]
            if len(got) != 1 or int.from_bytes(got[0], 'big') != val:
                return f'a PDU carries optional parameter {int(tag):#x} {len(got)} time(s) (value {[g.hex() for g in got]}), the message has it once with value {val}'
        for tag in (0x020C, 0x020E, 0x020F):
            if sum(1 for t, _v in f['tlvs'] if t == tag) > 1:
                return f'a PDU carries concatenation parameter {tag:#x} {sum(1 for t, _v in f["tlvs"] if t == tag)} times'
    if len(fs) == 1:
        f = fs[0]
        if f['esm_class'] & 0x40 or smppref.concat_info(f) is not None:
            return 'single PDU still carries concatenation data'
        try:
            t = smppref.decode_text(f['short_message'], f['data_coding'])
        except AssertionError as e:
            return f'single PDU does not decode: {e}'
        return None if t == text else f'single PDU decodes to a different text ({t[:20]!r}...)'
    infos = []
    for f in fs:
        try:
            ci = smppref.concat_info(f)
        except (AssertionError, IndexError) as e:
            return f'malformed concatenation data: {e}'
        if ci is None:
            return 'a segment without concatenation data'
        infos.append(ci)
        r, tot, sq, body, hl = ci
        if f['data_coding'] != fs[0]['data_coding'] or f['esm_class'] != fs[0]['esm_class']:
            return 'segments differ in data_coding/esm_class'
        if hl:
            if f['data_coding'] == 0:
                septets = (hl * 8 + 6) // 7 + len(body)
                if septets > 160:
                    return f'UDH segment of {septets} septets'
            elif len(f['short_message']) > 140:
                return f'UDH segment of {len(f["short_message"])} octets'
        if f['data_coding'] == 0 and body and body[-1] == 0x1B:
            return 'segment ends with the GSM escape septet'
        if f['data_coding'] == 8 and len(body) >= 2 and 0xD8 <= body[-2] <= 0xDB:
            return 'segment ends with a high surrogate'
    n = len(fs)
    if n > 255:
        return 'more than 255 segments emitted'
    if any(ci[0] != ref for ci in infos) or any(ci[1] != n for ci in infos):
        return f'reference/total inconsistent: {[(c[0], c[1], c[2]) for c in infos][:4]}'
    if sorted(ci[2] for ci in infos) != list(range(1, n + 1)):
        return f'sequence numbers are not 1..{n}: {[c[2] for c in infos][:6]}'
    try:
        t = ''.join(smppref.decode_text(ci[3], fs[0]['data_coding']) for ci in sorted(infos, key=lambda c: c[2]))
    except (AssertionError, UnicodeDecodeError) as e:
        return f'a segment does not decode on its own: {e}'
    return None if t == text else 'reassembled text differs from the original'


def ser_wire(kind, val):
    if kind == 'err':
        return [1, common.exn_index(val)]
    out = [0]
    for p in val:
        f = smppref.decode_sm(p)
        ref = smppref.tlv_value(f, 0x020C)
        tot = smppref.tlv_value(f, 0x020E)
        sq = smppref.tlv_value(f, 0x020F)
        has = 1 if ref is not None else 0
        out += [f['esm_class'], f['data_coding'], has,
                int.from_bytes(ref, 'big') if ref else 0, sq[0] if sq else 0, tot[0] if tot else 0,
                len(f['short_message'])] + list(f['short_message'])
    return out


def run(ctx):
    ctx.rule = ('texts over {GSM basic, GSM extension, BMP non-GSM, astral}: a two-unit character at every offset around every segment boundary '
                'for 1-4 segments and all limits (254/153/152 septets, 127/67/66 UTF-16 units), every length up to several segments over class '
                'representatives, random mixes; both methods (SAR via esm_class 0/3, UDH via 0x40/0x43); split functions also with 16-bit references; '
                'non-trivial = needs more than one segment; distinct by (function, text, ref)')
    ctx.trusted_base = ['Coq 8.16.1 kernel; no axioms', 'translator/py2coq.py (GSM tables, MAX_* sizes, IE ids)',
                        'harness/smppref.py independent SMPP/3GPP reference parser', 'correspondence harness harness/C08.py (+ sess.py fake transport)']
    ctx.assumptions = ['default alphabet gsm0338, automatic encoding, strict error handling (the property quantifies over texts, not over codec options)']
    proved = ctx.prove('C08', THEOREMS) if THEOREMS else ctx.prove('C08', ['C08_nonvacuous'])
    from aiosmpplib.utils import split_sms, split_sms_udh
    texts = gen_texts(ctx)
    rng = ctx.rng
    sp_cases, udh_cases, wire_cases = [], [], []
    for t in texts:
        r = ser_parts(lambda: split_sms(t))
        sp_cases.append((f'({core.cstr(t)}, @None Z)', czl(r)))
        ctx.case(('split_sms', t), nontrivial=r[0] == 0 and len(t) > 127)
        ref = rng.choice([0, 1, 255, 256, 0x1234, 65535, rng.randint(0, 65535)])
        r2 = ser_parts(lambda: split_sms_udh(t, '', ref))
        udh_cases.append((f'({core.cstr(t)}, {ref})', czl(r2)))
        ctx.case(('split_udh', t, ref), nontrivial=r2[0] == 0 and len(t) > 67)
    ctx.count('texts', len(texts))
    wire_texts = texts if ctx.thorough else [t for i, t in enumerate(texts) if i % 3 == 0]
    for wi, t in enumerate(wire_texts):
        for esm in ((0, 0x40) + ((3, 0x43, 0xC0) if wi % 4 == 0 else ())) if not ctx.thorough else (0, 3, 0x40, 0x43, 0xC0, 0x80):
            ref = rng.choice([0, 7, 255, rng.randint(0, 255)])
            kind, val, hook = asyncio.run(wire_segments(t, esm, ref))
            ctx.traces += 1
            r = ser_wire(kind, val)
            wire_cases.append((f'({core.cstr(t)}, {esm}, {ref})', czl(r)))
            ctx.case(('wire', t, esm, ref), nontrivial=kind == 'ok' and len(val) > 1)
            ctx.count('wire_' + ('sar' if not esm & 0x40 else 'udh') + ('_multi' if kind == 'ok' and len(val) > 1 else '_single' if kind == 'ok' else '_error'))
            if kind == 'ok':
                msg = oracle_wire(t, esm, ref, val)
                if msg:
                    ctx.violation(f'{msg} (text of {len(t)} characters, esm_class {esm:#x}, ref {ref})',
                                  {'function': 'wire', 'text': [ord(c) for c in t], 'esm_class': esm, 'ref': ref})
            if len(ctx.samples) < 2 and kind == 'ok' and len(val) > 1:
                ctx.sample({'text_len': len(t), 'text_head': t[:12], 'esm_class': esm, 'ref': ref,
                            'segment_lengths': [len(smppref.decode_sm(p)['short_message']) for p in val]})
    # ---- the same through the sender with the options the segments must carry along: optional parameters of the message, and an
    #      alphabet named explicitly (the two alphabets of the property) - whatever the library decides to send, the announced
    #      data_coding must be the one the octets are in (oracle only; the model covers the automatic case)
    from aiosmpplib import state as st
    var_texts = [t for i, t in enumerate(texts) if len(t) > 60 and i % (5 if ctx.thorough else 23) == 0]
    for vi, t in enumerate(var_texts):
        esm = (0, 0x40, 0x43, 0)[vi % 4]
        ref = rng.choice([0, 9, 255])
        params = [(), ((st.USER_MESSAGE_REFERENCE, 513),), ((st.USER_MESSAGE_REFERENCE, 7), (st.SOURCE_PORT, 65000)),
                  ((st.LANGUAGE_INDICATOR, 3), (st.DESTINATION_PORT, 8080)), ((st.LANGUAGE_INDICATOR, 1),)][vi % 5]
        encoding = [None, 'ucs2', 'gsm0338', None][(vi // 2) % 4]
        rich = vi % 3 != 0
        kind, val, hook = asyncio.run(wire_segments(t, esm, ref, encoding, params, rich))
        ctx.traces += 1
        ctx.count('wire_variant_every_option_set' if rich else 'wire_variant_default_options')
        ctx.case(('wire_variant', t, esm, ref, encoding, len(params), rich), nontrivial=kind == 'ok' and len(val) > 1)
        ctx.count('wire_variant_' + ('sar' if not esm & 0x40 else 'udh') + ('_explicit_' + encoding if encoding else '_auto') + f'_{len(params)}_params'
                  + ('' if kind == 'ok' else '_error'))
        refused = [e for e in hook.log if e[0] == 'send_error' and isinstance(e[2], (ValueError, LookupError))]
        if kind == 'ok' and not val and refused and encoding is not None:
            # a text the named alphabet cannot carry (or cannot carry in one PDU) is refused through send_error: nothing wrong is sent
            ctx.count('wire_variant_refused_under_explicit_encoding')
        elif kind == 'ok':
            msg = oracle_wire(t, esm, ref, val, params, rich)
            if msg:
                ctx.violation(f'{msg} (text of {len(t)} characters, esm_class {esm:#x}, ref {ref}, encoding {encoding!r}, {len(params)} optional parameter(s))',
                              {'function': 'wire', 'text': [ord(c) for c in t], 'esm_class': esm, 'ref': ref, 'encoding': encoding,
                               'params': [[int(a), b] for a, b in params], 'rich_options': rich})
        elif encoding is None or not isinstance(val, (ValueError, LookupError)):
            ctx.violation(f'the sender raised {val!r} for a text of {len(t)} characters, esm_class {esm:#x}, encoding {encoding!r}',
                          {'function': 'wire', 'text': [ord(c) for c in t], 'esm_class': esm, 'ref': ref, 'encoding': encoding, 'params': [[int(a), b] for a, b in params], 'rich_options': rich})
    if proved or not getattr(ctx, 'build_failing', None):
        for name, fn, cases in (
            ('split_sms', 'fun p : list Z * option Z => ser_parts (split_sms (fst p) (snd p))', sp_cases),
            ('split_udh', 'fun p : list Z * Z => ser_parts (split_sms_udh (fst p) None (snd p))', udh_cases),
            ('wire', 'fun p : list Z * Z * Z => ser_segments (prepare_segments (fst (fst p)) (snd (fst p)) (snd p))', wire_cases),
        ):
            bad, errs = core.run_cases('C08', name, IMPORTS, fn, cases, shard=150)
            for fnm, out in errs:
                ctx.broken.append(f'model evaluation failed ({fnm}): {out[-600:]}')
            for i in bad[:5]:
                inp, exp = cases[i]
                ctx.violation(f'model and implementation disagree on {name}', {
                    'correspondence': f'Model/Split.v vs utils.py/esme.py ({name})', 'input_term': inp[:600],
                    'implementation_result': exp[:600]}, found_input=False)
            ctx.extra[f'correspondence_{name}_cases'] = len(cases)
            ctx.extra[f'correspondence_{name}_disagreements'] = len(bad)
    return ctx.finish()


def replay(ctx, path):
    import json
    with open(path) as f:
        r = json.load(f)
    if r.get('function') != 'wire':
        print('replay: nothing to replay')
        return 0
    t = ''.join(map(chr, r['text']))
    params = tuple((a, b) for a, b in r.get('params', []))
    kind, val, _h = asyncio.run(wire_segments(t, r['esm_class'], r['ref'], r.get('encoding'), params, bool(r.get('rich_options'))))
    msg = oracle_wire(t, r['esm_class'], r['ref'], val, params, bool(r.get('rich_options'))) if kind == 'ok' else f'the sender raised {val!r}'
    print('replay:', msg or 'property holds on this input')
    if msg:
        print(f'VIOLATION property=C08 replay={path}')
        return 1
    return 0
