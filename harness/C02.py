"""C02 - delivery receipts: proofs (Props/C02.v) + correspondence of Model/Handlers.v with the real
ESME._handle_response / _handle_request / SimpleCorrelator driven by real PDUs (independent
reference encoder) + direct oracle on what the received hook gets."""
import asyncio

from lib import core
from lib.core import cz, czl
from harness import common, sess, smppref

THEOREMS = ['C02_accepted_response_stores_original', 'C02_receipt_plain', 'C02_receipt_unsegmented', 'C02_any_error_code', 'C02_receipt_unknown', 'C02_segmented_receipts', 'C02_concurrent_receipts', 'C02_concurrent_nonvacuous', 'C02_failing_receipt_wins', 'C02_nonvacuous']
IMPORTS = ['AV.Model.Base', 'AV.Model.PyDict', 'AV.Model.Limiter', 'AV.Model.Correlator', 'AV.Model.Seq', 'AV.Model.Handlers']


def gen_history(rng, thorough):
    """Messages (plain or segmented), their responses and receipts in a random admissible interleaving,
    plus duplicates / unknown ids / receipts without id. Returns list of events:
       ('put', uid, seq, log, sar) | ('resp', uid, cmd, seq, status, mid) | ('rcpt', uid, mid, err, how)"""
    nmsg = rng.randint(1, 5)
    events_per_msg = []
    uid = [100]
    seq = [0]
    mid = [500]
    refs = rng.sample(range(1, 200), nmsg)
    if rng.random() < 0.35:
        # the 8-bit reference comes round again while older messages are still unanswered or wait for receipts
        refs = [rng.choice([0, 7, 255]) for _ in range(nmsg)]

    def nu():
        uid[0] += 1
        return uid[0]
    all_mids = []
    for mi in range(nmsg):
        log = mi + 1
        k = rng.choice([1, 1, 2, 3, 4])
        q = []          # ordered chain per segment: put -> resp -> rcpt
        chains = []
        for s in range(k):
            seq[0] += 1
            sq = seq[0]
            sar = (refs[mi], s + 1, k) if k > 1 else (0, 0, 0)
            chain = [('put', nu(), sq, log, sar)]
            r = rng.random()
            if r < 0.75:
                mid[0] += 1
                m_id = mid[0]
                all_mids.append(m_id)
                chain.append(('resp', nu(), 0x80000004, sq, 0, m_id))
                if rng.random() < 0.9:
                    err = rng.choice([0, 0, 0, 1, 7, 69, 255, 999, 65531, 65532, 65533, 65534, 65535, 70000, 10 ** 12])
                    chain.append(('rcpt', nu(), m_id, err, rng.choice(['text', 'tlv', 'both'])))
                    if rng.random() < 0.15:
                        chain.append(('rcpt', nu(), m_id, rng.choice([0, 5]), 'text'))    # duplicate
            elif r < 0.9:
                chain.append(('resp', nu(), 0x80000004, sq, rng.choice([0x58, 0x14, 8, 0x45]), 0))
            elif r < 0.95:
                chain.append(('resp', nu(), 0x80000000, sq, 3, 0))
            chains.append(chain)
        events_per_msg.append(chains)
    # interleave: puts of one message stay in order (the sender sends segments in order); others random
    pools = [c for chains in events_per_msg for c in chains]
    out = []
    if rng.random() < 0.3:
        # sequence numbers come round again (restart on a persisted correlator): unsegmented messages sent and accepted earlier under the
        # numbers that the messages of this history use; their receipts are still to come
        for j in range(rng.randint(1, min(3, seq[0]))):
            mid[0] += 1
            out.append(('put', nu(), j + 1, nmsg + 1 + j, (0, 0, 0)))
            out.append(('resp', nu(), 0x80000004, j + 1, 0, mid[0]))
            pools.append([('rcpt', nu(), mid[0], rng.choice([0, 0, 3]), rng.choice(['text', 'tlv', 'both']))])
    put_order = {id(c): i for i, c in enumerate(pools)}
    pending_puts = list(pools)
    while any(pools):
        cands = [c for c in pools if c]
        c = rng.choice(cands)
        if c[0][0] == 'put':
            # the earliest chain still holding its put goes first
            c = next(x for x in pending_puts if x and x[0][0] == 'put')
        out.append(c.pop(0))
        pending_puts = [x for x in pending_puts if x and x[0][0] == 'put']
        if rng.random() < 0.08:
            out.append(('rcpt', nu(), rng.choice([9999, 4242] + all_mids[:1]), 0, 'text') if rng.random() < 0.7 else ('rcpt', nu(), 0, 0, 'none'))
        if rng.random() < 0.05:
            out.append(('resp', nu(), 0x80000004, rng.randint(900, 999), 0, 7777))   # unsolicited response
    return out


def idstr(mid):
    """SMSC message ids are strings; neighbouring ids differ only in the case of a letter (ids are case-sensitive)"""
    if mid in (0, 9999, 4242, 7777):
        return str(mid)
    return ('Qx' if mid % 2 else 'qX') + str(mid // 2)


def idnum(s):
    return int(s) if s.isdigit() else 2 * int(s[2:]) + (1 if s.startswith('Qx') else 0)


def build_receipt_pdu(seqnum, mid, err, how):
    # the echoed beginning of the message text may itself look like receipt fields (it is free text up to the end)
    echoed = ['hello', 'hello', f'Order id:{idstr(mid + 1)} shipped', f'ref id:{idstr(mid - 1)}', 'x err:999 stat:FAILED', 'ID:9999 y',
              f'a:b id:{idstr(mid + 2)}'][(seqnum * 7 + mid) % 7]
    text = f'id:{idstr(mid) if how in ("text", "both") else ""} sub:001 dlvrd:001 submit date:2401011200 done date:2401011201 stat:{"DELIVRD" if err == 0 else "UNDELIV"} err:{err:03d} Text:{echoed}'
    if how == 'none':
        text = 'sub:001 dlvrd:001 stat:DELIVRD err:000 Text:x'
    tlvs = b''
    if how in ('tlv', 'both'):
        # some SMSCs leave out the terminating NUL of the C-Octet String
        tlvs = smppref.tlv(0x001E, idstr(mid).encode() + (b'\x00' if (seqnum + mid) % 3 else b''))
    if how != 'none' and (seqnum * 3 + mid) % 5 == 0:
        # the receipt text travels in the message_payload parameter, short_message is empty
        return smppref.encode_sm(0x5, seqnum, src=b'1', dst=b'2', esm_class=0x04, data_coding=0, short_message=b'',
                                 tlvs=smppref.tlv(0x0424, text.encode('ascii')) + tlvs)
    return smppref.encode_sm(0x5, seqnum, src=b'1', dst=b'2', esm_class=0x04, data_coding=0, short_message=text.encode('ascii'), tlvs=tlvs)


async def run_real(history):
    from aiosmpplib.protocol import SubmitSm, SmppMessage
    from aiosmpplib.state import PhoneNumber, OptionalParam, SAR_MSG_REF_NUM, SAR_SEGMENT_SEQNUM, SAR_TOTAL_SEGMENTS
    import aiosmpplib.protocol as pr
    esme, hook = sess.make_esme()
    loop = asyncio.get_running_loop()
    _r, writer, tr, _p = sess.make_stream(loop)
    esme._writer = writer
    esme._bound.set()
    esme._session_state = esme.bind_mode.session_state
    out = []
    cur = {'uid': 0}
    orig_post = pr.Base.__post_init__

    def tagging_post_init(self):
        # every message object created while an event is handled is tagged with that event's id
        self._vuid = cur['uid']
        orig_post(self)
    pr.Base.__post_init__ = tagging_post_init
    try:
        return await _run_events(history, esme, cur, out), esme
    finally:
        pr.Base.__post_init__ = orig_post


async def _run_events(history, esme, cur, out):
    from aiosmpplib.protocol import SubmitSm, SmppMessage
    from aiosmpplib.state import PhoneNumber, OptionalParam, SAR_MSG_REF_NUM, SAR_SEGMENT_SEQNUM, SAR_TOTAL_SEGMENTS
    for ev in history:
        cur['uid'] = ev[1]
        if ev[0] == 'put':
            _k, uid, sq, log, sar = ev
            ops = []
            if sar[2] > 0:
                ops = [OptionalParam(SAR_MSG_REF_NUM, sar[0]), OptionalParam(SAR_SEGMENT_SEQNUM, sar[1]), OptionalParam(SAR_TOTAL_SEGMENTS, sar[2])]
            m = SubmitSm(short_message='x', source=PhoneNumber('1'), destination=PhoneNumber('2'), log_id=f'LOG{log}', extra_data=f'X{log}', optional_params=ops,
                         registered_delivery=[1, 2, 0x11, 0, 1][log % 5])
            m.sequence_num = sq
            await esme.correlator.put(m)
        elif ev[0] == 'resp':
            _k, uid, cmd, sq, status, mid = ev
            body = (idstr(mid).encode() + b'\x00') if cmd == 0x80000004 else b''
            pdu = smppref.header(cmd, status, sq, body)
            res = await esme._handle_response(pdu, SmppMessage.parse_header(pdu))
            out.append(('resp', uid, res))
        else:
            _k, uid, mid, err, how = ev
            pdu = build_receipt_pdu(7000 + uid, mid, err, how)
            res = await esme._handle_request(pdu, SmppMessage.parse_header(pdu))
            out.append(('rcpt', uid, res))
    return out


def observe(out, esme_mod):
    """Canonical list like ser_hout, resolving returned objects to the uid of the event that created them."""
    from aiosmpplib import esme as em
    obs = []
    for kind, uid, res in out:
        if res is None or res is em._SUBMIT_SM_SEGMENT:
            obs.append([0])
            continue
        ruid = res._vuid
        log = int(res.log_id[3:]) if getattr(res, 'log_id', '') else 0
        if kind == 'resp' or res.smpp_command.name in ('SUBMIT_SM_RESP', 'GENERIC_NACK'):
            obs.append([1, ruid, log, int(res.smpp_command), int(res.command_status)])
        else:
            obs.append([2, ruid, log])
    return obs


def late_receipt_session(delay, keepalive, segmented):
    """a submit_sm (plain or two segments) is accepted; its receipt(s) arrive `delay` seconds later - long after the response time-to-live
    (15 s), well inside the delivery time-to-live (3 days) - while keep-alive traffic keeps the correlator's sweeps going"""
    import struct
    from harness import vsess
    from aiosmpplib.protocol import SubmitSm, DeliverSm
    from aiosmpplib.state import PhoneNumber
    loop = vsess.VLoop()
    asyncio.set_event_loop(loop)
    smsc = vsess.FakeSMSC(loop)
    undo = vsess.install(loop, smsc)
    obs = {'submits': 0}
    try:
        esme, hook = vsess.quiet_esme(enquire_link_interval=float(keepalive), socket_timeout=10.0)

        def rc(seq, mid):
            text = f'id:{mid} sub:001 dlvrd:001 submit date:2401011200 done date:2401011201 stat:DELIVRD err:000 Text:hello'.encode()
            return smppref.encode_sm(5, seq, src=b'1', dst=b'2', esm_class=0x04, short_message=text)

        def on_pdu(conn, pdu):
            for p in vsess.split_pdus(pdu)[0]:
                cmd, seq = struct.unpack('>I', p[4:8])[0], struct.unpack('>I', p[12:16])[0]
                if cmd in (1, 2, 9):
                    conn.send(vsess.bind_resp_for(p))
                elif cmd == 0x15:
                    conn.send(smppref.header(0x80000015, 0, seq), delay=0.01)
                elif cmd == 4:
                    obs['submits'] += 1
                    n = obs['submits']
                    conn.send(smppref.header(0x80000004, 0, seq, b'late%d\x00' % n), delay=0.05)
                    conn.send(rc(8000 + n, 'late%d' % n), delay=float(delay) + n)
        smsc.on_pdu = on_pdu
        src = PhoneNumber('38591')

        async def main():
            t = asyncio.create_task(esme.start())
            await asyncio.sleep(0.5)
            await esme.broker.enqueue(SubmitSm(short_message='s' * 300 if segmented else 'hello', source=src, destination=src, log_id='L', extra_data='X',
                                               auto_message_payload=not segmented, registered_delivery=1))
            await asyncio.sleep(float(delay) + 30.0)
            obs['start_done'] = t.done()
            obs['receipts'] = [(type(e[1]).__name__, getattr(e[1], 'log_id', None), getattr(e[1], 'extra_data', None)) for e in hook.log
                               if e[0] == 'received' and struct.unpack('>I', e[2][4:8])[0] == 5]
            if not t.done():
                t.cancel()
                try:
                    await t
                except BaseException:  # noqa: BLE001
                    pass
        loop.run_until_complete(main())
    finally:
        undo()
        vsess.finish(loop)
    return obs


def receipt_during_teardown_session(hook_sleep, reset_after):
    """M is accepted (id mm1); an older message A is never answered (time-to-live 1 s). The receipt for M arrives after A's time-to-live:
    get_delivery() runs the sweep, which awaits the application's send_error hook for A (`hook_sleep` s); `reset_after` s into it the
    connection is lost, the session is torn down and the receiver is cancelled inside the handling of the receipt (which is not
    answered). The SMSC repeats the unanswered receipt on the next session: it must still find its message."""
    import struct
    from harness import vsess
    from aiosmpplib.protocol import SubmitSm, DeliverSm
    from aiosmpplib.state import PhoneNumber
    from aiosmpplib.correlator import SimpleCorrelator
    from aiosmpplib.retrytimer import SimpleExponentialBackoff
    loop = vsess.VLoop()
    asyncio.set_event_loop(loop)
    smsc = vsess.FakeSMSC(loop)
    undo = vsess.install(loop, smsc)
    obs = {'count': 0}
    try:
        esme, hook = vsess.quiet_esme(enquire_link_interval=50.0, socket_timeout=100.0, correlator=SimpleCorrelator('crt', max_ttl_response=1.0),
                                      retry_timer=SimpleExponentialBackoff(200, 2))

        def rc(seq):
            text = b'id:mm1 sub:001 dlvrd:001 submit date:2401011200 done date:2401011201 stat:DELIVRD err:000 Text:hello'
            return smppref.encode_sm(5, seq, src=b'1', dst=b'2', esm_class=0x04, short_message=text)

        def on_pdu(conn, pdu):
            for p in vsess.split_pdus(pdu)[0]:
                cmd, seq = struct.unpack('>I', p[4:8])[0], struct.unpack('>I', p[12:16])[0]
                if cmd in (1, 2, 9):
                    conn.send(vsess.bind_resp_for(p))
                    if conn.index == 1:
                        conn.send(rc(8101), delay=1.0)            # the receipt that was never answered is sent again
                elif cmd == 0x15:
                    conn.send(smppref.header(0x80000015, 0, seq), delay=0.01)
                elif cmd == 4 and conn.index == 0:
                    obs['count'] += 1
                    if obs['count'] == 2:                          # A (first) is never answered; M is accepted
                        conn.send(smppref.header(0x80000004, 0, seq, b'mm1\x00'), delay=0.05)
                        conn.send(rc(8100), delay=1.3)
                elif cmd == 4:
                    conn.send(smppref.header(0x80000004, 0, seq, b'idx%d\x00' % seq), delay=0.05)
        smsc.on_pdu = on_pdu
        fired = []
        src = PhoneNumber('38591')

        def mk(lid):
            return SubmitSm(short_message='hello', source=src, destination=src, log_id=lid, extra_data='X' + lid, registered_delivery=1)

        def egate(m, err):
            if isinstance(m, SubmitSm) and m.log_id == 'A' and not fired:
                fired.append(1)
                smsc.conns[0].reset(delay=reset_after)
                loop.call_later(reset_after + 0.05, lambda: asyncio.ensure_future(esme.broker.enqueue(mk('X'))))
                return asyncio.sleep(hook_sleep)
            return None
        hook.error_gate = egate

        async def main():
            t = asyncio.create_task(esme.start())
            await asyncio.sleep(0.5)
            await esme.broker.enqueue(mk('A'))
            await esme.broker.enqueue(mk('M'))
            await asyncio.sleep(25.0)
            obs['start_done'] = t.done()
            obs['receipts'] = [(type(e[1]).__name__, getattr(e[1], 'log_id', None)) for e in hook.log
                               if e[0] == 'received' and struct.unpack('>I', e[2][4:8])[0] == 5]
            obs['conns'] = len(smsc.conns)
            t.cancel()
            try:
                await t
            except BaseException:  # noqa: BLE001
                pass
        loop.run_until_complete(main())
    finally:
        undo()
        vsess.finish(loop)
    return obs


def oracle_receipt_during_teardown(obs):
    if obs['start_done']:
        return 'start() ended'
    named = [r for r in obs['receipts'] if r == ('DeliverSm', 'M')]
    if len(named) != 1:
        return (f'the receipt for the accepted message M reached the received hook as {obs["receipts"]} ({obs["conns"]} connections): expected exactly '
                f'one DeliverSm carrying the identity of M')
    return None


def oracle_late_receipt(obs, segmented):
    if obs['start_done']:
        return 'start() ended'
    want = 2 if segmented else 1
    if obs['submits'] != want:
        return f'{obs["submits"]} submit_sm PDUs written, expected {want}'
    named = [r for r in obs['receipts'] if r[0] == 'DeliverSm' and r[1] == 'L' and r[2] == 'X']
    if len(named) != 1 or len(obs['receipts']) != want or any(r[0] == 'DeliverSm' and r[1] != 'L' for r in obs['receipts']):
        return f'the received hook got {obs["receipts"]} for the receipt(s), expected exactly one DeliverSm carrying the identity of the message'
    return None


def oracle(history, obs):
    """C02 read off the history: which receipts must reach the hook with which identity."""
    logs = {}           # seq -> (log, sar)
    accepted = {}       # mid -> seq (store at accepted response, consumed by first receipt)
    groups = {}         # ref -> {'k':, 'log':, 'rcpt': {sseq: err}, 'seqs':{seq:sseq}, 'accepted': set(), 'failed': bool}
    for ev in history:
        if ev[0] == 'put':
            _k, uid, sq, log, sar = ev
            if sar[2] > 0:
                g = groups.setdefault(log, {'k': sar[2], 'log': log, 'rcpt': {}, 'acc': set(), 'bad': False, 'answered': set()})
    i = -1
    store = {}
    mid_owner = {}      # message id -> (log, sar) of the request it was the answer to (sequence numbers may be re-used later)
    for ev in history:
        if ev[0] == 'put':
            logs[ev[2]] = (ev[3], ev[4])        # the request outstanding under this number from now on
            continue
        i += 1
        o = obs[i]
        if ev[0] == 'resp':
            _k, uid, cmd, sq, status, mid = ev
            if sq in logs and cmd == 0x80000004:
                log, sar = logs[sq]
                if sar[2] > 0:
                    groups[log]['answered'].add(sar[1])
                if status == 0:
                    store[mid] = (log, sar)
                    mid_owner.setdefault(mid, (log, sar))
                    if sar[2] > 0:
                        groups[log]['acc'].add(sar[1])
                elif sar[2] > 0:
                    groups[log]['bad'] = True
                logs.pop(sq)
            elif sq in logs:
                log, sar = logs.pop(sq)
                if sar[2] > 0:
                    groups[log]['bad'] = True
                    groups[log]['answered'].add(sar[1])
            continue
        _k, uid, mid, err, how = ev
        if how == 'none' or mid not in store:
            if o[0] != 2 or o[2] != 0:
                return f'receipt naming unknown/absent id {mid} reached the hook as {o}'
            continue
        log, sar = store.pop(mid)
        if sar[2] == 0:
            if o[0] != 2 or o[2] != log or o[1] != uid:
                return f'receipt for message id {mid} (log {log}) reached the hook as {o}'
            continue
        g = groups[log]
        g['rcpt'][sar[1]] = (err, uid)
        fully_accepted = len(g['acc']) == g['k'] and not g['bad']
        if fully_accepted:
            if len(g['rcpt']) < g['k']:
                if o != [0]:
                    return f'segmented message log {log}: receipt {len(g["rcpt"])} of {g["k"]} reached the hook as {o}'
            else:
                if o[0] != 2 or o[2] != log:
                    return f'segmented message log {log}: the final receipt reached the hook as {o}'
                failing = [u for e, u in g['rcpt'].values() if e > 0]
                if failing and o[1] not in failing:
                    return f'segmented message log {log}: a segment receipt reported an error but the hook got the non-failing receipt {o}'
                if not failing and o[1] not in [u for e, u in g['rcpt'].values()]:
                    return f'segmented message log {log}: hook got a foreign receipt {o}'
    # post hoc: a message accepted in full gets exactly one receipt event, at the last of its segments' receipts
    first_rcpt = {}
    idx = -1
    mids = {}
    for ev in history:
        if ev[0] == 'put':
            continue
        idx += 1
        if ev[0] == 'resp' and ev[2] == 0x80000004 and ev[4] == 0:
            mids.setdefault(ev[5], ev[3])
        if ev[0] == 'rcpt' and ev[4] != 'none' and ev[2] in mids and ev[2] not in first_rcpt:
            first_rcpt[ev[2]] = idx
    for ref, g in groups.items():
        if len(g['acc']) != g['k'] or g['bad']:
            continue
        gm = [m_ for m_ in mids if mid_owner.get(m_, (None, (0, 0, 0)))[0] == g['log'] and mid_owner[m_][1][2] > 0]
        idxs = [first_rcpt[m_] for m_ in gm if m_ in first_rcpt]
        hits = [j for j, o in enumerate(obs) if o[0] == 2 and o[2] == g['log']]
        if len(idxs) == g['k']:
            if hits != [max(idxs)]:
                return f'segmented message log {g["log"]} accepted in full: receipt events at {hits}, expected exactly one at the last segment receipt ({max(idxs)})'
        elif hits:
            return f'segmented message log {g["log"]}: a receipt reached the hook after {len(idxs)} of {g["k"]} segment receipts'
    return None


def coq_events(history):
    out = []
    for ev in history:
        if ev[0] == 'put':
            _k, uid, sq, log, sar = ev
            out.append(f'HPut {{| sm_uid := {uid}; sm_cmd := 4; sm_seq := {sq}; sm_log := {log}; sm_sar := ({sar[0]}, {sar[1]}, {sar[2]}) |}}')
        elif ev[0] == 'resp':
            _k, uid, cmd, sq, status, mid = ev
            out.append(f'HResponse {{| rs_uid := {uid}; rs_cmd := {cmd}; rs_seq := {sq}; rs_status := {status} |}} {mid}')
        else:
            _k, uid, mid, err, how = ev
            out.append(f'HRcpt {{| rc_uid := {uid}; rc_id := {mid}; rc_err := {err} |}} {"false" if how == "none" else "true"}')
    return '[' + '; '.join(out) + ']'


def run(ctx):
    ctx.rule = ('histories of 1-5 concurrently outstanding messages (plain or 2-4 SAR segments), per segment put -> response (accepted with a distinct '
                'message id / rejected / generic_nack / silence) -> receipt (err 0 or >0; id in text, in the receipted_message_id TLV or both), randomly '
                'interleaved; duplicate, unknown-id and id-less receipts, unsolicited responses; non-trivial = at least one correlated receipt')
    ctx.trusted_base = ['Coq 8.16.1 kernel; no axioms', 'translator/py2coq.py (command maps, status tuples, STATUS_* codes)',
                        'harness/smppref.py independent encoder', 'correspondence harness harness/C02.py (real _handle_response/_handle_request on real PDUs)']
    ctx.assumptions = ['message ids are modelled as integers (the harness maps them injectively)', 'expiry sweeps do not fire during a history (TTL 15 s / 3 days)']
    proved = ctx.prove('C02', THEOREMS)
    rng = ctx.rng
    cases = []
    n = 6000 if ctx.thorough else 250
    for i in range(n):
        hist = gen_history(rng, ctx.thorough)
        out, esme = asyncio.run(run_real(hist))
        ctx.traces += 1
        obs = observe(out, None)
        flat = [x for o in obs for x in o]
        thr = esme.throttle_handler
        c = esme.correlator
        flat += [-5, thr.throttle_responses, thr.non_throttle_responses, -7]
        for k, v in c._store._data.items():
            flat += [int(k), v[1]._vuid]
        flat += [-8] + [int(k) for k in c._segment_store._data.keys()] + [-9]
        for k, ss in c._segment_status_store._data.items():
            flat += [core.status_key(k)]
            for a, b in ss.status.items():
                flat += [int(a), b]
            flat += [-1]
        flat += [-10]
        for k, v in c._delivery_store._data.items():
            flat += [idnum(k), v[1]._vuid]
        cases.append((coq_events(hist), czl(flat)))
        ctx.case(('hist', i, repr(hist)), nontrivial=any(o[0] == 2 and o[2] != 0 for o in obs))
        for ev in hist:
            ctx.count('event_' + ev[0] + ('_' + ev[4] if ev[0] == 'rcpt' else ''))
        msg = oracle(hist, obs)
        if msg:
            ctx.violation(msg, {'function': 'history', 'history': [list(e) for e in hist]})
        if i < 1:
            ctx.sample({'history': [list(e) for e in hist[:12]], 'hook': obs[:8]})
    # ---- the 8-bit segmentation reference re-used by a new segmented message while an older one, accepted in full, still waits for
    #      its receipts (the reference generator advances with every message that is not auto_message_payload: 256 messages later)
    for order in ([501, 502, 503, 504], [503, 504, 501, 502], [501, 503, 502, 504]):
        hist = [('put', 1, 1, 1, (7, 1, 2)), ('put', 2, 2, 1, (7, 2, 2)), ('resp', 3, 0x80000004, 1, 0, 501), ('resp', 4, 0x80000004, 2, 0, 502),
                ('put', 5, 3, 2, (7, 1, 2)), ('put', 6, 4, 2, (7, 2, 2)), ('resp', 7, 0x80000004, 3, 0, 503), ('resp', 8, 0x80000004, 4, 0, 504)]
        hist += [('rcpt', 10 + j, m, 0, 'text') for j, m in enumerate(order)]
        out, _esme = asyncio.run(run_real(hist))
        obs = observe(out, None)
        ctx.traces += 1
        ctx.case(('reference_reuse', tuple(order)), nontrivial=True)
        r_obs = obs[4:]
        last_of = {1: max(order.index(501), order.index(502)), 2: max(order.index(503), order.index(504))}
        msg = None
        for log in (1, 2):
            hits = [j for j, o in enumerate(r_obs) if o[0] == 2 and o[2] == log]
            if hits != [last_of[log]]:
                msg = (f'two segmented messages under the same reference (the older one accepted in full and waiting for receipts): receipts in the order '
                       f'{order} reach the hook for message {log} at receipt positions {hits}, expected exactly one at {last_of[log]}')
                break
        if msg:
            ctx.violation(msg, {'function': 'history', 'history': [list(e) for e in hist]})
    # ---- a receipt that is being handled when the session is torn down, and is repeated by the SMSC on the next session
    for hook_sleep, reset_after in ((3.0, 0.2), (0.3, 0.1)):
        obs = receipt_during_teardown_session(hook_sleep, reset_after)
        ctx.traces += 1
        ctx.case(('receipt_during_teardown', hook_sleep, reset_after), nontrivial=True)
        msg = oracle_receipt_during_teardown(obs)
        if msg:
            ctx.violation(f'connection lost {reset_after} s into a {hook_sleep} s send_error hook called from the sweep of get_delivery(): {msg}',
                          {'function': 'receipt_during_teardown', 'hook_sleep': hook_sleep, 'reset_after': reset_after})
    # ---- receipts that arrive long after the response time-to-live (hours, days), with correlator traffic in between
    for delay, keepalive in ((60.0, 5.0), (3600.0, 30.0), (2 * 86400.0, 3600.0)) + (((20.0, 1.0), (86400.0, 600.0)) if ctx.thorough else ()):
        for segmented in (False, True):
            obs = late_receipt_session(delay, keepalive, segmented)
            ctx.traces += 1
            ctx.case(('late_receipt', delay, keepalive, segmented), nontrivial=True)
            msg = oracle_late_receipt(obs, segmented)
            if msg:
                ctx.violation(f'{"segmented" if segmented else "plain"} message accepted, receipt(s) {delay} s later (keep-alive every {keepalive} s): {msg}',
                              {'function': 'late_receipt', 'delay': delay, 'keepalive': keepalive, 'segmented': segmented})
    # ---- a sequence number that comes round again (restart on a persisted correlator: the generator starts at 1 again, receipts of
    #      the previous run are still to come)
    base_plain = [('put', 1, 5, 1, (0, 0, 0)), ('resp', 2, 0x80000004, 5, 0, 501)]
    base_seg = [('put', 1, 5, 1, (7, 1, 2)), ('put', 2, 6, 1, (7, 2, 2)), ('resp', 3, 0x80000004, 5, 0, 501), ('resp', 4, 0x80000004, 6, 0, 502)]
    later = {'plain': [('put', 5, 5, 2, (0, 0, 0)), ('resp', 6, 0x80000004, 5, 0, 503)],
             'plain_unanswered': [('put', 5, 5, 2, (0, 0, 0))],
             'segmented': [('put', 5, 5, 2, (9, 1, 2)), ('put', 6, 6, 2, (9, 2, 2)), ('resp', 7, 0x80000004, 5, 0, 503), ('resp', 8, 0x80000004, 6, 0, 504)],
             'segmented_same_reference': [('put', 5, 5, 2, (7, 1, 2)), ('put', 6, 6, 2, (7, 2, 2)), ('resp', 7, 0x80000004, 5, 0, 503),
                                          ('resp', 8, 0x80000004, 6, 0, 504)]}
    for older, base in (('unsegmented', base_plain), ('segmented', base_seg)):
        for name, mid_events in later.items():
            for rorder in ((501, 502, 503, 504), (503, 504, 501, 502)):
                hist = base + mid_events + [('rcpt', 10 + j, m, 0, 'text') for j, m in enumerate(rorder)]
                out, _esme = asyncio.run(run_real(hist))
                obs = observe(out, None)
                ctx.traces += 1
                ctx.case(('sequence_number_reuse', older, name, rorder), nontrivial=True)
                msg = oracle(hist, obs)
                if msg:
                    text = (f'an {older} message accepted under sequence number 5{"/6" if older == "segmented" else ""} waits for its receipt(s); a newer '
                            f'message ({name}) is sent under the same number(s); receipts arrive for ids {rorder}: {msg}')
                    ctx.violation(text, {'function': 'history', 'history': [list(e) for e in hist],
                                         'finding_key': 'sequence-number-reused-while-segmented-message-awaits-receipts' if older == 'segmented' else None})
    if proved or not getattr(ctx, 'build_failing', None):
        bad, errs = core.run_cases('C02', 'handlers', IMPORTS, 'fun evs : list hevent => ser_hrun evs', cases, shard=120)
        for fnm, out in errs:
            ctx.broken.append(f'model evaluation failed ({fnm}): {out[-600:]}')
        for i in bad[:5]:
            inp, exp = cases[i]
            ctx.violation('model and implementation disagree on a response/receipt history', {
                'correspondence': 'Model/Handlers.v vs esme.py/correlator.py', 'input_term': inp[:2500], 'implementation_result': exp[:800]}, found_input=False)
        ctx.extra['correspondence_handlers_cases'] = len(cases)
        ctx.extra['correspondence_handlers_disagreements'] = len(bad)
    return ctx.finish()


def replay(ctx, path):
    import json
    with open(path) as f:
        r = json.load(f)
    if r.get('function') == 'receipt_during_teardown':
        obs = receipt_during_teardown_session(r['hook_sleep'], r['reset_after'])
        msg = oracle_receipt_during_teardown(obs)
        print('replay: receipts at the hook:', obs['receipts'])
        print('replay:', msg or 'property holds on this input')
        return 1 if msg else 0
    if r.get('function') == 'late_receipt':
        obs = late_receipt_session(r['delay'], r['keepalive'], r['segmented'])
        msg = oracle_late_receipt(obs, r['segmented'])
        print('replay: receipts at the hook:', obs['receipts'])
        print('replay:', msg or 'property holds on this input')
        return 1 if msg else 0
    if r.get('function') != 'history':
        return 0
    hist = [tuple(tuple(x) if isinstance(x, list) else x for x in e) for e in r['history']]
    out, _e = asyncio.run(run_real(hist))
    msg = oracle(hist, observe(out, None))
    print('replay:', msg or 'property holds on this input')
    if msg:
        print(f'VIOLATION property=C02 replay={path}')
        return 1
    return 0
