"""Whole-session harness: the real ESME.start() on a virtual-time event loop against a scripted SMSC.
No source hooks: asyncio.open_connection as seen by aiosmpplib.esme, and time.monotonic as seen by the library modules,
are replaced from the check process."""
import asyncio
import logging
import selectors
import struct

from harness import sess


class Deadlock(Exception):
    pass


class VLoop(asyncio.SelectorEventLoop):
    """event loop whose clock jumps to the next timer instead of sleeping"""

    def __init__(self):
        super().__init__(selectors.SelectSelector())
        self._vt = 0.0
        self._ticks = 0
        self.unretrieved = []
        self.set_exception_handler(lambda lp, context: lp.unretrieved.append(context))   # orphan tasks: recorded, not printed
        sel = self._selector
        real_select = sel.select
        loop = self

        def select(timeout=None):
            if timeout is None:
                if loop._stopping:
                    return real_select(0)
                raise Deadlock('event loop would block forever: no timer and nothing ready')
            if timeout > 0:
                loop._vt += timeout
            return real_select(0)
        sel.select = select

    def time(self):
        return self._vt

    def mono(self):
        """strictly increasing clock for code that divides by clock differences"""
        self._ticks += 1
        return self._vt + self._ticks * 2.0 ** -24


class Conn:
    """one accepted connection, SMSC side"""

    def __init__(self, smsc, index):
        self.smsc, self.index = smsc, index
        self.reader, writer, self.transport, self.protocol = sess.make_stream(smsc.loop)
        self._writer_for_esme = writer    # handed over by open_connection and then forgotten: only the ESME keeps it alive
        self.opened_at = smsc.loop.time()
        self.closed_at = None
        self.seen = 0              # number of written chunks already dispatched
        self.log = []              # (time, pdu bytes) written by the ESME
        tr = self.transport
        orig_write, orig_close, orig_eof = tr.write, tr.close, tr.write_eof
        conn = self

        def write(data):
            orig_write(data)
            conn.log.append((smsc.loop.time(), bytes(data)))
            smsc.loop.call_soon(conn.dispatch)

        def close():
            if conn.closed_at is None:
                conn.closed_at = smsc.loop.time()
            orig_close()

        def write_eof():
            if conn.closed_at is None:
                conn.closed_at = smsc.loop.time()
            orig_eof()
        tr.write, tr.close, tr.write_eof, tr.abort = write, close, write_eof, close

    def dispatch(self):
        while self.seen < len(self.log):
            t, data = self.log[self.seen]
            self.seen += 1
            if self.smsc.on_pdu is not None:
                self.smsc.on_pdu(self, data)

    # SMSC -> ESME
    def send(self, data, delay=0.0):
        if delay > 0:
            self.smsc.loop.call_later(delay, self.send, data)
        elif not self.reader._eof and self.reader.exception() is None:
            self.reader.feed_data(bytes(data))

    def eof(self, delay=0.0):
        if delay > 0:
            self.smsc.loop.call_later(delay, self.eof)
        elif not self.reader.at_eof():
            self.reader.feed_eof()

    def close_peer(self, delay=0.0):
        """the SMSC closes its socket (both directions): the ESME reads EOF; a later shutdown(SHUT_WR) of the ESME's side fails"""
        if delay > 0:
            self.smsc.loop.call_later(delay, self.close_peer)
        else:
            self.transport.peer_closed = True
            if not self.reader.at_eof():
                self.reader.feed_eof()

    def reset(self, delay=0.0):
        if delay > 0:
            self.smsc.loop.call_later(delay, self.reset)
        else:
            self.protocol.connection_lost(ConnectionResetError('reset by peer'))


class FakeSMSC:
    """scripted peer: `on_connect(smsc, n)` returns 'accept' | an exception to raise | ('hang', seconds);
    `on_pdu(conn, pdu)` reacts to each PDU the ESME writes"""

    def __init__(self, loop):
        self.loop = loop
        self.conns = []
        self.attempts = []         # virtual time of every connect attempt
        self.on_connect = None
        self.on_pdu = None

    async def open_connection(self, host, port, **kw):
        self.attempts.append(self.loop.time())
        verdict = self.on_connect(self, len(self.attempts)) if self.on_connect else 'accept'
        if isinstance(verdict, BaseException):
            raise verdict
        if isinstance(verdict, tuple) and verdict[0] == 'hang':
            await asyncio.sleep(verdict[1])
            raise ConnectionRefusedError('late refusal')
        conn = Conn(self, len(self.conns))
        self.conns.append(conn)
        writer, conn._writer_for_esme = conn._writer_for_esme, None
        return conn.reader, writer


def install(loop, smsc):
    """returns an undo function"""
    import aiosmpplib.esme as em
    import aiosmpplib.correlator as cm
    import aiosmpplib.ratelimiter as rl
    import aiosmpplib.throttle as th
    saved = []

    class AsyncioProxy:
        def __getattr__(self, name):
            if name == 'open_connection':
                return smsc.open_connection
            return getattr(asyncio, name)

    class TimeProxy:
        def __getattr__(self, name):
            if name == 'monotonic':
                return loop.mono
            import time
            return getattr(time, name)
    saved.append((em, 'asyncio', em.asyncio))
    em.asyncio = AsyncioProxy()
    for mod in (cm, rl, th):
        if hasattr(mod, 'time'):
            saved.append((mod, 'time', mod.time))
            mod.time = TimeProxy()

    def undo():
        for mod, name, val in saved:
            setattr(mod, name, val)
    return undo


def bind_resp_for(pdu, status=0, system_id=b'SMSC'):
    ln, cmd, st, seq = struct.unpack('>IIII', pdu[:16])
    body = (system_id + b'\x00') if status == 0 else b''
    return struct.pack('>IIII', 16 + len(body), cmd | 0x80000000, status, seq) + body


def split_pdus(data):
    out = []
    i = 0
    while i + 16 <= len(data):
        ln = struct.unpack('>I', data[i:i + 4])[0]
        if ln < 16 or i + ln > len(data):
            break
        out.append(data[i:i + ln])
        i += ln
    return out, data[i:]


def run(loop, coro, limit=None):
    """run coro to completion on the virtual loop"""
    asyncio.set_event_loop(loop)
    return loop.run_until_complete(coro)


def quiet_esme(**kw):
    esme, hook = sess.make_esme(**kw)
    logging.getLogger('aiosmpplib').setLevel(logging.CRITICAL + 10)
    return esme, hook


def finish(loop):
    """cancel whatever is still pending (orphan keep-alive sleeps etc.) and close the loop quietly"""
    try:
        pending = [t for t in asyncio.all_tasks(loop) if not t.done()]
        for t in pending:
            t.cancel()
        if pending:
            loop.run_until_complete(asyncio.gather(*pending, return_exceptions=True))
        loop.run_until_complete(loop.shutdown_asyncgens())
    except Exception:  # noqa: BLE001
        pass
    loop.close()
    asyncio.set_event_loop(None)
