"""C12 - JSON round trip: proofs (Props/C12.v) + correspondence of Model/Json.v with json_encode / json_decode (value trees,
decoded fields and exception classes, also on damaged documents) + the direct round-trip oracle on the real code."""
import dataclasses
import json
from datetime import datetime, timedelta, timezone

from lib import core
from lib.core import cz, czl, cstr
from harness import common, pdugen

THEOREMS = ['C12_roundtrip', 'C12_names_type', 'C12_table', 'C12_nonvacuous']
IMPORTS = ['AV.Model.Base', 'AV.Model.TimeFmt', 'AV.Model.Pdu', 'AV.Model.Json']
PRE = 'From Coq Require Import String.\nOpen Scope string_scope.\nOpen Scope list_scope.\nOpen Scope Z_scope.\n'
TIME_KEYS = ('schedule_delivery_time', 'validity_period')


def codes(s):
    return [ord(c) for c in s]


def civil_term(t):
    off = t.utcoffset()
    o = 'None' if off is None else f'(Some {cz(off.days * 86400 + off.seconds)})'
    return (f'{{| c_year := {t.year}; c_month := {t.month}; c_day := {t.day}; c_hour := {t.hour}; c_minute := {t.minute}; '
            f'c_second := {t.second}; c_us := {t.microsecond}; c_off := {o} |}}')


def civil_ser(t):
    off = t.utcoffset()
    return [t.year, t.month, t.day, t.hour, t.minute, t.second, t.microsecond] + ([0, 0] if off is None else [1, off.days * 86400 + off.seconds])


def td_term(d):
    return f'{{| td_days := {cz(d.days)}; td_seconds := {d.seconds}; td_us := {d.microseconds} |}}'


# ---- message object -> model term / serialisation --------------------------------------------------------
def value_term(name, v):
    from aiosmpplib.state import PhoneNumber
    if name in TIME_KEYS:
        if v is None:
            return '(VTime TNone)'
        return f'(VTime (TDate {civil_term(v)}))' if isinstance(v, datetime) else f'(VTime (TDelta {td_term(v)}))'
    if v is None:
        return 'VNone'
    if isinstance(v, bool):
        return f'(VBool {"true" if v else "false"})'
    if isinstance(v, int):
        return f'(VInt {cz(int(v))})'
    if isinstance(v, str):
        return f'(VStr {cstr(v)})'
    if isinstance(v, PhoneNumber):
        return f'(VPhone {cstr(v.number)} {int(v.ton)} {int(v.npi)})'
    if isinstance(v, list):
        return f'(VOpts [{"; ".join(pdugen.opt_term(p) for p in v)}])'
    raise AssertionError(type(v))


def value_ser(name, v):
    from aiosmpplib.state import PhoneNumber
    if name in TIME_KEYS:
        if v is None:
            return [6]
        return [7] + civil_ser(v) if isinstance(v, datetime) else [8, v.days, v.seconds, v.microseconds]
    if v is None:
        return [4]
    if isinstance(v, bool):
        return [3, 1 if v else 0]
    if isinstance(v, int):
        return [1, int(v)]
    if isinstance(v, str):
        return [2, len(v)] + codes(v)
    if isinstance(v, PhoneNumber):
        return [5, len(v.number)] + codes(v.number) + [int(v.ton), int(v.npi)]
    if isinstance(v, list):
        out = [9, len(v)]
        for p in v:
            out += pdugen.opt_ser(p)
        return out
    raise AssertionError(type(v))


def fields_of(m):
    return [(f.name, getattr(m, f.name)) for f in dataclasses.fields(m) if not f.name.startswith('_')]


def message_term(m):
    fs = '; '.join(f'("{n}", {value_term(n, v)})' for n, v in fields_of(m))
    return f'{{| m_cmd := {int(m.smpp_command)}; m_fields := [{fs}] |}}'


def message_ser(m):
    fs = fields_of(m)
    out = [int(m.smpp_command), len(fs)]
    for n, v in fs:
        out += [len(n)] + codes(n) + value_ser(n, v)
    return out


# ---- parsed JSON document -> model term / serialisation --------------------------------------------------
def as_time(key, v):
    """the two library-text leaves: an ISO string / a float in a time field"""
    if key in TIME_KEYS and isinstance(v, str):
        try:
            return datetime.fromisoformat(v)
        except ValueError:
            return None
    if key in TIME_KEYS and isinstance(v, float):
        return timedelta(seconds=v)
    return None


def json_term(v, key=None):
    t = as_time(key, v)
    if isinstance(t, datetime):
        return f'(JIso {civil_term(t)})'
    if isinstance(t, timedelta):
        return f'(JFloat {td_term(t)})'
    if v is None:
        return 'JNull'
    if isinstance(v, bool):
        return f'(JBool {"true" if v else "false"})'
    if isinstance(v, int):
        return f'(JInt {cz(v)})'
    if isinstance(v, str):
        return f'(JStr {cstr(v)})'
    if isinstance(v, list):
        return f'(JArr [{"; ".join(json_term(x) for x in v)}])'
    if isinstance(v, dict):
        return '(JObj [' + '; '.join(f'("{k}", {json_term(x, k)})' for k, x in v.items()) + '])'
    raise AssertionError(type(v))


def json_ser(v, key=None):
    t = as_time(key, v)
    if isinstance(t, datetime):
        return [5] + civil_ser(t)
    if isinstance(t, timedelta):
        return [3, t.days, t.seconds, t.microseconds]
    if v is None:
        return [0]
    if isinstance(v, bool):
        return [1, 1 if v else 0]
    if isinstance(v, int):
        return [2, v]
    if isinstance(v, str):
        return [4, len(v)] + codes(v)
    if isinstance(v, list):
        out = [6, len(v)]
        for x in v:
            out += json_ser(x)
        return out
    out = [7, len(v)]
    for k, x in v.items():
        out += [len(k)] + codes(k) + json_ser(x, k)
    return out


# ---- generators ------------------------------------------------------------------------------------------
def gen_message(rng):
    from aiosmpplib import protocol as pr
    from aiosmpplib.state import SmppCommandStatus
    if rng.random() < 0.55:
        m, _d = pdugen.gen_sm(rng, pr.SubmitSm if rng.random() < 0.5 else pr.DeliverSm, valid_only=True)
        k = rng.random()
        if k < 0.25:
            m.validity_period = timedelta(days=rng.choice([0, 1, 440]), seconds=rng.randint(0, 86399), microseconds=rng.choice([0, 1, 500000, 999999]))
        elif k < 0.4:
            m.schedule_delivery_time = datetime(rng.randint(2000, 2099), rng.randint(1, 12), rng.randint(1, 28), rng.randint(0, 23), rng.randint(0, 59),
                                                rng.randint(0, 59), rng.choice([0, 1, 123456, 999999]))            # naive
        elif k < 0.55:
            m.schedule_delivery_time = datetime(2031, 5, 6, 7, 8, 9, rng.choice([0, 250000]),
                                                tzinfo=timezone(timedelta(minutes=rng.choice([-720, -195, 0, 15, 330, 840]))))
        if rng.random() < 0.3:
            m.command_status = rng.choice(list(SmppCommandStatus))
        if rng.random() < 0.2:
            m.error_handling = rng.choice(['replace', 'ignore'])
        if rng.random() < 0.2:
            m.auto_message_payload = False
    else:
        m = pdugen.gen_simple(rng)
        if isinstance(m, pr.BindTransceiver) and rng.random() < 0.4:
            m.command_status = rng.choice(list(SmppCommandStatus))
    if hasattr(m, 'log_id') and rng.random() < 0.7:
        m.log_id = rng.choice(['L1', 'a' * 40, 'ünï-cødé', '7f3c-0001', ''])
        m.extra_data = rng.choice(['', 'x', '{"campaign": 7}', 'строка', '"quoted"\n'])
    return m


def damage(rng, doc):
    """one fault per document, so the first exception is determined whatever order from_json reads the keys in"""
    d = json.loads(json.dumps(doc))
    keys = [k for k in d if k != '__smpp_command__']
    k = rng.random()
    if k < 0.35 and keys:
        del d[rng.choice(keys)]
        return d, 'missing_key'
    if k < 0.45:
        d['__smpp_command__'] = rng.choice(['QUERY_SM', 'submit_sm', 'NOPE', 'OUTBIND'])
        return d, 'unknown_command'
    if k < 0.55:
        if rng.random() < 0.5:
            del d['__smpp_command__']
        else:
            d['__smpp_command__'] = rng.choice(['', None, 0, False])
        return d, 'no_command'
    if k < 0.7:
        d['command_status'] = rng.choice([9999, -1, 0x110])
        return d, 'bad_status'
    if k < 0.8 and 'source' in d:
        w = rng.random()
        if w < 0.3:
            d['source'] = None
        elif w < 0.6:
            del d['source'][rng.choice(['number', 'ton', 'npi'])]
        else:
            d['destination']['ton'] = 99
        return d, 'bad_phone'
    if k < 0.9 and 'validity_period' in d:
        d['validity_period'] = rng.choice(['yesterday', 7, None, True])
        return d, 'odd_time'
    if 'optional_params' in d:
        d['optional_params'] = rng.choice([None, [], [{'tag': 0x0204}], [{'value': 1}], [{'tag': 0x0204, 'value': 'str'}], [{'tag': 0x001E, 'value': 5}]])
        return d, 'odd_params'
    if 'addr_ton' in d:
        d['addr_ton'] = 77
        return d, 'bad_ton'
    return d, 'undamaged'


def real_decode(doc):
    from aiosmpplib import jsonutils
    try:
        return jsonutils.json_decode(json.dumps(doc))
    except Exception as e:  # noqa: BLE001
        return e


def run(ctx):
    ctx.rule = ('all 15 classes over the C03 field space plus log_id/extra_data (unicode, quotes), any command_status, naive and aware datetimes with '
                'microseconds, timedeltas with fractional seconds, any optional-parameter list; a second stream of documents with one fault each '
                '(missing key, unknown/absent command name, non-member enum value, damaged phone object, odd time value, odd parameter list) for the '
                'decoder\'s exception classes; non-trivial = message with more than the two header fields')
    ctx.trusted_base = ['Coq 8.16.1 kernel; no axioms', 'json.dumps/json.loads (or orjson) as a faithful text layer for JSON value trees',
                        'datetime.isoformat/fromisoformat and timedelta.total_seconds/timedelta(seconds=) round trips (checked on every generated value)',
                        'harness/C12.py + pdugen.py']
    ctx.assumptions = ['timedelta within the SMPP range (<= 63 weeks): its float total_seconds is exact to the microsecond']
    proved = ctx.prove('C12', THEOREMS)
    from aiosmpplib import jsonutils
    rng = ctx.rng
    n = 2500 if ctx.thorough else 400
    enc_cases, dec_cases, rt_cases = [], [], []
    for i in range(n):
        m = gen_message(rng)
        cname = type(m).__name__
        ctx.count('class_' + cname)
        text = jsonutils.json_encode(m)
        try:
            doc = json.loads(text)
        except ValueError as e:
            ctx.violation(f'{cname}: json_encode output is not JSON ({e})', {'message': repr(m)[:900]})
            continue
        ctx.case(('msg', text), nontrivial=len(doc) > 3)
        # plain JSON naming the type
        if not isinstance(doc, dict) or doc.get('__smpp_command__') != m.smpp_command.name:
            ctx.violation(f'{cname}: encoded form does not name the message type', {'message': repr(m)[:900], 'json': text[:600]})
        # library text leaves
        for key in TIME_KEYS:
            v = getattr(m, key, None)
            if isinstance(v, datetime) and (datetime.fromisoformat(v.isoformat()) != v or datetime.fromisoformat(v.isoformat()).utcoffset() != v.utcoffset()):
                ctx.broken.append(f'stdlib assumption fails: fromisoformat(isoformat({v!r}))')
            if isinstance(v, timedelta) and timedelta(seconds=v.total_seconds()) != v:
                ctx.broken.append(f'stdlib assumption fails: timedelta(seconds=total_seconds({v!r}))')
        # the oracle: decode(encode(m)) == m
        back = real_decode(doc)
        if isinstance(back, Exception):
            ctx.violation(f'{cname}: json_decode(json_encode(m)) raises {type(back).__name__}: {back}', {'message': repr(m)[:900], 'json': text[:900]})
        elif type(back) is not type(m) or back != m or fields_of(back) != fields_of(m):
            diff = [(k, repr(a)[:60], repr(b)[:60]) for (k, a), (_k, b) in zip(fields_of(m), fields_of(back)) if a != b or type(a) is not type(b) and not isinstance(a, int)]
            ctx.violation(f'{cname}: json_decode(json_encode(m)) differs from m in {diff[:4] or type(back).__name__}', {'message': repr(m)[:900], 'json': text[:900]})
        term = message_term(m)
        enc_cases.append((term, czl([0] + json_ser(doc))))
        rt_cases.append((term, czl([0] + message_ser(m))))
        # decoder fidelity, on the document itself and on a damaged copy
        for d2, kind in ((doc, 'as_encoded'), damage(rng, doc)):
            r = real_decode(d2)
            ctx.count('decode_' + kind + ('' if not isinstance(r, Exception) else '_' + type(r).__name__))
            exp = [1, common.exn_index(r)] if isinstance(r, Exception) else [0] + message_ser(r)
            dec_cases.append((json_term(d2), czl(exp)))
        if i < 1:
            ctx.sample({'message': repr(m)[:300], 'json': text[:300]})
    if proved or not getattr(ctx, 'build_failing', None):
        for name, fn, cases in (('to_json', 'ser_to_json', enc_cases), ('of_json', 'ser_of_json', dec_cases), ('roundtrip', 'ser_roundtrip', rt_cases)):
            bad, errs = core.run_cases('C12', name, IMPORTS, fn, cases, shard=150, preamble=PRE)
            for fnm, out in errs:
                ctx.broken.append(f'model evaluation failed ({fnm}): {out[-600:]}')
            for i in bad[:6]:
                inp, exp = cases[i]
                ctx.violation(f'model and implementation disagree on {name}', {
                    'correspondence': f'Model/Json.v vs jsonutils.py/protocol.py ({name})', 'input_term': inp[:2500], 'implementation_result': exp[:700]}, found_input=False)
            ctx.extra[f'correspondence_{name}_cases'] = len(cases)
            ctx.extra[f'correspondence_{name}_disagreements'] = len(bad)
    return ctx.finish()


def replay(ctx, path):
    rp = json.load(open(path))
    if 'json' in rp:
        r = real_decode(json.loads(rp['json'])) if rp['json'].rstrip().endswith('}') else None
        print('replay: json_decode ->', repr(r)[:900])
        print('original:', rp.get('message'))
    else:
        print('replay:', json.dumps(rp)[:1500])
    return 0
