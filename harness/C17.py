"""C17 - SMPP time format: proofs (Props/C17.v) + correspondence of Model/TimeFmt.v with
SubmitSm.datetime_to_smpp_time / smpp_time_to_datetime + direct round-trip oracle."""
import re
from datetime import datetime, timedelta, timezone

from lib import core
from lib.core import cz, czl
from harness import common

THEOREMS = ['C17_absolute', 'C17_relative', 'C17_beyond_63_weeks_rejected', 'C17_unset', 'C17_from_timezone', 'C17_nonvacuous']
IMPORTS = ['AV.Model.Base', 'AV.Model.TimeFmt']


def ser_time(t):
    if t is None:
        return [0]
    if isinstance(t, datetime):
        off = t.tzinfo.utcoffset(t) if t.tzinfo else None
        offs = (off.days * 86400 + off.seconds) if off is not None else 0
        return [1, t.year, t.month, t.day, t.hour, t.minute, t.second, t.microsecond, 0 if off is None else 1, offs]
    return [2, t.days, t.seconds, t.microseconds]


def ser_res(fn):
    try:
        return [0] + fn()
    except Exception as e:  # noqa: BLE001
        return [1, common.exn_index(e)]


def coq_time(t):
    if t is None:
        return 'TNone'
    if isinstance(t, datetime):
        off = t.tzinfo.utcoffset(t) if t.tzinfo else None
        o = 'None' if off is None else f'(Some {cz(off.days * 86400 + off.seconds)})'
        return (f'(TDate {{| c_year := {t.year}; c_month := {t.month}; c_day := {t.day}; c_hour := {t.hour}; '
                f'c_minute := {t.minute}; c_second := {t.second}; c_us := {t.microsecond}; c_off := {o} |}})')
    return f'(TDelta {{| td_days := {cz(t.days)}; td_seconds := {t.seconds}; td_us := {t.microseconds} |}})'


def gen_datetimes(ctx):
    rng = ctx.rng
    out = []
    dates = [(2000, 1, 1), (2099, 12, 31), (2024, 2, 29), (2023, 2, 28), (2000, 2, 29), (2038, 1, 19), (2069, 12, 31), (2068, 6, 30)]
    ks = list(range(-48, 49))
    for (y, m, d) in dates:
        for k in (ks if ctx.thorough else rng.sample(ks, 12) + [-48, -1, 0, 1, 48]):
            out.append(datetime(y, m, d, rng.choice([0, 23, 12]), rng.choice([0, 59, 30]), rng.choice([0, 59]),
                                rng.choice([0, 99999, 100000, 999999, 500000, 7, 50000]), tzinfo=timezone(timedelta(minutes=15 * k))))
        out.append(datetime(y, m, d, 13, 14, 15, 160000))     # naive
    for k in ks:
        out.append(datetime(2031, 7, 4, 5, 6, 7, 800000, tzinfo=timezone(timedelta(minutes=15 * k))))
    for _ in range(2500 if ctx.thorough else 400):
        y = rng.randint(2000, 2099)
        m = rng.randint(1, 12)
        d = rng.randint(1, 28)
        tz = None if rng.random() < 0.15 else timezone(timedelta(minutes=15 * rng.randint(-48, 48)))
        out.append(datetime(y, m, d, rng.randint(0, 23), rng.randint(0, 59), rng.randint(0, 59), rng.randint(0, 999999), tzinfo=tz))
    return out


def gen_deltas(ctx):
    rng = ctx.rng
    out = []
    for days in [0, 1, 29, 30, 31, 59, 60, 359, 360, 361, 362, 363, 364, 365, 366, 394, 395, 396, 425, 440, 441]:
        for secs in [0, 1, 59, 60, 3599, 3600, 86399]:
            out.append(timedelta(days=days, seconds=secs))
    out += [timedelta(weeks=63), timedelta(weeks=63, seconds=1), timedelta(weeks=63, microseconds=1), timedelta(days=442),
            timedelta(days=1000), timedelta(seconds=0.5), timedelta(days=3, microseconds=999999), timedelta(days=-1), timedelta(seconds=-1),
            timedelta(days=-400, seconds=5)]
    for _ in range(2500 if ctx.thorough else 400):
        out.append(timedelta(seconds=rng.randint(0, 63 * 7 * 86400)))
    return out


def oracle_abs(SubmitSm, d):
    try:
        s = SubmitSm.datetime_to_smpp_time(d)
    except Exception as e:  # noqa: BLE001
        return f'datetime_to_smpp_time({d!r}) raised {type(e).__name__}'
    if not re.fullmatch(r'\d{12}\d\d\d[+-]', s):
        return f'{d!r} -> {s!r}: not of the shape YYMMDDhhmmsstnnp'
    off = d.utcoffset() or timedelta(0)
    k = (off.days * 86400 + off.seconds) // 900
    if int(s[13:15]) != abs(k) or (s[15] == '-') != (k < 0):
        return f'{d!r} -> {s!r}: nn/p is not the UTC offset in quarter hours'
    try:
        b = SubmitSm.smpp_time_to_datetime(s)
    except Exception as e:  # noqa: BLE001
        return f'smpp_time_to_datetime({s!r}) raised {type(e).__name__}'
    want = d.replace(microsecond=d.microsecond // 100000 * 100000)
    if want.tzinfo is None:
        want = want.replace(tzinfo=timezone.utc)
    if not isinstance(b, datetime) or b != want or b.utcoffset() != want.utcoffset() or \
            (b.year, b.month, b.day, b.hour, b.minute, b.second, b.microsecond) != \
            (want.year, want.month, want.day, want.hour, want.minute, want.second, want.microsecond):
        return f'{d!r} -> {s!r} -> {b!r}: instant or offset changed'
    return None


def oracle_rel(SubmitSm, td):
    limit = timedelta(weeks=63)
    try:
        s = SubmitSm.datetime_to_smpp_time(td)
    except ValueError:
        return None if td > limit else f'datetime_to_smpp_time({td!r}) raised ValueError within 63 weeks'
    except Exception as e:  # noqa: BLE001
        return f'datetime_to_smpp_time({td!r}) raised {type(e).__name__}'
    if td > limit:
        return f'duration {td!r} beyond 63 weeks was accepted: {s!r}'
    if td < timedelta(0) or td.microseconds:
        return None        # outside the property's domain (whole seconds, non-negative)
    if not re.fullmatch(r'\d{12}000R', s):
        return f'{td!r} -> {s!r}: not of the shape YYMMDDhhmmss000R'
    b = SubmitSm.smpp_time_to_datetime(s)
    if b != td:
        return f'{td!r} -> {s!r} -> {b!r}: duration changed'
    return None


def run(ctx):
    ctx.rule = ('absolute: boundary dates x every quarter-hour offset -48..48 x tenth boundaries + random datetimes 2000-2099 (15% naive); '
                'relative: day/second boundaries around 30/365/441 days + random whole-second durations up to 63 weeks + out-of-domain values; '
                'parse: every printed string + malformed stream; distinct by input; non-trivial = not None/empty')
    ctx.trusted_base = ['Coq 8.16.1 kernel; no axioms', 'correspondence harness harness/C17.py',
                        'CPython datetime/timedelta/strftime/int() semantics as modelled in Model/TimeFmt.v (validated by the differential run)']
    ctx.assumptions = ['utcoffset microseconds are ignored (offsets are whole seconds)']
    proved = ctx.prove('C17', THEOREMS)
    from aiosmpplib.protocol import SubmitSm
    to_cases, from_cases = [], []
    strings = []
    for d in gen_datetimes(ctx):
        r = ser_res(lambda: [ord(c) for c in SubmitSm.datetime_to_smpp_time(d)])
        to_cases.append((coq_time(d), czl(r)))
        ctx.case(('abs', repr(d)))
        if r[0] == 0:
            strings.append(''.join(map(chr, r[1:])))
        msg = oracle_abs(SubmitSm, d)
        if msg:
            ctx.violation(msg, {'function': 'absolute', 'input': ser_time(d)})
    ctx.count('absolute_datetimes', len(to_cases))
    n0 = len(to_cases)
    for td in gen_deltas(ctx):
        r = ser_res(lambda: [ord(c) for c in SubmitSm.datetime_to_smpp_time(td)])
        to_cases.append((coq_time(td), czl(r)))
        ctx.case(('rel', repr(td)))
        if r[0] == 0:
            strings.append(''.join(map(chr, r[1:])))
        msg = oracle_rel(SubmitSm, td)
        if msg:
            ctx.violation(msg, {'function': 'relative', 'input': ser_time(td)})
    ctx.count('relative_timedeltas', len(to_cases) - n0)
    to_cases.append(('TNone', czl([0])))
    # malformed / foreign strings
    rng = ctx.rng
    mal = ['', 'R', '000000000000000R', '991231235959000R', '240229235958713-', '230229235958700+', '241301000000000+',
           '240101250000000+', '240101006000000+', '240101000060000+', '2401010000000', '24010100000000+', '240101000000099+',
           '240101000000048-', ' 40101000000000+', '+40101000000000+', '-10101000000000+', '2_0101000000000+', '24010100000000R',
           '0001 1000000000R', '-1-1-1-1-1-1000R', '999999999999000R', '240101000000000R+', 'abcdefghijklmnop', '24010100000000٣+']
    alphabet = '0123456789' * 4 + ' +-_R\t\x1c' + 'a'
    for _ in range(1500 if ctx.thorough else 300):
        base = list(rng.choice(strings)) if strings and rng.random() < 0.7 else [rng.choice(alphabet) for _ in range(rng.randint(0, 18))]
        for _k in range(rng.randint(0, 3)):
            if base:
                i = rng.randrange(len(base))
                op = rng.random()
                if op < 0.6:
                    base[i] = rng.choice(alphabet)
                elif op < 0.8:
                    del base[i]
                else:
                    base.insert(i, rng.choice(alphabet))
        mal.append(''.join(base))
    for s in strings + mal:
        r = ser_res(lambda: ser_time(SubmitSm.smpp_time_to_datetime(s)))
        if any(ord(c) > 127 for c in s):
            continue        # the model's int() is ASCII only; PDU fields are ASCII-decoded
        from_cases.append((core.cstr(s), czl(r)))
        ctx.case(('parse', s), nontrivial=len(s) > 0)
    ctx.count('parse_printed_strings', len(strings))
    ctx.count('parse_malformed_strings', len(mal))
    # ---- FixedOffset.from_timezone ('+hhmm' / '-hhmm'): every sign, hour and minute field that a UTC offset can have, plus malformed strings
    from aiosmpplib.utils import FixedOffset
    tz_cases = []
    tz_strings = ['%s%02d%02d' % (sg, h, m) for sg in '+-' for h in range(0, 24) for m in (0, 15, 30, 45, 59)] + ['', '+9959', '-9959', '+0000', '-0000']
    tz_strings += ['+01', '0100', '+1', '+01:00', '-0a00', 'Z', '+010', '-01000', ' 0100', '+-100']
    for zs in tz_strings:
        def call(zs=zs):
            off = FixedOffset.from_timezone(zs).utcoffset(None)
            assert off.microseconds == 0 and (off.days * 86400 + off.seconds) % 60 == 0
            return [(off.days * 86400 + off.seconds) // 60]
        r = ser_res(call)
        tz_cases.append((core.cstr(zs), czl([0, r[1]] if r[0] == 0 else r)))
        ctx.case(('tz', zs), nontrivial=len(zs) > 0)
        if len(zs) == 5 and zs[0] in '+-' and zs[1:].isdigit():
            want = (1 if zs[0] == '+' else -1) * (int(zs[1:3]) * 60 + int(zs[3:5]))
            if r[0] != 0 or r[1] != want:
                ctx.violation(f'FixedOffset.from_timezone({zs!r}).utcoffset() is {r[1] if r[0] == 0 else "an exception"} minutes, expected {want}',
                              {'function': 'from_timezone', 'input': zs})
    ctx.count('from_timezone_strings', len(tz_strings))
    d0 = datetime(2024, 2, 29, 23, 59, 58, 734567, tzinfo=timezone(timedelta(minutes=-195)))
    ctx.sample({'datetime': repr(d0), 'wire': SubmitSm.datetime_to_smpp_time(d0), 'back': repr(SubmitSm.smpp_time_to_datetime(SubmitSm.datetime_to_smpp_time(d0)))})
    ctx.sample({'timedelta': 'days=364, seconds=86399', 'wire': SubmitSm.datetime_to_smpp_time(timedelta(days=364, seconds=86399))})
    if proved or not getattr(ctx, 'build_failing', None):
        for name, fn, cases in (
            ('to', 'fun t : timeval => ser_res (time_to_smpp t)', to_cases),
            ('from', 'fun s : list Z => ser_res_time (smpp_to_time s)', from_cases),
            ('tz', 'fun s : list Z => ser_res_z (from_timezone s)', tz_cases),
        ):
            bad, errs = core.run_cases('C17', name, IMPORTS, fn, cases, shard=800)
            for fnm, out in errs:
                ctx.broken.append(f'model evaluation failed ({fnm}): {out[-600:]}')
            for i in bad[:5]:
                inp, exp = cases[i]
                ctx.violation(f'model and implementation disagree on {name}', {
                    'correspondence': f'Model/TimeFmt.v vs protocol.py ({name})', 'input_term': inp[:2000],
                    'implementation_result': exp[:2000]}, found_input=False)
            ctx.extra[f'correspondence_{name}_cases'] = len(cases)
            ctx.extra[f'correspondence_{name}_disagreements'] = len(bad)
    return ctx.finish()


def replay(ctx, path):
    import json
    from aiosmpplib.protocol import SubmitSm
    with open(path) as f:
        r = json.load(f)
    v = r.get('input', [])
    msg = None
    if r.get('function') == 'absolute':
        tz = timezone(timedelta(seconds=v[9])) if v[8] else None
        msg = oracle_abs(SubmitSm, datetime(v[1], v[2], v[3], v[4], v[5], v[6], v[7], tzinfo=tz))
    elif r.get('function') == 'relative':
        msg = oracle_rel(SubmitSm, timedelta(days=v[1], seconds=v[2], microseconds=v[3]))
    elif r.get('function') == 'from_timezone':
        from aiosmpplib.utils import FixedOffset
        zs = r['input']
        off = FixedOffset.from_timezone(zs).utcoffset(None)
        want = (1 if zs[0] == '+' else -1) * (int(zs[1:3]) * 60 + int(zs[3:5]))
        if off != timedelta(minutes=want):
            msg = f'FixedOffset.from_timezone({zs!r}).utcoffset() = {off!r}, expected {timedelta(minutes=want)!r}'
    print('replay:', msg or 'property holds on this input')
    if msg:
        print(f'VIOLATION property=C17 replay={path}')
        return 1
    return 0
