"""Generators and converters for PDU-level correspondence (C03, C04, C05, C12): real message objects
over the SMPP 3.4 field space <-> Coq terms of Model/Pdu.v <-> canonical integer lists."""
from datetime import datetime, timedelta, timezone

from lib.core import cz, czl, cstr

ENC_NAMES = {None: 'None', 'gsm0338': '(Some EncGsm)', 'gsm0338_packed': '(Some EncGsmPacked)', 'ascii': '(Some EncAscii)',
             'latin_1': '(Some EncLatin1)', 'ucs2': '(Some EncUcs2)', 'octet_unspecified_I': '(Some (EncOctet 2))',
             'octet_unspecified_II': '(Some (EncOctet 4))', 'klingon': '(Some EncNoMember)'}
ENC_SER = {None: [0], 'gsm0338': [1], 'gsm0338_packed': [2], 'ascii': [3], 'latin_1': [4], 'ucs2': [5],
           'octet_unspecified_I': [6, 2], 'octet_unspecified_II': [6, 4], 'klingon': [8]}
STDLIB = {'iso2022_jp': 5, 'iso8859_5': 6, 'iso8859_8': 7, 'shift_jis': 9, 'iso2022jp': 10, 'euc_kr': 14}
DEFAULTS = {'gsm0338': 'EncGsm', 'gsm0338_packed': 'EncGsmPacked', 'ascii': 'EncAscii', 'latin_1': 'EncLatin1', 'ucs2': 'EncUcs2'}
HANDLERS = {'strict': 'HStrict', 'replace': 'HReplace', 'ignore': 'HIgnore'}


def enc_term(e):
    if e in ENC_NAMES:
        return ENC_NAMES[e]
    if e in STDLIB:
        return f'(Some (EncStdlib {STDLIB[e]}))'
    if not e:
        return 'None'
    return '(Some EncNoMember)'


def enc_ser(e):
    if e in ENC_SER:
        return ENC_SER[e]
    if e in STDLIB:
        return [7, STDLIB[e]]
    if not e:
        return [0]
    return [8]


def time_term(t):
    if t is None:
        return 'TNone'
    if isinstance(t, datetime):
        off = t.tzinfo.utcoffset(t) if t.tzinfo else None
        o = 'None' if off is None else f'(Some {cz(off.days * 86400 + off.seconds)})'
        return (f'(TDate {{| c_year := {t.year}; c_month := {t.month}; c_day := {t.day}; c_hour := {t.hour}; '
                f'c_minute := {t.minute}; c_second := {t.second}; c_us := {t.microsecond}; c_off := {o} |}})')
    return f'(TDelta {{| td_days := {cz(t.days)}; td_seconds := {t.seconds}; td_us := {t.microseconds} |}})'


def time_ser(t):
    if t is None:
        return [0]
    if isinstance(t, datetime):
        off = t.tzinfo.utcoffset(t) if t.tzinfo else None
        offs = (off.days * 86400 + off.seconds) if off is not None else 0
        return [1, t.year, t.month, t.day, t.hour, t.minute, t.second, t.microsecond, 0 if off is None else 1, offs]
    return [2, t.days, t.seconds, t.microseconds]


def sstr(s):
    return [len(s)] + [ord(c) for c in s]


def opt_term(p):
    v = p.value
    if isinstance(v, bool):
        vt = f'(TBool {"true" if v else "false"})'
    elif isinstance(v, int):
        vt = f'(TInt {cz(v)})'
    else:
        vt = f'(TStr {cstr(v)})'
    return f'{{| op_tag := {cz(p.tag)}; op_val := {vt} |}}'


def opt_ser(p):
    v = p.value
    if isinstance(v, bool):
        return [p.tag, 3, 1 if v else 0]
    if isinstance(v, int):
        return [p.tag, 1, v]
    return [p.tag, 2] + sstr(v)


def phone_term(p):
    return f'{{| ph_number := {cstr(p.number)}; ph_ton := {int(p.ton)}; ph_npi := {int(p.npi)} |}}'


def msg_term(m):
    from aiosmpplib import protocol as pr
    cmd = int(m.smpp_command)
    if isinstance(m, pr.SubmitSm):
        h = HANDLERS.get(m.error_handling, 'HOther')
        pre = getattr(m, '_encoded_message', b'')
        return (f'(MSm {cmd} {{| s_seq := {cz(m.sequence_num)}; s_status := {int(m.command_status)}; s_short := {cstr(m.short_message)}; '
                f's_src := {phone_term(m.source)}; s_dst := {phone_term(m.destination)}; s_service := {cstr(m.service_type)}; '
                f's_esm := {cz(m.esm_class)}; s_pid := {cz(m.protocol_id)}; s_prio := {cz(m.priority_flag)}; '
                f's_sched := {time_term(m.schedule_delivery_time)}; s_valid := {time_term(m.validity_period)}; '
                f's_regdel := {cz(m.registered_delivery)}; s_replace := {cz(m.replace_if_present_flag)}; s_enc := {enc_term(m.encoding)}; '
                f's_defmsg := {cz(m.sm_default_msg_id)}; s_payload := {cstr(m.message_payload)}; '
                f's_opts := [{"; ".join(opt_term(p) for p in (m.optional_params or []))}]; s_auto := {"true" if m.auto_message_payload else "false"}; '
                f's_err := {h}; s_pre := {czl(list(pre))} |}})')
    if isinstance(m, pr.SubmitSmResp):
        return f'(MSmResp {cmd} {cz(m.sequence_num)} {int(m.command_status)} {cstr(m.message_id)})'
    if isinstance(m, pr.BindTransceiver):
        return (f'(MBind {cmd} {{| b_seq := {cz(m.sequence_num)}; b_status := {int(m.command_status)}; b_system_id := {cstr(m.system_id)}; '
                f'b_password := {cstr(m.password)}; b_system_type := {cstr(m.system_type)}; b_iface := {cz(m.interface_version)}; '
                f'b_ton := {int(m.addr_ton)}; b_npi := {int(m.addr_npi)}; b_range := {cstr(m.address_range)} |}})')
    if isinstance(m, pr.BindTransceiverResp):
        v = m.sc_interface_version
        return f'(MBindResp {cmd} {cz(m.sequence_num)} {int(m.command_status)} {cstr(m.system_id)} {"None" if v is None else "(Some " + cz(v) + ")"})'
    return f'(MPlain {cmd} {cz(m.sequence_num)} {int(m.command_status)})'


def msg_ser(m):
    from aiosmpplib import protocol as pr
    cmd = int(m.smpp_command)
    if isinstance(m, pr.SubmitSm):
        out = [1, cmd, m.sequence_num, int(m.command_status)] + sstr(m.short_message)
        for p in (m.source, m.destination):
            out += sstr(p.number) + [int(p.ton), int(p.npi)]
        out += sstr(m.service_type) + [m.esm_class, m.protocol_id, m.priority_flag] + time_ser(m.schedule_delivery_time) + time_ser(m.validity_period)
        out += [m.registered_delivery, m.replace_if_present_flag] + enc_ser(m.encoding) + [m.sm_default_msg_id] + sstr(m.message_payload)
        ops = m.optional_params or []
        out += [len(ops)]
        for p in ops:
            out += opt_ser(p)
        return out
    if isinstance(m, pr.SubmitSmResp):
        return [2, cmd, m.sequence_num, int(m.command_status)] + sstr(m.message_id)
    if isinstance(m, pr.BindTransceiver):
        return ([3, cmd, m.sequence_num, int(m.command_status)] + sstr(m.system_id) + sstr(m.password) + sstr(m.system_type)
                + [m.interface_version, int(m.addr_ton), int(m.addr_npi)] + sstr(m.address_range))
    if isinstance(m, pr.BindTransceiverResp):
        v = m.sc_interface_version
        return [4, cmd, m.sequence_num, int(m.command_status)] + sstr(m.system_id) + ([0] if v is None else [1, v])
    return [5, cmd, m.sequence_num, int(m.command_status)]


# ----------------------------------------------------------------------------------------
# generators
# ----------------------------------------------------------------------------------------
INT1 = [0, 1, 127, 128, 254, 255]
TEXTS_GSM = ['a', 'Hello €uro {x}', '@Δ_', 'x' * 160, 'y' * 254, 'z' * 255, 'w' * 300]
TEXTS_UCS = ['ы', 'мир 😀', 'a你', 'ж' * 127, 'ж' * 128, '😀' * 64]


def gen_optparams(rng, allow_invalid=False):
    from aiosmpplib import state as st
    int1 = [st.DEST_ADDR_SUBUNIT, st.SOURCE_NETWORK_TYPE, st.PAYLOAD_TYPE, st.PRIVACY_INDICATOR, st.USER_RESPONSE_CODE,
            st.LANGUAGE_INDICATOR, st.SAR_TOTAL_SEGMENTS, st.SAR_SEGMENT_SEQNUM, st.NUMBER_OF_MESSAGES, st.DPF_RESULT, st.SET_DPF,
            st.MS_AVAILABILITY_STATUS, st.DELIVERY_FAILURE_REASON, st.MORE_MESSAGES_TO_SEND, st.MESSAGE_STATE, st.DISPLAY_TIME,
            st.MS_VALIDITY, st.ITS_REPLY_TYPE, st.MS_MSG_WAIT_FACILITIES, st.CALLBACK_NUM_PRES_IND, st.SC_INTERFACE_VERSION,
            st.DEST_NETWORK_TYPE, st.DEST_BEARER_TYPE, st.SOURCE_ADDR_SUBUNIT, st.SOURCE_BEARER_TYPE, st.SOURCE_TELEMATICS_ID]
    int2 = [st.DEST_TELEMATICS_ID, st.USER_MESSAGE_REFERENCE, st.SOURCE_PORT, st.DESTINATION_PORT, st.SAR_MSG_REF_NUM, st.SMS_SIGNAL]
    int4 = [st.QOS_TIME_TO_LIVE]
    cstrs = [st.ADDITIONAL_STATUS_INFO_TEXT, st.RECEIPTED_MESSAGE_ID]
    ostrs = [st.SOURCE_SUBADDRESS, st.DEST_SUBADDRESS, st.CALLBACK_NUM_ATAG, st.CALLBACK_NUM, st.NETWORK_ERROR_CODE, st.USSD_SERVICE_OP,
             st.ITS_SESSION_INFO, 0x1400, 0x3FFF]
    out = []
    for _ in range(rng.choice([0, 0, 1, 2, 3, 6])):
        k = rng.random()
        if k < 0.35:
            v = rng.choice(INT1) if not allow_invalid or rng.random() < 0.9 else rng.choice([256, -1])
            out.append(st.OptionalParam(rng.choice(int1), v))
        elif k < 0.5:
            v = rng.choice([0, 1, 255, 256, 65535]) if not allow_invalid or rng.random() < 0.9 else 65536
            out.append(st.OptionalParam(rng.choice(int2), v))
        elif k < 0.55:
            out.append(st.OptionalParam(rng.choice(int4), rng.choice([0, 1, 2 ** 31, 2 ** 32 - 1])))
        elif k < 0.7:
            out.append(st.OptionalParam(rng.choice(cstrs), rng.choice(['', 'abc', 'ID-42_x', 'm' * 64])))
        elif k < 0.9:
            # octet strings carry any octets, one per character (network_error_code 03 00 A5, subaddress type tags 0x80/0x88/0xA0);
            # a character beyond U+00FF cannot be carried
            v = rng.choice(['', 'a', 'sub:addr', 'X' * 20, 'abc\x00'[:3], '\x03\x00\xa5', '\x80sub', 'ü', '\xff\x00\x7f']) if not allow_invalid or rng.random() < 0.9 else 'ы€'
            out.append(st.OptionalParam(rng.choice(ostrs), v))
        else:
            out.append(st.OptionalParam(st.ALERT_ON_MESSAGE_DELIVERY, rng.random() < 0.85))
    return out


def gen_time(rng):
    k = rng.random()
    if k < 0.6:
        return None
    if k < 0.8:
        return timedelta(seconds=rng.choice([0, 1, 59, 3600, 86399, 86400 * 30, 86400 * 364 + 86399, 63 * 7 * 86400, rng.randint(0, 63 * 7 * 86400)]))
    return datetime(rng.randint(2000, 2099), rng.randint(1, 12), rng.randint(1, 28), rng.randint(0, 23), rng.randint(0, 59), rng.randint(0, 59),
                    rng.choice([0, 100000, 900000]), tzinfo=timezone(timedelta(minutes=15 * rng.randint(-48, 48))))


def gen_phone(rng):
    from aiosmpplib.state import PhoneNumber, TON, NPI
    return PhoneNumber(rng.choice(['', '1', '38599123456', '+' * 1 + '1' * 19, 'ALPHA', '1' * 20]), rng.choice(list(TON)), rng.choice(list(NPI)))


def gen_sm(rng, cls, valid_only=True):
    """A SubmitSm/DeliverSm over the SMPP field space; valid_only keeps it inside the round-trip domain."""
    default = rng.choice(['gsm0338', 'gsm0338', 'gsm0338', 'latin_1', 'ascii', 'ucs2'])
    enc = rng.choice([None, None, None, 'gsm0338', 'ucs2', 'ascii', 'latin_1'])
    if enc is None and default != 'gsm0338':
        text = rng.choice(['plain text', 'n' * 254, 'o' * 255] + (TEXTS_UCS if default == 'ucs2' else ['café'] if default == 'latin_1' else []))
    elif enc in (None, 'gsm0338'):
        text = rng.choice(TEXTS_GSM + (TEXTS_UCS if enc is None else []))
    elif enc == 'ucs2':
        text = rng.choice(TEXTS_UCS + TEXTS_GSM[:3])
    elif enc == 'ascii':
        text = rng.choice(['plain ascii', 'q' * 254, 'r' * 255, '~`'])
    else:
        text = rng.choice(['café', 'ÿ' * 10, 'x' * 260])
    if rng.random() < 0.06:
        text = ''            # an empty text is legal: sm_length 0 and no message_payload
    use_payload = rng.random() < 0.2
    kw = dict(short_message='' if use_payload else text, message_payload=text if use_payload else '',
              source=gen_phone(rng), destination=gen_phone(rng), service_type=rng.choice(['', 'CMT', 'abcde']),
              esm_class=rng.choice([0, 0, 3, 0x04, 0x80, 0xC3 & 0xBF]), protocol_id=rng.choice(INT1), priority_flag=rng.choice([0, 1, 3]),
              schedule_delivery_time=gen_time(rng), validity_period=gen_time(rng), registered_delivery=rng.choice([0, 1, 2, 0x11, 255]),
              replace_if_present_flag=rng.choice([0, 1]), encoding=enc, sm_default_msg_id=rng.choice([0, 1, 255]),
              optional_params=gen_optparams(rng, allow_invalid=not valid_only), sequence_num=rng.choice([0, 1, 0x7FFFFFFF, 12345]))
    if not valid_only:
        r = rng.random()
        if r < 0.15:
            kw['esm_class'] = rng.choice([-1, 0x40, 0x43])
        elif r < 0.3:
            kw['encoding'] = rng.choice(['klingon', 'octet_unspecified_I', 'gsm0338_packed'])
        elif r < 0.4:
            kw['service_type'] = 'naïve'[:5]
        elif r < 0.5:
            kw['auto_message_payload'] = False
        elif r < 0.6:
            kw['error_handling'] = rng.choice(['replace', 'ignore', 'foo'])
        elif r < 0.7:
            kw['sequence_num'] = rng.choice([-1, 2 ** 32 - 1])
        elif r < 0.8:
            kw['validity_period'] = timedelta(weeks=64)
    try:
        return cls(**kw), default
    except ValueError:
        if text != '':
            raise
        # a library that refuses to build a message with an empty text: the generator goes on with a non-empty one (the decode
        # direction of C03/C04 exhibits the refusal on a conformant PDU)
        kw['message_payload' if use_payload else 'short_message'] = 'a'
        return cls(**kw), default


def gen_simple(rng):
    from aiosmpplib import protocol as pr
    from aiosmpplib.state import SmppCommandStatus, TON, NPI
    st = rng.choice(list(SmppCommandStatus))
    seq = rng.choice([0, 1, 0x7FFFFFFF, 2 ** 32 - 1, 77])
    k = rng.randrange(13)
    if k == 0:
        return pr.SubmitSmResp(sequence_num=seq, command_status=st, message_id=rng.choice(['', 'abc', 'x' * 64, 'ID 1']))
    if k == 1:
        return pr.DeliverSmResp(sequence_num=seq, command_status=st, message_id=rng.choice(['', 'r1']))
    if k in (2, 3, 4):
        cls = [pr.BindTransceiver, pr.BindTransmitter, pr.BindReceiver][k - 2]
        return cls(sequence_num=seq, system_id=rng.choice(['', 'esme', 's' * 15]), password=rng.choice(['', 'pw', 'p' * 8]),
                   system_type=rng.choice(['', 'SMPP', 't' * 12]), interface_version=rng.choice([0x34, 0, 255]),
                   addr_ton=rng.choice(list(TON)), addr_npi=rng.choice(list(NPI)), address_range=rng.choice(['', '^385', 'r' * 40]))
    if k in (5, 6, 7):
        cls = [pr.BindTransceiverResp, pr.BindTransmitterResp, pr.BindReceiverResp][k - 5]
        return cls(sequence_num=seq, command_status=st, system_id=rng.choice(['', 'SMSC', 'c' * 15]), sc_interface_version=rng.choice([None, 0x34, 0, 255]))
    cls = [pr.EnquireLink, pr.EnquireLinkResp, pr.Unbind, pr.UnbindResp, pr.GenericNack][k - 8]
    return cls(sequence_num=seq, command_status=st)
