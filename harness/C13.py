"""C13 - sequence numbers and request/response matching: proofs (Props/C13.v) + correspondence of
Model/Seq.v with sequence.py and with the real ESME._send_data / _handle_response / SimpleCorrelator
driven through interleaved histories (sending hook suspended between number assignment and put)."""
import asyncio

from lib import core
from lib.core import cz, czl
from harness import common, sess

THEOREMS = ['C13_generator_range', 'C13_default_range', 'C13_fresh_number', 'C13_generators_only_advanced', 'C13_resumed_numbers_are_fresh', 'C13_at_most_once',
            'C13_attribution_sound', 'C13_store_keyed_invariant', 'C13_unmatched_attributes_nothing', 'C13_other_type_leaves_request',
            'C13_no_keyerror', 'C13_nonvacuous', 'C13_resume_nonvacuous']
IMPORTS = ['AV.Model.Base', 'AV.Model.Seq']

HANDLED_RESPONSES = (0x80000004, 0x80000015, 0x80000006, 0x80000009, 0x80000001, 0x80000002, 0x80000000)
REQ_CMDS = [0x4, 0x15, 0x6, 0x9]           # submit_sm, enquire_link, unbind, bind_transceiver
RESP_CMDS = [0x80000004, 0x80000015, 0x80000006, 0x80000009, 0x80000000, 0x80000001, 0x80000002,
             0x80000005, 0x80000003, 0x80000103]


def gen_history(rng, n, seq_window):
    """Mostly-valid history: sends, puts, answers for outstanding numbers; plus duplicates, unknown
    numbers, wrong-type responses, nacks, drops and expiries."""
    ev = []
    nid = 0
    pending = []
    for _ in range(n):
        r = rng.random()
        if r < 0.30:
            cmd = rng.choice([4, 4, 4, 0x15, 0x6, 0x9]) if rng.random() < 0.95 else 0x80000005
            ev.append(('A', cmd))
            if cmd in REQ_CMDS:
                pending.append(nid)
                nid += 1
        elif r < 0.55 and pending:
            i = pending.pop(rng.randrange(len(pending)))
            ev.append(('P', i) if rng.random() < 0.9 else ('D', i))
        elif r < 0.95:
            kind = rng.random()
            if kind < 0.55:
                cmd = 0x80000004
            elif kind < 0.7:
                cmd = 0x80000000
            else:
                cmd = rng.choice(RESP_CMDS)
            seq = rng.choice(seq_window) if rng.random() < 0.9 else rng.randint(1, 0x7FFFFFFF)
            if rng.random() < 0.08:
                seq |= 0x80000000              # a number no request can carry: the reserved top bit set on a live number
            ev.append(('R', cmd, seq))
            if rng.random() < 0.15:
                ev.append(('R', cmd, seq))     # duplicate
        else:
            ev.append(('X', rng.choice(seq_window)))
    return ev


def make_message(cmd, nid):
    from aiosmpplib.protocol import (SubmitSm, EnquireLink, Unbind, BindTransceiver, DeliverSmResp)
    from aiosmpplib.state import PhoneNumber
    # requests may arrive with any pre-set sequence_num (re-queued / restored objects): a fresh
    # number must be assigned all the same; responses keep theirs
    pre = PRESET[nid % len(PRESET)]
    if cmd == 4:
        return SubmitSm(short_message='x', source=PhoneNumber('1'), destination=PhoneNumber('2'), log_id=f'L{nid}', sequence_num=pre)
    if cmd == 0x15:
        return EnquireLink(sequence_num=pre)
    if cmd == 0x6:
        return Unbind(sequence_num=pre)
    if cmd == 0x9:
        return BindTransceiver(system_id='a', password='b', sequence_num=pre)
    return DeliverSmResp(sequence_num=0)


PRESET = [0, 3, 0, 1, 2147483647, 0, 2, 5]


def response_pdu(cmd, seq):
    from aiosmpplib.protocol import SubmitSmResp, BindTransceiverResp
    if cmd == 0x80000004 and seq > 0x7FFFFFFF:
        return sess.header_pdu(cmd, 0, seq, b'm%d\x00' % (seq % 1000))
    if cmd == 0x80000004:
        return SubmitSmResp(sequence_num=seq, message_id='m%d' % (seq % 1000)).pdu()
    if cmd in (0x80000009, 0x80000001, 0x80000002):
        return sess.header_pdu(cmd, 0, seq, b'smsc\x00')
    return sess.header_pdu(cmd, 0, seq)


async def run_impl(history, mn, mx, cur):
    """Drive the real ESME; return (outcomes flat list, final store, observations for the oracle)."""
    from aiosmpplib.protocol import SmppMessage
    from aiosmpplib.sequence import SimpleSequenceGenerator
    loop = asyncio.get_running_loop()
    gen = SimpleSequenceGenerator(mn, mx)
    gen.sequence_num = cur
    esme, hook = sess.make_esme(sequence_generator=gen)
    _r, writer, tr, _p = sess.make_stream(loop)
    esme._writer = writer
    esme._bound.set()
    gates = {}

    def gate(msg, pdu):
        fut = loop.create_future()
        gates[id(msg)] = fut
        return fut
    hook.sending_gate = gate
    out = []
    obs = {'assigned': [], 'attributions': []}
    tasks = {}      # ghost id -> (task, msg)
    nid = 0
    for e in history:
        if e[0] == 'A':
            cmd = e[1]
            msg = make_message(cmd, nid)
            t = loop.create_task(esme._send_data(msg))
            await sess.settle()
            if cmd in REQ_CMDS:
                if t.done() and t.exception() is not None:
                    out += [3, gen.sequence_num]
                else:
                    tasks[nid] = (t, msg)
                    obs['assigned'].append((nid, cmd, msg.sequence_num))
                nid += 1
            else:
                fut = gates.pop(id(msg), None)
                if fut:
                    fut.set_result(None)
                await sess.settle()
        elif e[0] == 'P':
            ent = tasks.pop(e[1], None)
            if ent is None:
                continue
            t, msg = ent
            old = esme.correlator._store._data.get(str(msg.sequence_num))
            if old is not None:
                oid = None
                # identify the overwritten request by its object
                for i, m in list(all_msgs.items()):
                    if m is old[1]:
                        oid = i
                out += [2, oid if oid is not None else -9]
            gates.pop(id(msg)).set_result(None)
            await sess.settle()
            await t
        elif e[0] == 'D':
            ent = tasks.pop(e[1], None)
            if ent is None:
                continue
            t, msg = ent
            t.cancel()
            await sess.settle()
        elif e[0] == 'R':
            _k, cmd, seq = e
            pdu = response_pdu(cmd, seq)
            header = SmppMessage.parse_header(pdu)
            res = await esme._handle_response(pdu, header)
            lid = getattr(res, 'log_id', '') if res is not None else ''
            if lid:
                out += [1, cmd, seq, int(lid[1:])]
                obs['attributions'].append((cmd, seq, int(lid[1:])))
        elif e[0] == 'X':
            esme.correlator._store.pop(str(e[1]), None)
        # keep a map ghost id -> message object for collision identification
    store = []
    for k, v in esme.correlator._store._data.items():
        gid = next((i for i, m in all_msgs.items() if m is v[1]), -9)
        store += [int(k), gid]
    for t, _m in tasks.values():
        t.cancel()
    await sess.settle()
    return out + [-1] + store, obs


all_msgs = {}


async def run_impl_wrapped(history, mn, mx, cur):
    # ghost id -> message object, filled by patching make_message
    global all_msgs
    all_msgs = {}
    orig = make_message

    def mk(cmd, nid):
        m = orig(cmd, nid)
        if cmd in REQ_CMDS:
            all_msgs[nid] = m
        return m
    globals()['make_message'] = mk
    try:
        return await run_impl(history, mn, mx, cur)
    finally:
        globals()['make_message'] = orig


def coq_event(e):
    if e[0] == 'A':
        return f'EAssign {cz(e[1])}'
    if e[0] == 'P':
        return f'EPut {e[1]}'
    if e[0] == 'D':
        return f'EDrop {e[1]}'
    if e[0] == 'R':
        return f'EResp {cz(e[1])} {cz(e[2])}'
    return f'EExpire {cz(e[1])}'


def oracle(obs, mn, mx, history):
    """C13 on the observations of the real code, independent of the model."""
    compat = {4: 0x80000004, 0x15: 0x80000015, 0x6: 0x80000006, 0x9: 0x80000009}
    seq_of = {i: s for i, _c, s in obs['assigned']}
    cmd_of = {i: c for i, c, _s in obs['assigned']}
    for i, c, s in obs['assigned']:
        if not (mn <= s <= mx):
            return f'request {i} got sequence number {s} outside {mn}..{mx}'
    seen = set()
    for cmd, seq, gid in obs['attributions']:
        if gid in seen:
            return f'request {gid} attributed twice'
        seen.add(gid)
        if seq_of.get(gid) != seq:
            return f'response seq {seq} attributed to request {gid} with seq {seq_of.get(gid)}'
        if not (cmd == 0x80000000 or compat.get(cmd_of[gid]) == cmd):
            return f'response command {cmd:#x} attributed to request {gid} of command {cmd_of[gid]:#x}'
    # the matching itself, replayed from the history: a request stays outstanding until a response with its number AND a compatible
    # command (or a generic_nack) arrives, it is dropped, or it expires - a response of another type does not use it up
    outstanding = {}
    pending_attr = list(obs['attributions'])
    for e in history:
        if e[0] == 'P' and e[1] in seq_of:
            outstanding[seq_of[e[1]]] = e[1]
        elif e[0] == 'X':
            outstanding.pop(e[1], None)
        elif e[0] == 'R':
            _k, cmd, seq = e
            gid = outstanding.get(seq)
            if gid is None or cmd not in HANDLED_RESPONSES:
                continue
            if cmd == 0x80000000 or compat.get(cmd_of[gid]) == cmd:
                del outstanding[seq]
                if cmd_of[gid] == 4:
                    if (cmd, seq, gid) in pending_attr:
                        pending_attr.remove((cmd, seq, gid))
                    else:
                        return (f'the response {cmd:#x} with sequence number {seq} was not attributed to the outstanding submit_sm {gid} '
                                f'(a response of another type with that number had arrived before?)')
    return None


def run_reconnect(rng, n_msgs, ttl, drop_after, answer_p, keepalive):
    """whole sessions with connection losses while requests are outstanding: the numbers on the wire (all connections)"""
    import struct
    from harness import vsess, smppref
    from aiosmpplib.correlator import SimpleCorrelator
    from aiosmpplib.protocol import SubmitSm
    from aiosmpplib.state import PhoneNumber
    loop = vsess.VLoop()
    asyncio.set_event_loop(loop)
    smsc = vsess.FakeSMSC(loop)
    undo = vsess.install(loop, smsc)
    obs = {'requests': [], 'answers': {}, 'outcomes': []}
    try:
        esme, hook = vsess.quiet_esme(enquire_link_interval=keepalive, socket_timeout=4.0, correlator=SimpleCorrelator('c13', max_ttl_response=ttl))
        count = [0]

        def on_pdu(conn, pdu):
            for p in vsess.split_pdus(pdu)[0]:
                cmd, seq = struct.unpack('>I', p[4:8])[0], struct.unpack('>I', p[12:16])[0]
                if cmd < 0x80000000:
                    obs['requests'].append((loop.time(), conn.index, cmd, seq))
                if cmd in (1, 2, 9):
                    conn.send(vsess.bind_resp_for(p))
                elif cmd == 0x15:
                    conn.send(smppref.header(0x80000015, 0, seq))
                    obs['answers'][(conn.index, seq)] = loop.time()
                elif cmd == 4:
                    count[0] += 1
                    if rng.random() < answer_p:
                        conn.send(smppref.header(0x80000004, 0, seq, b'id%d\x00' % seq), delay=0.01)
                        obs['answers'][(conn.index, seq)] = loop.time()
                    if count[0] in drop_after:
                        conn.reset(delay=0.02) if rng.random() < 0.5 else conn.eof(delay=0.02)
        smsc.on_pdu = on_pdu

        async def main():
            t = asyncio.create_task(esme.start())
            await asyncio.sleep(1.0)
            for j in range(n_msgs):
                await esme.broker.enqueue(SubmitSm(short_message='m%d' % j, source=PhoneNumber('1'), destination=PhoneNumber('2'), log_id=f'L{j}'))
                await asyncio.sleep(rng.choice([0.0, 0.0, 0.3, 1.0, float(ttl) / 2]))
            await asyncio.sleep(float(ttl) * 3 + 3 * keepalive + 10)
            obs['start_done'] = t.done()
            for e in hook.log:
                if e[0] == 'received' and e[1] is not None and getattr(e[1], 'log_id', ''):
                    obs['outcomes'].append((e[1].log_id, 'resp', e[1].sequence_num))
                elif e[0] == 'send_error' and getattr(e[1], 'log_id', ''):
                    obs['outcomes'].append((e[1].log_id, type(e[2]).__name__, e[1].sequence_num))
            obs['sent'] = [(e[1].log_id, e[1].sequence_num) for e in hook.log if e[0] == 'sending' and isinstance(e[1], SubmitSm)]
            if not t.done():
                t.cancel()
                try:
                    await t
                except BaseException:  # noqa: BLE001
                    pass
        loop.run_until_complete(main())
    finally:
        undo()
        vsess.finish(loop)
    return obs


def run_restart(gap, ttl=10.0):
    """a restart of the application on a persisted correlator: life 1 sends A (never answered) and B (two segments, accepted, receipts
    pending) and is stopped; `gap` seconds later life 2 - a new ESME with a new SimpleCorrelator on the same directory, default generators -
    sends C and D (two segments); the receipts for B and D arrive in life 2."""
    import shutil
    import struct
    import tempfile
    from harness import vsess, smppref
    from aiosmpplib.correlator import SimpleCorrelator
    from aiosmpplib.protocol import SubmitSm, SubmitSmResp, GenericNack, DeliverSm
    from aiosmpplib.state import PhoneNumber
    loop = vsess.VLoop()
    asyncio.set_event_loop(loop)
    smsc = vsess.FakeSMSC(loop)
    undo = vsess.install(loop, smsc)
    tmp = tempfile.mkdtemp(prefix='av_c13_')
    obs = {'requests': [], 'events': [], 'ids': {}}
    try:
        silent = set()
        counter = [0]

        def rc(seq, mid):
            text = f'id:{mid} sub:001 dlvrd:001 submit date:2401011200 done date:2401011201 stat:DELIVRD err:000 Text:hello'.encode()
            return smppref.encode_sm(5, seq, src=b'1', dst=b'2', esm_class=0x04, short_message=text)

        def on_pdu(conn, pdu):
            for p in vsess.split_pdus(pdu)[0]:
                cmd, seq = struct.unpack('>I', p[4:8])[0], struct.unpack('>I', p[12:16])[0]
                if cmd < 0x80000000:
                    obs['requests'].append((loop.time(), conn.index, cmd, seq))
                if cmd in (1, 2, 9):
                    conn.send(vsess.bind_resp_for(p))
                    if conn.index == 1:
                        # the receipts of life 1's segmented message arrive in life 2
                        for j, mid in enumerate(sorted(m for m, c in obs['ids'].items() if c == 0)):
                            conn.send(rc(7000 + j, mid), delay=4.0 + j)
                elif cmd == 0x15:
                    conn.send(smppref.header(0x80000015, 0, seq), delay=0.01)
                elif cmd == 6:
                    conn.send(smppref.header(0x80000006, 0, seq), delay=0.01)
                elif cmd == 4:
                    counter[0] += 1
                    if conn.index == 0 and counter[0] == 1:
                        continue                                    # A: never answered
                    mid = 'm%d' % counter[0]
                    obs['ids'][mid] = conn.index
                    conn.send(smppref.header(0x80000004, 0, seq, mid.encode() + b'\x00'), delay=0.05)
                    if conn.index == 1:
                        conn.send(rc(7100 + counter[0], mid), delay=8.0 + counter[0])
        smsc.on_pdu = on_pdu
        src = PhoneNumber('38591')

        def mk(lid, segmented):
            return SubmitSm(short_message='s' * 300 if segmented else 'hello ' + lid, source=src, destination=src, log_id=lid, extra_data='X' + lid,
                            auto_message_payload=not segmented, registered_delivery=1)

        def collect(hook, life):
            for e in hook.log:
                if e[0] == 'send_error' and isinstance(e[1], SubmitSm):
                    obs['events'].append((life, 'error', e[1].log_id, type(e[2]).__name__))
                elif e[0] == 'received' and isinstance(e[1], (SubmitSmResp, GenericNack)):
                    obs['events'].append((life, 'response', e[1].log_id, e[1].extra_data))
                elif e[0] == 'received' and isinstance(e[1], DeliverSm):
                    obs['events'].append((life, 'receipt', e[1].log_id, e[1].extra_data))
                elif e[0] == 'sending' and isinstance(e[1], SubmitSm):
                    obs.setdefault('sent', []).append((life, e[1].log_id, e[1].sequence_num))

        async def main():
            esme1, hook1 = vsess.quiet_esme(enquire_link_interval=50.0, socket_timeout=4.0, correlator=SimpleCorrelator('r', tmp, max_ttl_response=ttl))
            t1 = asyncio.create_task(esme1.start())
            await asyncio.sleep(0.5)
            await esme1.broker.enqueue(mk('A', False))
            await esme1.broker.enqueue(mk('B', True))
            await asyncio.sleep(1.5)
            await esme1.stop()
            await asyncio.sleep(0.5)
            obs['life1_ended'] = t1.done()
            if not t1.done():
                t1.cancel()
            await asyncio.gather(t1, return_exceptions=True)
            collect(hook1, 1)
            await asyncio.sleep(gap)
            esme2, hook2 = vsess.quiet_esme(enquire_link_interval=5.0, socket_timeout=4.0, correlator=SimpleCorrelator('r', tmp, max_ttl_response=ttl))
            t2 = asyncio.create_task(esme2.start())
            await asyncio.sleep(0.5)
            await esme2.broker.enqueue(mk('C', False))
            await esme2.broker.enqueue(mk('D', True))
            await asyncio.sleep(ttl * 3 + 30.0)
            obs['life2_running'] = not t2.done()
            collect(hook2, 2)
            t2.cancel()
            await asyncio.gather(t2, return_exceptions=True)
        loop.run_until_complete(main())
    finally:
        undo()
        vsess.finish(loop)
        shutil.rmtree(tmp, ignore_errors=True)
    return obs


def restart_oracle(obs):
    if not obs.get('life1_ended'):
        return 'start() of the first life did not end after stop()'
    if not obs.get('life2_running'):
        return 'start() of the second life ended'
    sent = obs.get('sent', [])
    old = {sq for life, lid, sq in sent if life == 1}
    reused = [(lid, sq) for life, lid, sq in sent if life == 2 and sq in old]
    if reused:
        return (f'after the restart on the persisted correlator new requests were sent under sequence numbers that the persisted requests of the first '
                f'life carry (A unanswered and younger than the time-to-live, B waiting for its receipts): {reused}')
    ev = obs['events']
    for lid in ('A', 'B', 'C', 'D'):
        outs = [e for e in ev if e[2] == lid and e[1] in ('error', 'response')]
        if len(outs) != 1:
            return f'message {lid} got {len(outs)} send outcomes: {outs}'
        if lid == 'A' and outs[0][3] != 'TimeoutError':
            return f'the unanswered message A was reported as {outs[0]}'
        if lid != 'A' and (outs[0][1] != 'response' or outs[0][3] != 'X' + lid):
            return f'the accepted message {lid} was reported as {outs[0]}'
    for lid in ('B', 'D'):
        rs = [e for e in ev if e[1] == 'receipt' and e[2] == lid]
        if len(rs) != 1 or rs[0][3] != 'X' + lid:
            return f'the segmented message {lid} (accepted in full, receipts for both segments sent) got the receipt events {rs}; all receipt events: {[e for e in ev if e[1] == "receipt"]}'
    rs = [e for e in ev if e[1] == 'receipt' and e[2] == 'C']
    if len(rs) != 1:
        return f'the plain message C got the receipt events {rs}'
    return None


def reconnect_oracle(obs, ttl):
    """no request is written with a number that an earlier request, still unanswered and younger than the time-to-live, carries;
    every number lies in 1..0x7FFFFFFF; an outcome names the message that was sent under that number"""
    reqs = obs['requests']
    for i, (t, ci, cmd, seq) in enumerate(reqs):
        if not 1 <= seq <= 0x7FFFFFFF:
            return f'request {cmd:#x} written with sequence number {seq}'
        for (t0, c0, cmd0, seq0) in reqs[:i]:
            if seq0 == seq and t - t0 <= float(ttl):
                ta = obs['answers'].get((c0, seq0))
                if ta is None or ta > t:
                    return (f'request {cmd:#x} on connection {ci} was written with sequence number {seq} at t={t:.2f} while request {cmd0:#x} written '
                            f'on connection {c0} at t={t0:.2f} under the same number was still outstanding (ttl {float(ttl)})')
    by_seq = {}
    for lid, seq in obs['sent']:
        by_seq.setdefault(seq, []).append(lid)
    for lid, kind, seq in obs['outcomes']:
        if kind == 'resp' and lid not in by_seq.get(seq, []):
            return f'a response with sequence number {seq} was attributed to {lid}, which was sent under {[s for l, s in obs["sent"] if l == lid]}'
    return None


def run(ctx):
    ctx.rule = ('generator: (min,max,start) triples incl. starts just below max, 40 successive numbers each; matching: seeded histories of '
                'assign/put/drop/response/expire events driven through the real ESME (_send_data suspended in the sending hook between number '
                'assignment and correlator.put, _handle_response called with real PDUs); non-trivial = history with >= 1 attribution or collision')
    ctx.trusted_base = ['Coq 8.16.1 kernel; no axioms', 'translator/py2coq.py (COMMAND_RESPONSE_MAP, handled response tuple, sequence bounds, defaults)',
                        'correspondence harness harness/C13.py + harness/sess.py (fake transport, recording hook)']
    ctx.assumptions = ['asyncio single-threaded cooperative scheduling: a coroutine is atomic between awaits',
                       'expiry is modelled as an arbitrary environment deletion of a key (superset of the TTL sweep)']
    proved = ctx.prove('C13', THEOREMS)
    rng = ctx.rng
    # ---- generator differential
    from aiosmpplib.sequence import SimpleSequenceGenerator
    gen_cases = []
    triples = [(1, 0x7FFFFFFF, 0), (1, 0x7FFFFFFF, 0x7FFFFFFE), (1, 0x7FFFFFFF, 0x7FFFFFFF), (0, 255, -1), (0, 255, 250),
               (5, 5, 4), (5, 5, 5), (1, 3, 0), (10, 12, 12)]
    for _ in range(60 if ctx.thorough else 25):
        mn = rng.randint(0, 1000)
        mx = mn + rng.choice([0, 1, 2, 7, 255, 100000])
        triples.append((mn, mx, rng.randint(mn - 1, mx)))
    for mn, mx, cur in triples:
        g = SimpleSequenceGenerator(mn, mx)
        g.sequence_num = cur
        outs = [g.next_sequence() for _ in range(40)]
        gen_cases.append((f'({cz(mn)}, {cz(mx)}, {cz(cur)})', czl(outs)))
        ctx.case(('gen', mn, mx, cur))
        if any(not (mn <= o <= mx) for o in outs):
            ctx.violation(f'generator({mn},{mx}) started at {cur} left its range: {outs[:5]}', {'function': 'next_sequence', 'input': [mn, mx, cur]})
        P = mx - mn + 1
        for i in range(len(outs)):
            for j in range(i + 1, min(len(outs), i + P)):
                if outs[i] == outs[j]:
                    ctx.violation(f'generator({mn},{mx}) repeated {outs[i]} within one period', {'function': 'next_sequence', 'input': [mn, mx, cur]})
    ctx.count('generator_triples', len(triples))
    # ---- the generator of a new ESME on a correlator that still knows requests (restart on persisted stores)
    from harness import sess as _sess
    from aiosmpplib.correlator import SimpleCorrelator as _SC
    from aiosmpplib.protocol import SubmitSm as _SM, EnquireLink as _EL
    from aiosmpplib.state import PhoneNumber as _PN
    resume_cases = []
    fixed_sets = [list(range(2, 12)), [9, 10], [99, 100, 101], [5, 50, 500, 5000], [999999, 1000000]]
    for j in range((60 if ctx.thorough else 20) + len(fixed_sets)):
        corr = _SC('c13r')
        stored = []
        if j < len(fixed_sets):
            # numbers of different digit counts: the largest is not the last in string order
            for n in fixed_sets[j]:
                m = _SM(short_message='x', source=_PN('1'), destination=_PN('2'), log_id='r%d' % n)
                m.sequence_num = n
                corr._store[str(n)] = (0.0, m)
                stored.append(n)
        for _ in range(0 if j < len(fixed_sets) else rng.choice([0, 0, 1, 2, 5, 12, 30])):
            n = rng.choice([rng.randint(1, 50), rng.randint(1, 12), rng.randint(90, 1100), rng.randint(1, 0x7FFFFFFF), 0x7FFFFFFF - rng.randint(0, 3)])
            m = _SM(short_message='x', source=_PN('1'), destination=_PN('2'), log_id='r%d' % n)
            m.sequence_num = n
            where = rng.choice(['store', 'segment', 'delivery'])
            if where == 'store':
                corr._store[str(n)] = (0.0, m if rng.random() < 0.7 else _EL(sequence_num=n))
            elif where == 'segment':
                corr._segment_store[str(n)] = ('7/%d' % n, 1)
            else:
                corr._delivery_store['id%d' % n] = (0.0, m)
            stored.append(n)
        esme, _h = _sess.make_esme(correlator=corr)
        g = esme.sequence_generator
        outs = [g.sequence_num] + [g.next_sequence() for _ in range(3)]
        ctx.case(('resume', tuple(stored)), nontrivial=bool(stored))
        if any(o in stored for o in outs[1:]) and max(stored) + 3 <= 0x7FFFFFFF:
            ctx.violation(f'a new ESME on a correlator that still knows the sequence numbers {stored} hands out {outs[1:]}',
                          {'function': 'resume', 'stored': stored})
        resume_cases.append((f'(1, 2147483647, {czl(stored)})', czl(outs)))
    if proved or not getattr(ctx, 'build_failing', None):
        bad, errs = core.run_cases('C13', 'resume', IMPORTS + ['AV.Model.Resume'], 'fun p : Z * Z * list Z => ser_resume (fst (fst p)) (snd (fst p)) (snd p)',
                                   resume_cases, shard=200)
        for fnm, out in errs:
            ctx.broken.append(f'model evaluation failed ({fnm}): {out[-600:]}')
        for i in bad[:5]:
            inp, exp = resume_cases[i]
            ctx.violation('model and implementation disagree on where a new ESME continues its sequence numbers', {
                'correspondence': 'Model/Resume.v vs ESME.__init__ / SimpleCorrelator.last_sequence_num', 'input_term': inp, 'implementation_result': exp},
                found_input=False)
        ctx.extra['correspondence_resume_cases'] = len(resume_cases)
        ctx.extra['correspondence_resume_disagreements'] = len(bad)
    # ---- matching histories through the real ESME
    hist_cases = []
    nh = 6000 if ctx.thorough else 250
    for h in range(nh):
        if h % 3 == 0:
            mn, mx, cur = 1, 0x7FFFFFFF, rng.choice([0, 0x7FFFFFFF - 3, 0x7FFFFFFF - 1, 0x7FFFFFFF, 12345])
        elif h % 3 == 1:
            mn, mx = 1, rng.choice([2, 3, 5, 8])       # tiny period: forces collisions
            cur = rng.randint(0, mx)
        else:
            mn, mx, cur = 1, 0x7FFFFFFF, rng.randint(0, 50)
        # window of plausible numbers: the next 12 to be handed out
        g = SimpleSequenceGenerator(mn, mx)
        g.sequence_num = cur
        window = [g.next_sequence() for _ in range(12)]
        hist = gen_history(rng, rng.randint(5, 60 if ctx.thorough else 40), window)
        res, obs = asyncio.run(run_impl_wrapped(hist, mn, mx, cur))
        ctx.traces += 1
        hist_cases.append((f'(({cz(mn)}, {cz(mx)}, {cz(cur)}), [{"; ".join(coq_event(e) for e in hist)}])', czl(res)))
        ctx.case(('hist', h, tuple(hist)), nontrivial=(1 in res[:res.index(-1)] or 2 in res[:res.index(-1)]))
        for e in hist:
            ctx.count('event_' + e[0])
        msg = oracle(obs, mn, mx, hist)
        if msg:
            ctx.violation(msg, {'function': 'history', 'generator': [mn, mx, cur], 'history': hist})
        if h < 2:
            ctx.sample({'generator': [mn, mx, cur], 'history': hist[:14], 'impl_outcomes_then_store': res})
    if proved or not getattr(ctx, 'build_failing', None):
        for name, fn, cases in (
            ('gen', 'fun p : Z * Z * Z => let fix go (k : nat) (g : seqgen) := match k with O => [] | S k\' => let \'(n, g\') := next_sequence g in n :: go k\' g\' end in go 40%nat {| sg_min := fst (fst p); sg_max := snd (fst p); sg_cur := snd p |}', gen_cases),
            ('hist', 'fun p : (Z * Z * Z) * list event => ser_run (fst (fst (fst p))) (snd (fst (fst p))) (snd (fst p)) (snd p)', hist_cases),
        ):
            bad, errs = core.run_cases('C13', name, IMPORTS, fn, cases, shard=200)
            for fnm, out in errs:
                ctx.broken.append(f'model evaluation failed ({fnm}): {out[-600:]}')
            for i in bad[:5]:
                inp, exp = cases[i]
                ctx.violation(f'model and implementation disagree on {name}', {
                    'correspondence': f'Model/Seq.v vs sequence.py/esme.py/correlator.py ({name})', 'input_term': inp[:3000],
                    'implementation_result': exp[:2000]}, found_input=False)
            ctx.extra[f'correspondence_{name}_cases'] = len(cases)
            ctx.extra[f'correspondence_{name}_disagreements'] = len(bad)
    # ---- concurrent correlator calls with a suspending send_error hook (the scripts and the real-code runner of C14): a response may only
    #      match a request that is still outstanding - not one already reported as timed out
    from fractions import Fraction
    from harness import C14
    for j in range(800 if ctx.thorough else 40):
        ttl = Fraction(rng.choice([1, 2, 15]))
        script = C14.gen_script(rng, rng.randint(6, 14), ttl)
        _obs, hooklog, executed, info = asyncio.run(C14.run_real(script, ttl))
        ctx.case(('concurrent', repr(script)), nontrivial=bool(hooklog))
        ctx.count('concurrent_script')
        msg = C14.oracle(ttl, hooklog, executed, info)
        if msg and ('answered' in msg or 'twice' in msg):
            ctx.violation(f'a response matched a request that was no longer outstanding: {msg}', {'function': 'concurrent', 'script': repr(script)[:1500], 'ttl': str(ttl)})
    # ---- duplicate, late and unsolicited responses that carry the number of a segment of a message that already has its outcome:
    #      the bookkeeping of the segments outlives the request store - nothing may be attributed a second time
    from harness import C01 as _C01
    for k in (2, 3):
        for first_fails in (False, True):
            hist = [('put', 10 + i, 100 + i, 1, (9, i + 1, k)) for i in range(k)]
            for i in range(k):
                hist.append(('resp', 20 + i, 0x80000004, 100 + i, 0x58 if (first_fails and i == 0) else 0, 0 if (first_fails and i == 0) else 500 + i))
            n0 = len(hist)
            for i in range(k):
                hist.append(('resp', 30 + i, 0x80000004, 100 + i, 0, 600 + i))          # duplicate / late submit_sm_resp
                hist.append(('resp', 40 + i, 0x80000000, 100 + i, 3, 0))                 # unsolicited generic_nack
                hist.append(('resp', 50 + i, 0x80000015, 100 + i, 0, 0))                 # wrong type
            out, _e = asyncio.run(_C01.run_real(hist))
            obs = _C01.observe(out)
            ctx.traces += 1
            ctx.case(('late_responses_segmented', k, first_fails), nontrivial=True)
            for ev, o in list(zip(hist, obs))[n0:]:
                attributed = [x for x in o if x[0] == 4 or (x[0] == 1 and x[2] != 0)]
                if attributed:
                    ctx.violation(f'a late / duplicate / unsolicited response {ev[2]:#x} with the sequence number {ev[3]} of a segment whose message already had its '
                                  f'outcome produced another outcome attributed to message {[x[1] if x[0] == 4 else x[2] for x in attributed]}',
                                  {'function': 'late_segment_responses', 'history': [list(e) for e in hist]})
                    break
    # ---- a number that comes round again (short-period generator, restart on a persisted correlator) after a segment that used it was
    #      answered: the response to the new request matches the new request, and only it
    for k in (2, 3):
        for variant in ('answered', 'rejected', 'nack', 'timed_out'):
            for reused in range(k):
                hist = [('put', 1 + i, 2 + i, 1, (7, i + 1, k)) for i in range(k)]
                hist += [('resp', 10 + i, 0x80000004, 2 + i, 0, 501 + i) for i in range(k)]
                sq = 2 + reused
                hist.append(('put', 20, sq, 2, (0, 0, 0)))
                hist.append({'answered': ('resp', 21, 0x80000004, sq, 0, 600), 'rejected': ('resp', 21, 0x80000004, sq, 0x58, 0),
                             'nack': ('resp', 21, 0x80000000, sq, 3, 0), 'timed_out': ('expire', 21, sq)}[variant])
                out, _e = asyncio.run(_C01.run_real(hist))
                obs = _C01.observe(out)
                ctx.traces += 1
                ctx.case(('sequence_number_reuse', k, variant, reused), nontrivial=True)
                last = [x for x in obs[-1] if x[0] == 4 or (x[0] == 1 and x[2] != 0)]
                logs_seen = [x[1] if x[0] == 4 else x[2] for x in last]
                if logs_seen != [2]:
                    ctx.violation(f'request 2 was sent under sequence number {sq}, which segment {reused + 1} of {k} of the fully answered message 1 had used; '
                                  f'its response ({variant}) was matched with message(s) {logs_seen} instead of [2] (hook calls {obs[-1]})',
                                  {'function': 'sequence_number_reuse', 'history': [list(e) for e in hist]})
    # ---- a restart of the application on a persisted correlator (new ESME, default generators): no new request may take the number of
    #      a request the correlator still holds, and every message of either life gets its own outcome and receipt
    for gap in (1.0, 30.0) + ((0.2, 5.0, 300.0) if ctx.thorough else ()):
        obs = run_restart(gap)
        ctx.traces += 1
        ctx.case(('restart', gap), nontrivial=True)
        ctx.count('restart_sessions')
        msg = restart_oracle(obs)
        if msg:
            ctx.violation(f'restart {gap} s after stop(): {msg}', {'function': 'restart', 'gap': gap})
    # ---- whole sessions with connection losses while requests are outstanding
    for j in range(300 if ctx.thorough else 14):
        n_msgs = rng.randint(2, 7)
        ttl = rng.choice([3.0, 6.0, 15.0])
        drop_after = set(rng.sample(range(1, n_msgs + 1), rng.choice([1, 1, 2])))
        args = dict(n_msgs=n_msgs, ttl=ttl, drop_after=sorted(drop_after), answer_p=rng.choice([0.0, 0.5, 0.8]), keepalive=rng.choice([2.0, 50.0]))
        import random as _random
        seed = rng.randrange(2 ** 30)
        obs = run_reconnect(_random.Random(seed), **args)
        ctx.traces += 1
        ctx.count('reconnect_sessions')
        ctx.count('reconnect_requests', len(obs['requests']))
        ctx.case(('reconnect', seed, tuple(sorted(args.items(), key=str))), nontrivial=len({c for _t, c, _c, _s in obs['requests']}) > 1)
        msg = reconnect_oracle(obs, ttl)
        if msg:
            ctx.violation(msg, dict(args, function='reconnect', seed=seed))
    return ctx.finish()


def replay(ctx, path):
    import json
    with open(path) as f:
        r = json.load(f)
    if r.get('function') == 'history':
        mn, mx, cur = r['generator']
        hist = [tuple(e) for e in r['history']]
        _res, obs = asyncio.run(run_impl_wrapped(hist, mn, mx, cur))
        msg = oracle(obs, mn, mx, hist)
    elif r.get('function') == 'reconnect':
        import random as _random
        obs = run_reconnect(_random.Random(r['seed']), n_msgs=r['n_msgs'], ttl=r['ttl'], drop_after=r['drop_after'], answer_p=r['answer_p'], keepalive=r['keepalive'])
        print('replay: requests on the wire (time, connection, command, number):', [(round(t, 2), c, hex(cmd), sq) for t, c, cmd, sq in obs['requests']][:40])
        msg = reconnect_oracle(obs, r['ttl'])
    elif r.get('function') == 'restart':
        obs = run_restart(r['gap'])
        print('replay: submit_sm sent (life, log_id, sequence number):', obs.get('sent'))
        print('replay: hook events (life, kind, log_id, detail):', obs['events'])
        msg = restart_oracle(obs)
    elif r.get('function') in ('sequence_number_reuse', 'late_segment_responses'):
        from harness import C01 as _C01
        hist = [tuple(tuple(x) if isinstance(x, list) else x for x in e) for e in r['history']]
        out, _e = asyncio.run(_C01.run_real(hist))
        obs = _C01.observe(out)
        print('replay: hook calls per event:', list(zip([e[:4] for e in hist], obs)))
        msg = None
        if r['function'] == 'sequence_number_reuse':
            last = [x for x in obs[-1] if x[0] == 4 or (x[0] == 1 and x[2] != 0)]
            seen = [x[1] if x[0] == 4 else x[2] for x in last]
            if seen != [2]:
                msg = f'the response to request 2 was matched with message(s) {seen}'
    else:
        msg = None
    print('replay:', msg or 'property holds on this input')
    if msg:
        print(f'VIOLATION property=C13 replay={path}')
        return 1
    return 0
