"""C18 - rate limiter and throttle handler: proofs (Props/C18.v) + correspondence of Model/Limiter.v
with SimpleRateLimiter / SimpleThrottleHandler under a scripted clock + direct oracles; plus the
sender loop (one limit() per PDU, no send between a denial and the next allow) on the real ESME."""
import asyncio
import logging
from fractions import Fraction

from lib import core
from lib.core import cz, czl
from harness import common, sess

THEOREMS = ['C18_limiter_window', 'C18_limiter_liveness', 'C18_limiter_invariant', 'C18_throttle_decision', 'C18_exact_share', 'C18_nonvacuous']
IMPORTS = ['AV.Model.Base', 'AV.Model.Limiter']


def q(fr):
    fr = Fraction(fr)
    return f'({fr.numerator} # {fr.denominator})' if fr.numerator >= 0 else f'(({fr.numerator}) # {fr.denominator})'


class ClockDone(Exception):
    pass


def mk_logger():
    from aiosmpplib.log import StructuredLogger
    return StructuredLogger('verif', logging.CRITICAL + 10, {}, None, False)


def run_limiter(rate, t0, readings):
    """Drive the real SimpleRateLimiter with a scripted clock; returns (passes per reading, tokens, updated_at) or exception."""
    import aiosmpplib.ratelimiter as rl
    it = iter([t0] + list(readings))
    events = []

    class FT:
        @staticmethod
        def monotonic():
            try:
                v = next(it)
            except StopIteration:
                raise ClockDone()
            events.append('r')
            return float(v)

    class FA:
        @staticmethod
        async def sleep(d):
            events.append('s')
    old_t, old_a = rl.time, rl.asyncio
    rl.time, rl.asyncio = FT, FA
    try:
        lim = rl.SimpleRateLimiter(mk_logger(), send_rate=float(rate))
        events.clear()

        async def go():
            while True:
                await lim.limit()
                events.append('p')
        try:
            asyncio.run(go())
        except ClockDone:
            pass
        except Exception as e:  # noqa: BLE001
            return ('err', e)
    finally:
        rl.time, rl.asyncio = old_t, old_a
    passes = []
    for i, ev in enumerate(events):
        if ev == 'r':
            nxt = events[i + 1] if i + 1 < len(events) else None
            passes.append(1 if nxt == 'p' else 0)
    return ('ok', passes, Fraction(lim.tokens), Fraction(lim.updated_at))


def gen_readings(rng, n):
    t = Fraction(0)
    out = []
    for _ in range(n):
        k = rng.random()
        if k < 0.06:
            d = Fraction(0)          # a coarse clock returns the same reading twice
        elif k < 0.45:
            d = Fraction(rng.randint(1, 256), 1024)
        elif k < 0.85:
            d = 1 + Fraction(rng.randint(0, 64), 1024)
        else:
            d = Fraction(rng.randint(1, 40 * 1024), 1024)
        t += d
        out.append(t)
    return out


def oracle_limiter(rate, readings, passes):
    """C18 on the observed pass instants: window bound and liveness (readings after a failed reading are >= 1 s later in real use;
    here we check the bound for every window spanned by two passes)."""
    ps = [t for t, p in zip(readings, passes) if p]
    r = Fraction(rate)
    for i in range(len(ps)):
        for j in range(i, len(ps)):
            T = ps[j] - ps[i]
            if (j - i + 1) > r * T + r + 1:
                return f'{j - i + 1} messages passed within {float(T)} s at rate {float(r)}/s (bound {float(r * T + r + 1)})'
    return None


def round2_exact(x):
    y = x * 100
    f = y.numerator // y.denominator
    d = y - f
    if d < Fraction(1, 2):
        n = f
    elif d > Fraction(1, 2):
        n = f + 1
    else:
        n = f if f % 2 == 0 else f + 1
    return Fraction(n, 100), d == Fraction(1, 2)


def run_throttle(period, sample, deny, t0, ops):
    import aiosmpplib.throttle as th
    clock = {'now': float(t0)}

    class FT:
        @staticmethod
        def monotonic():
            return clock['now']
    old = th.time
    th.time = FT
    try:
        h = th.SimpleThrottleHandler(mk_logger(), sampling_period=float(period), sample_size=float(sample), deny_request_at=float(deny))
        out = []
        tie = False

        async def go():
            nonlocal tie
            for op in ops:
                if op[0] == 'a':
                    clock['now'] = float(op[1])
                    tot = h.non_throttle_responses + h.throttle_responses
                    if tot and tot >= sample:
                        _v, t = round2_exact(Fraction(h.throttle_responses, tot) * 100)
                        tie = tie or t
                    try:
                        out.append(1 if await h.allow_request() else 0)
                    except Exception as e:  # noqa: BLE001
                        out.extend([2, common.exn_index(e)])
                        return
                elif op[0] == 't':
                    await h.throttled()
                else:
                    await h.not_throttled()
        asyncio.run(go())
    finally:
        th.time = old
    return out, tie


def oracle_throttle(period, sample, deny, t0, ops, out):
    """State-wise reading of the property, from the ops alone."""
    non = thr = 0
    upd = Fraction(t0)
    k = 0
    for op in ops:
        if op[0] == 'a':
            tot = non + thr
            cond = tot >= sample and tot > 0 and Fraction(thr, tot) * 100 > deny          # the property: MORE than deny_request_at percent, exactly
            if k < len(out) and out[k] == 2:
                return f'allow_request raised with {thr} throttled of {tot} responses (sample_size {sample})|finding:throttle-zero-sample-size' if sample <= 0 and tot == 0 else 'allow_request raised'
            if k >= len(out):
                return None
            if (out[k] == 0) != cond:
                return f'allow_request returned {bool(out[k])} with {thr} throttled of {tot} (sample_size {sample}, deny at {deny}%)'
            if Fraction(op[1]) - upd > period:
                non = thr = 0
                upd = Fraction(op[1])
            k += 1
        elif op[0] == 't':
            thr += 1
        else:
            non += 1
    return None


async def sender_trace(n_msgs, seg_text_len, deny_script):
    """Run the real sender on messages (some segmented) with recording limiter and a scripted throttle handler; returns event list."""
    from aiosmpplib.protocol import SubmitSm
    from aiosmpplib.state import PhoneNumber
    from aiosmpplib.broker import AbstractBroker
    from aiosmpplib.ratelimiter import AbstractRateLimiter
    from aiosmpplib.throttle import AbstractThrottleHandler
    events = []

    class L(AbstractRateLimiter):
        async def limit(self):
            events.append('limit')

    class T(AbstractThrottleHandler):
        def __init__(self):
            self.i = 0

        async def throttled(self):
            pass

        async def not_throttled(self):
            pass

        async def allow_request(self):
            v = deny_script[self.i % len(deny_script)]
            self.i += 1
            events.append('allow' if v else 'deny')
            return v

        async def throttle_delay(self):
            return 0.0
    msgs = [SubmitSm(short_message=('x' * seg_text_len if i % 2 == 0 else 'short'), source=PhoneNumber('1'), destination=PhoneNumber('2'),
                     auto_message_payload=False, log_id=f'L{i}') for i in range(n_msgs)]

    class B(AbstractBroker):
        async def enqueue(self, m):
            pass

        async def dequeue(self):
            if msgs:
                return msgs.pop(0)
            await asyncio.sleep(3600)
    loop = asyncio.get_running_loop()
    esme, hook = sess.make_esme(broker=B(), rate_limiter=L(), throttle_handler=T())
    _r, writer, tr, _p = sess.make_stream(loop)
    esme._writer = writer
    esme._bound.set()
    esme._session_state = esme.bind_mode.session_state
    orig_write = tr.write

    def w(data):
        events.append('write')
        orig_write(data)
    tr.write = w
    task = loop.create_task(esme._dequeue_messages())
    for _ in range(400):
        await asyncio.sleep(0)
    task.cancel()
    try:
        await task
    except BaseException:  # noqa: BLE001
        pass
    return events


def oracle_sender(events):
    """every write has, since the previous write, its own pass through the rate limiter and its own 'allow' from the throttle handler,
    with no 'deny' after that allow"""
    state = []
    for ev in events:
        if ev == 'write':
            if 'limit' not in state or [e for e in state if e != 'limit'][-1:] != ['allow']:
                return f'submit_sm written after {state[-3:]} (needs its own allow and its own limiter pass)'
            state = []
        else:
            state.append(ev)
    return None


def session_throttle(rate, sample, deny, n_msgs, throttled_answers, answer_delay, period=180.0, rejected_answers=(), nacked_answers=()):
    """the real ESME.start() on a virtual-time loop with the real SimpleRateLimiter and SimpleThrottleHandler against an SMSC that
    answers some submit_sm with ESME_RTHROTTLED: times of the submit_sm writes and of the responses as the ESME handled them"""
    import struct
    from harness import vsess, smppref
    from aiosmpplib.protocol import SubmitSm, SubmitSmResp
    from aiosmpplib.state import PhoneNumber
    from aiosmpplib.ratelimiter import SimpleRateLimiter
    from aiosmpplib.throttle import SimpleThrottleHandler
    loop = vsess.VLoop()
    asyncio.set_event_loop(loop)
    smsc = vsess.FakeSMSC(loop)
    undo = vsess.install(loop, smsc)
    obs = {'writes': [], 'responses': []}
    try:
        esme, hook = vsess.quiet_esme(enquire_link_interval=5000.0, socket_timeout=60.0,
                                      rate_limiter=SimpleRateLimiter(mk_logger(), send_rate=float(rate)) if rate else None,
                                      throttle_handler=SimpleThrottleHandler(mk_logger(), sampling_period=float(period), sample_size=float(sample), deny_request_at=float(deny)))
        count = [0]

        def on_pdu(conn, pdu):
            for p in vsess.split_pdus(pdu)[0]:
                cmd, seq = struct.unpack('>I', p[4:8])[0], struct.unpack('>I', p[12:16])[0]
                if cmd in (1, 2, 9):
                    conn.send(vsess.bind_resp_for(p))
                elif cmd == 4:
                    count[0] += 1
                    obs['writes'].append(loop.time())
                    status = 0x58 if count[0] in throttled_answers else (0x0B if count[0] in rejected_answers else 0)
                    if count[0] in nacked_answers:
                        conn.send(smppref.header(0x80000000, 3, seq), delay=answer_delay)
                    else:
                        conn.send(smppref.header(0x80000004, status, seq, b'' if status else b'id%d\x00' % seq), delay=answer_delay)
        smsc.on_pdu = on_pdu

        def rgate(msg, pdu):
            from aiosmpplib.protocol import GenericNack
            if isinstance(msg, (SubmitSmResp, GenericNack)):
                obs['responses'].append((loop.time(), int(msg.command_status)))
            return None
        hook.received_gate = rgate

        async def main():
            t = asyncio.create_task(esme.start())
            await asyncio.sleep(1.0)
            obs['t0'] = loop.time()
            for j in range(n_msgs):
                await esme.broker.enqueue(SubmitSm(short_message='m%d' % j, source=PhoneNumber('1'), destination=PhoneNumber('2'), log_id=f'L{j}'))
            await asyncio.sleep(min(float(period) - 5.0, 120.0))
            obs['start_done'] = t.done()
            if not t.done():
                t.cancel()
                try:
                    await t
                except BaseException:  # noqa: BLE001
                    pass
        loop.run_until_complete(main())
    finally:
        undo()
        vsess.finish(loop)
    return obs


def oracle_session_throttle(obs, sample, deny):
    """within one sampling window: no submit_sm is written once the responses handled (strictly) earlier are at least sample_size
    and more than deny_request_at percent of them are throttled"""
    for i, tw in enumerate(obs['writes']):
        seen = [st for tr_, st in obs['responses'] if tr_ < tw]
        if seen and len(seen) >= sample:
            pct = Fraction(sum(1 for st in seen if st in (0x58, 0x14)), len(seen)) * 100
            if pct > deny:
                return (f'submit_sm number {i + 1} was written at t={tw:.3f} although {len(seen)} responses had been handled before ({float(pct):.2f}% throttled; '
                        f'sample_size {float(sample)}, deny_request_at {float(deny)}%)')
    return None


def run(ctx):
    ctx.rule = ('limiter: dyadic rates 1/8..100 (incl. < 1/s) x scripted clocks (bursts, 1 s sleeps, long idles; multiples of 1/1024 s); throttle: '
                'op sequences of allow/throttled/not_throttled around sample_size and the percentage threshold, window lengths; sender: real '
                '_dequeue_messages with recording limiter and scripted throttle handler on plain and segmented messages; distinct by script')
    ctx.trusted_base = ['Coq 8.16.1 kernel; QArith, no axioms', 'translator/py2coq.py (defaults)',
                        'correspondence harness harness/C18.py: time.monotonic/asyncio.sleep of ratelimiter.py and throttle.py replaced by a scripted clock']
    ctx.assumptions = ['exact rational arithmetic in the model; binary64 in the code - inputs restricted to values on which binary64 is exact; '
                       'histories with an exact rounding tie at a decision are skipped and counted',
                       'clock readings strictly increase (equal readings raise ZeroDivisionError, outside the property)']
    proved = ctx.prove('C18', THEOREMS)
    rng = ctx.rng
    lim_cases, thr_cases = [], []
    rates = [Fraction(1, 8), Fraction(1, 4), Fraction(1, 2), Fraction(3, 4), Fraction(1), Fraction(3, 2), Fraction(2), Fraction(5, 2), Fraction(10), Fraction(100)]
    nl = 3000 if ctx.thorough else 120
    for i in range(nl):
        rate = rates[i % len(rates)]
        readings = gen_readings(rng, rng.randint(3, 60))
        res = run_limiter(rate, 0, readings)
        ctx.case(('lim', rate, tuple(readings)))
        ctx.count('limiter_rate_' + ('lt1' if rate < 1 else 'ge1'))
        if res[0] == 'err':
            exp = [1, common.exn_index(res[1])]
            ctx.violation(f'rate {rate}/s: limit() raised {res[1]!r} (a waiting message is never let through; the sender ends)',
                          {'function': 'limiter', 'rate': str(rate), 'readings': [str(x) for x in readings]})
        else:
            _k, passes, tok, upd = res
            exp = [0] + passes + [-1, tok.numerator, tok.denominator, upd.numerator, upd.denominator]
            msg = oracle_limiter(rate, readings, passes)
            if msg:
                ctx.violation(msg, {'function': 'limiter', 'rate': str(rate), 'readings': [str(x) for x in readings]})
            if rate < 1 and sum(passes) == 0 and readings[-1] > 3 / rate:
                ctx.violation(f'rate {rate}/s: no message passed in {float(readings[-1])} s', {'function': 'limiter', 'rate': str(rate), 'readings': [str(x) for x in readings]})
            if i < 2:
                ctx.sample({'rate': str(rate), 'readings': [str(x) for x in readings[:10]], 'passes': passes[:10]})
        lim_cases.append((f'({q(rate)}, [{"; ".join(q(x) for x in readings)}])', czl(exp)))
    # liveness: a single call with 1 s sleeps returns within floor(1/r)+1 sleeps
    for rate in rates:
        for start in (Fraction(1, 1024), Fraction(1, 2), Fraction(7)):
            readings = [start + k + Fraction(k, 1024) for k in range(0, 14)]
            res = run_limiter(rate, 0, readings)
            ctx.case(('live', rate, start))
            if res[0] == 'ok':
                passes = res[1]
                # consume initial tokens first: look at the longest run of sleeps
                run_len = longest = 0
                for p in passes:
                    run_len = 0 if p else run_len + 1
                    longest = max(longest, run_len)
                bound = int(1 / rate) + 1
                if longest > bound:
                    ctx.violation(f'rate {rate}/s: a message waited {longest} one-second sleeps (bound {bound})', {'function': 'limiter', 'rate': str(rate), 'readings': [str(x) for x in readings]})
                exp = [0] + passes + [-1, res[2].numerator, res[2].denominator, res[3].numerator, res[3].denominator]
                lim_cases.append((f'({q(rate)}, [{"; ".join(q(x) for x in readings)}])', czl(exp)))
    # ---- throttle
    nt = 3000 if ctx.thorough else 150
    skipped = 0
    corpus = [(Fraction(180), Fraction(0), Fraction(1), [('a', Fraction(1))])]
    for i in range(nt):
        period = rng.choice([Fraction(1), Fraction(20), Fraction(180), Fraction(5, 2)])
        sample = rng.choice([Fraction(0), Fraction(1), Fraction(5), Fraction(10), Fraction(50), Fraction(5, 2)])
        deny = rng.choice([Fraction(1), Fraction(20), Fraction(50), Fraction(0), Fraction(1, 2), Fraction(3333, 100), Fraction(100)])
        t = Fraction(0)
        ops = []
        for _ in range(rng.randint(5, 120)):
            k = rng.random()
            if k < 0.3:
                t += rng.choice([Fraction(1, 1024), Fraction(1, 4), Fraction(1), period / 2, period + Fraction(1, 1024)])
                ops.append(('a', t))
            elif k < 0.3 + 0.7 * (0.02 if i % 3 == 0 else 0.3 if i % 3 == 1 else 0.7):
                ops.append(('t',))
            else:
                ops.append(('n',))
        if i % 4 == 3:
            # directed at the percentage threshold: a share of throttled responses a fraction of a percentage point above / at / below deny_request_at
            deny = rng.choice([Fraction(1), Fraction(20), Fraction(50), Fraction(1, 2), Fraction(5)])
            tot = rng.randint(max(int(sample), 1), 400)
            base = int(deny * tot / 100)
            thr_n = max(0, min(tot, base + rng.choice([0, 1, 1, 1, 2])))
            marks = ['t'] * thr_n + ['n'] * (tot - thr_n)
            rng.shuffle(marks)
            ops = [(m,) for m in marks]
            t = Fraction(0)
            for _ in range(rng.randint(1, 4)):
                t += rng.choice([Fraction(1, 1024), Fraction(1, 4), period / 2])
                ops.append(('a', t))
            ctx.count('throttle_histories_at_the_percentage_threshold')
        if i < len(corpus):
            period, sample, deny, ops = corpus[i]
        out, tie = run_throttle(period, sample, deny, 0, ops)
        if tie:
            skipped += 1
            continue
        ctx.case(('thr', i, tuple(ops)))
        msg = oracle_throttle(period, sample, deny, 0, ops, out)
        fk = None
        if msg and '|finding:' in msg:
            msg, fk = msg.split('|finding:')
        if msg:
            ctx.violation(msg, {'finding_key': fk, 'function': 'throttle', 'params': [str(period), str(sample), str(deny)], 'ops': [[str(x) for x in o] for o in ops]})
        cops = '; '.join(f'TAllow {q(o[1])}' if o[0] == 'a' else 'TThrottled' if o[0] == 't' else 'TNot' for o in ops)
        thr_cases.append((f'({q(period)}, {q(sample)}, {q(deny)}, [{cops}])', czl(out)))
    ctx.count('throttle_histories', nt - skipped)
    ctx.count('throttle_histories_skipped_rounding_tie', skipped)
    # ---- sender loop on the real ESME
    for n_msgs, seglen, script in ((4, 400, [True]), (5, 700, [True, False, True]), (3, 10, [False, False, True]), (6, 300, [True, True, False])):
        ev = asyncio.run(sender_trace(n_msgs, seglen, script))
        ctx.traces += 1
        ctx.case(('sender', n_msgs, seglen, tuple(script)))
        msg = oracle_sender(ev)
        if msg:
            ctx.violation(msg, {'function': 'sender', 'n_msgs': n_msgs, 'text_len': seglen, 'allow_script': script, 'events': ev[:40]})
        if ev.count('write') < 2:
            ctx.violation('sender wrote fewer than 2 PDUs in the scenario', {'function': 'sender', 'events': ev[:40]})
    # ---- whole sessions: real limiter + real throttle handler against an SMSC that throttles
    sess_cases = [(1.0, 1.0, 1.0, 3, (1,), 0.002), (2.0, 2.0, 40.0, 6, (1, 2), 0.05), (0.5, 1.0, 50.0, 3, (1,), 0.3), (5.0, 3.0, 30.0, 9, (2, 3), 0.01),
                  (0, 1.0, 1.0, 3, (1,), 0.0), (4.0, 2.0, 50.0, 6, (5, 6), 0.2)]
    for _ in range(60 if ctx.thorough else 6):
        rate = rng.choice([0, 0.5, 1.0, 2.0, 4.0, 10.0])
        n_msgs = rng.randint(2, 12)
        sess_cases.append((rate, float(rng.choice([1, 2, 3, 5])), float(rng.choice([1, 20, 50])), n_msgs,
                           tuple(sorted(rng.sample(range(1, n_msgs + 1), rng.randint(0, min(3, n_msgs))))), rng.choice([0.0, 0.002, 0.05, 0.4, 1.5])))
    sess_cases = [c + ((), ()) for c in sess_cases]
    # every response counts as a sample, also rejections with other statuses and generic_nacks: 8 rejected + 2 throttled of 10 must deny
    # at 'more than 15 percent'; 9 rejected/nacked + 1 throttled must not deny at 'more than 10 percent' (exactly 10)
    sess_cases += [(2.0, 10.0, 15.0, 14, (9, 10), 0.01, (1, 2, 3, 4, 5, 6, 7, 8), ()), (2.0, 5.0, 10.0, 14, (10,), 0.01, (6, 7), (8, 9)),
                   (2.0, 4.0, 30.0, 9, (4,), 0.01, (1, 2), (3,)), (2.0, 4.0, 20.0, 9, (4,), 0.01, (1, 2), (3,))]
    for rate, sample, deny, n_msgs, thr_at, delay, rej_at, nack_at in sess_cases:
        obs = session_throttle(rate, sample, deny, n_msgs, thr_at, delay, rejected_answers=rej_at, nacked_answers=nack_at)
        ctx.traces += 1
        ctx.count('throttle_sessions')
        ctx.case(('session_throttle', rate, sample, deny, n_msgs, thr_at, delay, rej_at, nack_at), nontrivial=bool(thr_at))
        rp = {'function': 'session_throttle', 'rate': rate, 'sample_size': sample, 'deny_request_at': deny, 'n_msgs': n_msgs,
              'throttled_answers': list(thr_at), 'answer_delay': delay, 'rejected_answers': list(rej_at), 'nacked_answers': list(nack_at)}
        if obs.get('start_done'):
            ctx.violation('start() ended during a throttled session', rp)
            continue
        msg = oracle_session_throttle(obs, Fraction(sample), Fraction(deny))
        if msg:
            ctx.violation(msg, rp)
        # the rate bound on the wire: no more than r*T + r + 1 submit_sm in any window of T seconds
        if rate:
            w = obs['writes']
            for a in range(len(w)):
                for b in range(a, len(w)):
                    T = w[b] - w[a]
                    if (b - a + 1) > rate * T + rate + 1 + 1e-9:
                        ctx.violation(f'{b - a + 1} submit_sm within {T:.3f} s at rate {rate}/s (bound {rate * T + rate + 1:.2f})', rp)
                        break
                else:
                    continue
                break
        # never suspended otherwise: when the denial condition never holds at any moment, everything is sent
        def cond_after(k):
            seen = [st for _t, st in obs['responses'][:k]]
            if not seen or len(seen) < sample:
                return False
            return Fraction(sum(1 for st in seen if st in (0x58, 0x14)), len(seen)) * 100 > deny
        if thr_at and not any(cond_after(k) for k in range(1, len(obs['responses']) + 1)) and len(obs['writes']) != n_msgs:
            ctx.violation(f'{len(obs["writes"])} of {n_msgs} messages were sent although the denial condition never held '
                          f'({len(obs["responses"])} responses handled, sample_size {sample}, deny_request_at {deny}%)', rp)
        if not thr_at and len(obs['writes']) != n_msgs:
            ctx.violation(f'{len(obs["writes"])} of {n_msgs} messages were sent although no response was throttled', rp)
    if proved or not getattr(ctx, 'build_failing', None):
        for name, fn, cases in (
            ('limiter', 'fun p : Q * list Q => ser_lim_run (fst p) 0 (snd p)', lim_cases),
            ('throttle', 'fun p : Q * Q * Q * list thr_op => ser_thr_run (fst (fst (fst p))) (snd (fst (fst p))) (snd (fst p)) 0 (snd p)', thr_cases),
        ):
            bad, errs = core.run_cases('C18', name, IMPORTS + ['Coq.QArith.QArith'], fn, cases, shard=100,
                                       preamble='Open Scope Q_scope.\nOpen Scope Z_scope.')
            for fnm, out in errs:
                ctx.broken.append(f'model evaluation failed ({fnm}): {out[-600:]}')
            for i in bad[:5]:
                inp, exp = cases[i]
                ctx.violation(f'model and implementation disagree on {name}', {
                    'correspondence': f'Model/Limiter.v vs ratelimiter.py/throttle.py ({name})', 'input_term': inp[:1500],
                    'implementation_result': exp[:800]}, found_input=False)
            ctx.extra[f'correspondence_{name}_cases'] = len(cases)
            ctx.extra[f'correspondence_{name}_disagreements'] = len(bad)
    return ctx.finish()


def replay(ctx, path):
    import json
    with open(path) as f:
        r = json.load(f)
    msg = None
    if r.get('function') == 'session_throttle':
        obs = session_throttle(r['rate'], r['sample_size'], r['deny_request_at'], r['n_msgs'], tuple(r['throttled_answers']), r['answer_delay'],
                               rejected_answers=tuple(r.get('rejected_answers', ())), nacked_answers=tuple(r.get('nacked_answers', ())))
        print('replay: submit_sm written at', [round(x, 3) for x in obs['writes']])
        print('replay: responses handled at', [(round(t, 3), hex(st)) for t, st in obs['responses']])
        msg = oracle_session_throttle(obs, Fraction(r['sample_size']), Fraction(r['deny_request_at']))
    if r.get('function') == 'limiter':
        rate = Fraction(r['rate'])
        readings = [Fraction(x) for x in r['readings']]
        res = run_limiter(rate, 0, readings)
        if res[0] == 'ok':
            msg = oracle_limiter(rate, readings, res[1])
        else:
            msg = f'limit() raised {res[1]!r}'
    print('replay:', msg or 'property holds on this input (or nothing to replay)')
    if msg:
        print(f'VIOLATION property=C18 replay={path}')
        return 1
    return 0
