"""C05 - robustness of the receive side: proofs (Props/C05.v) + byte streams fed to the real ESME.start() on a virtual-time loop.
Observed: state of the start() task, PDUs written, connections opened, how the Receiver task ended.  Compared with
Model/Recv.v (ser_stream_flat) and checked by an oracle that frames the stream independently."""
import asyncio
import struct

from lib import core
from lib.core import czl
from harness import common, pdugen, smppref, vsess

THEOREMS = ['C05_parse_errors_closed', 'C05_reaction_never_raises', 'C05_one_answer', 'C05_stream_never_stops_start',
            'C05_stream_continues', 'C05_what_would_escape', 'C05_nonvacuous']
IMPORTS = ['AV.Model.Base', 'AV.Model.Codec', 'AV.Model.Split', 'AV.Model.TimeFmt', 'AV.Model.Receipt', 'AV.Model.Pdu', 'AV.Model.Recv']
REQUESTS = {1, 2, 3, 4, 5, 6, 7, 8, 9, 0x15, 0x21, 0x103}         # SMPP 3.4 operations that have a response
HANDLED_REQ = {5, 6, 0x15}
STDLIB_DC = {5, 6, 7, 9, 10, 13, 14}


def receipt_text(rng):
    ok = 'id:%s sub:001 dlvrd:001 submit date:2401011200 done date:2401011201 stat:DELIVRD err:000 text:hello' % rng.choice(['abc', '42', 'XY-9'])
    k = rng.random()
    if k < 0.4:
        return ok
    if k < 0.5:
        return ok.replace('err:000', 'err:' + rng.choice(['abc', '', '-', '१२', '1_0', ' 7 ']))
    if k < 0.6:
        return ok.replace('2401011200', rng.choice(['', '24013', '9999999999', 'yesterday', '2402300000', '24010112000']))
    if k < 0.7:
        return ok.replace('sub:001', 'sub:' + rng.choice(['x', '0x1', '1e3', '']))
    if k < 0.8:
        return rng.choice(['', ':', '::::', 'id:', 'id', 'stat:', 'text:', 'ID:A SUB:1', 'done date:', 'err:1 err:x'])
    return ''.join(rng.choice('idsubervtxa :019') for _ in range(rng.randint(1, 40)))


def valid_deliver(rng, seq):
    """a deliver_sm a conformant SMSC may send, as bytes"""
    k = rng.random()
    tl = b''
    esm = 0
    dc = rng.choice([0, 0, 0, 8, 1, 3])
    if k < 0.35:
        esm = 0x04
        text = receipt_text(rng)
        dc = 0
        if rng.random() < 0.2:
            tl += smppref.tlv(0x001E, b'rid-1\x00') + smppref.tlv(0x0427, bytes([2]))
    else:
        text = rng.choice(['hello', 'Hello €uro', 'x' * 100, ''])
    alphabet = {0: 'gsm0338', 8: 'ucs2', 1: 'ascii', 3: 'latin_1'}[dc]
    body = smppref.text_encode(text, alphabet) or b'?'
    if k >= 0.35 and rng.random() < 0.3:
        total = rng.choice([1, 1, 2, 3])
        if rng.random() < 0.5:
            # segment numbers as a conformant SMSC sends them (1..total), and inconsistent ones (zero-based, beyond the total)
            sn = rng.randint(1, total) if rng.random() < 0.7 else rng.choice([0, 0, total + 1, 255])
            tl += smppref.tlv(0x020C, struct.pack('>H', rng.randint(0, 300))) + smppref.tlv(0x020E, bytes([total])) + smppref.tlv(0x020F, bytes([sn]))
        else:
            esm |= 0x40
            sn = rng.randint(1, total) if rng.random() < 0.7 else rng.choice([0, 0, total + 1, 255])
            body = smppref.udh8(rng.randint(0, 255), total, sn) + body[:130]
    if not body and not tl:
        body = b'a'
    use_payload = (not body) or rng.random() < 0.1
    if use_payload:
        tl += smppref.tlv(0x0424, body or b'p')
        body = b''
    def time_field():
        k2 = rng.random()
        if k2 < 0.6:
            return b''
        if k2 < 0.75:
            return rng.choice([b'261001120000000+', b'000003000000000R', b'301231235959948-', b'260229120000000+'])
        # malformed: wrong length, missing sign, letters, out-of-range parts
        return rng.choice([b'261001120000000', b'26100112000000', b'2610011200000004+', b'26100112000000x+', b'261301120000000+', b'261001250000000+',
                           b'2610011200000099+', b'R', b'+', b'            0000', b'26100112000000 0+', b'-61001120000000+'])
    return smppref.encode_sm(5, seq, service_type=rng.choice([b'', b'CMT']), src_ton=rng.choice([0, 1, 5]), src_npi=rng.choice([0, 1]), src=b'385991',
                             dst_ton=1, dst_npi=1, dst=b'1234', esm_class=esm, protocol_id=0, priority_flag=0, data_coding=dc,
                             schedule=time_field(), validity=time_field(),
                             registered_delivery=0, short_message=body[:254], tlvs=tl)


def corrupt(rng, pdu):
    """one perturbation of the kinds named by the property"""
    b = bytearray(pdu)
    k = rng.random()
    if k < 0.22 and len(b) > 17:                       # truncation at an offset, command_length adjusted
        cut = rng.randint(16, len(b) - 1)
        b = b[:cut]
        b[0:4] = struct.pack('>I', len(b))
        return bytes(b), 'truncated'
    if k < 0.32:                                       # command_length perturbation (desynchronises the stream)
        b[0:4] = struct.pack('>I', rng.choice([0, 1, 15, 16, len(b) - 1, len(b) + 1, len(b) + 7, 0x7FFFFFFF, 0xFFFFFFFF]))
        return bytes(b), 'command_length'
    if k < 0.45 and len(b) > 40:                       # a length octet inside the body (sm_length, TLV lengths, UDH length)
        j = rng.randint(30, len(b) - 1)
        b[j] = rng.choice([0, 1, 0xFF, b[j] + 1 & 0xFF, b[j] - 1 & 0xFF])
        return bytes(b), 'length_octet'
    if k < 0.6 and len(b) > 17:                        # invalid enum / non-ASCII / stray octets
        j = rng.randint(16, min(len(b) - 1, 40))
        b[j] = rng.choice([0x80, 0xFF, 7, 19, 0xC3, 0])
        return bytes(b), 'octet'
    if k < 0.7 and len(b) > 17:                        # missing terminators: drop every NUL of the mandatory part
        body = bytes(b[16:]).replace(b'\x00', b'\x01', rng.randint(1, 6))
        b = b[:16] + body
        return bytes(b), 'terminator'
    if k < 0.8 and len(b) > 30:                        # undecodable text: set data_coding, keep octets
        try:
            f = smppref.decode_sm(bytes(b))
            i = 16 + len(f['service_type']) + 1 + 2 + len(f['src']) + 1 + 2 + len(f['dst']) + 1 + 3 + len(f['schedule']) + 1 + len(f['validity']) + 1 + 2
            b[i] = rng.choice([0, 1, 3, 8, 2, 4, 5, 6, 7, 9, 10, 13, 14, 0xF0, 0x10])
            for j in range(i + 3, min(i + 9, len(b))):
                b[j] = rng.choice([0x80, 0xD8, 0x1B, 0xFF, b[j]])
        except Exception:  # noqa: BLE001
            pass
        return bytes(b), 'data_coding'
    if k < 0.9:
        b[4:8] = struct.pack('>I', rng.choice([3, 4, 7, 8, 0xB, 0x21, 0x102, 0x103, 0x80000003, 0x80000005, 0x80000021, 0x80000103, 6, 0x15, 5, 0x80000004, 0x0A, 0x80000099]))
        return bytes(b), 'command_id'
    b[8:12] = struct.pack('>I', rng.choice([1, 0x58, 0xFF, 0x45, 8, 0x110, 0xFFFFFFFF]))
    return bytes(b), 'status'


def gen_stream(rng, thorough):
    """list of chunks (bytes) the SMSC sends after bind_resp, whether it then closes, the session default alphabet"""
    chunks, kinds = [], []
    seq = 100
    big = rng.random() < 0.2        # an SMSC that numbers its requests in the upper half of the 32-bit range (any value is to be echoed)
    for _ in range(rng.choice([1, 1, 2, 3, 5])):
        seq += 1
        if big:
            seq = rng.choice([0x80000000, 0x9ABCDEF0, 0xFFFFFFFE, 0xFFFFFFFF, 0x7FFFFFFF]) - rng.randint(0, 3) * (seq % 7)
            seq = max(1, min(seq, 0xFFFFFFFF))
        k = rng.random()
        if k < 0.12:
            # UDHI set with a short or inconsistent user data header
            hdr = rng.choice([b'', b'\x05', b'\x05\x00', b'\x05\x00\x03', b'\x05\x00\x03\x07', b'\x05\x00\x03\x07\x02', b'\x06\x08\x04\x01', b'\x06\x08\x04\x01\x02\x03',
                              b'\xff\x00\x03\x01\x02\x01abc', b'\x00abc', b'\x05\x00\x03\x01\x00\x00', b'\x05\x00\x03\x01\x02\x09tail'])
            in_payload = rng.random() < 0.3
            p = smppref.encode_sm(5, seq, src=b'1', dst=b'2', esm_class=0x40 | rng.choice([0, 0x04]), data_coding=rng.choice([0, 8]),
                                  short_message=b'' if in_payload else hdr, tlvs=smppref.tlv(0x0424, hdr) if in_payload else b'')
            kind = 'deliver_sm_udhi_short'
        elif k < 0.5:
            p = valid_deliver(rng, seq)
            kind = 'deliver_sm'
        elif k < 0.6:
            p = smppref.header(rng.choice([0x15, 6]), 0, seq)
            kind = 'enquire_or_unbind'
        elif k < 0.75:
            name = rng.choice(['submit_sm_resp', 'enquire_link_resp', 'generic_nack', 'unbind_resp', 'deliver_sm_resp', 'bind_transceiver_resp'])
            body = smppref.cstr(b'mid7') if name in ('submit_sm_resp', 'deliver_sm_resp') and rng.random() < 0.7 else b''
            p = smppref.header(smppref.CMD[name], rng.choice([0, 0x58, 8]), rng.choice([seq, 2, 3]), body)
            kind = 'response'
        elif k < 0.92:
            name = rng.choice(['query_sm', 'submit_sm', 'replace_sm', 'cancel_sm', 'bind_receiver', 'submit_multi', 'data_sm', 'outbind', 'alert_notification'])
            p = smppref.header(smppref.CMD[name], 0, seq, bytes(rng.randrange(256) for _ in range(rng.choice([0, 3, 40]))))
            kind = 'unsupported'
        else:
            p = bytes(rng.randrange(256) for _ in range(rng.choice([1, 15, 16, 17, 64])))
            kind = 'random'
        if kind != 'random' and rng.random() < 0.55:
            p, how = corrupt(rng, p)
            kind += '+' + how
        chunks.append(p)
        kinds.append(kind)
    eof = rng.random() < 0.25
    default = rng.choice(['gsm0338', 'gsm0338', 'gsm0338', 'ucs2', 'latin_1', 'ascii'])
    return chunks, kinds, eof, default


def run_session(chunks, eof, default, split_at=None):
    """the real ESME.start() against a peer that binds it and then sends the stream; returns the observations"""
    loop = vsess.VLoop()
    asyncio.set_event_loop(loop)
    smsc = vsess.FakeSMSC(loop)
    undo = vsess.install(loop, smsc)
    obs = {'receiver_end': [], 'second_conn_answer': None}
    try:
        esme, hook = vsess.quiet_esme(enquire_link_interval=5000.0, socket_timeout=60.0, default_encoding=default)
        orig_recv = esme._receive_data

        async def recv():
            try:
                r = await orig_recv()
                if not obs.get('receiver_end_frozen'):
                    obs['receiver_end'].append(('return', None))
                return r
            except asyncio.CancelledError:
                if not obs.get('receiver_end_frozen'):
                    obs['receiver_end'].append(('cancelled', None))
                raise
            except BaseException as e:  # noqa: BLE001
                if not obs.get('receiver_end_frozen'):
                    obs['receiver_end'].append(('raise', e))
                raise
        esme._receive_data = recv
        data = b''.join(chunks)

        def on_pdu(conn, pdu):
            for p in vsess.split_pdus(pdu)[0]:
                cmd, seq = struct.unpack('>I', p[4:8])[0], struct.unpack('>I', p[12:16])[0]
                if cmd in (1, 2, 9):
                    conn.send(vsess.bind_resp_for(p))
                    if conn.index == 0:
                        if split_at:
                            conn.send(data[:split_at], delay=0.1)
                            conn.send(data[split_at:], delay=0.3)
                        else:
                            conn.send(data, delay=0.1)
                        if eof:
                            conn.eof(delay=1.0)
                    else:
                        conn.send(smppref.header(0x15, 0, 424242), delay=0.2)
                elif cmd == 0x80000015 and seq == 424242 and conn.index == 1:
                    obs['second_conn_answer'] = p
                elif cmd == 6:
                    conn.send(smppref.header(0x80000006, 0, seq))
                    conn.eof(delay=0.05)
        smsc.on_pdu = on_pdu

        async def main():
            t = asyncio.create_task(esme.start())
            await asyncio.sleep(40.0)
            obs['start_done'] = t.done()
            obs['receiver_end'] = list(obs['receiver_end'])
            obs['receiver_end_frozen'] = True
            obs['start_exc'] = t.exception() if t.done() and not t.cancelled() else None
            obs['state'] = int(esme.session_state)
            obs['conns'] = len(smsc.conns)
            c0 = smsc.conns[0] if smsc.conns else None
            obs['written0'] = [p for _t, w in (c0.log if c0 else []) for p in vsess.split_pdus(w)[0]]
            obs['conn0_closed'] = c0.closed_at is not None if c0 else None
            obs['hook_received'] = sum(1 for e in hook.log if e[0] == 'received')
            if not t.done():
                t.cancel()
                try:
                    await t
                except BaseException:  # noqa: BLE001
                    pass
            obs['hook_received_objs'] = [e[1] for e in hook.log if e[0] == 'received']
        loop.run_until_complete(main())
    finally:
        undo()
        vsess.finish(loop)
    return obs


RECEIPT_VARIANTS = ('plain', 'offset99', 'offset96_minus', 'err_text', 'err_word', 'err_65533', 'err_65535', 'err_huge', 'err_negative', 'no_err',
                    'no_stat', 'dates_with_seconds', 'neterr_tlv_high')


def segment_receipt_session(variant, persist):
    """a two-segment submit_sm is accepted (ids x1, x2); the receipt for x1 is unusual in the way `variant` says; a probe and the receipt
    for x2 follow. With `persist` the correlator writes its stores to a directory (every update is serialised to JSON)."""
    import shutil
    import tempfile
    from aiosmpplib.protocol import SubmitSm
    from aiosmpplib.state import PhoneNumber
    from aiosmpplib.correlator import SimpleCorrelator
    loop = vsess.VLoop()
    asyncio.set_event_loop(loop)
    smsc = vsess.FakeSMSC(loop)
    undo = vsess.install(loop, smsc)
    tmp = tempfile.mkdtemp(prefix='av_c05_') if persist else None
    obs = {'answers': [], 'submits': 0}
    try:
        corr = SimpleCorrelator('c5', directory=tmp) if persist else SimpleCorrelator('c5')
        esme, hook = vsess.quiet_esme(enquire_link_interval=5000.0, socket_timeout=60.0, correlator=corr)

        def receipt(seq, mid, v):
            err = {'err_text': 'err:0A1', 'err_word': 'err:EXPIRED', 'err_65533': 'err:65533', 'err_65535': 'err:65535', 'err_huge': 'err:' + '9' * 30,
                   'err_negative': 'err:-05', 'no_err': ''}.get(v, 'err:000')
            stat = '' if v == 'no_stat' else 'stat:DELIVRD '
            dates = 'submit date:240101120005 done date:240101120107' if v == 'dates_with_seconds' else 'submit date:2401011200 done date:2401011201'
            text = f'id:{mid} sub:001 dlvrd:001 {dates} {stat}{err} Text:hello'.encode()
            sched = {'offset99': b'210101000000099+', 'offset96_minus': b'210101000000096-'}.get(v, b'')
            tl = smppref.tlv(0x0423, bytes([3, 0x80, 0xFF])) if v == 'neterr_tlv_high' else b''
            return smppref.encode_sm(5, seq, src=b'1', dst=b'2', esm_class=0x04, short_message=text, schedule=sched, tlvs=tl)

        def on_pdu(conn, pdu):
            for p in vsess.split_pdus(pdu)[0]:
                cmd, seq = struct.unpack('>I', p[4:8])[0], struct.unpack('>I', p[12:16])[0]
                if cmd in (1, 2, 9):
                    conn.send(vsess.bind_resp_for(p))
                    if conn.index > 0:
                        conn.send(smppref.header(0x15, 0, 424242), delay=0.2)
                elif cmd == 4:
                    obs['submits'] += 1
                    conn.send(smppref.header(0x80000004, 0, seq, b'x%d\x00' % obs['submits']), delay=0.05)
                    if obs['submits'] == 2:
                        conn.send(receipt(9001, 'x1', variant), delay=2.0)
                        conn.send(smppref.header(0x15, 0, 9002), delay=3.0)
                        conn.send(receipt(9003, 'x2', 'plain'), delay=4.0)
                elif cmd & 0x80000000:
                    obs['answers'].append((conn.index, cmd, struct.unpack('>I', p[8:12])[0], seq))
        smsc.on_pdu = on_pdu
        src = PhoneNumber('38591')

        async def main():
            t = asyncio.create_task(esme.start())
            await asyncio.sleep(0.5)
            await esme.broker.enqueue(SubmitSm(short_message='s' * 300, source=src, destination=src, log_id='L', extra_data='X', auto_message_payload=False,
                                               registered_delivery=1))
            await asyncio.sleep(30.0)
            obs['start_done'] = t.done()
            obs['start_exc'] = repr(t.exception()) if t.done() and not t.cancelled() and t.exception() is not None else None
            obs['conns'] = len(smsc.conns)
            obs['receipts_at_hook'] = [(type(e[1]).__name__, getattr(e[1], 'log_id', None)) for e in hook.log
                                       if e[0] == 'received' and struct.unpack('>I', e[2][4:8])[0] == 5]
            if not t.done():
                t.cancel()
                try:
                    await t
                except BaseException:  # noqa: BLE001
                    pass
        loop.run_until_complete(main())
    finally:
        undo()
        vsess.finish(loop)
        if tmp:
            shutil.rmtree(tmp, ignore_errors=True)
    return obs


def oracle_segment_receipt(obs):
    if obs['start_done']:
        return f'start() ended: {obs["start_exc"]}'
    if obs['submits'] != 2:
        return f'{obs["submits"]} submit_sm PDUs were written instead of 2'
    for seq, what in ((9001, 'the unusual receipt'), (9002, 'the enquire_link after it'), (9003, 'the receipt of the second segment')):
        a = [x for x in obs['answers'] if x[3] == seq]
        if len(a) != 1:
            return f'{what} (sequence number {seq}) got {len(a)} answers; {obs["conns"]} connection(s) were opened'
        ci, cmd, st, _s = a[0]
        if ci != 0:
            return f'{what} was answered on connection {ci}'
        if cmd == 0x80000000 and st == 0:
            return f'{what} was answered with generic_nack ESME_ROK'
    if obs['conns'] != 1:
        return f'the session was dropped: {obs["conns"]} connections'
    return None


def oracle(chunks, eof, obs):
    """the property, with an independent framer: start() alive; every request with a recognised header answered once with its
    sequence number (generic_nack with an error status, or its own response); responses never answered"""
    if obs['start_done']:
        return f'start() ended: {obs["start_exc"]!r}'
    data = b''.join(chunks)
    written = obs['written0'][1:]          # after the bind request
    answers = [(struct.unpack('>I', p[4:8])[0], struct.unpack('>I', p[8:12])[0], struct.unpack('>I', p[12:16])[0]) for p in written]
    i, k = 0, 0
    known_cmd = set(smppref.CMD.values())
    from aiosmpplib.state import SmppCommandStatus
    known_status = {int(s) for s in SmppCommandStatus}
    while i + 16 <= len(data):
        ln, cmd, st, seq = struct.unpack('>IIII', data[i:i + 16])
        if cmd not in known_cmd or ln < 16:            # (a reserved or vendor specific status is as good as any: SMPP 3.4 section 5.1.3)
            break                                       # unusable header: at worst a reconnect
        if i + ln > len(data):
            break
        if cmd in REQUESTS:
            if k >= len(answers):
                return f'request {cmd:#x} seq {seq} at offset {i} got no response'
            acmd, ast, aseq = answers[k]
            k += 1
            if aseq != seq:
                return f'answer to request {cmd:#x} seq {seq} carries sequence number {aseq}'
            if acmd == 0x80000000:
                if ast == 0:
                    return f'generic_nack for request {cmd:#x} seq {seq} carries ESME_ROK'
            elif acmd != (cmd | 0x80000000) or cmd not in HANDLED_REQ:
                return f'request {cmd:#x} seq {seq} answered with {acmd:#x}'
            if cmd == 6 and acmd == 0x80000006:
                break
        i += ln
    if k != len(answers):
        return f'{len(answers) - k} PDUs written that answer no request: {answers[k:][:3]}'
    if obs['conns'] >= 2 and obs['second_conn_answer'] is None:
        return 'after the reconnect a valid enquire_link was not answered'
    return None


def run(ctx):
    ctx.rule = ('byte streams after bind_resp: valid deliver_sm (plain, receipts with arbitrary text, SAR/UDH incl. a single announced segment, '
                'message_payload, every data_coding), enquire_link/unbind, every response type, unsupported commands, random bytes; each possibly '
                'perturbed (truncation at an offset, command_length, inner length octets, invalid enum/non-ASCII octets, missing terminators, '
                'undecodable text under each data_coding incl. stdlib codecs, other command ids and statuses); one or several PDUs per stream, split '
                'at arbitrary TCP boundaries, with or without EOF; four session default alphabets; non-trivial = stream with a recognised header')
    ctx.trusted_base = ['Coq 8.16.1 kernel; no axioms', 'translator/py2coq.py (except clauses, handled command sets, enums)',
                        'harness/vsess.py (virtual-time loop, scripted SMSC over real asyncio streams), harness/C05.py, smppref.py',
                        'correlator calls after a successful parse do not raise (C02/C09/C14)']
    ctx.assumptions = ['stdlib text codecs (data_coding 5,6,7,9,10,13,14) raise only UnicodeDecodeError (checked by the oracle, outside the model)']
    proved = ctx.prove('C05', THEOREMS)
    rng = ctx.rng
    n = 12000 if ctx.thorough else 450
    cases = []
    for i in range(n):
        chunks, kinds, eof, default = gen_stream(rng, ctx.thorough)
        data = b''.join(chunks)
        split_at = rng.randint(1, len(data) - 1) if len(data) > 2 and rng.random() < 0.4 else None
        obs = run_session(chunks, eof, default, split_at)
        for kd in kinds:
            ctx.count('pdu_' + kd)
        ctx.case(('stream', data, eof, default), nontrivial=len(data) >= 16)
        rp = {'stream_hex': [c.hex() for c in chunks], 'eof': eof, 'default': default, 'kinds': kinds}
        msg = oracle(chunks, eof, obs)
        if msg:
            ctx.violation(f'{msg} (stream of {kinds})', rp)
        # model correspondence
        written = obs['written0'][1:]
        end = obs['receiver_end'][0] if obs['receiver_end'] else ('waiting', None)
        if end[0] == 'raise':
            ending = [2, common.exn_index(end[1])]
        elif end[0] == 'return':
            ending = [1]
        else:
            ending = [0]
        ctx.count('receiver_' + end[0] + ('' if end[1] is None else '_' + type(end[1]).__name__))
        survives = 0 if obs['start_done'] else 1
        n_handled = obs['hook_received'] - 1 - (1 if obs['conns'] >= 2 else 0) - (1 if obs['second_conn_answer'] is not None else 0)
        exp = [n_handled, len(written)]
        for p in written:
            exp += [len(p)] + list(p)
        exp += ending + [survives]
        stdlib = any(_uses_stdlib_codec(c) for c in chunks)
        if stdlib:
            ctx.count('stream_with_stdlib_codec_not_compared_with_model')
        else:
            cases.append((f'({pdugen.DEFAULTS[default]}, {czl(list(data))}, {"true" if eof else "false"})', czl(exp)))
        if i < 2:
            ctx.sample({'stream_hex': data.hex()[:200], 'kinds': kinds, 'written_hex': [p.hex() for p in written][:4], 'receiver': end[0]})
    if proved or not getattr(ctx, 'build_failing', None):
        bad, errs = core.run_cases('C05', 'stream', IMPORTS, 'fun p : enc * list Z * bool => ser_stream_flat (fst (fst p)) (snd (fst p)) (snd p)', cases, shard=40)
        for fnm, out in errs:
            ctx.broken.append(f'model evaluation failed ({fnm}): {out[-600:]}')
        for i in bad[:6]:
            inp, exp = cases[i]
            ctx.violation('model and implementation disagree on the reaction to a byte stream', {
                'correspondence': 'Model/Recv.v ser_stream_flat vs ESME.start()', 'input_term': inp[:2500], 'implementation_result': exp[:900]}, found_input=False)
        ctx.extra['correspondence_stream_cases'] = len(cases)
        ctx.extra['correspondence_stream_disagreements'] = len(bad)
    # ---- receipts for a segment of an accepted segmented submit_sm: the one code path in which a receipt updates stored state (and, with a
    #      persisting correlator, is serialised): unusual but parsable fields must not stop or drop the session
    for variant in RECEIPT_VARIANTS:
        for persist in (False, True):
            obs = segment_receipt_session(variant, persist)
            ctx.traces += 1
            ctx.case(('segment_receipt', variant, persist), nontrivial=True)
            ctx.count('segment_receipt_sessions')
            msg = oracle_segment_receipt(obs)
            if msg:
                ctx.violation(f'receipt ({variant}) for the first segment of an accepted two-segment submit_sm'
                              f'{", correlator persisted to a directory" if persist else ""}: {msg}',
                              {'function': 'segment_receipt', 'variant': variant, 'persist': persist})
    return ctx.finish()


def _uses_stdlib_codec(chunk):
    """data_coding of a submit_sm/deliver_sm-shaped PDU names a stdlib codec (walks the mandatory fields only)"""
    try:
        if struct.unpack('>I', chunk[4:8])[0] not in (4, 5):
            return False
        i = 16
        i = chunk.index(b'\x00', i) + 1 + 2
        i = chunk.index(b'\x00', i) + 1 + 2
        i = chunk.index(b'\x00', i) + 1 + 3
        i = chunk.index(b'\x00', i) + 1
        i = chunk.index(b'\x00', i) + 1 + 2
        return chunk[i] in STDLIB_DC
    except (ValueError, IndexError, struct.error):
        return False


def replay(ctx, path):
    import json
    rp = json.load(open(path))
    if 'stream_hex' in rp:
        chunks = [bytes.fromhex(c) for c in rp['stream_hex']]
        obs = run_session(chunks, rp['eof'], rp['default'])
        print('replay: start() done:', obs['start_done'], 'exception:', repr(obs['start_exc']), 'receiver:', obs['receiver_end'],
              'written:', [p.hex() for p in obs['written0'][1:]])
        print('oracle:', oracle(chunks, rp['eof'], obs))
    elif rp.get('function') == 'segment_receipt':
        obs = segment_receipt_session(rp['variant'], rp['persist'])
        msg = oracle_segment_receipt(obs)
        print('replay: answers (connection, command, status, sequence number):', obs['answers'], '; connections:', obs['conns'], '; start() ended:', obs['start_exc'])
        print('replay:', msg or 'property holds on this input')
        return 1 if msg else 0
    else:
        print('replay:', json.dumps(rp)[:1500])
    return 0
