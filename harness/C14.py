"""C14 - timeouts: proofs (Props/C14.v) + correspondence of Model/Correlator.v with the real
SimpleCorrelator driven by concurrent tasks whose send_error hook suspends (scripted clock) +
direct oracle on the hook log (never early, at most once, answered => never timed out, removed by
the first sweep after the TTL)."""
import asyncio
from fractions import Fraction

from lib import core
from lib.core import cz, czl
from harness import common
from harness.C18 import q

THEOREMS = ['C14_never_early', 'C14_expire_or_answer_once', 'C14_plain_expiry_reports_message', 'C14_every_call_sweeps_everything', 'C14_sweep_leaves_nothing_overdue', 'C14_invariant_reachable', 'C14_put_visible_at_once', 'C14_response_before_put_refuted', 'C14_nonvacuous']
IMPORTS = ['AV.Model.Base', 'AV.Model.PyDict', 'AV.Model.Limiter', 'AV.Model.Correlator', 'Coq.QArith.QArith']


def mk_msg(kind, uid, seq, sar=None):
    from aiosmpplib.protocol import SubmitSm, EnquireLink, Unbind
    from aiosmpplib.state import PhoneNumber, OptionalParam, SAR_MSG_REF_NUM, SAR_SEGMENT_SEQNUM, SAR_TOTAL_SEGMENTS
    if kind == 's':
        ops = []
        if sar:
            ops = [OptionalParam(SAR_MSG_REF_NUM, sar[0]), OptionalParam(SAR_SEGMENT_SEQNUM, sar[1]), OptionalParam(SAR_TOTAL_SEGMENTS, sar[2])]
        m = SubmitSm(short_message='x', source=PhoneNumber('1'), destination=PhoneNumber('2'), log_id=f'U{uid}', optional_params=ops)
    elif kind == 'e':
        m = EnquireLink()
    else:
        m = Unbind()
    m.sequence_num = seq
    m._uid = uid
    return m


def mk_resp(kind, seq, status):
    from aiosmpplib.protocol import SubmitSmResp, GenericNack, EnquireLinkResp
    from aiosmpplib.state import SmppCommandStatus
    if kind == 'r':
        return SubmitSmResp(sequence_num=seq, command_status=SmppCommandStatus(status), message_id='m')
    if kind == 'n':
        return GenericNack(sequence_num=seq, command_status=SmppCommandStatus(status))
    return EnquireLinkResp(sequence_num=seq)


CMD = {'s': 4, 'e': 0x15, 'u': 6, 'r': 0x80000004, 'n': 0x80000000, 'l': 0x80000015}


async def run_real(script, ttl):
    """Execute the script on the real SimpleCorrelator. Returns (observation list like ser_mrun_obs,
    hook log for the oracle, the script actually executed incl. the final drain)."""
    import aiosmpplib.correlator as cm
    from aiosmpplib.correlator import SimpleCorrelator
    clock = {'t': 0.0}

    class FT:
        @staticmethod
        def monotonic():
            return clock['t']
    old = cm.time
    cm.time = FT
    loop = asyncio.get_running_loop()
    hooklog = []
    executed = []
    info = {'stored_at': {}, 'answered': set(), 'kinds': {}, 'sar': {}, 'exceptions': []}
    try:
        c = SimpleCorrelator('x', max_ttl_response=float(ttl))
        gates = {}
        cur = {'task': None}

        class H:
            async def send_error(self, m, err, cid):
                tid = cur['task']
                hooklog.append((m._uid, type(err).__name__, Fraction(clock['t'])))
                fut = loop.create_future()
                gates[tid] = fut
                await fut
        c.hook = H()
        c.client_id = 'c'
        tasks = {}
        gets = []           # (task object) in begin order
        puts = {}           # task id -> message being put

        async def settle():
            for _ in range(8):
                await asyncio.sleep(0)

        def after_slice(tid, now2):
            t = tasks.get(tid)
            if t is not None and t.done():
                if t.exception() is not None:
                    info['exceptions'].append(type(t.exception()).__name__)
                elif tid in puts:
                    m = puts.pop(tid)
                    info['stored_at'].setdefault(m._uid, Fraction(now2))

        for e in script:
            if e[0] == 'B':
                _b, tid, what, payload, now, now2 = e
                if tid in tasks and not tasks[tid].done():
                    continue
                clock['t'] = float(now)
                cur['task'] = tid
                if what == 'put':
                    kind, uid, seq, sar = payload
                    m = mk_msg(kind, uid, seq, sar)
                    info['kinds'][uid] = kind
                    info['sar'][uid] = sar
                    puts[tid] = m
                    tasks[tid] = loop.create_task(c.put(m))
                    begun_put = m
                else:
                    rk, seq, status = payload
                    tasks[tid] = loop.create_task(c.get(mk_resp(rk, seq, status)))
                    gets.append(tasks[tid])
                await settle()
                executed.append(e)
                if what == 'put':
                    ent = c._store._data.get(str(begun_put.sequence_num))
                    if ent is not None and ent[1] is begun_put:
                        info['stored_at'].setdefault(begun_put._uid, Fraction(ent[0]))
                after_slice(tid, now2)
            else:
                _r, tid, now2 = e
                if tid not in gates or gates[tid].done():
                    continue
                clock['t'] = float(now2)
                cur['task'] = tid
                gates.pop(tid).set_result(None)
                await settle()
                executed.append(e)
                after_slice(tid, now2)
        # drain: resume suspended tasks until every call has completed
        last = Fraction(clock['t'])
        guard = 0
        while gates and guard < 10000:
            guard += 1
            tid = sorted(gates)[0]
            cur['task'] = tid
            gates.pop(tid).set_result(None)
            await settle()
            executed.append(('R', tid, last))
            after_slice(tid, last)
        obs = [h[0] for h in hooklog] + [-6]
        for g in gets:
            r = g.result() if g.done() and g.exception() is None else None
            obs.append(r._uid if r is not None else -1)
            if r is not None:
                info['answered'].add(r._uid)
        obs += [-7]
        for k, v in c._store._data.items():
            obs += [int(k), v[1]._uid]
        obs += [-8] + [int(k) for k in c._segment_store._data.keys()] + [-9]
        for k, ss in c._segment_status_store._data.items():
            obs += [core.status_key(k)]
            for a, b in ss.status.items():
                obs += [int(a), b]
            obs += [-1]
        info['final_store'] = {int(k): v[1]._uid for k, v in c._store._data.items()}
    finally:
        cm.time = old
    return obs, hooklog, executed, info


def oracle(ttl, hooklog, executed, info):
    """C14 on the hook log of the real code (plain, unsegmented SubmitSm only for exactly-once)."""
    seen = {}
    for uid, err, t in hooklog:
        if err != 'TimeoutError':
            return f'send_error for message {uid} with {err}'
        if info['sar'].get(uid) is None:
            st = info['stored_at'].get(uid)
            if st is None:
                return f'message {uid} timed out before its put() completed'
            if not (t - st > ttl):
                return f'message {uid} timed out after {float(t - st)} s (ttl {float(ttl)})'
            if uid in seen:
                return f'message {uid} reported as timed out twice'
            if uid in info['answered']:
                return f'message {uid} was answered and also reported as timed out'
        seen[uid] = t
    if info['exceptions']:
        return f'correlator call raised {info["exceptions"][0]}'
    return None


def coq_events(executed):
    out = []
    for e in executed:
        if e[0] == 'B':
            _b, tid, what, payload, now, now2 = e
            if what == 'put':
                kind, uid, seq, sar = payload
                sar = sar or (0, 0, 0)
                op = (f'(OpPut {{| sm_uid := {uid}; sm_cmd := {CMD[kind]}; sm_seq := {seq}; sm_log := {uid}; '
                      f'sm_sar := ({sar[0]}, {sar[1]}, {sar[2]})%Z |}})')
            else:
                rk, seq, status = payload
                op = f'(OpGet {{| rs_uid := 0; rs_cmd := {CMD[rk]}; rs_seq := {seq}; rs_status := {status} |}})'
            out.append(f'MBegin {tid} {op} {q(now)} {q(now2)}')
        else:
            out.append(f'MResume {e[1]} {q(e[2])}')
    return '[' + '; '.join(out) + ']'


def gen_script(rng, n, ttl):
    t = Fraction(0)
    ev = []
    seq = uid = 0
    sent = []
    refs = {}
    for _ in range(n):
        t += rng.choice([Fraction(1, 1024), Fraction(1, 8), Fraction(1, 2), ttl / 2, ttl + Fraction(1, 1024), Fraction(0)])
        k = rng.choice([1, 2, 3])
        r = rng.random()
        if r < 0.30:
            ev.append(('R', k, t))
        elif r < 0.68:
            seq += 1
            uid += 1
            kind = rng.choice(['s', 's', 's', 'e'])
            sar = None
            if kind == 's' and rng.random() < 0.35:
                ref = rng.choice([1, 2])
                st = refs.setdefault(ref, [0, rng.choice([2, 3])])
                st[0] += 1
                sar = (ref, st[0], st[1])
                if st[0] >= st[1]:
                    refs.pop(ref)
            useq = seq if rng.random() < 0.93 else rng.randint(1, max(1, seq))
            ev.append(('B', k, 'put', (kind, uid, useq, sar), t, t))
            sent.append((useq, uid, kind))
        else:
            if sent and rng.random() < 0.85:
                s_, _u, kind = rng.choice(sent)
            else:
                s_, kind = rng.randint(1, 50), 's'
            rk = rng.choice(['r', 'r', 'r', 'n']) if kind == 's' else 'l'
            status = rng.choice([0, 0, 0, 0x58, 0x14, 8]) if rk == 'r' else (3 if rk == 'n' else 0)
            ev.append(('B', k, 'get', (rk, s_, status), t, t))
    # closing sweep well after every TTL: an enquire_link put
    t += ttl * 3 + 1
    ev.append(('B', 9, 'put', ('e', 10 ** 6, 10 ** 6, None), t, t))
    return ev


async def backpressure_scenario(pause):
    """(d) a response that arrives within the TTL must find its request: the real _send_data stores the
    request only after drain(); with the transport paused the response overtakes the put."""
    import aiosmpplib.correlator as cm
    from aiosmpplib.protocol import SubmitSm, SubmitSmResp, EnquireLink, SmppMessage
    from aiosmpplib.state import PhoneNumber
    from harness import sess
    clock = {'t': 100.0}

    class FT:
        @staticmethod
        def monotonic():
            return clock['t']
    old = cm.time
    cm.time = FT
    try:
        loop = asyncio.get_running_loop()
        esme, hook = sess.make_esme()
        _r, writer, tr, _p = sess.make_stream(loop)
        esme._writer = writer
        esme._bound.set()
        esme._session_state = esme.bind_mode.session_state
        msg = SubmitSm(short_message='hi', source=PhoneNumber('1'), destination=PhoneNumber('2'), log_id='LOG1')
        if pause:
            tr.pause_writing()
        t = loop.create_task(esme._send_data(msg))
        await sess.settle()
        pdu = SubmitSmResp(sequence_num=msg.sequence_num, message_id='id1').pdu()
        clock['t'] = 101.0
        res = await esme._handle_response(pdu, SmppMessage.parse_header(pdu))
        if pause:
            tr.resume_writing()
        await sess.settle()
        await t
        clock['t'] = 200.0
        await esme.correlator.put(EnquireLink(sequence_num=999999))
        timed_out = [e for e in hook.log if e[0] == 'send_error' and getattr(e[1], 'log_id', '') == 'LOG1']
        return getattr(res, 'log_id', ''), len(timed_out)
    finally:
        cm.time = old


async def sweep_hook_scenario(yield_in_hook):
    """(d) again: correlator.put() for the request just written runs the expiry sweep, which awaits the application's
    send_error hook for an older request; the response to the new request is processed while that hook is suspended"""
    import aiosmpplib.correlator as cm
    from aiosmpplib.protocol import SubmitSm, SubmitSmResp, EnquireLink, SmppMessage
    from aiosmpplib.state import PhoneNumber
    from harness import sess
    clock = {'t': 100.0}

    class FT:
        @staticmethod
        def monotonic():
            return clock['t']
    old = cm.time
    cm.time = FT
    try:
        loop = asyncio.get_running_loop()
        esme, hook = sess.make_esme()
        _r, writer, tr, _p = sess.make_stream(loop)
        esme._writer = writer
        esme._bound.set()
        esme._session_state = esme.bind_mode.session_state
        gate = loop.create_future()
        if yield_in_hook:
            hook.error_gate = lambda m, e: asyncio.shield(gate)
        a = SubmitSm(short_message='old', source=PhoneNumber('1'), destination=PhoneNumber('2'), log_id='LOGA')
        await esme._send_data(a)
        clock['t'] = 100.0 + esme.correlator.max_ttl_response + 1.0          # A is overdue now
        b = SubmitSm(short_message='new', source=PhoneNumber('1'), destination=PhoneNumber('2'), log_id='LOGB')
        t = loop.create_task(esme._send_data(b))
        await sess.settle()
        pdu = SubmitSmResp(sequence_num=b.sequence_num, message_id='idB').pdu()
        clock['t'] += 0.5
        try:
            # (real seconds) the response must be handled while the hook is suspended: nothing in its way needs the hook to return
            res = await asyncio.wait_for(esme._handle_response(pdu, SmppMessage.parse_header(pdu)), 3.0)
        except asyncio.TimeoutError:
            res = None
            clock['handler_blocked'] = True
        if not gate.done():
            gate.set_result(None)
        await sess.settle()
        await t
        clock['t'] += 100.0
        hook.error_gate = None
        await esme.correlator.put(EnquireLink(sequence_num=999999))
        to_a = [e for e in hook.log if e[0] == 'send_error' and getattr(e[1], 'log_id', '') == 'LOGA']
        to_b = [e for e in hook.log if e[0] == 'send_error' and getattr(e[1], 'log_id', '') == 'LOGB']
        return ('<the response handler waited for the suspended send_error hook>' if clock.get('handler_blocked') else getattr(res, 'log_id', '')), len(to_a), len(to_b)
    finally:
        cm.time = old


async def slow_hook_scenario(hook_time, probe_after):
    """(a) at the session level: the time-to-live counts from the moment the request was SENT; the sending hook of the
    application may take any time before the PDU is written.  Returns (seconds between the write and the time-out report
    or None, ttl)."""
    import aiosmpplib.correlator as cm
    from aiosmpplib.protocol import SubmitSm, EnquireLink
    from aiosmpplib.state import PhoneNumber
    from harness import sess
    clock = {'t': 100.0}

    class FT:
        @staticmethod
        def monotonic():
            return clock['t']
    old = cm.time
    cm.time = FT
    try:
        loop = asyncio.get_running_loop()
        esme, hook = sess.make_esme()
        _r, writer, tr, _p = sess.make_stream(loop)
        esme._writer = writer
        esme._bound.set()
        esme._session_state = esme.bind_mode.session_state
        ttl = esme.correlator.max_ttl_response
        gate = loop.create_future()
        hook.sending_gate = lambda m, pdu: gate
        wrote = {}
        ow = tr.write

        def write(data):
            wrote.setdefault('t', clock['t'])
            return ow(data)
        tr.write = write
        msg = SubmitSm(short_message='hi', source=PhoneNumber('1'), destination=PhoneNumber('2'), log_id='LOGS')
        t = loop.create_task(esme._send_data(msg))
        await sess.settle()
        clock['t'] += hook_time
        gate.set_result(None)
        await sess.settle()
        await t
        hook.sending_gate = None
        clock['t'] = wrote['t'] + probe_after
        await esme.correlator.put(EnquireLink(sequence_num=999999))
        rep = [e for e in hook.log if e[0] == 'send_error' and getattr(e[1], 'log_id', '') == 'LOGS']
        return (clock['t'] - wrote['t'] if rep else None), ttl
    finally:
        cm.time = old


def reconnect_sweep_scenario(ttl, outage, keepalive=500.0):
    """across a reconnect: a submit_sm stays unanswered, the connection is lost, the SMSC is unreachable for `outage` seconds; the first
    request the ESME sends after the time-to-live has elapsed is the bind request of the new session (keep-alive far away), or - with a
    short keep-alive interval - one of many probes, which use up sequence numbers in both sessions"""
    import struct
    from harness import vsess, smppref
    from aiosmpplib.correlator import SimpleCorrelator
    from aiosmpplib.protocol import SubmitSm
    from aiosmpplib.state import PhoneNumber
    from aiosmpplib.retrytimer import SimpleExponentialBackoff
    loop = vsess.VLoop()
    asyncio.set_event_loop(loop)
    smsc = vsess.FakeSMSC(loop)
    undo = vsess.install(loop, smsc)
    obs = {'requests': [], 'timeouts': []}
    try:
        esme, hook = vsess.quiet_esme(enquire_link_interval=float(keepalive), socket_timeout=4.0, correlator=SimpleCorrelator('c14', max_ttl_response=float(ttl)),
                                      retry_timer=SimpleExponentialBackoff(500, 2))
        t_down = {}

        def on_connect(_s, n):
            if 't' in t_down and loop.time() < t_down['t'] + outage:
                return ConnectionRefusedError('SMSC is down')
            return 'accept'
        smsc.on_connect = on_connect

        def on_pdu(conn, pdu):
            for p in vsess.split_pdus(pdu)[0]:
                cmd, seq = struct.unpack('>I', p[4:8])[0], struct.unpack('>I', p[12:16])[0]
                if cmd < 0x80000000:
                    obs['requests'].append((loop.time(), conn.index, cmd, seq))
                if cmd in (1, 2, 9):
                    conn.send(vsess.bind_resp_for(p))
                elif cmd == 4 and conn.index == 0:
                    t_down['t'] = loop.time() + 0.5
                    conn.reset(delay=0.5)                 # never answered; the connection goes half a second later
                elif cmd == 0x15:
                    conn.send(smppref.header(0x80000015, 0, seq), delay=0.01)
        smsc.on_pdu = on_pdu

        def egate(m, err):
            if isinstance(m, SubmitSm):
                obs['timeouts'].append((loop.time(), m.log_id, type(err).__name__))
            return None
        hook.error_gate = egate

        async def main():
            t = asyncio.create_task(esme.start())
            await asyncio.sleep(1.0)
            await esme.broker.enqueue(SubmitSm(short_message='m', source=PhoneNumber('1'), destination=PhoneNumber('2'), log_id='LOGR'))
            await asyncio.sleep(float(ttl) + outage + 30.0)
            obs['start_done'] = t.done()
            if not t.done():
                t.cancel()
                try:
                    await t
                except BaseException:  # noqa: BLE001
                    pass
        loop.run_until_complete(main())
    finally:
        undo()
        vsess.finish(loop)
    return obs


def answered_scenario(shape, ttl=3.0):
    """a submit_sm answered half a second after it was written, in each of the shapes an SMSC uses: accepted with a message id, rejected
    with an empty C-string body, rejected with no body at all (what SMPP 3.4 prescribes for a non-zero status), generic_nack; keep-alive
    probes go on well past the time-to-live: the answered message must have its response as its only outcome"""
    import struct
    from harness import vsess, smppref
    from aiosmpplib.correlator import SimpleCorrelator
    from aiosmpplib.protocol import SubmitSm, SubmitSmResp, GenericNack
    from aiosmpplib.state import PhoneNumber
    loop = vsess.VLoop()
    asyncio.set_event_loop(loop)
    smsc = vsess.FakeSMSC(loop)
    undo = vsess.install(loop, smsc)
    obs = {}
    try:
        esme, hook = vsess.quiet_esme(enquire_link_interval=1.0, socket_timeout=4.0, correlator=SimpleCorrelator('c14a', max_ttl_response=float(ttl)))

        def on_pdu(conn, pdu):
            for p in vsess.split_pdus(pdu)[0]:
                cmd, seq = struct.unpack('>I', p[4:8])[0], struct.unpack('>I', p[12:16])[0]
                if cmd in (1, 2, 9):
                    conn.send(vsess.bind_resp_for(p))
                elif cmd == 4:
                    r = {'ok': smppref.header(0x80000004, 0, seq, b'id77\x00'),
                         'reject_cstring': smppref.header(0x80000004, 0x0B, seq, b'\x00'),
                         'reject_bare': smppref.header(0x80000004, 0x58, seq),
                         'reject_vendor': smppref.header(0x80000004, 0x400, seq),     # SMSC vendor specific error (0x400-0x4FF)
                         'reject_reserved': smppref.header(0x80000004, 0x7FFFFFFF, seq),
                         'nack': smppref.header(0x80000000, 3, seq)}[shape]
                    conn.send(r, delay=0.5)
                elif cmd == 0x15:
                    conn.send(smppref.header(0x80000015, 0, seq), delay=0.01)
        smsc.on_pdu = on_pdu

        async def main():
            t = asyncio.create_task(esme.start())
            await asyncio.sleep(1.0)
            await esme.broker.enqueue(SubmitSm(short_message='m', source=PhoneNumber('1'), destination=PhoneNumber('2'), log_id='LOGA', extra_data='XA'))
            await asyncio.sleep(float(ttl) * 3 + 5.0)
            obs['start_done'] = t.done()
            obs['errors'] = [(type(e[2]).__name__) for e in hook.log if e[0] == 'send_error' and isinstance(e[1], SubmitSm) and e[1].log_id == 'LOGA']
            obs['responses'] = [(type(e[1]).__name__, int(e[1].command_status), e[1].extra_data) for e in hook.log
                                if e[0] == 'received' and isinstance(e[1], (SubmitSmResp, GenericNack)) and e[1].log_id == 'LOGA']
            if not t.done():
                t.cancel()
                try:
                    await t
                except BaseException:  # noqa: BLE001
                    pass
        loop.run_until_complete(main())
    finally:
        undo()
        vsess.finish(loop)
    return obs


def segment_expiry_scenario(order):
    """a two-segment message whose segments are recorded a second apart (rate limiter, 1 message per second); one segment is never
    answered and its time-to-live (1 s) runs out - noticed by the sweep of a keep-alive probe - BEFORE the accepting response to the other
    segment is handled: the message is reported as timed out exactly once (by the response handler, which sees the expired sibling)."""
    import struct
    from harness import vsess, smppref
    from aiosmpplib.correlator import SimpleCorrelator
    from aiosmpplib.protocol import SubmitSm, SubmitSmResp, GenericNack
    from aiosmpplib.ratelimiter import SimpleRateLimiter
    from aiosmpplib.state import PhoneNumber
    loop = vsess.VLoop()
    asyncio.set_event_loop(loop)
    smsc = vsess.FakeSMSC(loop)
    undo = vsess.install(loop, smsc)
    obs = {'n': 0}
    try:
        from harness.C18 import mk_logger
        esme, hook = vsess.quiet_esme(enquire_link_interval=0.25, socket_timeout=4.0, correlator=SimpleCorrelator('c14s', max_ttl_response=1.0),
                                      rate_limiter=SimpleRateLimiter(mk_logger(), send_rate=1.0))

        def on_pdu(conn, pdu):
            for p in vsess.split_pdus(pdu)[0]:
                cmd, seq = struct.unpack('>I', p[4:8])[0], struct.unpack('>I', p[12:16])[0]
                if cmd in (1, 2, 9):
                    conn.send(vsess.bind_resp_for(p))
                elif cmd == 0x15:
                    conn.send(smppref.header(0x80000015, 0, seq), delay=0.01)
                elif cmd == 4:
                    obs['n'] += 1
                    silent = 1 if order.startswith('first_silent') else 2
                    if obs['n'] != silent and order.endswith('_other_rejected'):
                        # the other segment is REJECTED (ESME_RSUBMITFAIL, no body): the unanswered one must still get the message its one outcome
                        conn.send(smppref.header(0x80000004, 0x45, seq), delay=0.7 if order.startswith('first_silent') else 0.1)
                    elif obs['n'] != silent:
                        # the accepting response to the other segment comes after the silent one has expired
                        # segment 1 written at 0.5 expires at 1.5 (noticed by the next probe); segment 2, written at 1.5, is answered at 2.2
                        conn.send(smppref.header(0x80000004, 0, seq, b'ids%d\x00' % seq), delay=0.7 if order.startswith('first_silent') else 0.1)
        smsc.on_pdu = on_pdu
        src = PhoneNumber('38591')

        async def main():
            t = asyncio.create_task(esme.start())
            await asyncio.sleep(0.5)
            await esme.broker.enqueue(SubmitSm(short_message='s' * 300, source=src, destination=src, log_id='LS', extra_data='XS', auto_message_payload=False))
            await asyncio.sleep(12.0)
            obs['start_done'] = t.done()
            obs['outcomes'] = [('error', type(e[2]).__name__) for e in hook.log if e[0] == 'send_error' and isinstance(e[1], SubmitSm) and e[1].log_id == 'LS'] + \
                              [('response', int(e[1].command_status)) for e in hook.log
                               if e[0] == 'received' and isinstance(e[1], (SubmitSmResp, GenericNack)) and e[1].log_id == 'LS']
            t.cancel()
            await asyncio.wait({t}, timeout=30.0)
        loop.run_until_complete(main())
    finally:
        undo()
        vsess.finish(loop)
    return obs


def oracle_segment_expiry(obs, order=''):
    if obs['start_done']:
        return 'start() ended'
    if obs['n'] != 2:
        return f'{obs["n"]} submit_sm PDUs were written instead of 2'
    if order.endswith('_other_rejected'):
        # one segment rejected, one never answered: exactly one outcome, a failure (the time-out or the rejecting response)
        o = obs['outcomes']
        if len(o) != 1 or o[0] == ('response', 0):
            return f'the message got the outcomes {o}, expected exactly one failure (TimeoutError or the rejecting response)'
        return None
    if obs['outcomes'] != [('error', 'TimeoutError')]:
        return f'the message got the outcomes {obs["outcomes"]}, expected exactly one TimeoutError'
    return None


def oracle_answered(obs, shape):
    if obs.get('start_done'):
        return 'start() ended'
    if obs['errors']:
        return (f'a submit_sm answered ({shape}) half a second after it was written was reported to send_error ({obs["errors"]}); '
                f'responses handed to the hook with its log_id: {obs["responses"]}')
    if len(obs['responses']) != 1 or obs['responses'][0][2] != 'XA':
        return f'a submit_sm answered ({shape}) in time: the hook saw {obs["responses"]} under its log_id'
    return None


def oracle_reconnect_sweep(obs, ttl):
    sent = [t for t, _c, cmd, _s in obs['requests'] if cmd == 4]
    if not sent:
        return 'the submit_sm was never written'
    t_sent = sent[0]
    later = [t for t, _c, cmd, _s in obs['requests'] if t > t_sent + float(ttl)]
    to = [t for t, lid, kind in obs['timeouts'] if lid == 'LOGR' and kind == 'TimeoutError']
    early = [t for t in to if not t - t_sent > float(ttl)]
    if early:
        return f'the unanswered submit_sm written at t={t_sent:.2f} was reported as timed out at t={early[0]:.2f} (ttl {ttl})'
    if len(to) > 1:
        return f'the unanswered submit_sm was reported as timed out {len(to)} times'
    if later and (not to or to[0] > later[0] + 0.5):
        return (f'the unanswered submit_sm written at t={t_sent:.2f} (ttl {ttl}) was '
                + (f'reported as timed out only at t={to[0]:.2f}' if to else 'never reported as timed out')
                + f' although the ESME sent a request (the bind of the new session) at t={later[0]:.2f}')
    return None


def run(ctx):
    ctx.rule = ('seeded scripts of put/get calls by three concurrent tasks on the real SimpleCorrelator with a send_error hook that suspends '
                '(scripted clock; TTL boundaries ttl/2, ttl+1/1024), plain/segmented SubmitSm, enquire_link, responses ok/error/nack/unknown, '
                'sequence-number collisions, a closing sweep after every TTL; non-trivial = at least one expiry; distinct by script')
    ctx.trusted_base = ['Coq 8.16.1 kernel; no axioms', 'translator/py2coq.py (status constants, command ids)',
                        'correspondence harness harness/C14.py: time.monotonic of correlator.py replaced by a scripted clock, suspending recording hook']
    ctx.assumptions = ['asyncio cooperative scheduling: correlator code is atomic between awaits; the only await inside the correlator is hook.send_error',
                       'exact rational clock values (dyadic), so binary64 comparisons are exact']
    proved = ctx.prove('C14', THEOREMS)
    rng = ctx.rng
    cases = []
    n = 4000 if ctx.thorough else 150
    for i in range(n):
        ttl = rng.choice([Fraction(1), Fraction(2), Fraction(15)])
        script = gen_script(rng, rng.randint(4, 45), ttl)
        obs, hooklog, executed, info = asyncio.run(run_real(script, ttl))
        ctx.traces += 1
        ctx.case(('script', i, repr(executed)), nontrivial=len(hooklog) > 0)
        ctx.count('hook_calls', len(hooklog))
        ctx.count('events', len(executed))
        msg = oracle(ttl, hooklog, executed, info)
        if msg is None:
            # exactly once: every plain SubmitSm that was stored, never answered and not overwritten has one time-out
            timed = {h[0] for h in hooklog}
            t_close = script[-1][4]
            for uid, st in info['stored_at'].items():
                if st + ttl >= t_close:
                    continue        # stored after (or too shortly before) the closing sweep began
                if info['kinds'].get(uid) == 's' and info['sar'].get(uid) is None and uid not in info['answered'] and uid not in timed:
                    overwritten = any(e[0] == 'B' and e[2] == 'put' and e[3][1] != uid and
                                      e[3][2] == next(x[3][2] for x in executed if x[0] == 'B' and x[2] == 'put' and x[3][1] == uid)
                                      for e in executed)
                    if not overwritten and uid in info['final_store'].values():
                        msg = f'message {uid} is still in the store after a sweep later than its TTL'
                    elif not overwritten:
                        msg = f'unanswered message {uid} vanished without a time-out'
        if msg:
            ctx.violation(msg, {'function': 'script', 'ttl': str(ttl), 'script': [[str(x) for x in e] for e in script]})
        cases.append((f'({q(ttl)}, {coq_events(executed)})', czl(obs)))
        if i < 1:
            ctx.sample({'ttl': str(ttl), 'events': [[str(x) for x in e] for e in executed[:8]], 'hook_calls': [[str(x) for x in h] for h in hooklog[:5]]})
    # (d) response within the TTL vs. the moment the request is stored
    for pause in (False, True):
        lid, nto = asyncio.run(backpressure_scenario(pause))
        ctx.traces += 1
        ctx.case(('backpressure', pause))
        if lid != 'LOG1' or nto:
            ctx.violation(f'a submit_sm answered 1 s after it was written was not matched (log_id {lid!r}) and was reported as timed out {nto} time(s)'
                          + (' while the transport was paused between write and correlator.put' if pause else ''),
                          {'finding_key': 'response-before-put-under-backpressure' if pause else None, 'function': 'backpressure', 'pause_writing': pause})
    for hook_time in (0.0, 2.5, 14.0, 40.0):
        for frac in (0.5, 0.95, 1.05):
            ttl0 = 15.0
            after, ttl = asyncio.run(slow_hook_scenario(hook_time, frac * ttl0))
            ctx.traces += 1
            ctx.case(('slow_hook', hook_time, frac))
            rp = {'function': 'slow_hook', 'sending_hook_seconds': hook_time, 'probe_after_write_seconds': frac * ttl0}
            if after is not None and not after > ttl:
                ctx.violation(f'a submit_sm was reported as timed out {after} s after it was written (ttl {ttl} s); its sending hook had taken {hook_time} s', rp)
            if after is None and frac * ttl0 > ttl:
                ctx.violation(f'an unanswered submit_sm was not reported by the first request sent {frac * ttl0} s after it was written (ttl {ttl} s)', rp)
    for ttl, outage in ((3.0, 6.0), (3.0, 1.0), (10.0, 14.0)) + (((5.0, 20.0), (2.0, 3.0)) if ctx.thorough else ()):
        obs = reconnect_sweep_scenario(ttl, outage)
        ctx.traces += 1
        ctx.case(('reconnect_sweep', ttl, outage), nontrivial=True)
        msg = oracle_reconnect_sweep(obs, ttl)
        if msg:
            ctx.violation(msg, {'function': 'reconnect_sweep', 'ttl': ttl, 'outage': outage})
    for ttl, outage, ka in ((10.0, 1.0, 0.3), (6.0, 0.5, 0.5)) + (((15.0, 2.0, 0.25), (4.0, 0.2, 0.2)) if ctx.thorough else ()):
        obs = reconnect_sweep_scenario(ttl, outage, ka)
        ctx.traces += 1
        ctx.case(('reconnect_sweep', ttl, outage, ka), nontrivial=True)
        msg = oracle_reconnect_sweep(obs, ttl)
        if msg:
            ctx.violation(msg + f' (keep-alive every {ka} s)', {'function': 'reconnect_sweep', 'ttl': ttl, 'outage': outage, 'keepalive': ka})
    for order in ('first_silent', 'second_silent', 'first_silent_other_rejected', 'second_silent_other_rejected'):
        obs = segment_expiry_scenario(order)
        ctx.traces += 1
        ctx.case(('segment_expiry', order), nontrivial=True)
        msg = oracle_segment_expiry(obs, order)
        if msg:
            ctx.violation(f'two-segment message, {order.replace("_", " ")}, its time-to-live runs out before the other segment is answered: {msg}',
                          {'function': 'segment_expiry', 'order': order})
    for shape in ('ok', 'reject_cstring', 'reject_bare', 'reject_vendor', 'reject_reserved', 'nack'):
        obs = answered_scenario(shape)
        ctx.traces += 1
        ctx.case(('answered', shape), nontrivial=True)
        msg = oracle_answered(obs, shape)
        if msg:
            ctx.violation(msg, {'function': 'answered', 'shape': shape})
    for y in (False, True):
        lid, na, nb = asyncio.run(sweep_hook_scenario(y))
        ctx.traces += 1
        ctx.case(('sweep_hook', y))
        if lid != 'LOGB' or nb or na != 1:
            ctx.violation(f'a submit_sm answered 0.5 s after it was written was not matched (log_id {lid!r}) and was reported as timed out {nb} time(s); '
                          f'the older unanswered request was reported {na} time(s)'
                          + (' - the send_error hook for the older request was suspended inside correlator.put() of the new one' if y else ''),
                          {'function': 'sweep_hook', 'yield_in_hook': y})
    if proved or not getattr(ctx, 'build_failing', None):
        bad, errs = core.run_cases('C14', 'corr', IMPORTS, 'fun p : Q * list mevent => ser_mrun_obs (fst p) (snd p)', cases, shard=60,
                                   preamble='Open Scope Q_scope.\nOpen Scope Z_scope.')
        for fnm, out in errs:
            ctx.broken.append(f'model evaluation failed ({fnm}): {out[-600:]}')
        for i in bad[:5]:
            inp, exp = cases[i]
            ctx.violation('model and implementation disagree on a correlator history', {
                'correspondence': 'Model/Correlator.v vs correlator.py', 'input_term': inp[:3000], 'implementation_result': exp[:800]}, found_input=False)
        ctx.extra['correspondence_corr_cases'] = len(cases)
        ctx.extra['correspondence_corr_disagreements'] = len(bad)
    return ctx.finish()


def replay(ctx, path):
    import json
    rp = json.load(open(path))
    fn = rp.get('function')
    if fn == 'backpressure':
        lid, nto = asyncio.run(backpressure_scenario(rp['pause_writing']))
        print(f'replay: response matched with log_id {lid!r}; the answered message was reported as timed out {nto} time(s)')
        return 1 if lid != 'LOG1' or nto else 0
    if fn == 'sweep_hook':
        lid, na, nb = asyncio.run(sweep_hook_scenario(rp['yield_in_hook']))
        print(f'replay: response matched with log_id {lid!r}; answered message reported as timed out {nb} time(s); older request reported {na} time(s)')
        return 1 if lid != 'LOGB' or nb or na != 1 else 0
    if fn == 'slow_hook':
        after, ttl = asyncio.run(slow_hook_scenario(rp['sending_hook_seconds'], rp['probe_after_write_seconds']))
        print(f'replay: time-out reported {after} s after the write (ttl {ttl} s)')
        return 1 if (after is not None and not after > ttl) or (after is None and rp['probe_after_write_seconds'] > ttl) else 0
    if fn == 'reconnect_sweep':
        obs = reconnect_sweep_scenario(rp['ttl'], rp['outage'], rp.get('keepalive', 500.0))
        print('replay: requests written (time, connection, command):', [(round(t, 2), c, hex(cmd)) for t, c, cmd, _s in obs['requests']])
        print('replay: send_error calls:', obs['timeouts'])
        msg = oracle_reconnect_sweep(obs, rp['ttl'])
        print('replay:', msg or 'property holds on this input')
        return 1 if msg else 0
    if fn == 'segment_expiry':
        obs = segment_expiry_scenario(rp['order'])
        msg = oracle_segment_expiry(obs, rp['order'])
        print('replay: outcomes of the message:', obs['outcomes'])
        print('replay:', msg or 'property holds on this input')
        return 1 if msg else 0
    if fn == 'answered':
        obs = answered_scenario(rp['shape'])
        msg = oracle_answered(obs, rp['shape'])
        print('replay: send_error calls', obs['errors'], 'responses', obs['responses'])
        print('replay:', msg or 'property holds on this input')
        return 1 if msg else 0
    if fn == 'script':
        ttl = Fraction(rp['ttl'])

        def conv(x):
            try:
                return Fraction(x)
            except (ValueError, TypeError):
                return x
        import ast
        script = []
        for e in rp['script']:
            if e[0] == 'B':
                script.append(('B', int(e[1]), e[2], ast.literal_eval(e[3]), Fraction(e[4]), Fraction(e[5])))
            else:
                script.append(('R', int(e[1]), Fraction(e[2])))
        obs, hooklog, executed, info = asyncio.run(run_real(script, ttl))
        msg = oracle(ttl, hooklog, executed, info)
        print('replay: hook calls', [(h[0], h[1], float(h[2])) for h in hooklog])
        print('replay: oracle says:', msg or 'property holds on this history (never-early / at-most-once part)')
        return 1 if msg else 0
    print('replay:', json.dumps(rp)[:1500])
    return 0
