"""C16 - keep-alive: proofs (Props/C16.v) + inbound traffic patterns and answer delays played against the real
_connection_keeper inside ESME.start() on a virtual-time loop.  Observed: enquire_link PDUs with time stamps, when the keeper
gave up, connection close.  Compared with Model/Keeper.v (ser_keeper) and checked by an oracle."""
import asyncio
import struct

from lib import core
from lib.core import czl
from harness import smppref, vsess

THEOREMS = ['C16_probe_exactly_when_idle', 'C16_drop_only_after_silence', 'C16_live_peer_never_dropped', 'C16_silent_peer_dropped', 'C16_nonvacuous']
IMPORTS = ['AV.Model.Keeper']


def play(interval, timeout, arrivals, delays, horizon, pause_at=None, kinds=None, deny_throttle=False):
    """times in seconds; arrivals = times at which the SMSC sends an enquire_link of its own; delays[k] = answer delay of probe k or None"""
    loop = vsess.VLoop()
    asyncio.set_event_loop(loop)
    smsc = vsess.FakeSMSC(loop)
    undo = vsess.install(loop, smsc)
    obs = {'probes': [], 'keeper_end': None, 'keeper_exc': None}
    try:
        kw = {}
        if deny_throttle:
            # the SMSC has been throttling: the handler denies every request of the application - the keep-alive must not care
            from aiosmpplib.throttle import AbstractThrottleHandler

            class DenyAll(AbstractThrottleHandler):
                async def throttled(self):
                    pass

                async def not_throttled(self):
                    pass

                async def allow_request(self):
                    return False

                async def throttle_delay(self):
                    return 1.0
            kw['throttle_handler'] = DenyAll()
        esme, hook = vsess.quiet_esme(enquire_link_interval=interval, socket_timeout=timeout, **kw)
        orig = esme._connection_keeper
        first = [True]

        async def keeper():
            mine = first[0]
            first[0] = False
            try:
                return await orig()
            except asyncio.CancelledError:
                raise
            except BaseException as e:  # noqa: BLE001
                if mine:
                    obs['keeper_exc'] = e
                raise
            finally:
                if mine and obs['keeper_end'] is None:
                    obs['keeper_end'] = loop.time()
        esme._connection_keeper = keeper
        bound_at = [None]
        nprobe = [0]

        def on_pdu(conn, pdu):
            for p in vsess.split_pdus(pdu)[0]:
                cmd, seq = struct.unpack('>I', p[4:8])[0], struct.unpack('>I', p[12:16])[0]
                if cmd in (1, 2, 9):
                    conn.send(vsess.bind_resp_for(p))
                    if conn.index == 0:
                        bound_at[0] = loop.time()
                        for k, a in enumerate(arrivals):
                            kind = (kinds or [])[k] if kinds and k < len(kinds) else 'enquire_link'
                            pdu_k = {'enquire_link': smppref.header(0x15, 0, 5000 + k),
                                     'alert_notification': smppref.header(0x102, 0, 5000 + k, b'\x01\x01123\x00\x01\x01456\x00'),
                                     'broken_deliver_sm': smppref.header(5, 0, 5000 + k, b'\x00\x01'),
                                     'query_sm_resp': smppref.header(0x80000003, 0, 5000 + k, b'id\x00\x00\x02\x00'),
                                     'stray_submit_sm_resp': smppref.header(0x80000004, 0, 999000 + k, b'zz\x00')}[kind]
                            conn.send(pdu_k, delay=a) if a > 0 else conn.send(pdu_k)
                        if pause_at is not None:
                            # the peer stops reading: the transport's write buffer fills up and writing is paused
                            loop.call_later(pause_at, conn.transport.pause_writing)
                elif cmd == 0x15 and conn.index == 0:
                    obs['probes'].append(loop.time() - bound_at[0])
                    k = nprobe[0]
                    nprobe[0] += 1
                    d = delays[k] if k < len(delays) else None
                    if d is not None:
                        if d > 0:
                            conn.send(smppref.header(0x80000015, 0, seq), delay=d)
                        else:
                            conn.send(smppref.header(0x80000015, 0, seq))
                elif cmd == 0x15:
                    conn.send(smppref.header(0x80000015, 0, seq), delay=0.01)
        smsc.on_pdu = on_pdu

        async def main():
            t = asyncio.create_task(esme.start())
            await asyncio.sleep(horizon)
            obs['start_done'] = t.done()
            obs['conn0_closed'] = smsc.conns[0].closed_at
            obs['conns'] = len(smsc.conns)
            obs['attempts'] = list(smsc.attempts)
            for c in smsc.conns:
                if c.transport.paused:
                    c.transport.resume_writing()      # let the teardown of the harness run through
            t.cancel()
            try:
                await t
            except BaseException:  # noqa: BLE001
                pass
        loop.run_until_complete(main())
    finally:
        undo()
        vsess.finish(loop)
    return obs


def stalled_peer_session(who_writes):
    """the SMSC stops reading one second after the bind (the transport pauses writing: write back-pressure) and never answers again, but keeps
    the socket open; the application (or nobody) keeps sending. The keep-alive logic must drop that connection and the ESME must get a
    working session on a later connection: the SMSC answers every later bind at once."""
    import struct
    from harness import smppref
    from aiosmpplib.protocol import SubmitSm
    from aiosmpplib.state import PhoneNumber
    from aiosmpplib.retrytimer import SimpleExponentialBackoff
    loop = vsess.VLoop()
    asyncio.set_event_loop(loop)
    smsc = vsess.FakeSMSC(loop)
    undo = vsess.install(loop, smsc)
    obs = {'binds': [], 'after_bind': {}}
    try:
        esme, hook = vsess.quiet_esme(enquire_link_interval=0.5, socket_timeout=0.5, retry_timer=SimpleExponentialBackoff(100, 2))

        def on_pdu(conn, pdu):
            for p in vsess.split_pdus(pdu)[0]:
                cmd, seq = struct.unpack('>I', p[4:8])[0], struct.unpack('>I', p[12:16])[0]
                if cmd in (1, 2, 9):
                    obs['binds'].append((round(loop.time(), 2), conn.index))
                    conn.send(vsess.bind_resp_for(p))
                    if conn.index == 0:
                        loop.call_later(1.0, conn.transport.pause_writing)        # the peer stops reading; it never answers again
                elif conn.index == 0 and loop.time() > 1.0 + conn.opened_at:
                    pass
                else:
                    obs['after_bind'].setdefault(conn.index, []).append(cmd)
                    if cmd == 4:
                        conn.send(smppref.header(0x80000004, 0, seq, b'id%d\x00' % seq), delay=0.01)
                    elif cmd == 0x15:
                        conn.send(smppref.header(0x80000015, 0, seq), delay=0.01)
        smsc.on_pdu = on_pdu
        src = PhoneNumber('38591')

        async def main():
            t = asyncio.create_task(esme.start())
            for k in range(200):
                await asyncio.sleep(0.1)
                if who_writes == 'application' and k % 1 == 0:
                    await esme.broker.enqueue(SubmitSm(short_message='m%d' % k, source=src, destination=src, log_id='L%d' % k))
            obs['start_done'] = t.done()
            obs['state'] = int(esme.session_state)
            obs['bound'] = esme._bound.is_set()
            obs['lock'] = esme._drain_lock.locked()
            t.cancel()
            done, _p = await asyncio.wait({t}, timeout=30.0)
            obs['cancel_hangs'] = not done
        loop.run_until_complete(main())
    finally:
        undo()
        try:
            vsess.finish(loop)
        except vsess.Deadlock:
            obs['cancel_hangs'] = True
    return obs


def silent_smsc_busy_app(interval, timeout):
    """the SMSC answers for one second after the bind and then goes silent (it still reads); the application keeps submitting every 0.1 s.
    The ESME's own traffic is no sign of life of the SMSC: a probe goes out `interval` after the last PDU RECEIVED, and the connection is
    dropped `timeout` later."""
    import struct
    from harness import smppref
    from aiosmpplib.protocol import SubmitSm
    from aiosmpplib.state import PhoneNumber
    from aiosmpplib.retrytimer import SimpleExponentialBackoff
    loop = vsess.VLoop()
    asyncio.set_event_loop(loop)
    smsc = vsess.FakeSMSC(loop)
    undo = vsess.install(loop, smsc)
    obs = {'probes': [], 'last_inbound': None, 'closed0': None, 'binds': []}
    try:
        esme, hook = vsess.quiet_esme(enquire_link_interval=float(interval), socket_timeout=float(timeout), retry_timer=SimpleExponentialBackoff(100, 2))

        def on_pdu(conn, pdu):
            for p in vsess.split_pdus(pdu)[0]:
                cmd, seq = struct.unpack('>I', p[4:8])[0], struct.unpack('>I', p[12:16])[0]
                if cmd in (1, 2, 9):
                    obs['binds'].append((loop.time(), conn.index))
                    conn.send(vsess.bind_resp_for(p))
                    if conn.index == 0:
                        obs['last_inbound'] = loop.time()
                elif conn.index == 0:
                    if cmd == 0x15:
                        obs['probes'].append(loop.time())
                    if loop.time() < conn.opened_at + 1.0:
                        if cmd == 4:
                            conn.send(smppref.header(0x80000004, 0, seq, b'id%d\x00' % seq))
                            obs['last_inbound'] = loop.time()
                else:
                    if cmd == 4:
                        conn.send(smppref.header(0x80000004, 0, seq, b'id%d\x00' % seq), delay=0.01)
                    elif cmd == 0x15:
                        conn.send(smppref.header(0x80000015, 0, seq), delay=0.01)
        smsc.on_pdu = on_pdu
        src = PhoneNumber('38591')

        async def main():
            t = asyncio.create_task(esme.start())
            horizon = 1.0 + 2 * (interval + timeout) + 3.0
            k = 0
            while loop.time() < horizon:
                await asyncio.sleep(0.1)
                k += 1
                await esme.broker.enqueue(SubmitSm(short_message='m%d' % k, source=src, destination=src, log_id='L%d' % k))
                if obs['closed0'] is None and smsc.conns and smsc.conns[0].closed_at is not None:
                    obs['closed0'] = smsc.conns[0].closed_at
            obs['start_done'] = t.done()
            t.cancel()
            await asyncio.wait({t}, timeout=30.0)
        loop.run_until_complete(main())
    finally:
        undo()
        vsess.finish(loop)
    return obs


def oracle_silent_smsc_busy_app(obs, interval, timeout):
    if obs['start_done']:
        return 'start() ended'
    li = obs['last_inbound']
    if not obs['probes']:
        return (f'the SMSC sent its last PDU at t={li:.2f} and stayed silent while the application went on submitting: no enquire_link was sent '
                f'(interval {interval} s), the connection was {"closed at t=%.2f" % obs["closed0"] if obs["closed0"] else "never dropped"}')
    p0 = obs['probes'][0]
    if not li + interval - 0.05 <= p0 <= li + interval + 0.25:
        return f'the first enquire_link went out at t={p0:.2f}; the last PDU from the SMSC was received at t={li:.2f} (interval {interval} s)'
    if obs['closed0'] is None or not p0 + timeout - 0.05 <= obs['closed0'] <= p0 + timeout + 1.7:      # start() gives each of the other tasks half a second to end
        return (f'the probe of t={p0:.2f} was never answered (time-out {timeout} s); the connection was '
                f'{"closed at t=%.2f" % obs["closed0"] if obs["closed0"] else "never dropped"}')
    if not any(c > 0 for _t, c in obs['binds']):
        return 'the dropped connection was not replaced'
    return None


def oracle_stalled_peer(obs):
    if obs['start_done']:
        return 'start() ended'
    later = [c for _t, c in obs['binds'] if c > 0]
    if not later:
        return f'the stalled connection was never replaced: binds {obs["binds"]}'
    if obs.get('cancel_hangs'):
        return 'cancelling start() at the end did not end it within 30 s (a task waits for ever)'
    working = [c for c in later if obs['after_bind'].get(c)]
    if not working:
        return (f'after the stalled connection was dropped the ESME never got a working session: {len(later)} further bind requests were answered at once '
                f'({obs["binds"][:6]} ...), nothing was written after any of them; the write lock is {"still held" if obs["lock"] else "free"}')
    return None


def ms(x):
    return int(round(x * 1000))


def oracle(interval, timeout, arrivals, delays, horizon, obs):
    """the property on the observations (times in seconds, relative to the bind)"""
    eps = 1e-6
    rx = sorted(arrivals)
    probes = obs['probes']
    # answers that reached the ESME are arrivals too
    for k, p in enumerate(probes):
        d = delays[k] if k < len(delays) else None
        if d is not None:
            rx.append(p + d)
    rx.sort()
    drop = obs['keeper_end'] if obs['keeper_end'] is not None and obs['keeper_end'] < horizon - eps else None
    end = drop if drop is not None else horizon
    rx = [a for a in rx if a < end - eps or True]

    def last_rx_before(t, inclusive):
        c = [a for a in rx if (a <= t + eps if inclusive else a < t - eps)]
        return max(c) if c else 0.0
    # (1) a probe goes out exactly when nothing has been received for `interval`
    for p in probes:
        quiet_since = last_rx_before(p, inclusive=False)
        if abs(p - (quiet_since + interval)) > eps:
            return f'enquire_link written at t={p:.3f} although the last inbound PDU before it came at t={quiet_since:.3f} (interval {interval})'
    # every idle period of `interval` produces a probe
    t = 0.0
    marks = sorted(set([0.0] + [a for a in rx if a < end]))
    for i, a in enumerate(marks):
        nxt = marks[i + 1] if i + 1 < len(marks) else end
        due = a + interval
        if due < nxt - eps and due < end - eps and not any(abs(p - due) < eps for p in probes):
            return f'nothing received between t={a:.3f} and t={nxt:.3f} but no enquire_link at t={due:.3f}'
    # (2) dropped only after a probe followed by `timeout` of silence; (3) never dropped otherwise
    if drop is not None:
        cand = [p for p in probes if abs(p + timeout - drop) < eps]
        if not cand:
            return f'the keeper gave up at t={drop:.3f} which is not socket_timeout after a probe (probes {probes[-3:]})'
        p = cand[-1]
        if any(p - eps <= a < p + timeout - eps for a in rx):
            return f'dropped at t={drop:.3f} although traffic arrived within {timeout}s of the probe at t={p:.3f}'
        if drop + 3.0 < horizon and obs['conn0_closed'] is None:
            return 'the keeper gave up but the connection was not closed'
        if drop + 3.0 < horizon and obs['conns'] < 2:
            return 'no reconnect after the keeper gave up'
    else:
        for p in probes:
            if p + timeout < horizon - 2.0 and not any(p - eps <= a < p + timeout - eps for a in rx):
                return f'probe at t={p:.3f} was met with {timeout}s of silence but the connection was kept'
        if obs['conns'] > 1:
            return 'the connection was dropped although every probe was answered in time'
    return None


def gen(rng):
    interval = rng.choice([5.0, 30.0, 55.0])
    timeout = rng.choice([2.0, 10.0, 30.0])
    horizon = interval * rng.choice([4, 7, 12]) + 3.0
    pat = rng.choice(['none', 'below', 'above', 'burst', 'exact', 'random'])
    arrivals = []
    t = 0.0
    if pat == 'below':
        while t < horizon:
            t += interval - rng.choice([0.001, 0.5, 2.0])
            arrivals.append(round(t, 3))
        arrivals = arrivals[:rng.randint(1, len(arrivals))]
    elif pat == 'above':
        while t < horizon:
            t += interval + rng.choice([0.001, 0.5, timeout - 0.001, timeout + 1.0])
            arrivals.append(round(t, 3))
    elif pat == 'burst':
        start = rng.uniform(0, horizon / 2)
        arrivals = [round(start + 0.01 * i, 3) for i in range(rng.randint(2, 6))]
    elif pat == 'exact':
        arrivals = [interval, round(2 * interval + 0.0, 3)]          # the PDU arrives in the same loop iteration as the timer
    elif pat == 'random':
        arrivals = sorted(round(rng.uniform(0.001, horizon), 3) for _ in range(rng.randint(1, 6)))
    arrivals = sorted(set(a for a in arrivals if 0 < a < horizon - 0.5))
    delays = [rng.choice([0.0, 0.2, 0.5, round(timeout - 0.001, 3), round(timeout + 0.5, 3), None, 0.5, 0.5]) for _ in range(30)]
    if rng.random() < 0.3:
        delays = [rng.choice([0.0, 0.3, round(timeout - 0.001, 3)]) for _ in range(40)]      # a live peer
    kinds = [rng.choice(['enquire_link', 'enquire_link', 'alert_notification', 'broken_deliver_sm', 'query_sm_resp', 'stray_submit_sm_resp']) for _ in arrivals]
    pause_at = None
    if rng.random() < 0.15:
        pause_at = round(rng.uniform(0.5, horizon / 2), 3)
        keep = [(a, k) for a, k in zip(arrivals, kinds) if a < pause_at]
        arrivals, kinds = [a for a, _ in keep], [k for _, k in keep]
        delays = [d if False else None for d in delays]          # a peer that has gone dead answers nothing
    return interval, timeout, arrivals, delays, horizon, pause_at, kinds


def run(ctx):
    ctx.rule = ('intervals 5/30/55 s, time-outs 2/10/30 s; inbound traffic: none, periodic just below / just above the interval, bursts, exactly at the '
                'timer instant, random; answer delays 0, small, just below and above the time-out, never; live peers; horizon 4-12 intervals; '
                'non-trivial = at least one probe')
    ctx.trusted_base = ['Coq 8.16.1 kernel; no axioms', 'harness/vsess.py (virtual-time loop: timers fire in time order, ties in scheduling order), harness/C16.py',
                        'asyncio.wait / wait_for semantics']
    ctx.assumptions = ['an answer arriving exactly socket_timeout after the probe is outside the statement (the model and the code both treat it as too late)']
    proved = ctx.prove('C16', THEOREMS)
    rng = ctx.rng
    n = 8000 if ctx.thorough else 200
    cases = []
    for i in range(n):
        interval, timeout, arrivals, delays, horizon, pause_at, kinds = gen(rng)
        deny = pause_at is None and i % 6 == 5
        obs = play(interval, timeout, arrivals, delays, horizon, pause_at, kinds, deny_throttle=deny)
        if deny:
            ctx.count('throttle_handler_denying_everything')
        if pause_at is not None:
            ctx.count('peer_goes_dead_with_write_backpressure')
        for kd in kinds:
            ctx.count('traffic_' + kd)
        ctx.case(('keeper', interval, timeout, tuple(arrivals), tuple(delays[:8]), horizon), nontrivial=bool(obs['probes']))
        drop = obs['keeper_end'] if obs['keeper_end'] is not None and obs['keeper_end'] < horizon - 1e-6 else None
        ctx.count('dropped' if drop is not None else 'kept')
        ctx.count('probes', len(obs['probes']))
        rp = {'interval': interval, 'timeout': timeout, 'arrivals': arrivals, 'delays': delays[:len(obs['probes']) + 2], 'horizon': horizon,
              'pause_at': pause_at, 'kinds': kinds, 'deny_throttle': deny}
        if obs['start_done']:
            ctx.violation('start() ended during a keep-alive scenario', rp)
        msg = oracle(interval, timeout, arrivals, delays, horizon, obs)
        if msg:
            ctx.violation(msg, rp)
        exp = [len(obs['probes'])] + [ms(p) for p in obs['probes']] + ([1, ms(drop)] if drop is not None else [0])
        dterm = '[' + '; '.join('None' if d is None else f'Some {ms(d)}' for d in delays) + ']'
        cases.append((f'({ms(interval)}, {ms(timeout)}, {czl([ms(a) for a in arrivals])}, {dterm}, {ms(horizon)})', czl(exp)))
        if i < 2:
            ctx.sample({'interval': interval, 'timeout': timeout, 'arrivals': arrivals[:6], 'probes': obs['probes'][:6], 'dropped_at': drop})
    # ---- the connection is lost while the receiver handles a response and the application's hook does not return (it waits for something
    #      only a running session provides): the session must be replaced all the same, within the socket time-out
    from harness import C01 as _C01
    for kind in ('ok', 'segmented'):
        obs = _C01.receiver_cancelled_session(10 ** 6, 0.2, kind, socket_timeout=3.0)
        ctx.traces += 1
        ctx.case(('blocked_hook', kind), nontrivial=True)
        later = [o for o in obs['outcomes'] if o[1] in ('C', 'D', 'E')]
        if obs.get('start_done') or len(later) < 3:
            ctx.violation(f'connection lost while the send_error hook called from the correlation of a response never returns ({kind}): the later messages '
                          f'C, D, E got the outcomes {later} - the session was not replaced (start() ended: {obs.get("start_done")})',
                          {'function': 'blocked_hook', 'kind': kind})
    # ---- a silent SMSC and a busy application: what the ESME sends itself is no sign of life
    for interval, timeout in ((0.5, 0.5), (2.0, 1.0)):
        obs = silent_smsc_busy_app(interval, timeout)
        ctx.traces += 1
        ctx.case(('silent_smsc_busy_app', interval, timeout), nontrivial=True)
        msg = oracle_silent_smsc_busy_app(obs, interval, timeout)
        if msg:
            ctx.violation(msg, {'function': 'silent_smsc_busy_app', 'interval': interval, 'timeout': timeout})
    # ---- a peer that stops reading (write back-pressure) and never answers: dropped, and the next connection works
    for who in ('application', 'nobody'):
        obs = stalled_peer_session(who)
        ctx.traces += 1
        ctx.case(('stalled_peer', who), nontrivial=True)
        msg = oracle_stalled_peer(obs)
        if msg:
            ctx.violation(f'SMSC stops reading 1 s after the bind ({who} keeps writing): {msg}', {'function': 'stalled_peer', 'who_writes': who})
    if proved or not getattr(ctx, 'build_failing', None):
        fn = ('fun p : Z * Z * list Z * list (option Z) * Z => ser_keeper (fst (fst (fst (fst p)))) (snd (fst (fst (fst p)))) '
              '(snd (fst (fst p))) (snd (fst p)) (snd p)')
        bad, errs = core.run_cases('C16', 'keeper', IMPORTS, fn, cases, shard=100)
        for fnm, out in errs:
            ctx.broken.append(f'model evaluation failed ({fnm}): {out[-600:]}')
        for i in bad[:6]:
            inp, exp = cases[i]
            ctx.violation('model and implementation disagree on probe times or on the drop', {
                'correspondence': 'Model/Keeper.v ser_keeper vs ESME._connection_keeper', 'input_term': inp[:3000], 'implementation_result': exp[:900]}, found_input=False)
        ctx.extra['correspondence_keeper_cases'] = len(cases)
        ctx.extra['correspondence_keeper_disagreements'] = len(bad)
    return ctx.finish()


def replay(ctx, path):
    import json
    rp = json.load(open(path))
    if 'interval' in rp:
        obs = play(rp['interval'], rp['timeout'], rp['arrivals'], rp['delays'] + [None] * 40, rp['horizon'], rp.get('pause_at'), rp.get('kinds'), deny_throttle=rp.get('deny_throttle', False))
        print('replay: probes', obs['probes'], 'keeper ended', obs['keeper_end'], 'conn closed', obs['conn0_closed'])
        print('oracle:', oracle(rp['interval'], rp['timeout'], rp['arrivals'], rp['delays'] + [None] * 40, rp['horizon'], obs))
    else:
        print('replay:', json.dumps(rp)[:1500])
    return 0
