"""C09 - inbound segmented messages: proofs (Props/C09.v) + correspondence of Model/Reassembly.v with the
real receiver loop (ESME._receive_data + DeliverSm.from_pdu + SimpleCorrelator) fed with deliver_sm
PDUs built by the independent reference encoder + direct oracle on the hook log and the written PDUs."""
import asyncio
import itertools
import os
import struct

from lib import core
from lib.core import cz, czl
from harness import common, sess, smppref

THEOREMS = ['C09_reassembly_any_order', 'C09_join_in_numeric_order', 'C09_nonvacuous',
            'C09_store_empty_when_complete', 'C09_reference_free_after_completion', 'C09_reuse_nonvacuous']
IMPORTS = ['AV.Model.Base', 'AV.Model.PyDict', 'AV.Model.Reassembly']


def enc_text(t, dc):
    if dc == 0:
        enc = {c: i for i, c in enumerate(smppref.GSM_BASIC) if i != 0x1B}
        ext = {c: k for k, c in smppref.GSM_EXT.items()}
        out = bytearray()
        for ch in t:
            if ch in enc:
                out.append(enc[ch])
            else:
                out += bytes([0x1B, ext[ch]])
        return bytes(out)
    return t.encode('utf-16-be')


def build_segment(method, ref, seq, total, text, dc, seqnum, in_payload):
    """method: 'sar' | 'udh8' | 'udh16'"""
    body = enc_text(text, dc)
    esm = 0
    tlvs = b''
    if method == 'sar':
        tlvs = smppref.tlv_int(0x020C, ref) + smppref.tlv_int(0x020F, seq) + smppref.tlv_int(0x020E, total)
    elif method == 'udh8':
        esm = 0x40
        body = bytes([5, 0, 3, ref & 0xFF, total, seq]) + body
    else:
        esm = 0x40
        body = bytes([6, 8, 4, ref >> 8, ref & 0xFF, total, seq]) + body
    if in_payload:
        tlvs = smppref.tlv(0x0424, body) + tlvs
        sm = b''
    else:
        sm = body
    return smppref.encode_sm(0x5, seqnum, src=b'123', dst=b'456', esm_class=esm, data_coding=dc, short_message=sm, tlvs=tlvs)


class SteppingClock:
    """time.monotonic of correlator.py: every reading is later than the one before by a gap from a fixed list (some far longer than
    the response time-to-live), never adding up to the delivery time-to-live of 3 days"""

    def __init__(self, gaps, limit=200000.0):
        self.gaps, self.i, self.t, self.limit = gaps, 0, 1000.0, 1000.0 + limit

    def monotonic(self):
        if self.gaps:
            g = self.gaps[self.i % len(self.gaps)]
            self.i += 1
            if self.t + g < self.limit:
                self.t += g
        return self.t


async def run_receiver(pdus, gaps=None, restart_after=None):
    """restart_after=k: a persistence directory is configured; after k PDUs the process 'restarts' (a new ESME with a new correlator
    on the same directory takes the rest)"""
    import aiosmpplib.correlator as cm
    old = cm.time
    cm.time = SteppingClock(gaps) if gaps else old
    try:
        if restart_after is None:
            return await _run_receiver(pdus)
        import shutil
        import tempfile
        d = tempfile.mkdtemp(prefix='c09_', dir='/dev/shm' if os.path.isdir('/dev/shm') else None)
        try:
            r1, w1, e1 = await _run_receiver(pdus[:restart_after], directory=d)
            if e1 is not None:
                return r1, w1, e1
            r2, w2, e2 = await _run_receiver(pdus[restart_after:], directory=d)
            return r1 + r2, w1 + w2, e2
        finally:
            shutil.rmtree(d, ignore_errors=True)
    finally:
        cm.time = old


async def _run_receiver(pdus, directory=None):
    loop = asyncio.get_running_loop()
    if directory:
        from aiosmpplib.correlator import SimpleCorrelator
        esme, hook = sess.make_esme(correlator=SimpleCorrelator('c09', directory=directory))
    else:
        esme, hook = sess.make_esme()
    reader, writer, tr, _p = sess.make_stream(loop)
    esme._reader = reader
    esme._writer = writer
    esme._bound.set()
    esme._session_state = esme.bind_mode.session_state
    for p in pdus:
        reader.feed_data(p)
    reader.feed_eof()
    err = None
    try:
        await esme._receive_data()
    except asyncio.IncompleteReadError:
        pass
    except Exception as e:  # noqa: BLE001
        err = e
    await sess.settle()
    received = [(m, pdu) for k, m, pdu in hook.log if k == 'received']
    written, _rest = smppref.split_stream(b''.join(tr.written))
    return received, written, err


def gen_family(rng, thorough):
    """Returns (messages, arrival order). message = dict(method, ref, dc, parts, payload)"""
    nmsg = rng.choice([1, 1, 2, 2, 3])
    force16 = nmsg >= 2 and rng.random() < 0.25       # a family of messages that all use the 16-bit reference
    msgs = []
    refs = rng.sample([0, 0, 0, 1, 255] + list(range(0, 256)), nmsg)
    while len(set(refs)) < nmsg:
        refs = rng.sample(range(0, 256), nmsg)
    wide = rng.sample([0, 255, 256, 65535, 4660, 513], nmsg)
    for i in range(nmsg):
        method = 'udh16' if force16 else rng.choice(['sar', 'udh8', 'udh16'])
        ref = refs[i] if method != 'udh16' else (256 + refs[i] * 200 if rng.random() < 0.6 or wide[i] in refs else wide[i])
        dc = rng.choice([0, 8])
        n = rng.choice([2, 3, 4, 9, 10, 11, 12] + ([255] if thorough and rng.random() < 0.05 else [])) if rng.random() < 0.8 else rng.randint(2, 40)
        parts = []
        for s in range(n):
            L = rng.choice([1, 2, 5])
            # some segments end in a character whose last octet is 0x00: '@' in the GSM alphabet, U+4E00 / U+0100 / U+1F600 in UCS2
            if dc == 0:
                parts.append(''.join(rng.choice('abc€{xyz0') for _ in range(L)) + f'#{s + 1}' + rng.choice([';', ';', '@', '@@']))
            else:
                parts.append(''.join(rng.choice(['ы', '😀', '你', 'a', '𝄞']) for _ in range(L)) + f'#{s + 1}' + rng.choice([';', ';', '\u4e00', '\u0100', '\U0001F600']))
        msgs.append({'method': method, 'ref': ref, 'dc': dc, 'parts': parts, 'payload': rng.random() < 0.3})
    # 16-bit references that differ in the high octet only (and from every 8-bit reference in the family)
    w16 = [m for m in msgs if m['method'] == 'udh16']
    if len(w16) >= 2 and rng.random() < 0.7:
        low = rng.choice([0x00, 0x34, 0xFF])
        taken = {m['ref'] for m in msgs if m['method'] != 'udh16'}
        for j, m in enumerate(w16):
            m['ref'] = low + 256 * (j + 1 + rng.choice([0, 7, 100]))
            while m['ref'] in taken:
                m['ref'] += 256
            taken.add(m['ref'])
    # arrival order: independent permutations, interleaved at random
    queues = []
    for mi, m in enumerate(msgs):
        order = list(range(len(m['parts'])))
        k = rng.random()
        if k < 0.4:
            rng.shuffle(order)
        elif k < 0.6:
            order.reverse()
        queues.append([(mi, s) for s in order])
    arrivals = []
    while any(queues):
        qs = [qu for qu in queues if qu]
        arrivals.append(rng.choice(qs).pop(0))
    return msgs, arrivals


def gen_successors(rng, msgs, arrivals):
    """A second family under the SAME references (and methods), arriving after the first one is complete: other texts, another
    number of segments (C09_reference_free_after_completion: the later stream is treated as by a fresh correlator)."""
    msgs2 = []
    for m in msgs:
        parts = [p + '!' for p in reversed(m['parts'])]
        if len(parts) > 2 and rng.random() < 0.5:
            parts = parts[:-1]
        elif len(parts) < 255:
            parts = parts + ['+']
        msgs2.append(dict(m, parts=parts, payload=rng.random() < 0.3))
    queues = []
    for mi, m in enumerate(msgs2):
        order = list(range(len(m['parts'])))
        rng.shuffle(order)
        queues.append([(len(msgs) + mi, s) for s in order])
    arrivals2 = []
    while any(queues):
        arrivals2.append(rng.choice([qu for qu in queues if qu]).pop(0))
    return msgs + msgs2, arrivals + arrivals2


def gen_gaps(rng):
    if rng.random() < 0.4:
        return None
    return [rng.choice([0.0, 0.0, 0.25, 1.0, 16.0, 20.0, 600.0, 3600.0]) for _ in range(rng.randint(3, 17))]


def check_family(ctx, msgs, arrivals, cases, gaps=None, restart_after=None):
    pdus = []
    model_arr = []
    for i, (mi, s) in enumerate(arrivals):
        m = msgs[mi]
        pdus.append(build_segment(m['method'], m['ref'], s + 1, len(m['parts']), m['parts'][s], m['dc'], 1000 + i, m['payload']))
        model_arr.append(f'({m["ref"]}, {s + 1}, {len(m["parts"])}, {core.cstr(m["parts"][s])})')
    received, written, err = asyncio.run(run_receiver(pdus, gaps, restart_after))
    ctx.traces += 1
    obs = []
    for m_, _p in received:
        if m_ is None:
            obs.append(0)
        else:
            t = m_.short_message or m_.message_payload
            obs += [1, len(t)] + [ord(c) for c in t]
    cases.append(('[' + '; '.join(model_arr) + ']', czl(obs)))
    # oracle
    msg = None
    if err is not None:
        msg = f'receiver task ended with {type(err).__name__}: {err}'
    elif len(received) != len(pdus):
        msg = f'{len(received)} received-hook calls for {len(pdus)} PDUs'
    else:
        full = {}
        for (mi, s), (m_, _p) in zip(arrivals, received):
            if m_ is not None:
                full.setdefault(mi, []).append(m_.short_message or m_.message_payload)
        for mi, m in enumerate(msgs):
            got = full.get(mi, [])
            want = ''.join(m['parts'])
            if len(got) != 1:
                msg = f'message ref {m["ref"]} ({m["method"]}, {len(m["parts"])} segments) was delivered {len(got)} times'
            elif got[0] != want:
                msg = f'message ref {m["ref"]} ({m["method"]}, {len(m["parts"])} segments) delivered as {got[0][:40]!r}..., expected {want[:40]!r}...'
    if msg is None:
        acks = [smppref.parse_header(w) for w in written]
        want_acks = [(16 + 1, 0x80000005, 0, 1000 + i) for i in range(len(pdus))]
        if [(a[1], a[3]) for a in acks] != [(w[1], w[3]) for w in want_acks]:
            msg = f'deliver_sm_resp PDUs do not acknowledge every segment in order: {[(hex(a[1]), a[3]) for a in acks][:6]}'
    return msg


def run(ctx):
    ctx.rule = ('families of 1-3 concurrent messages with distinct references (SAR TLVs, UDH 8-bit, UDH 16-bit; GSM with extension characters and UCS2 '
                'with surrogate pairs; text in short_message or message_payload), 2..40 (thorough: ..255) segments, shuffled/reversed/in-order arrival, '
                'random interleaving; one family in four followed by a second family under the same references; plus every permutation of 2..5 segments (thorough 6); distinct by PDU stream; non-trivial = more than 2 segments')
    ctx.trusted_base = ['Coq 8.16.1 kernel; no axioms', 'harness/smppref.py independent encoder (SMPP 3.4 / 3GPP 23.040)',
                        'correspondence harness harness/C09.py + sess.py (fake stream reader/transport, recording hook)']
    ctx.assumptions = ['no segment arrives twice; references of concurrently incomplete messages are distinct (the property\'s domain)',
                       'the TTL sweep of the delivery segment store (3 days by default) does not fire during reassembly']
    proved = ctx.prove('C09', THEOREMS)
    rng = ctx.rng
    cases = []
    n = 2000 if ctx.thorough else 90
    for i in range(n):
        msgs, arrivals = gen_family(rng, ctx.thorough)
        if rng.random() < 0.25:
            msgs, arrivals = gen_successors(rng, msgs, arrivals)
            ctx.count('references_used_again_after_completion')
        gaps = gen_gaps(rng)
        ctx.count('with_time_passing' if gaps else 'clock_untouched')
        # one family in five with a persistence directory and a restart of the process somewhere in the stream
        restart_after = rng.randint(1, len(arrivals) - 1) if len(arrivals) > 1 and rng.random() < 0.2 else None
        if restart_after is not None:
            ctx.count('with_restart_on_persisted_store')
        msg = check_family(ctx, msgs, arrivals, cases, gaps, restart_after)
        ctx.case(('family', i, repr(arrivals), repr([(m['method'], m['ref'], m['dc']) for m in msgs])), nontrivial=len(arrivals) > 2)
        for m in msgs:
            ctx.count('method_' + m['method'])
        if msg:
            ctx.violation(msg, {'function': 'family', 'messages': msgs, 'arrivals': arrivals, 'clock_gaps': gaps, 'restart_after': restart_after})
        if i < 1:
            ctx.sample({'messages': [{k: (v if k != 'parts' else v[:3]) for k, v in m.items()} for m in msgs], 'arrivals': arrivals[:12]})
    # exhaustive permutations for small counts
    maxn = 6 if ctx.thorough else 5
    for nseg in range(2, maxn + 1):
        for method in ('sar', 'udh8', 'udh16'):
            if nseg == maxn and method != 'sar' and not ctx.thorough:
                continue
            m = {'method': method, 'ref': 77 if method != 'udh16' else 0x1234, 'dc': 0 if nseg % 2 else 8,
                 'parts': [f'<{s + 1}€>' if nseg % 2 else f'<{s + 1}😀>' for s in range(nseg)], 'payload': False}
            for perm in itertools.permutations(range(nseg)):
                msg = check_family(ctx, [m], [(0, s) for s in perm], cases)
                ctx.case(('perm', method, perm))
                if msg:
                    ctx.violation(msg, {'function': 'family', 'messages': [m], 'arrivals': [(0, s) for s in perm]})
        ctx.count(f'all_permutations_of_{nseg}')
    if proved or not getattr(ctx, 'build_failing', None):
        bad, errs = core.run_cases('C09', 'reasm', IMPORTS, 'fun a : list (Z * Z * Z * list Z) => ser_reassemble a', cases, shard=120)
        for fnm, out in errs:
            ctx.broken.append(f'model evaluation failed ({fnm}): {out[-600:]}')
        for i in bad[:5]:
            inp, exp = cases[i]
            ctx.violation('model and implementation disagree on a segment stream', {
                'correspondence': 'Model/Reassembly.v vs correlator.py/esme.py/protocol.py', 'input_term': inp[:1500], 'implementation_result': exp[:600]}, found_input=False)
        ctx.extra['correspondence_reasm_cases'] = len(cases)
        ctx.extra['correspondence_reasm_disagreements'] = len(bad)
    return ctx.finish()


def replay(ctx, path):
    import json
    with open(path) as f:
        r = json.load(f)
    if r.get('function') != 'family':
        return 0
    msg = check_family(ctx, r['messages'], [tuple(a) for a in r['arrivals']], [], r.get('clock_gaps'), r.get('restart_after'))
    print('replay:', msg or 'property holds on this input')
    if msg:
        print(f'VIOLATION property=C09 replay={path}')
        return 1
    return 0
