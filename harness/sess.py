"""Session-level harness pieces: fake transport, recording hook, ESME factory (no source hooks:
everything is injected or wrapped from the check process)."""
import asyncio
import logging
import struct

from aiosmpplib import ESME
from aiosmpplib.hook import AbstractHook
from aiosmpplib.state import BindMode


class FakeTransport(asyncio.Transport):
    def __init__(self):
        super().__init__()
        self.written = []          # list of bytes objects, one per write()
        self.closed = False
        self.eof = False
        self.protocol = None
        self.paused = False
        self.fail_writes = None    # exception to raise on write
        self.peer_closed = False   # the peer has closed its socket: shutdown() fails with ENOTCONN

    def write(self, data):
        if self.fail_writes is not None:
            raise self.fail_writes
        if self.eof:
            raise RuntimeError('Cannot call write() after write_eof()')     # as the selector transport does
        self.written.append(bytes(data))

    def is_closing(self):
        return self.closed

    def close(self):
        self.closed = True

    def abort(self):
        self.closed = True

    def write_eof(self):
        if self.closed or self.eof:
            return
        self.eof = True
        if self.peer_closed:
            # socket.shutdown(SHUT_WR) on a connection the peer has already closed and reset
            raise OSError(107, 'Transport endpoint is not connected')

    def can_write_eof(self):
        return True

    def set_write_buffer_limits(self, high=None, low=None):
        pass

    def get_write_buffer_size(self):
        return 0

    def get_extra_info(self, name, default=None):
        return default

    def pause_writing(self):
        self.paused = True
        if self.protocol is not None:
            self.protocol.pause_writing()

    def resume_writing(self):
        self.paused = False
        if self.protocol is not None:
            self.protocol.resume_writing()


def make_stream(loop):
    reader = asyncio.StreamReader(limit=2 ** 16 + 1024, loop=loop)
    protocol = asyncio.StreamReaderProtocol(reader, loop=loop)
    tr = FakeTransport()
    tr.protocol = protocol
    protocol.connection_made(tr)
    writer = asyncio.StreamWriter(tr, protocol, reader, loop)
    return reader, writer, tr, protocol


class RecHook(AbstractHook):
    """Records every call; each method can be made to suspend on a future supplied by the script."""

    def __init__(self):
        self.log = []              # ('sending'|'received'|'send_error', ...)
        self.sending_gate = None   # callable(msg, pdu) -> awaitable or None
        self.received_gate = None
        self.error_gate = None

    async def sending(self, smpp_message, pdu, client_id):
        self.log.append(('sending', smpp_message, bytes(pdu)))
        if self.sending_gate is not None:
            aw = self.sending_gate(smpp_message, pdu)
            if aw is not None:
                await aw

    async def received(self, smpp_message, pdu, client_id):
        self.log.append(('received', smpp_message, bytes(pdu)))
        if self.received_gate is not None:
            aw = self.received_gate(smpp_message, pdu)
            if aw is not None:
                await aw

    async def send_error(self, smpp_message, error, client_id):
        self.log.append(('send_error', smpp_message, error))
        if self.error_gate is not None:
            aw = self.error_gate(smpp_message, error)
            if aw is not None:
                await aw


def make_esme(hook=None, **kw):
    hook = hook or RecHook()
    args = dict(smsc_host='127.0.0.1', smsc_port=2775, system_id='esme', password='pw', hook=hook,
                log_level=logging.CRITICAL + 10, client_id='cid')
    args.update(kw)
    esme = ESME(**args)
    esme._logger.setLevel(logging.CRITICAL + 10)
    return esme, hook


async def settle(n=8):
    for _ in range(n):
        await asyncio.sleep(0)


def header_pdu(command_id, status, seq, body=b''):
    return struct.pack('!IIII', 16 + len(body), command_id, status, seq) + body
