"""C06 - robustness of the send side: proofs (Props/C06.v) + queues of generated SubmitSm objects on the real ESME.start()
(virtual-time loop, accepting SMSC).  Observed: state of start(), sending/send_error hook calls in order, submit_sm PDUs on
the wire.  Compared with Model/Send.v (ser_queue) and checked by an oracle."""
import asyncio
import os
import struct
from datetime import datetime, timedelta, timezone, tzinfo

from lib import core
from lib.core import czl
from harness import common, pdugen, smppref, vsess

THEOREMS = ['C06_guard_covers_segmentation', 'C06_build_errors_closed', 'C06_one_message', 'C06_queue_never_stops_sender',
            'C06_order', 'C06_what_would_escape']
IMPORTS = ['AV.Model.Base', 'AV.Model.Codec', 'AV.Model.Split', 'AV.Model.TimeFmt', 'AV.Model.Seq', 'AV.Model.Receipt', 'AV.Model.Pdu',
           'AV.Model.Recv', 'AV.Model.Send']

TEXTS = ['hi', 'Hello €uro {x}', 'a' * 160, 'a' * 161, '€' * 81, 'x' * 254, 'x' * 255, 'y' * 400, 'ж' * 70, 'ж' * 71, 'ж' * 140, '😀' * 35, '😀' * 80,
         'mix € ж 😀', 'a' * 153 + '€' * 10, 'nul\x00inside', 'z' * 1000, 'half \ud83d']


STDLIB_NAMES = ['hex', 'base64', 'rot13', 'zlib', 'bz2', 'uu', 'quopri', 'idna', 'punycode', 'undefined', 'cp1252', 'utf_8', 'utf_7', 'utf_16', 'mbcs',
                'unicode_escape', 'raw_unicode_escape', 'big5', 'charmap']
MODEL_NAMES = (None, 'gsm0338', 'ucs2', 'ascii', 'latin_1', 'klingon', 'octet_unspecified_I', 'gsm0338_packed')


class NoOffset(tzinfo):
    """a tzinfo that does not know its offset (utcoffset() may return None)"""

    def utcoffset(self, dt):
        return None

    def dst(self, dt):
        return None

    def tzname(self, dt):
        return 'unknown'


def gen_time(rng, deltas):
    k = rng.random()
    if k < 0.5:
        return None
    if k < 0.75:
        return rng.choice(deltas)
    d = datetime(rng.choice([2026, 2031, 2099]), rng.randint(1, 12), rng.randint(1, 28), rng.randint(0, 23), rng.randint(0, 59), rng.randint(0, 59),
                 rng.choice([0, 0, 700000, 999999]))
    tz = rng.choice([None, timezone.utc, timezone(timedelta(hours=2)), timezone(timedelta(hours=-9, minutes=-30)), timezone(timedelta(minutes=7)), NoOffset()])
    return d.replace(tzinfo=tz)


def gen_submit(rng, i):
    """a SubmitSm the constructor accepts (or None), over the space the property names; the model's Unmodelled corner is avoided"""
    from aiosmpplib.protocol import SubmitSm
    from aiosmpplib.state import PhoneNumber, TON, NPI, OptionalParam
    from aiosmpplib import state as st
    text = rng.choice(TEXTS)
    enc = rng.choice([None] * 10 + ['gsm0338', 'gsm0338', 'ucs2', 'ucs2', 'ascii', 'latin_1', 'klingon', 'octet_unspecified_I', 'gsm0338_packed'])
    handler = 'strict'
    if rng.random() < 0.08:
        # names Python has a codec for that SMPP has no data_coding for, incl. codecs that are not text encodings at all
        enc = rng.choice(STDLIB_NAMES)
        if rng.random() < 0.5:
            handler = rng.choice(['replace', 'ignore', 'foo'])
    if enc in (None, 'gsm0338', 'gsm0338_packed') and rng.random() < 0.25:
        handler = rng.choice(['replace', 'ignore', 'foo'])
    auto = rng.random() < 0.45
    use_payload = (auto and rng.random() < 0.2) or (not auto and rng.random() < 0.12)      # text in message_payload only, also without auto_message_payload
    kw = dict(short_message='' if use_payload else text, message_payload=text if use_payload else '',
              source=PhoneNumber(rng.choice(['', '38599', '38599', '38599', 'ALPHA', 'ALPHA', 'nön', '1' * 20, 'a\x00b']), rng.choice(list(TON)), rng.choice(list(NPI))),
              destination=PhoneNumber(rng.choice(['38591', '1' * 20]), TON.INTERNATIONAL, NPI.ISDN),
              service_type=rng.choice(['', '', 'CMT', 'CMT', 'CMT', 'äbc']),
              esm_class=rng.choice([0, 0, 0, 0, 0x40, 0x40, 0x40, 0x43, 3, 255, -1, -64]), protocol_id=rng.choice([0, 0, 0, 0, 255, 127, -1, -255]),
              priority_flag=rng.choice([0, 0, 1, 3, -3]), registered_delivery=rng.choice([0, 1, 255]), replace_if_present_flag=rng.choice([0, 1]),
              sm_default_msg_id=rng.choice([0, 0, 0, 255, -200]), encoding=enc, auto_message_payload=auto, error_handling=handler,
              schedule_delivery_time=gen_time(rng, [timedelta(days=2), timedelta(weeks=64)]),
              validity_period=gen_time(rng, [timedelta(seconds=30), timedelta(days=441), timedelta(days=441, seconds=1)]),
              log_id=f'M{i}', extra_data='x')
    ops = []
    for _ in range(rng.choice([0, 0, 0, 1, 2])):
        k = rng.random()
        if k < 0.4:
            ops.append(OptionalParam(rng.choice([st.SOURCE_PORT, st.USER_MESSAGE_REFERENCE, st.SAR_MSG_REF_NUM]), rng.choice([0, 7, 65535, 65535, 65536, -1, 2 ** 40])))
        elif k < 0.6:
            ops.append(OptionalParam(rng.choice([st.PAYLOAD_TYPE, st.SAR_TOTAL_SEGMENTS, st.SAR_SEGMENT_SEQNUM]), rng.choice([0, 1, 255, 255, 256, -5])))
        elif k < 0.8:
            ops.append(OptionalParam(rng.choice([st.RECEIPTED_MESSAGE_ID, st.SOURCE_SUBADDRESS, 0x1400]), rng.choice(['', 'abc', 'abc', 'ünï', 'x' * 300])))
        elif k < 0.9:
            ops.append(OptionalParam(st.QOS_TIME_TO_LIVE, rng.choice([0, 2 ** 32 - 1, 2 ** 32])))
        else:
            ops.append(OptionalParam(st.ALERT_ON_MESSAGE_DELIVERY, rng.random() < 0.8))
    kw['optional_params'] = ops
    if ops and rng.random() < 0.1:
        kw['optional_params'] = tuple(ops)        # whatever container the constructor accepts must survive the segmentation code
    try:
        return SubmitSm(**kw)
    except (ValueError, TypeError):
        return None


def gen_like(m0):
    return m0.clone()


def modelled(m, default):
    """inside the modelled fragment: a non-strict handler only where the model follows it (GSM codecs)"""
    if m.encoding not in MODEL_NAMES:
        return False
    if m.error_handling != 'strict':
        eff = m.encoding or default
        if eff not in ('gsm0338', 'gsm0338_packed'):
            return False
        try:
            (m.short_message or m.message_payload).encode('utf-16-be')
        except UnicodeError:
            return False        # the UCS2 fallback with a non-strict handler is outside the model
        if not m.encoding:
            from aiosmpplib.codec import GSM7BitCodec
            if m.error_handling == 'foo' and not GSM7BitCodec.is_gsm_text(m.short_message or m.message_payload):
                return True
    return True


def sm_term(m):
    t = pdugen.msg_term(m)
    # '(MSm <cmd> {| ... |})' -> '{| ... |}'
    return t[t.index('{|'):-1]


def run_session(msgs, default, fail_at=None, bind_eof_on=()):
    loop = vsess.VLoop()
    asyncio.set_event_loop(loop)
    smsc = vsess.FakeSMSC(loop)
    undo = vsess.install(loop, smsc)
    obs = {}
    try:
        esme, hook = vsess.quiet_esme(enquire_link_interval=5000.0, socket_timeout=60.0, default_encoding=default)
        ends = []
        orig = esme._dequeue_messages

        async def deq():
            try:
                return await orig()
            except asyncio.CancelledError:
                raise
            except BaseException as e:  # noqa: BLE001
                ends.append(e)
                raise
        esme._dequeue_messages = deq
        if fail_at is not None:
            from aiosmpplib.protocol import SubmitSm as _S
            count = [0]

            def gate(msg, pdu):
                if isinstance(msg, _S):
                    count[0] += 1
                    if count[0] == fail_at:
                        smsc.conns[-1].transport.fail_writes = ConnectionResetError('reset by peer while writing')
                        smsc.conns[-1].reset(delay=0.001)
                return None
            hook.sending_gate = gate

        def on_pdu(conn, pdu):
            for p in vsess.split_pdus(pdu)[0]:
                cmd, seq = struct.unpack('>I', p[4:8])[0], struct.unpack('>I', p[12:16])[0]
                if cmd in (1, 2, 9):
                    if conn.index in bind_eof_on:
                        conn.eof(delay=0.01)          # the SMSC (restarting) accepts the connection and closes it before answering the bind
                    else:
                        conn.send(vsess.bind_resp_for(p))
                elif cmd == 4:
                    conn.send(smppref.header(0x80000004, 0, seq, b'id%d\x00' % seq), delay=0.01)
        smsc.on_pdu = on_pdu

        async def main():
            t = asyncio.create_task(esme.start())
            await asyncio.sleep(1.0)
            for m in msgs:
                await esme.broker.enqueue(m)
            await asyncio.sleep(30.0)
            obs['start_done'] = t.done()
            obs['start_exc'] = t.exception() if t.done() and not t.cancelled() else None
            obs['sender_raised'] = list(ends)
            obs['conns'] = len(smsc.conns)
            obs['log'] = list(hook.log)
            obs['wire'] = [p for c in smsc.conns for _t, w in c.log for p in vsess.split_pdus(w)[0]]
            if not t.done():
                t.cancel()
                try:
                    await t
                except BaseException:  # noqa: BLE001
                    pass
        loop.run_until_complete(main())
    finally:
        undo()
        vsess.finish(loop)
    return obs


EXTREME_CHILD = r"""
import json, resource, signal, sys
resource.setrlimit(resource.RLIMIT_AS, (3 * 2 ** 30, 3 * 2 ** 30))
signal.alarm(45)
sys.path.insert(0, '/verif')
from aiosmpplib.protocol import SubmitSm
from aiosmpplib.state import PhoneNumber, OptionalParam
from aiosmpplib import state as st
from harness import C06
tag, value, esm = int(sys.argv[1]), int(sys.argv[2]), int(sys.argv[3])
mk = lambda j, ops=(), e=0: SubmitSm(short_message='text%d' % j, source=PhoneNumber('38599'), destination=PhoneNumber('38591'), log_id=f'E{j}', esm_class=e, optional_params=list(ops))
msgs = [mk(0), mk(1, [OptionalParam(tag, value)], esm), mk(2)]
obs = C06.run_session(msgs, 'gsm0338')
out = {'start_done': obs['start_done'], 'start_exc': repr(obs['start_exc']), 'sender_raised': [repr(e) for e in obs['sender_raised']],
       'outcomes': {f'E{j}': [e[0] for e in obs['log'] if e[0] in ('sending', 'send_error') and getattr(e[1], 'log_id', '') == f'E{j}'] for j in range(3)}}
print('@@' + json.dumps(out))
"""


def extreme_param_session(tag, value, esm):
    """a queue of three messages whose middle one carries an optional parameter with an extreme value, in a child process with an
    address-space limit and an alarm: ('ok', observations) or ('died', how)"""
    import json
    import subprocess
    import sys
    env = dict(os.environ, PYTHONPATH='/repo', PYTHONHASHSEED='0')
    try:
        r = subprocess.run([sys.executable, '-c', EXTREME_CHILD, str(tag), str(value), str(esm)], capture_output=True, text=True, timeout=90, env=env)
    except subprocess.TimeoutExpired:
        return 'died', 'no end after 90 s'
    for line in r.stdout.splitlines():
        if line.startswith('@@'):
            return 'ok', json.loads(line[2:])
    return 'died', f'exit code {r.returncode}: {r.stderr[-300:]}'


def run_teardown(mk, default='gsm0338', lag=0.0):
    """a message queued in the window after the session noticed that the connection is gone and before the idle sender is
    ended: it must be transmitted (after the reconnect) or handed to send_error, never dropped silently"""
    from aiosmpplib.state import SmppSessionState
    loop = vsess.VLoop()
    asyncio.set_event_loop(loop)
    smsc = vsess.FakeSMSC(loop)
    undo = vsess.install(loop, smsc)
    obs = {}
    try:
        esme, hook = vsess.quiet_esme(enquire_link_interval=5000.0, socket_timeout=60.0, default_encoding=default)

        def on_pdu(conn, pdu):
            for p in vsess.split_pdus(pdu)[0]:
                cmd, seq = struct.unpack('>I', p[4:8])[0], struct.unpack('>I', p[12:16])[0]
                if cmd in (1, 2, 9):
                    conn.send(vsess.bind_resp_for(p))
                elif cmd == 4:
                    conn.send(smppref.header(0x80000004, 0, seq, b'id%d\x00' % seq), delay=0.01)
                    if conn.index == 0:
                        conn.eof(delay=0.05)          # the SMSC goes away after the first message
        smsc.on_pdu = on_pdu

        async def main():
            t = asyncio.create_task(esme.start())
            await asyncio.sleep(1.0)
            await esme.broker.enqueue(mk(0))
            for _ in range(4000):
                if esme.session_state == SmppSessionState.CLOSED and len(smsc.conns) == 1:
                    break
                await asyncio.sleep(0.001)
            obs['closed_seen'] = esme.session_state == SmppSessionState.CLOSED
            if lag:
                await asyncio.sleep(lag)
            await esme.broker.enqueue(mk(1))
            await asyncio.sleep(20.0)
            await esme.broker.enqueue(mk(2))
            await asyncio.sleep(20.0)
            obs['start_done'] = t.done()
            obs['start_exc'] = t.exception() if t.done() and not t.cancelled() else None
            obs['conns'] = len(smsc.conns)
            obs['log'] = list(hook.log)
            obs['wire'] = [p for c in smsc.conns for _t, w in c.log for p in vsess.split_pdus(w)[0]]
            if not t.done():
                t.cancel()
                try:
                    await t
                except BaseException:  # noqa: BLE001
                    pass
        loop.run_until_complete(main())
    finally:
        undo()
        vsess.finish(loop)
    return obs


def run(ctx):
    ctx.rule = ('queues of 1-6 SubmitSm over: texts around every size limit in GSM/extension/UCS2/astral/NUL/lone-surrogate alphabets; '
                'auto_message_payload on/off; UDHI bit; explicit encoding names incl. names without a codec or enum member; error handlers; negative and '
                'boundary integers that pass validation; non-ASCII / NUL / over-long address strings; optional parameters with out-of-range values; '
                'over-long time deltas; four default alphabets; non-trivial = queue in which some message fails to build')
    ctx.trusted_base = ['Coq 8.16.1 kernel; no axioms', 'translator/py2coq.py (build-error classes and guard coverage read off _dequeue_messages)',
                        'harness/vsess.py, harness/C06.py', 'throttle handler / rate limiter only delay (C18); hooks and correlator do not raise']
    ctx.assumptions = ['stdlib codecs and non-GSM codecs under non-strict error handlers are outside the model (oracle only)']
    proved = ctx.prove('C06', THEOREMS)
    from aiosmpplib.protocol import SubmitSm
    rng = ctx.rng
    n = 6000 if ctx.thorough else 220
    cases = []
    for i in range(n):
        default = rng.choice(['gsm0338', 'gsm0338', 'gsm0338', 'ucs2', 'latin_1', 'ascii'])
        msgs = [m for m in (gen_submit(rng, j) for j in range(rng.choice([1, 2, 3, 6]))) if m is not None]
        if not msgs:
            continue
        terms = [sm_term(m) for m in msgs]            # before the session mutates the objects
        msgs_copy = [m.clone() for m in msgs]
        in_model = all(modelled(m, default) for m in msgs)
        obs = run_session(msgs, default)
        events, per_msg = [], {}
        for e in obs['log']:
            if e[0] == 'sending' and isinstance(e[1], SubmitSm):
                events.append(('w', e[2], e[1].log_id))
            elif e[0] == 'send_error':
                events.append(('e', e[2], e[1].log_id))
        wire_sm = [p for p in obs['wire'] if struct.unpack('>I', p[4:8])[0] == 4]
        rp = {'messages': [repr(m)[:700] for m in msgs], 'default': default, 'queue_pickle': core.pickle_b64(msgs_copy)}
        failed = sum(1 for e in events if e[0] == 'e')
        ctx.case(('queue', tuple(terms), default), nontrivial=failed > 0)
        ctx.count('queue_len_%d' % len(msgs))
        for e in events:
            if e[0] == 'e':
                ctx.count('send_error_' + type(e[1]).__name__)
        ctx.count('messages', len(msgs))
        # ---- oracle
        if obs['start_done']:
            ctx.violation(f'start() ended with {obs["start_exc"]!r} after queueing {len(msgs)} message(s)', rp)
        elif obs['sender_raised'] or obs['conns'] > 1:
            ctx.violation(f'the Sender task was ended by a queued message ({obs["sender_raised"][:1]!r}); connections opened: {obs["conns"]}', rp)
        else:
            if [e[1] for e in events if e[0] == 'w'] != wire_sm:
                ctx.violation('submit_sm PDUs on the wire differ from those announced to the sending hook', rp)
            order = []
            for e in events:
                if not order or order[-1] != e[2]:
                    order.append(e[2])
            want = [m.log_id for m in msgs]
            if order != want:
                ctx.violation(f'messages are not handled in the order queued, or one has no outcome: outcomes for {order}, queued {want}', rp)
            for lid in want:
                errs = [e for e in events if e[2] == lid and e[0] == 'e']
                if len(errs) > 1:
                    ctx.violation(f'message {lid} handed to send_error {len(errs)} times', rp)
        # ---- the same queue with a transport failure while one of its submit_sm PDUs is being written: reconnect, nothing lost silently
        n_writes = sum(1 for e in events if e[0] == 'w')
        if n_writes and rng.random() < 0.5:
            k = rng.randint(1, n_writes)
            msgs2 = [m for m in (gen_like(m0) for m0 in msgs_copy)]
            beo = rng.choice([(), (), (1,), (1, 2)])     # the first reconnect(s) may find an SMSC that closes the connection during the bind
            obs2 = run_session(msgs2, default, fail_at=k, bind_eof_on=beo)
            ev2 = []
            for e in obs2['log']:
                if e[0] == 'sending' and isinstance(e[1], SubmitSm):
                    ev2.append(('w', e[2], e[1].log_id))
                elif e[0] == 'send_error':
                    ev2.append(('e', e[2], e[1].log_id))
            wire2 = [p for p in obs2['wire'] if struct.unpack('>I', p[4:8])[0] == 4]
            ctx.count('transport_fault_runs')
            rp2 = dict(rp, transport_failure_at_submit_sm_write=k, bind_eof_on=list(beo))
            if obs2['start_done']:
                ctx.violation(f'start() ended with {obs2["start_exc"]!r} after a transport failure during a write', rp2)
            else:
                if obs2['conns'] < 2 + len(beo):
                    ctx.violation(f'{obs2["conns"]} connection(s) opened after a transport failure during a write'
                                  + (f' and {len(beo)} reconnect(s) closed by the SMSC during the bind' if beo else ''), rp2)
                announced = [e[1] for e in ev2 if e[0] == 'w']
                lost = [a for a in announced if a not in wire2]
                in_flight = announced[k - 1] if len(announced) >= k else None
                lid = next((e[2] for e in ev2 if e[0] == 'w' and e[1] is in_flight), None)
                if in_flight is not None and in_flight not in wire2 and not any(e[0] == 'e' and e[2] == lid for e in ev2):
                    ctx.violation(f'message {lid} was being written when the transport failed: it is neither on the wire nor handed to send_error', rp2)
                if len(lost) > 1:
                    ctx.violation(f'{len(lost)} announced PDUs never reached the wire after one transport failure', rp2)
                seen = []
                for e in ev2:
                    if e[2] not in seen:
                        seen.append(e[2])
                if seen != [m.log_id for m in msgs2]:
                    ctx.violation(f'after a transport failure the remaining messages are not all handled in order: {seen}', rp2)
        # ---- model
        if in_model and not obs['start_done']:
            exp = []
            for e in events:
                if e[0] == 'w':
                    exp += [1, len(e[1])] + list(e[1])
                else:
                    exp += [2, int(e[2][1:]) if False else [m.log_id for m in msgs].index(e[2]), common.exn_index(e[1])]
            exp += [3, common.exn_index(obs['sender_raised'][0])] if obs['sender_raised'] else [0]
            cases.append((f'({pdugen.DEFAULTS[default]}, [{"; ".join(terms)}])', czl(exp)))
        else:
            ctx.count('queue_outside_model')
        if i < 1:
            ctx.sample({'messages': [repr(m)[:200] for m in msgs], 'events': [(e[0], e[2]) for e in events]})
    # ---- optional parameters with extreme values that never reach the wire (SAR parameters are left out of a UDHI message): the queue goes on
    from aiosmpplib import state as _st
    for tag, value, esm in ((_st.SAR_TOTAL_SEGMENTS, 10 ** 18, 0x40), (_st.SAR_TOTAL_SEGMENTS, 2 ** 40, 0x40), (_st.SAR_SEGMENT_SEQNUM, 10 ** 18, 0x40),
                            (_st.SAR_MSG_REF_NUM, 10 ** 30, 0x40), (_st.SAR_TOTAL_SEGMENTS, 10 ** 18, 0)):
        how, o = extreme_param_session(int(tag), value, esm)
        ctx.traces += 1
        ctx.count('extreme_parameter_sessions')
        ctx.case(('extreme_param', int(tag), value, esm), nontrivial=True)
        rp = {'scenario': 'extreme_param', 'tag': int(tag), 'value': str(value), 'esm_class': esm}
        if how == 'died':
            ctx.violation(f'a queued message with optional parameter {int(tag):#x} = {value} (esm_class {esm:#x}) stalled or killed the process: {o}', rp)
        elif o['start_done'] or o['sender_raised']:
            ctx.violation(f'a queued message with optional parameter {int(tag):#x} = {value} ended the session: {o["start_exc"]} {o["sender_raised"][:1]}', rp)
        elif not o['outcomes']['E2'] or not o['outcomes']['E1']:
            ctx.violation(f'with optional parameter {int(tag):#x} = {value} on the second message the queue did not go on: {o["outcomes"]}', rp)
    # ---- a message queued while the session is being torn down after a connection loss
    from aiosmpplib.state import PhoneNumber as _PN
    for lag in ([0.0, 0.0, 0.1, 0.3, 0.45, 0.6, 2.0] if ctx.thorough else [0.0, 0.2, 0.45]):
        long_text = rng.random() < 0.4

        def mk(j, long_text=long_text):
            return SubmitSm(short_message=('seg ' * 100 if long_text and j == 1 else 'text%d' % j), source=_PN('38599'), destination=_PN('38591'),
                            log_id=f'T{j}', auto_message_payload=not (long_text and j == 1))
        obs = run_teardown(mk, lag=lag)
        ctx.count('teardown_window_runs')
        ctx.case(('teardown', lag, long_text), nontrivial=True)
        rp = {'scenario': 'teardown_window', 'lag': lag, 'long_text': long_text}
        if obs['start_done']:
            ctx.violation(f'start() ended with {obs["start_exc"]!r} when a message was queued during the teardown after a connection loss', rp)
            continue
        if not obs.get('closed_seen'):
            ctx.count('teardown_window_not_reached')
        for j in range(3):
            lid = f'T{j}'
            sent = [e for e in obs['log'] if e[0] == 'sending' and isinstance(e[1], SubmitSm) and e[1].log_id == lid and e[2] in obs['wire']]
            errs_ = [e for e in obs['log'] if e[0] == 'send_error' and e[1].log_id == lid]
            if not sent and not errs_:
                ctx.violation(f'message {lid}, queued {"%.2f s after" % lag if j == 1 else "outside"} the moment the session noticed the connection loss, '
                              f'was neither transmitted nor handed to send_error', rp)
            if len(errs_) > 1:
                ctx.violation(f'message {lid} handed to send_error {len(errs_)} times', rp)
    if proved or not getattr(ctx, 'build_failing', None):
        bad, errs = core.run_cases('C06', 'queue', IMPORTS, 'fun p : enc * list smsg => ser_queue (fst p) 1 (-1) (snd p)', cases, shard=25)
        for fnm, out in errs:
            ctx.broken.append(f'model evaluation failed ({fnm}): {out[-600:]}')
        for i in bad[:6]:
            inp, exp = cases[i]
            ctx.violation('model and implementation disagree on the events of a queue', {
                'correspondence': 'Model/Send.v ser_queue vs ESME._dequeue_messages', 'input_term': inp[:200000], 'implementation_result': exp[:20000]}, found_input=False)
        ctx.extra['correspondence_queue_cases'] = len(cases)
        ctx.extra['correspondence_queue_disagreements'] = len(bad)
    return ctx.finish()


def replay(ctx, path):
    import json
    from aiosmpplib.protocol import SubmitSm
    rp = json.load(open(path))
    if rp.get('scenario') == 'teardown_window':
        from aiosmpplib.state import PhoneNumber as _PN
        lt = rp['long_text']
        obs = run_teardown(lambda j: SubmitSm(short_message=('seg ' * 100 if lt and j == 1 else 'text%d' % j), source=_PN('38599'), destination=_PN('38591'), log_id=f'T{j}', auto_message_payload=not (lt and j == 1)), lag=rp['lag'])
        bad = 0
        for j in range(3):
            n_s = sum(1 for e in obs['log'] if e[0] == 'sending' and isinstance(e[1], SubmitSm) and e[1].log_id == f'T{j}' and e[2] in obs['wire'])
            n_e = sum(1 for e in obs['log'] if e[0] == 'send_error' and e[1].log_id == f'T{j}')
            print(f'replay: T{j}: {n_s} PDU(s) on the wire, {n_e} send_error call(s)')
            bad += (n_s == 0 and n_e == 0) or n_e > 1
        return 1 if bad or obs['start_done'] else 0
    if rp.get('queue_pickle'):
        msgs = core.unpickle_b64(rp['queue_pickle'])
        obs = run_session(msgs, rp.get('default', 'gsm0338'), fail_at=rp.get('transport_failure_at_submit_sm_write'), bind_eof_on=tuple(rp.get('bind_eof_on', ())))
        print('replay: start() done:', obs['start_done'], repr(obs['start_exc']), '| sender raised:', obs['sender_raised'][:1], '| connections:', obs['conns'])
        for e in obs['log']:
            if e[0] == 'sending' and isinstance(e[1], SubmitSm):
                print('   sending   ', e[1].log_id, len(e[2]), 'octets')
            elif e[0] == 'send_error':
                print('   send_error', e[1].log_id, repr(e[2])[:100])
        return 1 if obs['start_done'] or obs['sender_raised'] else 0
    print('replay:', json.dumps(rp)[:2000])
    return 0
