"""C10 - GSM 03.38 codec: proofs (Props/C10.v) + correspondence of Model/Codec.v with codec.py +
independent oracle (3GPP table from Spec/Gsm0338.v) for the replay search."""
from lib import core
from lib.core import cz, czl
from harness import common

THEOREMS = ['C10_tables_are_3gpp', 'C10_roundtrip', 'C10_membership', 'C10_cost', 'C10_homomorphism',
            'C10_strict_rejects', 'C10_ignore_drops', 'C10_replace_substitutes_one',
            'C10_encode_never_struct_error', 'C10_decoder_high_octets', 'C10_decoder_unmapped',
            'C10_decoder_escape_without_entry', 'C10_decoder_trailing_escape', 'C10_decoder_mapped',
            'C10_nonvacuous']
MODES = ['strict', 'replace', 'ignore']
CMODE = {'strict': 'Strict', 'replace': 'Replace', 'ignore': 'Ignore'}
IMPORTS = ['AV.Model.Base', 'AV.Model.Codec']


def spec_alphabet():
    basic = common.parse_spec_table('spec_basic')
    ext = common.parse_spec_table('spec_extension')
    return basic, ext


def gen_strings(ctx, alphabet, n, maxlen):
    rng = ctx.rng
    basic_chars = [chr(c) for _k, c in alphabet[0]]
    ext_chars = [chr(c) for _k, c in alphabet[1]]
    outside = ['ç', 'Α', 'Ζ', '你', '\U0001F600', '\ud800', '\x1b', '\xa0', 'ы', '`']
    out = []
    for _ in range(n):
        L = rng.choice([0, 1, 2, 3, 5, 8, 20, maxlen])
        L = rng.randint(0, L)
        kind = rng.random()
        s = []
        for _i in range(L):
            r = rng.random()
            if r < 0.6:
                s.append(rng.choice(basic_chars))
            elif r < 0.85:
                s.append(rng.choice(ext_chars))
            elif kind < 0.5:
                s.append(rng.choice(basic_chars))
            else:
                s.append(rng.choice(outside) if rng.random() < 0.7 else chr(rng.randint(0, 0xFFFF)))
        out.append(''.join(s))
    return out


def oracle_encode(ctx, codec, alphabet, s, mode):
    """Property statement on the implementation, independent of the model. Returns None or a message."""
    basic = {c: k for k, c in alphabet[0]}
    ext = {c: k for k, c in alphabet[1]}
    inside = all(ord(ch) in basic or ord(ch) in ext for ch in s)
    try:
        b = codec.encode(s, mode)[0]
    except UnicodeEncodeError:
        if inside or mode != 'strict':
            return f'encode({s!r},{mode}) raised UnicodeEncodeError'
        return None
    except Exception as e:  # noqa: BLE001
        return f'encode({s!r},{mode}) raised {type(e).__name__}'
    if not inside and mode == 'strict':
        return f'strict encode accepted a string with a character outside the alphabet: {s!r}'
    # expected octets by the 3GPP table
    exp = []
    for ch in s:
        o = ord(ch)
        if o in basic:
            exp.append([basic[o]])
        elif o in ext:
            exp.append([0x1B, ext[o]])
        elif mode == 'ignore':
            exp.append([])
        else:
            exp.append(None)    # exactly one substitute septet, value not prescribed
    got = list(b)
    pos = 0
    for e in exp:
        if e is None:
            if pos >= len(got) or not (0 <= got[pos] < 128) or got[pos] == 0x1B:
                return f'replace mode did not emit exactly one substitute in {s!r}'
            pos += 1
        else:
            if got[pos:pos + len(e)] != e:
                return f'encode({s!r},{mode}) octets {got} differ from the 3GPP table at {pos}'
            pos += len(e)
    if pos != len(got):
        return f'encode({s!r},{mode}) emitted extra octets'
    if inside:
        for dm in MODES:
            try:
                back = codec.decode(bytes(b), dm)[0]
            except Exception as e:  # noqa: BLE001
                return f'decode(encode({s!r})) raised {type(e).__name__} in mode {dm}'
            if back != s:
                return f'round trip of {s!r} gives {back!r}'
    return None


def oracle_decode(codec, alphabet, data, mode):
    basic = dict(alphabet[0])
    ext = dict(alphabet[1])
    # reference decoder written from the property text
    exp = []
    fail = False
    i = 0
    data = list(data)
    while i < len(data):
        b = data[i]
        if b == 0x1B:
            j = i + 1        # the code after the escape - whatever it is, the escape code itself included (no extension entry: placeholder)
            if j >= len(data):
                if mode == 'strict':
                    fail = True
                elif mode == 'replace':
                    exp.append(None)   # one placeholder
                i = j
                break
            x = data[j]
            exp.append(chr(ext[x]) if x in ext else None)
            i = j + 1
            continue
        if b in basic:
            exp.append(chr(basic[b]))
        else:
            if mode == 'strict':
                fail = True
                break
            if mode == 'replace':
                exp.append(None)
        i += 1
    try:
        got = codec.decode(bytes(data), mode)[0]
    except UnicodeDecodeError:
        return None if fail else f'decode({data},{mode}) raised UnicodeDecodeError'
    except Exception as e:  # noqa: BLE001
        return f'decode({data},{mode}) raised {type(e).__name__}'
    if fail:
        return f'decode({data},{mode}) should be rejected but returned {got!r}'
    if len(got) != len(exp):
        return f'decode({data},{mode}) gave {got!r}, expected {len(exp)} characters'
    for g, e in zip(got, exp):
        if e is not None and g != e:
            return f'decode({data},{mode}) gave {got!r}: {g!r} should be {e!r}'
    return None


def run(ctx):
    ctx.rule = ('encode: all single code points of the chosen range x 3 modes, all ordered pairs over the 137-character '
                'alphabet (strict), random mixed strings x 3 modes; decode: every octet 0..255 in both decoder states x 3 modes, '
                'random octet strings; a case is non-trivial when non-empty; distinct by (function, mode, input)')
    ctx.trusted_base = ['Coq 8.16.1 kernel (coqc, vm_compute); no axioms (Print Assumptions: closed under the global context)',
                        'translator/py2coq.py (GSM tables, ESCAPE/QUESTION_MARK/NO_BREAK_SPACE regenerated from codec.py)',
                        'Spec/Gsm0338.v transcribed by hand from 3GPP TS 23.038',
                        'correspondence harness harness/C10.py (differential run of Model/Codec.v vs codec.py)']
    ctx.assumptions = ['struct.pack/bytes/str semantics of CPython as modelled in Model/Codec.v']
    proved = ctx.prove('C10', THEOREMS)
    from aiosmpplib.codec import find_codec_info
    codec = find_codec_info('gsm0338')
    plain_codec = codec
    alphabet = spec_alphabet()
    alpha_chars = [chr(c) for _k, c in alphabet[0]] + [chr(c) for _k, c in alphabet[1]]

    enc_inputs = []   # (s, mode)
    if ctx.thorough:
        singles = [chr(i) for i in range(0x10000)] + [chr(ctx.rng.randint(0x10000, 0x10FFFF)) for _ in range(2000)]
    else:
        singles = [chr(i) for i in range(0x0500)] + [chr(0x20AC), chr(0xD800), chr(0xFFFF), chr(0x1F600)] + \
                  [chr(ctx.rng.randint(0x500, 0x10FFFF)) for _ in range(300)]
    for ch in singles:
        for m in MODES:
            enc_inputs.append((ch, m))
    ctx.count('encode_single_chars', len(singles) * 3)
    pairs = [a + b for a in alpha_chars for b in alpha_chars]
    if not ctx.thorough:
        pairs = ctx.rng.sample(pairs, 3000)
    for p in pairs:
        enc_inputs.append((p, 'strict'))
    ctx.count('encode_alphabet_pairs', len(pairs))
    rnd = gen_strings(ctx, alphabet, 6000 if ctx.thorough else 900, 400 if ctx.thorough else 120)
    for s in rnd:
        for m in MODES:
            enc_inputs.append((s, m))
    ctx.count('encode_random_strings', len(rnd) * 3)

    dec_inputs = []
    for b in range(256):
        for m in MODES:
            dec_inputs.append(([b], m))
            dec_inputs.append(([0x1B, b], m))
            dec_inputs.append(([0x41, b, 0x42], m))
            dec_inputs.append(([0x1B, b, 0x42], m))
    ctx.count('decode_every_octet_both_states', 256 * 3 * 4)
    nrand = 4000 if ctx.thorough else 600
    for _ in range(nrand):
        L = ctx.rng.randint(0, 40)
        data = [ctx.rng.choice([ctx.rng.randint(0, 127), ctx.rng.randint(0, 255), 0x1B]) for _ in range(L)]
        dec_inputs.append((data, ctx.rng.choice(MODES)))
    ctx.count('decode_random_octets', nrand)

    # ---- implementation results + oracle
    enc_cases, dec_cases = [], []
    for s, m in enc_inputs:
        r = common.ser_res_bytes(lambda: codec.encode(s, m)[0])
        enc_cases.append((f'({CMODE[m]}, {core.cstr(s)})', czl(r)))
        ctx.case(('enc', m, s), nontrivial=len(s) > 0)
        msg = oracle_encode(ctx, codec, alphabet, s, m)
        if msg:
            ctx.violation(msg, {'function': 'gsm0338.encode', 'input': [ord(c) for c in s], 'mode': m,
                                'observed': r, 'rerun': f"find_codec_info('gsm0338').encode(''.join(map(chr,{[ord(c) for c in s]})), '{m}')"})
    # is_gsm_text
    from aiosmpplib.codec import GSM7BitCodec
    basic_set = {c for _k, c in alphabet[0]} | {c for _k, c in alphabet[1]}
    igt_cases = []
    for s in rnd + singles[:2000]:
        got = GSM7BitCodec.is_gsm_text(s)
        igt_cases.append((core.cstr(s), czl([1 if got else 0])))
        ctx.case(('igt', s), nontrivial=len(s) > 0)
        if got != all(ord(c) in basic_set for c in s):
            ctx.violation(f'is_gsm_text({s!r}) = {got}', {'function': 'is_gsm_text', 'input': [ord(c) for c in s]})
    for data, m in dec_inputs:
        r = common.ser_res_bytes(lambda: codec.decode(bytes(data), m)[0])
        dec_cases.append((f'({CMODE[m]}, {czl(data)})', czl(r)))
        ctx.case(('dec', m, tuple(data)), nontrivial=len(data) > 0)
        msg = oracle_decode(codec, alphabet, data, m)
        if msg:
            ctx.violation(msg, {'function': 'gsm0338.decode', 'input': data, 'mode': m, 'observed': r})
    # ---- purity: the codecs are functions; repeated and interleaved calls (plain/packed codec objects
    # share code) must keep returning what the first call returned, and every call must match the model
    packed = find_codec_info('gsm0338_packed')
    pur = gen_strings(ctx, alphabet, 400 if ctx.thorough else 120, 40)
    for k, s in enumerate(pur):
        m = ctx.rng.choice(MODES)
        seq = ['p', 'g', 'g', 'p'] if k % 2 == 0 else ['g', 'p', 'p', 'g']
        first = {}
        for which in seq:
            cdc = plain_codec if which == 'g' else packed
            r = common.ser_res_bytes(lambda: cdc.encode(s, m)[0])
            if which == 'g':
                enc_cases.append((f'({CMODE[m]}, {core.cstr(s)})', czl(r)))
            if which in first and first[which] != r:
                ctx.violation(f'{"gsm0338" if which == "g" else "gsm0338_packed"}.encode({s!r},{m}) changed its result after other codec calls: {first[which]} then {r}',
                              {'function': 'purity', 'input': [ord(c) for c in s], 'mode': m, 'call_sequence': seq})
            first.setdefault(which, r)
        ctx.case(('purity', m, s), nontrivial=len(s) > 0)
    ctx.count('purity_interleaved_call_sequences', len(pur))
    ctx.sample({'encode': {'text': 'H€{@Δ', 'mode': 'strict', 'impl': list(codec.encode('H€{@Δ')[0])}})
    ctx.sample({'decode': {'octets': [0x1B, 0x99, 0x42], 'mode': 'strict', 'impl': codec.decode(bytes([0x1B, 0x99, 0x42]))[0]}})

    # ---- model vs implementation (only if the model built)
    if proved or not getattr(ctx, 'build_failing', None):
        for name, fn, cases in (
            ('enc', 'fun p : errmode * list Z => ser_res (gsm_encode (fst p) (snd p))', enc_cases),
            ('dec', 'fun p : errmode * list Z => ser_res (gsm_decode (fst p) (snd p))', dec_cases),
            ('igt', 'fun s : list Z => [if is_gsm_text s then 1 else 0]', igt_cases),
        ):
            bad, errs = core.run_cases('C10', name, IMPORTS, fn, cases, shard=2500)
            for fnm, out in errs:
                ctx.broken.append(f'model evaluation failed ({fnm}): {out[-400:]}')
            for i in bad[:5]:
                inp, exp = cases[i]
                ctx.violation(f'model and implementation disagree on {name}', {
                    'correspondence': f'Model/Codec.v vs codec.py ({name})', 'input_term': inp[:2000],
                    'implementation_result': exp[:2000]}, found_input=False)
            ctx.extra[f'correspondence_{name}_cases'] = len(cases)
            ctx.extra[f'correspondence_{name}_disagreements'] = len(bad)
    if ctx.thorough:
        ctx.exhaustive = True
        ctx.notes.append('thorough: every BMP code point x 3 modes, all 137^2 alphabet pairs, all octets in both states')
    return ctx.finish()


def replay(ctx, path):
    import json
    from aiosmpplib.codec import find_codec_info
    codec = find_codec_info('gsm0338')
    with open(path) as f:
        r = json.load(f)
    alphabet = spec_alphabet()
    if r.get('function') == 'gsm0338.encode':
        msg = oracle_encode(ctx, codec, alphabet, ''.join(map(chr, r['input'])), r['mode'])
    elif r.get('function') == 'gsm0338.decode':
        msg = oracle_decode(codec, alphabet, r['input'], r['mode'])
    else:
        msg = None
    print('replay:', msg or 'property holds on this input')
    if msg:
        print(f'VIOLATION property=C10 replay={path}')
        return 1
    return 0
