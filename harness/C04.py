"""C04 - wire conformance in both directions: proofs (Props/C04.v: model encoder = Spec/Smpp34.v layout, decoder on
specification PDUs) + an independent reference encoder (smppref.py) against the real pdu() + foreign PDUs built by
the reference encoder against the real parse_header/from_pdu and against the model."""
from datetime import datetime, timedelta, timezone

from lib import core
from lib.core import czl
from harness import common, pdugen, smppref
from harness.C03 import real_encode, real_decode

THEOREMS = ['C04_command_ids', 'C04_tlv_table', 'C04_tlv_int', 'C04_tlv_cstr', 'C04_tlv_ostr', 'C04_tlv_flag', 'C04_simple_layout',
            'C04_sm_layout', 'C04_text_decodes_under_data_coding', 'C04_smresp_decode', 'C04_bindresp_decode', 'C04_bind_decode',
            'C04_sm_decode', 'C04_tlv_loop', 'C04_udh_decode', 'C04_udh_any_order', 'C04_nonvacuous']
IMPORTS = ['AV.Model.Base', 'AV.Model.Codec', 'AV.Model.Split', 'AV.Model.TimeFmt', 'AV.Model.Pdu']
SAR = (0x020C, 0x020E, 0x020F)


# ---------------------------------------------------------------------------------------------------------
# encoding direction: reference bytes from the field values
# ---------------------------------------------------------------------------------------------------------
def ref_bytes(m, enc_before, default, produced):
    """(expected bytes, None) or (None, reason-to-skip) - from the application-level field values only; the data_coding the
    library chose is read from its output and checked for admissibility, everything else is computed independently"""
    from aiosmpplib import protocol as pr
    cmd, st, seq = int(m.smpp_command), int(m.command_status), m.sequence_num
    if isinstance(m, pr.SubmitSm):
        text = m.short_message or m.message_payload
        try:
            f = smppref.decode_sm(bytes(produced))
        except Exception as e:  # noqa: BLE001
            return None, f'reference parser rejects the PDU: {e!r}'
        dc = f['data_coding']
        pre = getattr(m, '_pre_for_reference', None)
        if pre is not None:
            # octets supplied through set_encoded_message (as the sender does for segments): carried as they are
            alphabet = enc_before or default
            if enc_before in ('gsm0338', 'gsm0338_packed') and default != enc_before:
                return None, 'skip'
            admissible = {smppref.DATA_CODING[alphabet]} | ({0} if alphabet == default else set())
            if dc not in admissible:
                return None, f'data_coding {dc} does not identify the alphabet {alphabet} of the pre-encoded octets (session default {default})'
            opts = b''.join(smppref.ref_tlv(p.tag, p.value) for p in (m.optional_params or []) if not (m.esm_class & 0x40 and p.tag in SAR))
            return smppref.encode_sm(cmd, seq, service_type=m.service_type.encode(), src_ton=int(m.source.ton), src_npi=int(m.source.npi),
                                     src=m.source.number.encode(), dst_ton=int(m.destination.ton), dst_npi=int(m.destination.npi),
                                     dst=m.destination.number.encode(), esm_class=m.esm_class, protocol_id=m.protocol_id,
                                     priority_flag=m.priority_flag, schedule=smppref.smpp_time(m.schedule_delivery_time),
                                     validity=smppref.smpp_time(m.validity_period), registered_delivery=m.registered_delivery,
                                     replace_if_present=m.replace_if_present_flag, data_coding=dc, sm_default_msg_id=m.sm_default_msg_id,
                                     short_message=pre, tlvs=opts, status=st), None
        if enc_before is None:
            b = smppref.text_encode(text, default)
            alphabet = default
            if b is None:
                alphabet, b = 'ucs2', text.encode('utf-16-be')
        else:
            alphabet, b = enc_before, smppref.text_encode(text, enc_before)
        if enc_before in ('gsm0338', 'gsm0338_packed') and default != enc_before:
            return None, 'skip'
        admissible = {smppref.DATA_CODING[alphabet]} | ({0} if alphabet == default else set())
        if dc not in admissible:
            return None, f'data_coding {dc} does not identify the alphabet {alphabet} of the text (session default {default})'
        if smppref.text_decode(b, dc, default) != text:
            return None, 'reference text bytes do not decode to the text'
        opts = b''.join(smppref.ref_tlv(p.tag, p.value) for p in (m.optional_params or [])
                        if not (m.esm_class & 0x40 and p.tag in SAR))
        in_payload = len(b) > 254 or bool(m.message_payload)
        tl = (smppref.tlv(0x0424, b) if in_payload else b'') + opts
        exp = smppref.encode_sm(cmd, seq, service_type=m.service_type.encode(), src_ton=int(m.source.ton), src_npi=int(m.source.npi),
                                src=m.source.number.encode(), dst_ton=int(m.destination.ton), dst_npi=int(m.destination.npi),
                                dst=m.destination.number.encode(), esm_class=m.esm_class, protocol_id=m.protocol_id,
                                priority_flag=m.priority_flag, schedule=smppref.smpp_time(m.schedule_delivery_time),
                                validity=smppref.smpp_time(m.validity_period), registered_delivery=m.registered_delivery,
                                replace_if_present=m.replace_if_present_flag, data_coding=dc, sm_default_msg_id=m.sm_default_msg_id,
                                short_message=b'' if in_payload else b, tlvs=tl, status=st)
        return exp, None
    if isinstance(m, pr.SubmitSmResp):
        return smppref.header(cmd, st, seq, smppref.cstr(m.message_id.encode())), None
    if isinstance(m, pr.BindTransceiver):
        body = (smppref.cstr(m.system_id.encode()) + smppref.cstr(m.password.encode()) + smppref.cstr(m.system_type.encode())
                + bytes([m.interface_version, int(m.addr_ton), int(m.addr_npi)]) + smppref.cstr(m.address_range.encode()))
        return smppref.header(cmd, st, seq, body), None
    if isinstance(m, pr.BindTransceiverResp):
        body = smppref.cstr(m.system_id.encode())
        if m.sc_interface_version is not None:
            body += smppref.tlv(0x0210, bytes([m.sc_interface_version]))
        return smppref.header(cmd, st, seq, body), None
    return smppref.header(cmd, st, seq), None


REF_CMD = {'SubmitSm': 'submit_sm', 'DeliverSm': 'deliver_sm', 'SubmitSmResp': 'submit_sm_resp', 'DeliverSmResp': 'deliver_sm_resp',
           'BindTransceiver': 'bind_transceiver', 'BindTransmitter': 'bind_transmitter', 'BindReceiver': 'bind_receiver',
           'BindTransceiverResp': 'bind_transceiver_resp', 'BindTransmitterResp': 'bind_transmitter_resp',
           'BindReceiverResp': 'bind_receiver_resp', 'EnquireLink': 'enquire_link', 'EnquireLinkResp': 'enquire_link_resp',
           'Unbind': 'unbind', 'UnbindResp': 'unbind_resp', 'GenericNack': 'generic_nack'}


# ---------------------------------------------------------------------------------------------------------
# decoding direction: foreign PDUs from field values
# ---------------------------------------------------------------------------------------------------------
TEXTS = {'gsm0338': ['', 'a', 'Hello €uro {x}', '@Δ_', 'x' * 100, 'y' * 153, 'z' * 254, 'w' * 300],
         'ucs2': ['', 'ы', 'мир 😀', 'a你', 'ж' * 67, 'ж' * 127, '😀' * 64, 'ж' * 200],
         'ascii': ['plain ascii', 'q' * 254, '~`', 'r' * 300],
         'latin_1': ['café', 'ÿ' * 10, 'x' * 254, 'é' * 260]}
CSTR = ['', 'abc', '38599123456', 'ALPHA', '1' * 20]


def gen_time_wire(rng):
    k = rng.random()
    if k < 0.55:
        return b'', None
    if k < 0.75:
        y, mo, d = rng.choice([(0, 0, 0), (0, 0, 1), (1, 2, 3), (0, 11, 29), (1, 0, 0)])
        h, mi, s = rng.randint(0, 23), rng.randint(0, 59), rng.randint(0, 59)
        return ('%02d%02d%02d%02d%02d%02d000R' % (y, mo, d, h, mi, s)).encode(), timedelta(days=365 * y + 30 * mo + d, hours=h, minutes=mi, seconds=s)
    q = rng.randint(-48, 48)
    t = datetime(rng.randint(2000, 2099), rng.randint(1, 12), rng.randint(1, 28), rng.randint(0, 23), rng.randint(0, 59), rng.randint(0, 59),
                 rng.choice([0, 100000, 900000]), tzinfo=timezone(timedelta(minutes=15 * q)))
    return smppref.smpp_time(t), t


def gen_tlvs(rng):
    """[(tag, octets, expected application value)]"""
    ints = [t for t, (_n, k, _s) in smppref.TLV.items() if k == 'int' and t not in SAR]
    cstrs = [t for t, (_n, k, _s) in smppref.TLV.items() if k == 'cstr']
    ostrs = [t for t, (_n, k, _s) in smppref.TLV.items() if k == 'ostr' and t != 0x0424]
    out = []
    for _ in range(rng.choice([0, 0, 1, 2, 3, 5])):
        k = rng.random()
        if k < 0.5:
            tag = rng.choice(ints)
            size = smppref.TLV[tag][2]
            v = rng.choice([0, 1, 256 ** size - 1, rng.randrange(256 ** size)])
            out.append((tag, v.to_bytes(size, 'big'), v))
        elif k < 0.7:
            tag = rng.choice(cstrs)
            s = rng.choice(['', 'abc', 'ID-42_x', 'm' * 64])
            out.append((tag, s.encode() + b'\x00', s))          # C-octet string: NUL terminated on the wire
        elif k < 0.92:
            tag = rng.choice(ostrs)
            size = smppref.TLV[tag][2]
            # octet strings are binary: network_error_code 03 00 A5, subaddresses start with 0x80 / 0x88 / 0xA0 ...
            s = rng.choice(['a', 'sub:addr', 'X' * 20, '\x03\x01\x02', '\x01', '\x03\x00\xa5', '\x80sub', '\xa0\xff\x00\x7f\x80', '\xff'])
            if size:
                s = (s * size)[:size]
            if rng.random() < 0.08:
                s = s[:-1] + '\x00'                                # an octet string whose last octet is zero
            out.append((tag, s.encode('latin_1'), s))
        else:
            out.append((0x130C, b'', True))
    return out


def gen_foreign_sm(rng):
    """(pdu, session default, expected field dict) for a submit_sm/deliver_sm a conformant peer may send"""
    cmd_name = rng.choice(['deliver_sm', 'deliver_sm', 'submit_sm'])
    default = rng.choice(['gsm0338', 'gsm0338', 'gsm0338', 'latin_1', 'ucs2', 'ascii'])
    alphabet = rng.choice(['default', 'default', 'ucs2', 'ascii', 'latin_1'])
    if alphabet == 'default':
        alphabet, dc = default, 0
    else:
        dc = smppref.DATA_CODING[alphabet]
    text = rng.choice(TEXTS[alphabet])
    udh = rng.choice([None, None, None, 8, 16])
    body = smppref.text_encode(text, alphabet)
    esm = rng.choice([0, 0, 3, 0x04, 0x80])
    ref = total = seq = None
    if udh:
        room = 140 - (6 if udh == 8 else 7)
        if alphabet == 'ucs2':
            room -= room % 2
        body = body[:room]
        if alphabet == 'ucs2' and len(body) >= 2 and 0xD8 <= body[-2] <= 0xDB:
            body = body[:-2]
        if alphabet == 'gsm0338' and body.endswith(b'\x1b'):
            body = body[:-1]
        text = smppref.text_decode(body, dc, default)
        ref = rng.choice([0, 1, 255]) if udh == 8 else rng.choice([0, 255, 256, 65535, 0x1234])
        total = rng.choice([2, 3, 255])
        seq = rng.randint(1, total)
        esm |= 0x40
        # 3GPP TS 23.040 9.2.3.24: the header is a sequence of information elements in any order; a peer may add application port
        # addressing (IEI 04 / 05) or others before or after the concatenation element, or send a header without concatenation
        concat_ie = (bytes([0x00, 3, ref, total, seq]) if udh == 8 else bytes([0x08, 4, ref >> 8, ref & 0xFF, total, seq]))
        shape = rng.choice(['concat', 'concat', 'concat', 'concat+port', 'port+concat', 'port16+concat+x', 'port_only'])
        port8, port16, other = bytes([0x04, 2, 0x23, 0xF0]), bytes([0x05, 4, 0x0B, 0x84, 0x23, 0xF0]), bytes([0x24, 1, 0x02])
        ies = {'concat': concat_ie, 'concat+port': concat_ie + port16, 'port+concat': port8 + concat_ie,
               'port16+concat+x': port16 + concat_ie + other, 'port_only': port16}[shape]
        extra = len(ies) - len(concat_ie)
        if extra > 0:
            cut = extra + (extra % 2 if alphabet == 'ucs2' else 0)
            body = body[:max(2, len(body) - cut - 2)]
            if alphabet == 'ucs2':
                body = body[:len(body) - len(body) % 2]
                if len(body) >= 2 and 0xD8 <= body[-2] <= 0xDB:
                    body = body[:-2]
            if alphabet == 'gsm0338' and body.endswith(b'\x1b'):
                body = body[:-1]
            text = smppref.text_decode(body, dc, default)
        if shape == 'port_only':
            ref = total = seq = None
        udh = f'{udh}:{shape}'
        body = bytes([len(ies)]) + ies + body
    in_payload = len(body) > 254 or rng.random() < 0.25
    tl = gen_tlvs(rng)
    sar_tlv = None
    if not udh and rng.random() < 0.15:
        sar_tlv = (rng.choice([0, 1, 65535]), rng.choice([2, 255]), rng.choice([1, 2]))
        tl += [(0x020C, sar_tlv[0].to_bytes(2, 'big'), sar_tlv[0]), (0x020E, bytes([sar_tlv[1]]), sar_tlv[1]),
               (0x020F, bytes([sar_tlv[2]]), sar_tlv[2])]
        rng.shuffle(tl)
    wire = [smppref.tlv(t, o) for t, o, _v in tl]
    if in_payload:
        wire.insert(rng.randint(0, len(wire)), smppref.tlv(0x0424, body))     # message_payload anywhere among the TLVs
    sched_w, sched = gen_time_wire(rng)
    valid_w, valid = gen_time_wire(rng)
    f = dict(service_type=rng.choice(['', 'CMT', 'abcde']), src_ton=rng.choice([0, 1, 2, 5, 6]), src_npi=rng.choice([0, 1, 3, 8, 18]),
             src=rng.choice(CSTR), dst_ton=rng.choice([0, 1, 4]), dst_npi=rng.choice([0, 1, 9, 14]), dst=rng.choice(CSTR),
             esm_class=esm, protocol_id=rng.choice([0, 1, 127, 255]), priority_flag=rng.choice([0, 1, 3]),
             registered_delivery=rng.choice([0, 1, 0x11, 255]), replace_if_present=rng.choice([0, 1]), sm_default_msg_id=rng.choice([0, 1, 255]))
    seqn = rng.choice([1, 2, 0x7FFFFFFF, 12345])
    pdu = smppref.encode_sm(smppref.CMD[cmd_name], seqn, service_type=f['service_type'].encode(), src_ton=f['src_ton'], src_npi=f['src_npi'],
                            src=f['src'].encode(), dst_ton=f['dst_ton'], dst_npi=f['dst_npi'], dst=f['dst'].encode(), esm_class=esm,
                            protocol_id=f['protocol_id'], priority_flag=f['priority_flag'], schedule=sched_w, validity=valid_w,
                            registered_delivery=f['registered_delivery'], replace_if_present=f['replace_if_present'], data_coding=dc,
                            sm_default_msg_id=f['sm_default_msg_id'], short_message=b'' if in_payload else body, tlvs=b''.join(wire))
    exp = dict(f, cls='DeliverSm' if cmd_name == 'deliver_sm' else 'SubmitSm', seq=seqn, text=text, in_payload=in_payload, sched=sched, valid=valid,
               opts=[(t, v) for t, _o, v in tl if t not in SAR], concat=((ref, total, seq) if ref is not None else None) if udh else sar_tlv,
               alphabet=alphabet, default=default, udh=udh)
    return pdu, default, exp


def check_sm(exp, m):
    """the decoded message against the field values the PDU was built from; returns (message, finding_key) or None"""
    if type(m).__name__ != exp['cls']:
        return f'decoded as {type(m).__name__}', None
    got = dict(service_type=m.service_type, src_ton=int(m.source.ton), src_npi=int(m.source.npi), src=m.source.number,
               dst_ton=int(m.destination.ton), dst_npi=int(m.destination.npi), dst=m.destination.number, esm_class=m.esm_class,
               protocol_id=m.protocol_id, priority_flag=m.priority_flag, registered_delivery=m.registered_delivery,
               replace_if_present=m.replace_if_present_flag, sm_default_msg_id=m.sm_default_msg_id)
    for k, v in got.items():
        if exp[k] != v:
            return f'{k} reads {v!r}, PDU was built from {exp[k]!r}', None
    if m.sequence_num != exp['seq']:
        return f'sequence_number reads {m.sequence_num}', None
    text = m.message_payload if exp['in_payload'] else m.short_message
    other = m.short_message if exp['in_payload'] else m.message_payload
    if text != exp['text'] or other:
        return f'text reads {text[:24]!r} (+{other[:8]!r}), PDU was built from {exp["text"][:24]!r} ({exp["alphabet"]}, udh={exp["udh"]})', None
    for name, want in (('schedule_delivery_time', exp['sched']), ('validity_period', exp['valid'])):
        have = getattr(m, name)
        if have != want or (isinstance(want, datetime) and have.utcoffset() != want.utcoffset()):
            return f'{name} reads {have!r}, PDU was built from {want!r}', None
    opts = [(p.tag, p.value) for p in (m.optional_params or []) if p.tag not in SAR]
    if opts != exp['opts']:
        for (t, v), (t2, v2) in zip(opts, exp['opts']):
            if (t, v) != (t2, v2) and t == t2 and smppref.TLV.get(t, ('', 'ostr', 0))[1] == 'ostr' and isinstance(v2, str) and v2.endswith('\x00') and v == v2[:-1]:
                return (f'octet-string parameter {smppref.TLV[t][0]} with value {v2!r} reads {v!r}: a final zero octet is dropped',
                        'octet-string-tlv-final-zero-octet-dropped')
        return f'optional parameters read {opts}, PDU was built from {exp["opts"]}', None
    sar = {p.tag: p.value for p in (m.optional_params or []) if p.tag in SAR}
    if exp['concat']:
        r, t, s = exp['concat']
        if sar != {0x020C: r, 0x020E: t, 0x020F: s}:
            return f'concatenation info reads {sar}, PDU was built from ref={r} total={t} seq={s} (udh={exp["udh"]})', None
    elif sar:
        return f'concatenation parameters {sar} appear although the PDU has none', None
    return None


def gen_foreign_simple(rng):
    """responses (with body, or without on an error status), binds, header-only PDUs"""
    k = rng.randrange(6)
    seq = rng.choice([1, 77, 0x7FFFFFFF])
    st = rng.choice([0, 0, 0x0D, 0x0E, 0x45, 0x58, 0xFF])
    if k == 0:
        name = rng.choice(['submit_sm_resp', 'deliver_sm_resp'])
        omit = st != 0 and rng.random() < 0.6
        mid = '' if omit else rng.choice(['', 'abc', 'x' * 64, 'ID 1'])
        body = b'' if omit else smppref.cstr(mid.encode())
        return smppref.header(smppref.CMD[name], st, seq, body), dict(kind='smresp', name=name, seq=seq, st=st, mid=mid, omitted=omit)
    if k in (1, 2):
        name = rng.choice(['bind_transceiver_resp', 'bind_transmitter_resp', 'bind_receiver_resp'])
        omit = st != 0 and rng.random() < 0.6
        sid = '' if omit else rng.choice(['', 'SMSC', 'c' * 15])
        ver = None if omit else rng.choice([None, 0x34, 0, 255])
        body = b'' if omit else smppref.cstr(sid.encode()) + (smppref.tlv(0x0210, bytes([ver])) if ver is not None else b'')
        return smppref.header(smppref.CMD[name], st, seq, body), dict(kind='bindresp', name=name, seq=seq, st=st, sid=sid, ver=ver, omitted=omit)
    if k == 3:
        name = rng.choice(['bind_transceiver', 'bind_transmitter', 'bind_receiver'])
        f = dict(sid=rng.choice(['', 'esme', 's' * 15]), pw=rng.choice(['', 'pw', 'p' * 8]), sty=rng.choice(['', 'SMPP', 't' * 12]),
                 ifv=rng.choice([0x34, 0, 255]), ton=rng.choice([0, 1, 6]), npi=rng.choice([0, 1, 18]), rng_=rng.choice(['', '^385', 'r' * 40]))
        body = (smppref.cstr(f['sid'].encode()) + smppref.cstr(f['pw'].encode()) + smppref.cstr(f['sty'].encode())
                + bytes([f['ifv'], f['ton'], f['npi']]) + smppref.cstr(f['rng_'].encode()))
        return smppref.header(smppref.CMD[name], 0, seq, body), dict(kind='bind', name=name, seq=seq, st=0, **f)
    name = rng.choice(['enquire_link', 'enquire_link_resp', 'unbind', 'unbind_resp', 'generic_nack'])
    return smppref.header(smppref.CMD[name], st, seq), dict(kind='plain', name=name, seq=seq, st=st)


def check_simple(exp, m):
    if REF_CMD.get(type(m).__name__) != exp['name']:
        return f'{exp["name"]} decoded as {type(m).__name__}'
    if m.sequence_num != exp['seq'] or int(m.command_status) != exp['st']:
        return f'header reads seq={m.sequence_num} status={int(m.command_status)}, built from seq={exp["seq"]} status={exp["st"]}'
    if exp['kind'] == 'smresp' and m.message_id != exp['mid']:
        return f'message_id reads {m.message_id!r}, built from {exp["mid"]!r}'
    if exp['kind'] == 'bindresp' and (m.system_id, m.sc_interface_version) != (exp['sid'], exp['ver']):
        return f'bind response reads ({m.system_id!r}, {m.sc_interface_version}), built from ({exp["sid"]!r}, {exp["ver"]})'
    if exp['kind'] == 'bind':
        got = (m.system_id, m.password, m.system_type, m.interface_version, int(m.addr_ton), int(m.addr_npi), m.address_range)
        want = (exp['sid'], exp['pw'], exp['sty'], exp['ifv'], exp['ton'], exp['npi'], exp['rng_'])
        if got != want:
            return f'bind reads {got}, built from {want}'
    return None


def run(ctx):
    ctx.rule = ('encoding: every class over the C03 field space, real pdu() bytes == bytes of an independent SMPP 3.4 encoder fed the same field values, '
                'data_coding admissible for the alphabet and the text bytes decode to the text under it; decoding: foreign submit_sm/deliver_sm built by '
                'the independent encoder (TLVs of every table row in random order, message_payload at any position, UDH 8/16-bit in short_message or '
                'message_payload, SAR TLVs, NUL-terminated C-octet-string TLVs, absolute/relative times, data_coding 0/1/3/8 under four session defaults), '
                'responses with and without body, bind responses with/without sc_interface_version; non-trivial = PDU with a body')
    ctx.trusted_base = ['Coq 8.16.1 kernel; no axioms', 'Spec/Smpp34.v (transcribed from SMPP 3.4 sections 3.2, 4.x, 5.1.2, 5.3.2)',
                        'translator/py2coq.py (enums, TLV tables, constants)', 'harness/smppref.py (independent encoder), harness/C04.py']
    ctx.assumptions = ['stdlib codecs other than ascii/latin-1/UTF-16BE are outside the model',
                       'a GSM alphabet named explicitly under another session default has no data_coding of its own (excluded)']
    proved = ctx.prove('C04', THEOREMS)
    from aiosmpplib import protocol as pr
    rng = ctx.rng
    n = 2500 if ctx.thorough else 450
    enc_cases, dec_cases = [], []
    # ---- encoding direction
    for i in range(n):
        if rng.random() < 0.6:
            cls = pr.SubmitSm if rng.random() < 0.6 else pr.DeliverSm
            m, default = pdugen.gen_sm(rng, cls, valid_only=True)
        else:
            m, default = pdugen.gen_simple(rng), 'gsm0338'
        if isinstance(m, pr.SubmitSm) and rng.random() < 0.15:
            alphabet = m.encoding or default
            octets = smppref.text_encode((m.short_message or m.message_payload), alphabet)
            if octets and alphabet in smppref.DATA_CODING:
                octets = octets[:rng.choice([2, 60, 134])]
                if rng.random() < 0.6:
                    m.esm_class |= 0x40
                    octets = smppref.udh8(rng.randint(0, 255), 3, rng.randint(1, 3)) + octets
                    # the neighbours of the concatenation parameters in the tag space travel with a UDH segment; the SAR parameters do not
                    from aiosmpplib import state as _st
                    m.optional_params = list(m.optional_params or []) + [
                        _st.OptionalParam(t, 3) for t in rng.sample([_st.LANGUAGE_INDICATOR, _st.SOURCE_PORT, _st.DESTINATION_PORT, _st.USER_MESSAGE_REFERENCE,
                                                                    _st.SAR_MSG_REF_NUM, _st.SAR_TOTAL_SEGMENTS, _st.SMS_SIGNAL], rng.choice([1, 2]))
                        if t not in [p.tag for p in (m.optional_params or [])]]
                m.set_encoded_message(octets)
                m._pre_for_reference = octets
                ctx.count('encode_pre_encoded_segment')
        term = pdugen.msg_term(m)
        import copy
        m0 = copy.deepcopy(m)
        enc_before = getattr(m, 'encoding', None)
        r = real_encode(m, default)
        if r[0] == 0:
            r_again = real_encode(m, default)
            if r_again != r:
                ctx.violation(f'{type(m).__name__}.pdu() gives different bytes on a second call (first {bytes(r[1:]).hex()[:80]}..., then {bytes(r_again[1:]).hex()[:80] if r_again[0] == 0 else r_again}...)',
                              {'function': 'encode_twice', 'message': repr(m)[:900], 'default': default})
        enc_cases.append((f'({pdugen.DEFAULTS[default]}, {term})', czl(r)))
        ctx.case(('enc', term), nontrivial=len(r) > 17)
        ctx.count('encode_' + type(m).__name__)
        if r[0] != 0:
            ctx.violation(f'{type(m).__name__}.pdu() raised {common.EXN_NAMES[r[1]]} on a message inside the SMPP field space',
                          {'function': 'encode', 'message': repr(m)[:900], 'message_pickle': core.pickle_b64(m0), 'default': default})
            continue
        exp, why = ref_bytes(m, enc_before, default, r[1:])
        if why == 'skip':
            ctx.count('wire_ambiguous_gsm_under_other_default_skipped')
        elif why:
            ctx.violation(f'{type(m).__name__}: {why}', {'function': 'encode', 'message': repr(m)[:900], 'message_pickle': core.pickle_b64(m0), 'default': default, 'pdu_hex': bytes(r[1:]).hex()})
        elif bytes(r[1:]) != exp:
            j = next((k for k, (a, b) in enumerate(zip(bytes(r[1:]), exp)) if a != b), min(len(exp), len(r) - 1))
            ctx.violation(f'{type(m).__name__}.pdu() differs from the reference encoding at octet {j}',
                          {'function': 'encode', 'message': repr(m)[:900], 'message_pickle': core.pickle_b64(m0), 'default': default, 'pdu_hex': bytes(r[1:]).hex(), 'reference_hex': exp.hex()})
        if i < 1:
            ctx.sample({'message': repr(m)[:300], 'pdu_hex': bytes(r[1:]).hex()[:160]})
    # ---- decoding direction
    for i in range(n):
        if rng.random() < 0.65:
            pdu, default, exp = gen_foreign_sm(rng)
            d, obj = real_decode(list(pdu), default)
            ctx.count('decode_' + exp['cls'] + ('_udh%s' % exp['udh'] if exp['udh'] else '') + ('_payload' if exp['in_payload'] else ''))
            bad = ('does not decode: ' + ('header ' if d[0] == 1 else '') + common.EXN_NAMES[d[1]], None) if obj is None else check_sm(exp, obj)
        else:
            pdu, exp = gen_foreign_simple(rng)
            default = 'gsm0338'
            d, obj = real_decode(list(pdu), default)
            ctx.count('decode_' + exp['name'] + ('_omitted_body' if exp.get('omitted') else ''))
            msg = ('does not decode: ' + common.EXN_NAMES[d[1]]) if obj is None else check_simple(exp, obj)
            bad = (msg, None) if msg else None
        dec_cases.append((f'({pdugen.DEFAULTS[default]}, {czl(list(pdu))})', czl(d)))
        ctx.case(('dec', bytes(pdu)), nontrivial=len(pdu) > 16)
        if bad:
            rp = {'function': 'decode', 'pdu_hex': bytes(pdu).hex(), 'default': default, 'built_from': repr(exp)[:900]}
            if bad[1]:
                rp['finding_key'] = bad[1]
            ctx.violation(f'specification PDU ({exp.get("name", exp.get("cls"))}): {bad[0]}', rp)
    if proved or not getattr(ctx, 'build_failing', None):
        for name, fn, cases in (
            ('encode', 'fun p : enc * message => ser_encode (fst p) (snd p)', enc_cases),
            ('decode', 'fun p : enc * list Z => ser_decode (fst p) (snd p)', dec_cases),
        ):
            bad, errs = core.run_cases('C04', name, IMPORTS, fn, cases, shard=150)
            for fnm, out in errs:
                ctx.broken.append(f'model evaluation failed ({fnm}): {out[-600:]}')
            for i in bad[:6]:
                inp, expd = cases[i]
                ctx.violation(f'model and implementation disagree on {name}', {
                    'correspondence': f'Model/Pdu.v vs protocol.py ({name})', 'input_term': inp[:2500], 'implementation_result': expd[:700]}, found_input=False)
            ctx.extra[f'correspondence_{name}_cases'] = len(cases)
            ctx.extra[f'correspondence_{name}_disagreements'] = len(bad)
    return ctx.finish()


def replay(ctx, path):
    import json
    rp = json.load(open(path))
    if rp.get('message_pickle'):
        import copy
        m = core.unpickle_b64(rp['message_pickle'])
        default = rp.get('default', 'gsm0338')
        m1 = copy.deepcopy(m)
        pre = getattr(m, '_pre_for_reference', None)
        r = real_encode(m1, default)
        print('replay: message', repr(m)[:400])
        if r[0] != 0:
            print('replay: pdu() raised', common.EXN_NAMES[r[1]])
            return 1
        exp, why = ref_bytes(m, getattr(m, 'encoding', None), default, r[1:])
        print('replay: pdu      ', bytes(r[1:]).hex()[:240])
        print('replay: reference', exp.hex()[:240] if exp else why)
        return 0 if (exp is not None and bytes(r[1:]) == exp) or why == 'skip' else 1
    if rp.get('function') == 'decode' and 'pdu_hex' in rp:
        d, obj = real_decode(list(bytes.fromhex(rp['pdu_hex'])), rp.get('default', 'gsm0338'))
        print('replay: from_pdu ->', repr(obj)[:600] if obj is not None else d)
        print('built from:', rp.get('built_from'))
    else:
        print('replay:', json.dumps(rp)[:1500])
    return 0
