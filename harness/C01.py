"""C01 - exactly one, correctly attributed send outcome per submitted message.
Proofs (Props/C01.v) + (A) histories of puts / accepting / rejecting / nack responses / expiries driven through the real
ESME._handle_response and SimpleCorrelator and compared with Model/Handlers.v (ser_hrun), with an oracle on the hook calls;
(B) whole sessions on a virtual-time loop (real sender, real expiry by the clock, SMSC accepting / rejecting / nacking /
ignoring each segment, connection loss, reference wrap) checked by the oracle."""
import asyncio
import struct

from lib import core
from lib.core import czl
from harness import common, sess, smppref, vsess
from harness import C02

THEOREMS = ['C01_segmented_outcome', 'C01_event_by_event', 'C01_plain_outcome', 'C01_in_call_sweep', 'C01_failure_wins', 'C01_concurrent_messages', 'C01_stray_responses', 'C01_cancelled_sender', 'C01_cancelled_plain', 'C01_concurrent_nonvacuous', 'C01_nonvacuous', 'C01_cancelled_nonvacuous']
IMPORTS = C02.IMPORTS


# ----------------------------------------------------------------------------------------------------------------
# (A) handler-level histories
# ----------------------------------------------------------------------------------------------------------------
def gen_history(rng):
    """('put', uid, seq, log, sar) | ('resp', uid, cmd, seq, status, mid) | ('expire', uid, seq)"""
    uid = [100]
    seq = [0]
    mid = [500]

    def nu():
        uid[0] += 1
        return uid[0]
    nmsg = rng.randint(1, 5)
    free_refs = [5, 6, 7]
    msgs = []
    for mi in range(nmsg):
        k = rng.choice([1, 1, 2, 3, 4])
        log = mi + 1
        chains = []
        for s in range(k):
            seq[0] += 1
            sq = seq[0]
            chain = [('put', nu(), sq, log, None, s + 1, k)]
            r = rng.random()
            if r < 0.55:
                mid[0] += 1
                chain.append(('resp', nu(), 0x80000004, sq, 0, mid[0]))
            elif r < 0.72:
                chain.append(('resp', nu(), 0x80000004, sq, rng.choice([0x58, 0x14, 8, 0x45]), 0))
            elif r < 0.8:
                chain.append(('resp', nu(), 0x80000000, sq, rng.choice([3, 8]), 0))
            elif r < 0.95:
                chain.append(('expire', nu(), sq))
            chains.append(chain)
        msgs.append({'log': log, 'k': k, 'chains': chains, 'ref': None, 'started': False})
    out = []
    active_refs = {}
    # one history in three: every segmented message gets the SAME reference (the 8-bit reference has come round while the older
    # messages are still in flight); the sender stores the segments of one message before it turns to the next
    same_ref = rng.random() < 0.33

    def storing(x):
        return x['k'] > 1 and x['started'] and any(c2 and c2[0][0] == 'put' for c2 in x['chains'])
    while any(c for m in msgs for c in m['chains']):
        cands = []
        for m in msgs:
            for ci, c in enumerate(m['chains']):
                if not c:
                    continue
                if c[0][0] == 'put':
                    # segments are stored in the order sent; a message starts only when a reference is free
                    if all(not (x and x[0][0] == 'put') for x in m['chains'][:ci]):
                        if same_ref:
                            if m['started'] or m['k'] == 1 or not any(storing(x) for x in msgs if x is not m):
                                cands.append((m, c))
                        elif m['started'] or m['k'] == 1 or [r for r in free_refs if r not in active_refs]:
                            cands.append((m, c))
                else:
                    cands.append((m, c))
        if not cands:
            break
        m, c = rng.choice(cands)
        ev = c.pop(0)
        if ev[0] == 'resp' and m['k'] > 1 and rng.random() < 0.3:
            # sibling segments that are stored and due to time out: they do so inside correlator.get() of this response
            sib = [c2 for c2 in m['chains'] if c2 and c2[0][0] == 'expire' and c2 is not c]
            if sib:
                picked = [c2.pop(0) for c2 in sib[:rng.randint(1, len(sib))]]
                ev = ev + (tuple(x[2] for x in picked),)
        if ev[0] == 'put':
            if m['k'] > 1 and not m['started']:
                m['ref'] = 5 if same_ref else rng.choice([r for r in free_refs if r not in active_refs])
                if not same_ref:
                    active_refs[m['ref']] = m
            m['started'] = True
            sar = (m['ref'], ev[5], ev[6]) if m['k'] > 1 else (0, 0, 0)
            ev = ('put', ev[1], ev[2], ev[3], sar)
        out.append(ev)
        # the reference becomes free for re-use once every segment of its message has been processed
        if m['k'] > 1 and all(not c2 for c2 in m['chains']) and m['ref'] in active_refs:
            del active_refs[m['ref']]
    return out


async def run_real(history):
    import aiosmpplib.protocol as pr
    import aiosmpplib.correlator as cm
    from aiosmpplib.protocol import SubmitSm, SmppMessage
    from aiosmpplib.state import PhoneNumber, OptionalParam, SAR_MSG_REF_NUM, SAR_SEGMENT_SEQNUM, SAR_TOTAL_SEGMENTS
    esme, hook = sess.make_esme()
    loop = asyncio.get_running_loop()
    _r, writer, tr, _p = sess.make_stream(loop)
    esme._writer = writer
    esme._bound.set()
    esme._session_state = esme.bind_mode.session_state
    cur = {'uid': 0}
    orig_post = pr.Base.__post_init__

    def tagging_post_init(self):
        self._vuid = cur['uid']
        orig_post(self)
    pr.Base.__post_init__ = tagging_post_init
    out = []
    try:
        for ev in history:
            cur['uid'] = ev[1]
            n_err = len([e for e in hook.log if e[0] == 'send_error'])
            if ev[0] == 'put':
                _k, uid, sq, log, sar = ev
                ops = []
                if sar[2] > 0:
                    ops = [OptionalParam(SAR_MSG_REF_NUM, sar[0]), OptionalParam(SAR_SEGMENT_SEQNUM, sar[1]), OptionalParam(SAR_TOTAL_SEGMENTS, sar[2])]
                m = SubmitSm(short_message='x', source=PhoneNumber('1'), destination=PhoneNumber('2'), log_id=f'LOG{log}', extra_data=f'X{log}', optional_params=ops)
                m.sequence_num = sq
                await esme.correlator.put(m)
                res = ('none',)
            elif ev[0] == 'resp':
                _k, uid, cmd, sq, status, mid = ev[:6]
                for sq2 in (ev[6] if len(ev) > 6 else ()):
                    key2 = str(sq2)
                    if key2 in esme.correlator._store._data:
                        item = esme.correlator._store._data[key2]
                        esme.correlator._store._data[key2] = (item[0] - 1000.0, item[1])
                body = (str(mid).encode() + b'\x00') if cmd == 0x80000004 else b''
                pdu = smppref.header(cmd, status, sq, body)
                res = ('resp', await esme._handle_response(pdu, SmppMessage.parse_header(pdu)))
            else:
                _k, uid, sq = ev
                c = esme.correlator
                key = str(sq)
                if key in c._store._data:
                    item = c._store._data[key]
                    c._store._data[key] = (item[0] - 1000.0, item[1])      # only this request is older than max_ttl_response
                await c._remove_expired()
                res = ('none',)
            errs = [e for e in hook.log if e[0] == 'send_error'][n_err:]
            out.append((ev, res, [(e[1].log_id, type(e[2]).__name__) for e in errs]))
    finally:
        pr.Base.__post_init__ = orig_post
    return out, esme


def observe(out):
    from aiosmpplib import esme as em
    obs = []
    for ev, res, errs in out:
        o = []
        for log_id, _cls in errs:
            o.append([4, int(log_id[3:]) if log_id else 0])
        if res[0] == 'resp':
            r = res[1]
            if r is None or r is em._SUBMIT_SM_SEGMENT:
                o.append([0])
            else:
                o.append([1, r._vuid, int(r.log_id[3:]) if getattr(r, 'log_id', '') else 0, int(r.smpp_command), int(r.command_status)])
        obs.append(o)
    return obs


def oracle_history(history, obs):
    """exactly one outcome per message, after all its segments were processed, a failure if any failed or expired,
    carrying that message's log and nobody else's"""
    msgs = {}
    seq_log = {}
    for ev in history:
        if ev[0] == 'put':
            m = msgs.setdefault(ev[3], {'k': max(ev[4][2], 1), 'seqs': [], 'state': {}, 'outcomes': []})
            m['seqs'].append(ev[2])
            seq_log[ev[2]] = ev[3]
    for ev, o in zip(history, obs):
        outcomes = []
        for x in o:
            if x[0] == 4:
                outcomes.append(('error', x[1], None))
            elif x[0] == 1 and x[2] != 0:
                outcomes.append(('resp', x[2], (x[3], x[4])))
        if ev[0] == 'put':
            continue
        sq = ev[3] if ev[0] == 'resp' else ev[2]
        log = seq_log.get(sq)
        if log is None:
            continue
        m = msgs[log]
        if sq in m['state']:
            continue
        m['state'][sq] = 'ok' if (ev[0] == 'resp' and ev[2] == 0x80000004 and ev[4] == 0) else ('fail' if ev[0] == 'resp' else 'expired')
        for sq2 in (ev[6] if ev[0] == 'resp' and len(ev) > 6 else ()):
            m['state'].setdefault(sq2, 'expired')
        complete = len(m['state']) == m['k'] and len(m['seqs']) == m['k']
        for kind, olog, detail in outcomes:
            if olog != log:
                return f'event {ev} of message {log} produced an outcome attributed to message {olog}'
            if not complete:
                return f'message {log} got an outcome ({kind}) after {len(m["state"])} of its {m["k"]} segments'
            m['outcomes'].append((kind, detail))
        if complete:
            if len(m['outcomes']) != 1:
                return f'message {log} ({m["k"]} segments, {sorted(m["state"].values())}) got {len(m["outcomes"])} outcomes: {m["outcomes"]}'
            kind, detail = m['outcomes'][0]
            bad = any(v != 'ok' for v in m['state'].values())
            is_failure = kind == 'error' or detail[0] == 0x80000000 or detail[1] != 0
            if bad != is_failure:
                return f'message {log} with segment results {sorted(m["state"].values())} was reported as {"failed" if is_failure else "accepted"}'
    return None


def coq_events(history):
    out = []
    for ev in history:
        if ev[0] == 'expire':
            out.append(f'HExpire {ev[2]}')
        elif ev[0] == 'resp' and len(ev) > 6:
            _k, uid, cmd, sq, status, mid, exps = ev
            out.append(f'HResponseX {{| rs_uid := {uid}; rs_cmd := {cmd}; rs_seq := {sq}; rs_status := {status} |}} {mid} {czl(list(exps))}')
        else:
            out.append(C02.coq_events([ev])[1:-1])
    return '[' + '; '.join(out) + ']'


# ----------------------------------------------------------------------------------------------------------------
# (B) whole sessions
# ----------------------------------------------------------------------------------------------------------------
def play_session(rng, n_msgs, wrap):
    from aiosmpplib.protocol import SubmitSm
    from aiosmpplib.state import PhoneNumber, TON, NPI
    from aiosmpplib.correlator import SimpleCorrelator
    from aiosmpplib.retrytimer import SimpleExponentialBackoff
    loop = vsess.VLoop()
    asyncio.set_event_loop(loop)
    smsc = vsess.FakeSMSC(loop)
    undo = vsess.install(loop, smsc)
    obs = {}
    try:
        corr = SimpleCorrelator('c', max_ttl_response=15.0)
        esme, hook = vsess.quiet_esme(enquire_link_interval=4.0, socket_timeout=10.0, correlator=corr, retry_timer=SimpleExponentialBackoff(200, 2))
        if wrap:
            esme._ref_seq_generator.sequence_num = rng.choice([253, 254])      # the 8-bit reference is about to wrap
        reactions = {}
        drop_at = rng.choice([None, None, None, 2.0, 6.0])
        delay = rng.choice([0.0, 0.0, 0.7])
        fail_write_at = rng.choice([None, None, 1, 2, 4])      # the transport fails while this submit_sm is being written
        count = [0]

        def gate(m, p):
            if struct.unpack('>I', bytes(p)[4:8])[0] != 4:
                return None
            count[0] += 1
            if fail_write_at is not None and count[0] == fail_write_at and smsc.conns:
                smsc.conns[-1].transport.fail_writes = ConnectionResetError('reset by peer while writing')
                smsc.conns[-1].reset(delay=0.001)
            return asyncio.sleep(delay) if delay else None
        hook.sending_gate = gate

        def on_pdu(conn, pdu):
            for p in vsess.split_pdus(pdu)[0]:
                cmd, seq = struct.unpack('>I', p[4:8])[0], struct.unpack('>I', p[12:16])[0]
                if cmd in (1, 2, 9):
                    conn.send(vsess.bind_resp_for(p))
                    if conn.index == 0 and drop_at is not None:
                        conn.eof(delay=drop_at)
                elif cmd == 4:
                    how = rng.choice(['ok', 'ok', 'ok', 'ok', 'reject', 'nack', 'silence', 'reject_bare'])
                    reactions[seq] = how
                    d = rng.choice([0.01, 0.3, 2.0])
                    if how == 'ok':
                        conn.send(smppref.header(0x80000004, 0, seq, b'id%d\x00' % seq), delay=d)
                    elif how == 'reject':
                        conn.send(smppref.header(0x80000004, rng.choice([0x58, 0x45, 8]), seq, b'\x00'), delay=d)
                    elif how == 'reject_bare':      # a rejection without a body, as SMPP 3.4 prescribes
                        conn.send(smppref.header(0x80000004, rng.choice([0x58, 0x0B, 0x400, 0x4FF]), seq), delay=d)
                    elif how == 'nack':
                        conn.send(smppref.header(0x80000000, 3, seq), delay=d)
                elif cmd == 0x15:
                    conn.send(smppref.header(0x80000015, 0, seq), delay=0.05)
        smsc.on_pdu = on_pdu
        src = PhoneNumber('38591', TON.INTERNATIONAL, NPI.ISDN)
        msgs = []
        for i in range(n_msgs):
            kind = rng.choice(['plain', 'plain', 'payload', 'sar', 'sar', 'udh', 'bad'])
            text = {'plain': 'hello', 'payload': 'p' * 300, 'sar': 's' * rng.choice([300, 520]), 'udh': 'u' * rng.choice([200, 400]), 'bad': 'x'}[kind]
            kw = dict(short_message=text, source=src, destination=src, log_id=f'M{i}', extra_data=f'X{i}')
            if kind in ('sar', 'udh'):
                kw['auto_message_payload'] = False
            if kind == 'udh':
                kw['esm_class'] = 0x40
            if kind == 'bad':
                kw['encoding'] = 'klingon'
            msgs.append((kind, SubmitSm(**kw)))

        async def main():
            t = asyncio.create_task(esme.start())
            await asyncio.sleep(0.3)
            for kind, m in msgs:
                await esme.broker.enqueue(m)
                if rng.random() < 0.4:
                    await asyncio.sleep(rng.choice([0.1, 1.0]))
            await asyncio.sleep(60.0)      # long enough for every silent segment to expire (keep-alive traffic drives the sweep)
            obs['start_done'] = t.done()
            obs['log'] = list(hook.log)
            obs['wire'] = [(c.index, p) for c in smsc.conns for _t, w in c.log for p in vsess.split_pdus(w)[0]]
            t.cancel()
            try:
                await t
            except BaseException:  # noqa: BLE001
                pass
        loop.run_until_complete(main())
        obs['msgs'] = [(k, m.log_id) for k, m in msgs]
        obs['reactions'] = reactions
        obs['drop_at'] = drop_at if fail_write_at is None else (drop_at, 'write failure at submit_sm #%d' % fail_write_at)
    finally:
        undo()
        vsess.finish(loop)
    return obs


def ref_collision_session(n_between):
    """more than 255 messages that take a segmentation reference in flight at once: the first and the last are segmented and
    get the same 8-bit reference when n_between >= 255 (everything is queued before start(), the SMSC accepts everything)"""
    from aiosmpplib.protocol import SubmitSm
    from aiosmpplib.state import PhoneNumber, TON, NPI
    loop = vsess.VLoop()
    asyncio.set_event_loop(loop)
    smsc = vsess.FakeSMSC(loop)
    undo = vsess.install(loop, smsc)
    obs = {}
    try:
        esme, hook = vsess.quiet_esme(enquire_link_interval=4.0, socket_timeout=10.0)

        def on_pdu(conn, pdu):
            for p in vsess.split_pdus(pdu)[0]:
                cmd, seq = struct.unpack('>I', p[4:8])[0], struct.unpack('>I', p[12:16])[0]
                if cmd in (1, 2, 9):
                    conn.send(vsess.bind_resp_for(p))
                elif cmd == 4:
                    conn.send(smppref.header(0x80000004, 0, seq, b'id%d\x00' % seq), delay=0.01)
                elif cmd == 0x15:
                    conn.send(smppref.header(0x80000015, 0, seq), delay=0.05)
        smsc.on_pdu = on_pdu
        src = PhoneNumber('38591', TON.INTERNATIONAL, NPI.ISDN)
        msgs = [('sar', SubmitSm(short_message='s' * 300, source=src, destination=src, log_id='M0', extra_data='X0', auto_message_payload=False))]
        for i in range(n_between):
            msgs.append(('plain', SubmitSm(short_message='hello', source=src, destination=src, log_id=f'M{i + 1}', extra_data=f'X{i + 1}', auto_message_payload=False)))
        msgs.append(('sar', SubmitSm(short_message='t' * 300, source=src, destination=src, log_id=f'M{n_between + 1}', extra_data=f'X{n_between + 1}',
                                     auto_message_payload=False)))

        async def main():
            for _k, m in msgs:
                await esme.broker.enqueue(m)
            t = asyncio.create_task(esme.start())
            await asyncio.sleep(60.0)
            obs['start_done'] = t.done()
            obs['log'] = list(hook.log)
            t.cancel()
            try:
                await t
            except BaseException:  # noqa: BLE001
                pass
        loop.run_until_complete(main())
        obs['msgs'] = [(k, m.log_id) for k, m in msgs]
        obs['reactions'] = {}
        obs['drop_at'] = None
    finally:
        undo()
        vsess.finish(loop)
    return obs


def requeue_session(kind, first_fate):
    """the application's retry: a segmented message whose second segment is ignored / rejected by the SMSC is reported once; the hook
    re-queues the very object it was handed (new log_id), the SMSC accepts every segment of the second attempt"""
    from aiosmpplib.protocol import SubmitSm, SubmitSmResp, GenericNack
    from aiosmpplib.state import PhoneNumber, TON, NPI
    from aiosmpplib.correlator import SimpleCorrelator
    loop = vsess.VLoop()
    asyncio.set_event_loop(loop)
    smsc = vsess.FakeSMSC(loop)
    undo = vsess.install(loop, smsc)
    obs = {'outcomes': [], 'submits': 0}
    try:
        esme, hook = vsess.quiet_esme(enquire_link_interval=0.5, socket_timeout=10.0, correlator=SimpleCorrelator('crq', max_ttl_response=3.0))

        def on_pdu(conn, pdu):
            for p in vsess.split_pdus(pdu)[0]:
                cmd, seq = struct.unpack('>I', p[4:8])[0], struct.unpack('>I', p[12:16])[0]
                if cmd in (1, 2, 9):
                    conn.send(vsess.bind_resp_for(p))
                elif cmd == 4:
                    obs['submits'] += 1
                    if obs['submits'] == 2:
                        if first_fate == 'rejected':
                            conn.send(smppref.header(0x80000004, 0x58, seq), delay=0.05)
                        continue
                    conn.send(smppref.header(0x80000004, 0, seq, b'id%d\x00' % seq), delay=0.05)
                elif cmd == 0x15:
                    conn.send(smppref.header(0x80000015, 0, seq), delay=0.01)
        smsc.on_pdu = on_pdu
        requeue = []

        def egate(m, err):
            if isinstance(m, SubmitSm):
                obs['outcomes'].append((m.log_id, 'send_error', type(err).__name__, m.extra_data))
                if m.log_id == 'try-1':
                    m.log_id = 'try-2'
                    requeue.append(m)
            return None
        hook.error_gate = egate

        async def main():
            t = asyncio.create_task(esme.start())
            await asyncio.sleep(0.5)
            src = PhoneNumber('38591', TON.INTERNATIONAL, NPI.ISDN)
            kw = dict(short_message='A' * 400, source=src, destination=src, log_id='try-1', extra_data='XQ', auto_message_payload=False)
            if kind == 'udh':
                kw['esm_class'] = 0x40
            orig = SubmitSm(**kw)
            await esme.broker.enqueue(orig)
            for _ in range(200):
                await asyncio.sleep(0.1)
                for e in hook.log:
                    if e[0] == 'received' and isinstance(e[1], (SubmitSmResp, GenericNack)) and e[1].log_id == 'try-1' and not requeue and not obs.get('rq'):
                        # a rejected first attempt is reported through received(): retry with the object the application still holds
                        obs['rq'] = True
                        orig.log_id = 'try-2'
                        requeue.append(orig)
                while requeue:
                    await esme.broker.enqueue(requeue.pop())
            obs['start_done'] = t.done()
            for e in hook.log:
                if e[0] == 'received' and isinstance(e[1], (SubmitSmResp, GenericNack)) and e[1].log_id:
                    obs['outcomes'].append((e[1].log_id, 'received', int(e[1].command_status), e[1].extra_data))
            t.cancel()
            try:
                await t
            except BaseException:  # noqa: BLE001
                pass
        loop.run_until_complete(main())
    finally:
        undo()
        vsess.finish(loop)
    return obs


def cancel_in_sweep_session(kind, hook_sleep, reset_after):
    """an old message A times out; the sweep that reports it runs inside correlator.put() of the next message B (just written), and
    the application's send_error hook takes `hook_sleep` seconds; `reset_after` seconds into the hook the connection is lost and the
    session is torn down, which cancels the sender inside put(B). The session reconnects; later traffic drives the sweeps."""
    from aiosmpplib.protocol import SubmitSm, SubmitSmResp, GenericNack
    from aiosmpplib.state import PhoneNumber
    from aiosmpplib.correlator import SimpleCorrelator
    from aiosmpplib.retrytimer import SimpleExponentialBackoff
    loop = vsess.VLoop()
    asyncio.set_event_loop(loop)
    smsc = vsess.FakeSMSC(loop)
    undo = vsess.install(loop, smsc)
    obs = {'outcomes': []}
    try:
        esme, hook = vsess.quiet_esme(enquire_link_interval=50.0, socket_timeout=100.0, correlator=SimpleCorrelator('ccs', max_ttl_response=3.0),
                                      retry_timer=SimpleExponentialBackoff(200, 2))

        def on_pdu(conn, pdu):
            for p in vsess.split_pdus(pdu)[0]:
                cmd, seq = struct.unpack('>I', p[4:8])[0], struct.unpack('>I', p[12:16])[0]
                if cmd in (1, 2, 9):
                    conn.send(vsess.bind_resp_for(p))
                elif cmd == 0x15:
                    conn.send(smppref.header(0x80000015, 0, seq), delay=0.01)
        smsc.on_pdu = on_pdu
        fired = []

        def egate(m, err):
            if isinstance(m, SubmitSm):
                obs['outcomes'].append((round(loop.time(), 2), m.log_id, type(err).__name__))
                if m.log_id == 'A' and isinstance(err, TimeoutError) and not fired:
                    fired.append(1)
                    smsc.conns[-1].reset(delay=reset_after)
                    return asyncio.sleep(hook_sleep)
            return None
        hook.error_gate = egate
        src = PhoneNumber('38591')

        def mk(lid, text):
            kw = dict(short_message=text, source=src, destination=src, log_id=lid, extra_data='X' + lid)
            if kind != 'plain' and lid == 'B':
                kw['auto_message_payload'] = False
                kw['short_message'] = 'b' * 300
                if kind == 'udh':
                    kw['esm_class'] = 0x40
            return SubmitSm(**kw)

        async def main():
            t = asyncio.create_task(esme.start())
            await asyncio.sleep(0.5)
            await esme.broker.enqueue(mk('A', 'a'))
            await asyncio.sleep(4.0)
            await esme.broker.enqueue(mk('B', 'b'))
            for lid in ('C', 'D', 'E'):
                await asyncio.sleep(6.0)
                await esme.broker.enqueue(mk(lid, 'x'))
            await asyncio.sleep(6.0)
            obs['start_done'] = t.done()
            for e in hook.log:
                if e[0] == 'received' and isinstance(e[1], (SubmitSmResp, GenericNack)) and e[1].log_id:
                    obs['outcomes'].append((0, e[1].log_id, 'response'))
            t.cancel()
            try:
                await t
            except BaseException:  # noqa: BLE001
                pass
        loop.run_until_complete(main())
    finally:
        undo()
        vsess.finish(loop)
    return obs


def receiver_cancelled_session(hook_sleep, reset_after, kind, socket_timeout=100.0):
    """A and B are outstanding; A's time-to-live (1 s) runs out; the SMSC answers B 1.3 s after it was written: correlator.get() takes B out
    of the store and then sweeps, which awaits the application's send_error hook for A (`hook_sleep` seconds); `reset_after` seconds into
    the hook the connection is lost and the session is torn down - the receiver is cancelled inside the correlation of B's response."""
    from aiosmpplib.protocol import SubmitSm, SubmitSmResp, GenericNack
    from aiosmpplib.state import PhoneNumber
    from aiosmpplib.correlator import SimpleCorrelator
    from aiosmpplib.retrytimer import SimpleExponentialBackoff
    loop = vsess.VLoop()
    asyncio.set_event_loop(loop)
    smsc = vsess.FakeSMSC(loop)
    undo = vsess.install(loop, smsc)
    obs = {'outcomes': [], 'resp_pdus': [], 'fed': []}
    try:
        esme, hook = vsess.quiet_esme(enquire_link_interval=50.0, socket_timeout=socket_timeout, correlator=SimpleCorrelator('crc', max_ttl_response=1.0),
                                      retry_timer=SimpleExponentialBackoff(200, 2))
        count = [0]

        def on_pdu(conn, pdu):
            for p in vsess.split_pdus(pdu)[0]:
                cmd, seq = struct.unpack('>I', p[4:8])[0], struct.unpack('>I', p[12:16])[0]
                if cmd in (1, 2, 9):
                    conn.send(vsess.bind_resp_for(p))
                elif cmd == 0x15:
                    conn.send(smppref.header(0x80000015, 0, seq), delay=0.01)
                elif cmd == 4 and conn.index == 0:
                    count[0] += 1
                    if count[0] >= 2:                           # A is never answered; B (all of its segments) is, 1.3 s later
                        r = {'ok': smppref.header(0x80000004, 0, seq, b'idB%d\x00' % count[0]), 'reject': smppref.header(0x80000004, 0x58, seq),
                             'nack': smppref.header(0x80000000, 3, seq)}[kind if kind in ('ok', 'reject', 'nack') else 'ok']
                        obs['fed'].append(r)
                        conn.send(r, delay=1.3)
                elif cmd == 4:
                    conn.send(smppref.header(0x80000004, 0, seq, b'idx%d\x00' % seq), delay=0.05)
        smsc.on_pdu = on_pdu
        fired = []

        def egate(m, err):
            if isinstance(m, SubmitSm):
                obs['outcomes'].append((round(loop.time(), 2), m.log_id, type(err).__name__))
                if m.log_id == 'A' and not fired:
                    fired.append(1)
                    smsc.conns[0].reset(delay=reset_after)
                    # the receiver is busy in this very hook: it is the sender that notices the loss, with the next message
                    loop.call_later(reset_after + 0.05, lambda: asyncio.ensure_future(esme.broker.enqueue(mk('X'))))
                    return asyncio.sleep(hook_sleep)
            return None
        hook.error_gate = egate
        src = PhoneNumber('38591')

        def mk(lid):
            kw = dict(short_message='hello', source=src, destination=src, log_id=lid, extra_data='X' + lid)
            if lid == 'B' and kind == 'segmented':
                kw.update(short_message='b' * 300, auto_message_payload=False)
            return SubmitSm(**kw)

        async def main():
            t = asyncio.create_task(esme.start())
            await asyncio.sleep(0.5)
            await esme.broker.enqueue(mk('A'))
            await esme.broker.enqueue(mk('B'))
            for lid in ('C', 'D', 'E'):
                await asyncio.sleep(6.0)
                await esme.broker.enqueue(mk(lid))
            await asyncio.sleep(6.0)
            obs['start_done'] = t.done()
            for e in hook.log:
                if e[0] == 'received' and isinstance(e[1], (SubmitSmResp, GenericNack)) and e[1].log_id:
                    obs['outcomes'].append((0, e[1].log_id, 'response'))
                if e[0] == 'received' and bytes(e[2]) in obs['fed']:
                    obs['resp_pdus'].append(bytes(e[2]))
            t.cancel()
            try:
                await t
            except BaseException:  # noqa: BLE001
                pass
        loop.run_until_complete(main())
    finally:
        undo()
        vsess.finish(loop)
    return obs


def oracle_receiver_cancelled(obs):
    if obs.get('start_done'):
        return 'start() ended'
    for lid in ('A', 'B', 'X', 'C', 'D'):
        oc = [o for o in obs['outcomes'] if o[1] == lid]
        if len(oc) != 1:
            return (f'message {lid} got {len(oc)} outcomes: {oc}; the response PDU(s) to B reached the received hook {len(obs["resp_pdus"])} time(s) '
                    f'(all outcomes: {obs["outcomes"]})')
    return None


def oracle_cancel_in_sweep(obs):
    if obs.get('start_done'):
        return 'start() ended'
    for lid in ('A', 'B', 'C', 'D'):
        oc = [o for o in obs['outcomes'] if o[1] == lid]
        if len(oc) != 1:
            return f'message {lid} got {len(oc)} outcomes: {oc} (all outcomes: {obs["outcomes"]})'
    return None


async def run_cancel_point(kind, k, i, where):
    """the real _dequeue_messages on a fake transport, cancelled while part i (0-based) of a k-part message is being sent: `before` = suspended
    in the sending hook of that part, `inside` = suspended inside correlator.put() of that part (an expired request planted in the store makes
    the sweep call the application's send_error hook, which blocks). Returns (ConnectionError reports for the message, parts in the store)."""
    import time
    from harness import sess
    from aiosmpplib.protocol import SubmitSm
    from aiosmpplib.state import PhoneNumber
    from aiosmpplib.correlator import SimpleCorrelator
    corr = SimpleCorrelator('ccp', max_ttl_response=15.0)
    esme, hook = sess.make_esme(correlator=corr)
    loop = asyncio.get_running_loop()
    _r, writer, _tr, _p = sess.make_stream(loop)
    esme._writer = writer
    esme._bound.set()
    esme._session_state = esme.bind_mode.session_state
    src = PhoneNumber('38591')
    kw = dict(short_message='a' * (254 * (k - 1) + 10) if k > 1 else 'hello', source=src, destination=src, log_id='M', extra_data='XM')
    if k > 1:
        kw['auto_message_payload'] = False
        if kind == 'udh':
            kw['esm_class'] = 0x40
            kw['short_message'] = 'a' * (153 * (k - 1) + 10)
    blocked = loop.create_future()
    never = loop.create_future()
    seen = [0]

    def sgate(m, p):
        if isinstance(m, SubmitSm) and m.log_id == 'M':
            n = seen[0]
            seen[0] += 1
            if n == i:
                if where == 'before':
                    if not blocked.done():
                        blocked.set_result(True)
                    return never
                old = SubmitSm(short_message='old', source=src, destination=src, log_id='OLD')
                old.sequence_num = 999999
                corr._store['999999'] = (time.monotonic() - 1000.0, old)
        return None
    hook.sending_gate = sgate

    def egate(m, err):
        if getattr(m, 'log_id', '') == 'OLD':
            if not blocked.done():
                blocked.set_result(True)
            return never
        return None
    hook.error_gate = egate
    task = asyncio.create_task(esme._dequeue_messages())
    await esme.broker.enqueue(SubmitSm(**kw))
    await asyncio.wait_for(asyncio.shield(blocked), 5.0)
    await sess.settle()
    task.cancel()
    try:
        await task
    except asyncio.CancelledError:
        pass
    never.cancel()
    reports = sum(1 for e in hook.log if e[0] == 'send_error' and getattr(e[1], 'log_id', '') == 'M')
    kinds = [type(e[2]).__name__ for e in hook.log if e[0] == 'send_error' and getattr(e[1], 'log_id', '') == 'M']
    stored = sum(1 for _k, v in corr._store._data.items() if getattr(v[1], 'log_id', '') == 'M')
    parts = seen[0]
    return reports, stored, kinds, parts


def oracle_requeue(obs):
    if obs.get('start_done'):
        return 'start() ended'
    first = [o for o in obs['outcomes'] if o[0] == 'try-1']
    second = [o for o in obs['outcomes'] if o[0] == 'try-2']
    other = [o for o in obs['outcomes'] if o[0] not in ('try-1', 'try-2')]
    if len(first) != 1 or (first[0][1] == 'received' and first[0][2] == 0):
        return f'the first attempt (second segment not accepted) got the outcomes {first}'
    if other:
        return f'an outcome carries an unknown log_id: {other}'
    if len(second) != 1 or second[0][1:] != ('received', 0, 'XQ'):
        return (f'the re-queued message ({obs["submits"]} submit_sm PDUs in all; every segment of the second attempt was accepted) got the '
                f'outcomes {second}')
    return None


def oracle_session(obs):
    from aiosmpplib.protocol import SubmitSm, SubmitSmResp, GenericNack
    if obs['start_done']:
        return 'start() ended'
    outcomes = {}
    for e in obs['log']:
        if e[0] == 'send_error' and isinstance(e[1], SubmitSm):
            outcomes.setdefault(e[1].log_id, []).append(('error', type(e[2]).__name__, e[1].extra_data))
        elif e[0] == 'received' and isinstance(e[1], (SubmitSmResp, GenericNack)) and e[1].log_id:
            outcomes.setdefault(e[1].log_id, []).append(('resp', int(e[1].command_status) if isinstance(e[1], SubmitSmResp) else -1, e[1].extra_data))
    # which segments went out for which message: the sending hook sees the message objects
    sent = {}
    for e in obs['log']:
        if e[0] == 'sending' and isinstance(e[1], SubmitSm):
            sent.setdefault(e[1].log_id, []).append(struct.unpack('>I', e[2][12:16])[0])
    for kind, lid in obs['msgs']:
        oc = outcomes.get(lid, [])
        if len(oc) != 1:
            return f'message {lid} ({kind}; reactions {[obs["reactions"].get(s) for s in sent.get(lid, [])]}; connection dropped at {obs["drop_at"]}) got {len(oc)} outcomes: {oc}'
        if oc[0][2] != 'X' + lid[1:]:
            return f'outcome of {lid} carries extra_data {oc[0][2]!r}'
        reacts = [obs['reactions'].get(s) for s in sent.get(lid, [])]
        if obs['drop_at'] is None and reacts and all(r is not None for r in reacts) and len(reacts) == len(set(sent.get(lid, []))):
            bad = any(r != 'ok' for r in reacts)
            is_failure = oc[0][0] == 'error' or oc[0][1] != 0
            if bad != is_failure:
                return f'message {lid} ({kind}) with SMSC reactions {reacts} was reported as {"failed" if is_failure else "accepted"} ({oc[0]})'
    for lid in outcomes:
        if lid not in [l for _k, l in obs['msgs']]:
            return f'an outcome carries the unknown log_id {lid!r}'
    return None


def run(ctx):
    ctx.rule = ('(A) histories of 1-5 messages (plain or 2-4 segments, 8-bit references from a pool of 3 re-used as soon as a message is finished), per '
                'segment: accepted / rejected with an error status / generic_nack / time-out / never processed, in any interleaving that keeps the '
                'order of puts; (B) sessions of 1-6 queued messages (plain, message_payload, SAR- and UDH-segmented, unbuildable) against an SMSC that '
                'accepts, rejects, nacks or ignores each segment after 0.01-2 s, a sending hook that suspends, connection loss at 2 or 6 s, the '
                'reference counter about to wrap; non-trivial = a message with a failed or timed-out segment')
    ctx.trusted_base = ['Coq 8.16.1 kernel; no axioms', 'translator/py2coq.py (status codes, command maps)',
                        'harness/C01.py, C02.py, vsess.py, smppref.py', 'the expiry sweep is triggered by correlator traffic (keep-alive) - C14']
    ctx.assumptions = ['references of concurrently unfinished messages may coincide (status cells are keyed by reference and first sequence number); sequence numbers of unfinished messages are distinct; histories are per ESME instance',
                       'known finding of C14 (response before put under write back-pressure) is outside: the transport never pauses here']
    proved = ctx.prove('C01', THEOREMS)
    rng = ctx.rng
    cases = []
    n = 8000 if ctx.thorough else 300
    for i in range(n):
        hist = gen_history(rng)
        out, esme = asyncio.run(run_real(hist))
        obs = observe(out)
        ctx.traces += 1
        flat = [x for o in obs for y in o for x in y]
        thr = esme.throttle_handler
        c = esme.correlator
        flat += [-5, thr.throttle_responses, thr.non_throttle_responses, -7]
        uid_of_seq = {ev[2]: ev[1] for ev in hist if ev[0] == 'put'}
        for k, v in c._store._data.items():
            flat += [int(k), uid_of_seq[int(k)]]
        flat += [-8] + [int(k) for k in c._segment_store._data.keys()] + [-9]
        for k, ss in c._segment_status_store._data.items():
            flat += [core.status_key(k)]
            for a, b in ss.status.items():
                flat += [int(a), b]
            flat += [-1]
        flat += [-10]
        for k, v in c._delivery_store._data.items():
            flat += [int(k), uid_of_seq[v[1].sequence_num]]
        cases.append((coq_events(hist), czl(flat)))
        nontriv = any(ev[0] == 'expire' or (ev[0] == 'resp' and (ev[4] != 0 or ev[2] == 0x80000000)) for ev in hist)
        ctx.case(('hist', repr(hist)), nontrivial=nontriv)
        for ev in hist:
            ctx.count('event_' + ev[0] + ('_fail' if ev[0] == 'resp' and (ev[4] != 0 or ev[2] == 0x80000000) else '') + ('_with_sibling_timeout_in_call' if ev[0] == 'resp' and len(ev) > 6 else ''))
        msg = oracle_history(hist, obs)
        if msg:
            ctx.violation(msg, {'function': 'history', 'history': [list(e) for e in hist]})
        if i < 1:
            ctx.sample({'history': [list(e) for e in hist[:10]], 'hook': obs[:10]})
    # concurrent correlator calls with a send_error hook that suspends (scripts and real-code runner of C14): no message may be reported
    # as timed out twice, or as timed out and answered
    from fractions import Fraction
    from harness import C14
    for j in range(800 if ctx.thorough else 40):
        ttl = Fraction(rng.choice([1, 2, 15]))
        script = C14.gen_script(rng, rng.randint(6, 14), ttl)
        _obs, hooklog, executed, info = asyncio.run(C14.run_real(script, ttl))
        ctx.case(('concurrent', repr(script)), nontrivial=bool(hooklog))
        ctx.count('concurrent_script_with_suspending_send_error_hook')
        msg = C14.oracle(ttl, hooklog, executed, info)
        if msg and ('answered' in msg or 'twice' in msg):
            ctx.violation(f'two outcomes for one message: {msg}', {'function': 'concurrent', 'script': repr(script)[:1500], 'ttl': str(ttl)})
    ns = 2500 if ctx.thorough else 70
    for i in range(ns):
        seed = rng.randrange(1 << 30)
        import random
        r2 = random.Random(seed)
        n_msgs, wrap = r2.choice([1, 2, 4, 6]), r2.random() < 0.3
        obs = play_session(r2, n_msgs, wrap)
        ctx.case(('session', seed), nontrivial=any(v != 'ok' for v in obs['reactions'].values()))
        ctx.count('session')
        for k, _l in obs['msgs']:
            ctx.count('session_message_' + k)
        for v in obs['reactions'].values():
            ctx.count('smsc_reaction_' + v)
        msg = oracle_session(obs)
        if msg:
            ctx.violation(msg, {'function': 'session', 'session_seed': seed})
    if proved or not getattr(ctx, 'build_failing', None):
        bad, errs = core.run_cases('C01', 'handlers', IMPORTS, 'fun evs : list hevent => ser_hrun evs', cases, shard=120)
        for fnm, out in errs:
            ctx.broken.append(f'model evaluation failed ({fnm}): {out[-600:]}')
        for i in bad[:5]:
            inp, exp = cases[i]
            ctx.violation('model and implementation disagree on a put/response/expiry history', {
                'correspondence': 'Model/Handlers.v vs esme.py/correlator.py', 'input_term': inp[:2500], 'implementation_result': exp[:800]}, found_input=False)
        ctx.extra['correspondence_handlers_cases'] = len(cases)
        ctx.extra['correspondence_handlers_disagreements'] = len(bad)
    # ---- a sequence number that comes round again (new process on a persisted correlator, or a generator with a short period) after a
    #      segmented message with that number was answered: the new message's outcome is its own
    for variant in ('answered', 'rejected', 'timed_out'):
        hist = [('put', 1, 2, 1, (7, 1, 2)), ('put', 2, 3, 1, (7, 2, 2)), ('resp', 3, 0x80000004, 2, 0, 501), ('resp', 4, 0x80000004, 3, 0, 502),
                ('put', 5, 2, 2, (0, 0, 0))]
        hist.append({'answered': ('resp', 6, 0x80000004, 2, 0, 503), 'rejected': ('resp', 6, 0x80000004, 2, 0x58, 0), 'timed_out': ('expire', 6, 2)}[variant])
        out, _e = asyncio.run(run_real(hist))
        obs = observe(out)
        ctx.traces += 1
        ctx.case(('sequence_number_reuse', variant), nontrivial=True)
        last = [x for x in obs[-1] if x[0] == 4 or (x[0] == 1 and x[2] != 0)]
        logs_seen = [x[1] if x[0] == 4 else x[2] for x in last]
        if logs_seen != [2]:
            ctx.violation(f'a plain message sent under a sequence number that an earlier, fully answered segment of another message had used ({variant}): '
                          f'its outcome is attributed to message(s) {logs_seen} instead of [2] (hook calls {obs[-1]})',
                          {'function': 'history', 'history': [list(e) for e in hist]})
    # ---- a message taken from the broker while the session is being torn down after a connection loss gets its outcome too
    from harness import C06 as _C06
    from aiosmpplib.protocol import SubmitSm as _S, SubmitSmResp as _R
    from aiosmpplib.state import PhoneNumber as _PN
    for lag in ([0.0, 0.1, 0.3, 0.45, 0.6] if ctx.thorough else [0.0, 0.3]):
        for long_text in (False, True):
            def mk(j, long_text=long_text):
                return _S(short_message=('seg ' * 100 if long_text and j == 1 else 'text%d' % j), source=_PN('38599'), destination=_PN('38591'),
                          log_id=f'T{j}', extra_data=f'X{j}', auto_message_payload=not (long_text and j == 1))
            obs = _C06.run_teardown(mk, lag=lag)
            ctx.traces += 1
            ctx.case(('teardown', lag, long_text), nontrivial=True)
            for j in range(3):
                n_out = sum(1 for e in obs['log'] if (e[0] == 'send_error' and getattr(e[1], 'log_id', '') == f'T{j}')
                            or (e[0] == 'received' and isinstance(e[1], _R) and e[1].log_id == f'T{j}'))
                if n_out != 1 and not obs['start_done']:
                    ctx.violation(f'message T{j} (queued {"%.2f s after" % lag if j == 1 else "outside"} the moment the session noticed the loss of the connection'
                                  f'{", segmented" if long_text and j == 1 else ""}) got {n_out} outcomes', {'scenario': 'teardown', 'lag': lag, 'long_text': long_text})
    # ---- the application's retry of the object handed to send_error
    for kind in ('sar', 'udh'):
        for fate in ('silent', 'rejected'):
            obs = requeue_session(kind, fate)
            ctx.traces += 1
            ctx.case(('requeue', kind, fate), nontrivial=True)
            msg = oracle_requeue(obs)
            if msg:
                ctx.violation(f'{kind}-segmented message, second segment {fate}, then re-queued by the application: {msg}',
                              {'scenario': 'requeue', 'kind': kind, 'fate': fate})
    # ---- the sender is cancelled (connection loss) while the application's send_error hook for an older message runs inside put()
    for kind in ('plain', 'sar', 'udh'):
        for hook_sleep, reset_after in ((1.0, 0.3), (0.2, 0.1), (3.0, 2.0), (5.0, 0.3)) + (((1.0, 0.0), (0.7, 0.45), (8.0, 4.0)) if ctx.thorough else ()):
            obs = cancel_in_sweep_session(kind, hook_sleep, reset_after)
            ctx.traces += 1
            ctx.case(('cancel_in_sweep', kind, hook_sleep, reset_after), nontrivial=True)
            msg = oracle_cancel_in_sweep(obs)
            if msg:
                ctx.violation(f'message B ({kind}) is written while an older message times out; the send_error hook for the older message takes {hook_sleep} s '
                              f'and the connection is lost {reset_after} s into it: {msg}',
                              {'scenario': 'cancel_in_sweep', 'kind': kind, 'hook_sleep': hook_sleep, 'reset_after': reset_after})
    # ---- the receiver cancelled (connection loss noticed by the sender) inside the correlation of a response it has already read
    for kind in ('ok', 'reject', 'nack', 'segmented'):
        for hook_sleep, reset_after in ((3.0, 0.2), (0.3, 0.1)) + (((8.0, 1.0), (1.2, 0.6)) if ctx.thorough else ()):
            obs = receiver_cancelled_session(hook_sleep, reset_after, kind)
            ctx.traces += 1
            ctx.case(('receiver_cancelled', kind, hook_sleep, reset_after), nontrivial=True)
            msg = oracle_receiver_cancelled(obs)
            if msg:
                ctx.violation(f'B ({kind}) is answered while an older message times out; correlator.get() has taken B out of the store and awaits the '
                              f'send_error hook for the older message ({hook_sleep} s); the connection is lost {reset_after} s into it: {msg}',
                              {'scenario': 'receiver_cancelled', 'kind': kind, 'hook_sleep': hook_sleep, 'reset_after': reset_after})
    # ---- ... and with a hook that outlasts the time the teardown waits for the handling (socket_timeout): the session is replaced, and
    #      the response still reaches the application when its hook returns
    for kind in ('ok', 'segmented'):
        obs = receiver_cancelled_session(8.0, 0.2, kind, socket_timeout=3.0)
        ctx.traces += 1
        ctx.case(('receiver_cancelled_slow_hook', kind), nontrivial=True)
        msg = oracle_receiver_cancelled(obs)
        if msg:
            ctx.violation(f'B ({kind}) answered while an older message times out; the send_error hook takes 8 s, the connection is lost 0.2 s into it, '
                          f'socket_timeout 3 s: {msg}', {'scenario': 'receiver_cancelled', 'kind': kind, 'hook_sleep': 8.0, 'reset_after': 0.2,
                                                       'socket_timeout': 3.0})
    # ---- the sender cancelled at every point of a message (before / inside correlator.put() of each part): the real _dequeue_messages
    #      against Model/SenderCancel.v, whose rule the translator reads off the handler
    cancel_cases = []
    for kind, ks in (('plain', (1,)), ('sar', (2, 3, 4)), ('udh', (2, 3, 5))):
        for k in ks:
            for i in range(k):
                for where in ('before', 'inside'):
                    reports, stored, kinds, parts = asyncio.run(run_cancel_point(kind, k, i, where))
                    ctx.traces += 1
                    ctx.case(('cancel_point', kind, k, i, where), nontrivial=True)
                    ctx.count('cancel_point_' + where)
                    if reports + (1 if stored == k else 0) != 1 or any(kd != 'ConnectionError' for kd in kinds):
                        ctx.violation(f'the sender was cancelled {"in the sending hook" if where == "before" else "inside correlator.put()"} of part {i + 1} of {k} '
                                      f'({kind}): send_error was called {reports} time(s) {kinds} for the message and the correlator holds {stored} of its {k} '
                                      f'part(s) - the message gets {"no" if reports == 0 else "more than one"} outcome',
                                      {'scenario': 'cancel_point', 'kind': kind, 'k': k, 'i': i, 'where': where})
                    cancel_cases.append((f'({k}%nat, {"BeforePut" if where == "before" else "InsidePut"} {i}%nat)', czl([reports, stored])))
    if proved or not getattr(ctx, 'build_failing', None):
        bad, errs = core.run_cases('C01', 'cancel', IMPORTS + ['AV.Model.SenderCancel'],
                                   'fun p : nat * cpoint => map Z.of_nat (ser_cancel (fst p) (snd p))', cancel_cases, shard=200)
        for fnm, out in errs:
            ctx.broken.append(f'model evaluation failed ({fnm}): {out[-600:]}')
        for j in bad[:5]:
            inp, exp = cancel_cases[j]
            ctx.violation('model and implementation disagree on what the cancelled sender reports / has recorded', {
                'correspondence': 'Model/SenderCancel.v vs esme.py _dequeue_messages/_send_data', 'input_term': inp, 'implementation_result': exp}, found_input=False)
        ctx.extra['correspondence_cancel_cases'] = len(cancel_cases)
        ctx.extra['correspondence_cancel_disagreements'] = len(bad)
    # ---- more than 255 reference-taking messages in flight at once
    for n_between in (254, 255):
        obs = ref_collision_session(n_between)
        ctx.traces += 1
        ctx.case(('reference_collision', n_between), nontrivial=True)
        msg = oracle_session(obs)
        if msg:
            ctx.violation(f'{n_between + 2} messages queued before start(), the first and the last segmented'
                          + (' (they share the 8-bit reference)' if n_between >= 255 else '') + ': ' + msg,
                          {'scenario': 'reference_collision', 'n_between': n_between})
    return ctx.finish()


def replay(ctx, path):
    import json
    import random
    with open(path) as f:
        r = json.load(f)
    msg = None
    if r.get('function') == 'history':
        hist = [tuple(tuple(x) if isinstance(x, list) else x for x in e) for e in r['history']]
        out, _e = asyncio.run(run_real(hist))
        msg = oracle_history(hist, observe(out))
    elif r.get('function') == 'session':
        r2 = random.Random(r['session_seed'])
        n_msgs, wrap = r2.choice([1, 2, 4, 6]), r2.random() < 0.3
        obs = play_session(r2, n_msgs, wrap)
        msg = oracle_session(obs)
    elif r.get('scenario') == 'teardown':
        print('replay: run ./check C06 --replay with the same scenario (harness/C06.run_teardown) - lag', r['lag'], 'long_text', r['long_text'])
        return 0
    elif r.get('scenario') == 'cancel_in_sweep':
        obs = cancel_in_sweep_session(r['kind'], r['hook_sleep'], r['reset_after'])
        print('replay: outcomes (time, log_id, kind):', obs['outcomes'])
        msg = oracle_cancel_in_sweep(obs)
    elif r.get('scenario') == 'receiver_cancelled':
        obs = receiver_cancelled_session(r['hook_sleep'], r['reset_after'], r['kind'], r.get('socket_timeout', 100.0))
        print('replay: outcomes (time, log_id, kind):', obs['outcomes'], '; response PDUs at the received hook:', len(obs['resp_pdus']))
        msg = oracle_receiver_cancelled(obs)
    elif r.get('scenario') == 'cancel_point':
        reports, stored, kinds, parts = asyncio.run(run_cancel_point(r['kind'], r['k'], r['i'], r['where']))
        print(f'replay: send_error calls for the message: {reports} {kinds}; parts held by the correlator: {stored} of {r["k"]}')
        msg = None if reports + (1 if stored == r['k'] else 0) == 1 else f'{reports} report(s) by the handler and {stored} of {r["k"]} part(s) recorded'
    elif r.get('scenario') == 'requeue':
        obs = requeue_session(r['kind'], r['fate'])
        print('replay: outcomes', obs['outcomes'], 'submit_sm PDUs', obs['submits'])
        msg = oracle_requeue(obs)
    elif r.get('scenario') == 'reference_collision':
        msg = oracle_session(ref_collision_session(r['n_between']))
    else:
        print(json.dumps(r)[:1500])
        return 0
    print('replay:', msg or 'property holds on this input')
    return 1 if msg else 0
