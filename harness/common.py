"""Helpers shared by the per-property harness modules."""
import asyncio
import os
import re
import struct
import sys

from lib import core

sys.path.insert(0, os.path.join(core.VERIF, 'translator'))
import py2coq  # noqa: E402

EXN_NAMES = py2coq.EXN_NAMES


def _classes():
    from aiosmpplib.state import SmppError
    return {
        'ValueError': ValueError, 'UnicodeError': UnicodeError, 'UnicodeEncodeError': UnicodeEncodeError,
        'UnicodeDecodeError': UnicodeDecodeError, 'StructError': struct.error, 'KeyError': KeyError,
        'IndexError': IndexError, 'LookupError': LookupError, 'TypeError': TypeError,
        'AssertionError': AssertionError, 'UnboundLocalError': UnboundLocalError,
        'OverflowError': OverflowError, 'AttributeError': AttributeError, 'OSError': OSError,
        'ConnectionError': ConnectionError, 'TimeoutError': TimeoutError,
        'IncompleteReadError': asyncio.IncompleteReadError, 'CancelledError': asyncio.CancelledError,
        'RuntimeError': RuntimeError, 'ZeroDivisionError': ZeroDivisionError, 'Exception': Exception,
        'BaseException': BaseException, 'EOFError': EOFError, 'NameError': NameError,
        'ArithmeticError': ArithmeticError, 'SmppError': SmppError,
    }


_CLS = None


def exn_index(e):
    """Most specific class of the modelled universe that type(e) derives from."""
    global _CLS
    if _CLS is None:
        _CLS = _classes()
    for k in type(e).__mro__:
        for i, n in enumerate(EXN_NAMES):
            if _CLS[n] is k:
                return i
    return EXN_NAMES.index('BaseException')


def ser_res_bytes(fn):
    """Run fn(); Ok bytes/str -> [0]+list ; exception -> [1, idx]."""
    try:
        r = fn()
    except Exception as e:  # noqa: BLE001
        return [1, exn_index(e)]
    if isinstance(r, (bytes, bytearray)):
        return [0] + list(r)
    if isinstance(r, str):
        return [0] + [ord(c) for c in r]
    return [0] + list(r)


def parse_spec_table(name):
    """Read a `Definition <name> : list (Z * Z) := [...]` table from Spec/Gsm0338.v."""
    with open(os.path.join(core.COQ, 'Spec', 'Gsm0338.v')) as f:
        src = f.read()
    src = re.sub(r'\(\*.*?\*\)', '', src, flags=re.S)
    m = re.search(r'Definition\s+' + name + r'\s*:\s*list \(Z \* Z\)\s*:=\s*\[(.*?)\]\.', src, re.S)
    pairs = re.findall(r'\(\s*(0x[0-9A-Fa-f]+|\d+)\s*,\s*(0x[0-9A-Fa-f]+|\d+)\s*\)', m.group(1))
    return [(int(a, 0), int(b, 0)) for a, b in pairs]
