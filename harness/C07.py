"""C07 - lifecycle: proofs (Props/C07.v) + fault scripts and stop() times played against the real ESME.start() on a
virtual-time loop.  Observed: connect attempts with time stamps, delays slept by the retry timer, how connect() and the
session tasks ended in each cycle, transports opened/closed, unbind PDUs, session state, when start() returned.
Compared with Model/Lifecycle.v (ser_run) and checked by an oracle stating the property on the observations."""
import asyncio
import struct

from lib import core
from lib.core import cz, czl
from harness import common, smppref, vsess

THEOREMS = ['C07_faults_are_caught', 'C07_faults_never_end_start', 'C07_returns_only_after_stop', 'C07_stop_seen_no_new_attempt',
            'C07_backoff_sequence', 'C07_backoff_bounds', 'C07_loop_uses_backoff', 'C07_nonvacuous']
IMPORTS = ['AV.Generated.ExnOrder', 'AV.Model.Base', 'AV.Model.Recv', 'AV.Model.Lifecycle']

FAULTS = [('refuse',), ('hang',), ('bind_error', 13), ('bind_error', 14), ('bind_error', 15), ('bind_error', 8), ('no_bind_resp',), ('wrong_resp',),
          ('eof_at_bind',), ('reset_at_bind',), ('garbage_at_bind',), ('os_error',),
          ('ok', 'eof'), ('ok', 'reset'), ('ok', 'unbind'), ('ok', 'silent'), ('ok', 'garbage')]


def play(scripts, stop_at, horizon, bind_mode, min_delay, max_increases, interval=30.0, sock_to=10.0):
    from aiosmpplib.state import BindMode
    from aiosmpplib.retrytimer import SimpleExponentialBackoff
    loop = vsess.VLoop()
    asyncio.set_event_loop(loop)
    smsc = vsess.FakeSMSC(loop)
    undo = vsess.install(loop, smsc)
    obs = {'waits': [], 'cycles': [], 'stop_at': stop_at}
    try:
        esme, hook = vsess.quiet_esme(enquire_link_interval=interval, socket_timeout=sock_to, bind_mode=getattr(BindMode, bind_mode),
                                      retry_timer=SimpleExponentialBackoff(min_delay, max_increases))
        rt = esme.retry_timer
        orig_wait = rt.wait

        async def wait():
            t0 = loop.time()
            await orig_wait()
            obs['waits'].append((t0, loop.time()))
        rt.wait = wait
        orig_connect = esme.connect

        async def connect():
            cyc = {'connect': None, 'tasks': {}, 'state_after_bind': None, 'started': loop.time()}
            obs['cycles'].append(cyc)
            try:
                await orig_connect()
                cyc['state_after_bind'] = int(esme.session_state)
                cyc['bound_at'] = loop.time()
                cyc['conn'] = len(smsc.conns) - 1
            except asyncio.CancelledError:
                raise
            except BaseException as e:  # noqa: BLE001
                cyc['connect'] = e
                raise
        esme.connect = connect

        def wrap(name, orig):
            async def w():
                cyc = obs['cycles'][-1]
                try:
                    r = await orig()
                    cyc['tasks'][name] = None
                    return r
                except asyncio.CancelledError:
                    cyc['tasks'][name] = None
                    raise
                except BaseException as e:  # noqa: BLE001
                    cyc['tasks'][name] = e
                    raise
            return w
        esme._receive_data = wrap('receiver', esme._receive_data)
        esme._dequeue_messages = wrap('sender', esme._dequeue_messages)
        esme._connection_keeper = wrap('keeper', esme._connection_keeper)

        def script(n):
            return scripts[min(n - 1, len(scripts) - 1)]

        def on_connect(s, n):
            sc = script(n)
            if sc[0] == 'refuse':
                return ConnectionRefusedError('refused')
            if sc[0] == 'os_error':
                return OSError(113, 'No route to host')
            if sc[0] == 'hang':
                return ('hang', 10000.0)
            return 'accept'
        smsc.on_connect = on_connect

        def on_pdu(conn, pdu):
            sc = conn.script
            for p in vsess.split_pdus(pdu)[0]:
                cmd, seq = struct.unpack('>I', p[4:8])[0], struct.unpack('>I', p[12:16])[0]
                if cmd in (1, 2, 9):
                    if sc[0] == 'bind_error':
                        conn.send(vsess.bind_resp_for(p, status=sc[1]))
                    elif sc[0] == 'wrong_resp':
                        # a response, but not the one to this bind: enquire_link_resp, unbind_resp, the bind response of another mode, generic_nack
                        other = {1: 0x80000002, 2: 0x80000009, 9: 0x80000001}[cmd]
                        wrong = [0x80000015, 0x80000006, other, 0x80000000, 0x80000004][(seq + len(smsc.attempts)) % 5]
                        conn.send(smppref.header(wrong, 0 if wrong != 0x80000000 else 3, seq, b'SMSC\x00' if wrong == other else b''))
                    elif sc[0] == 'eof_at_bind':
                        conn.eof()
                    elif sc[0] == 'reset_at_bind':
                        conn.reset()
                    elif sc[0] == 'garbage_at_bind':
                        conn.send(b'\x00\x00\x00\x10\xde\xad\xbe\xef' + bytes(8))
                    elif sc[0] == 'ok':
                        bd = sc[3] if len(sc) > 3 else 0.0       # the SMSC may take its time to answer the bind
                        conn.send(vsess.bind_resp_for(p), delay=bd)
                        after = (sc[2] if len(sc) > 2 else 3.3) + bd
                        if sc[1] == 'eof':
                            conn.eof(delay=after)
                        elif sc[1] == 'reset':
                            conn.reset(delay=after)
                        elif sc[1] == 'unbind':
                            conn.send(smppref.header(6, 0, 999), delay=after)
                        elif sc[1] == 'garbage':
                            conn.send(b'\xff' * 20, delay=after)
                elif cmd == 0x15 and sc[0] == 'ok' and sc[1] != 'silent':
                    conn.send(smppref.header(0x80000015, 0, seq), delay=0.5)
                elif cmd == 6 and sc[0] == 'ok' and sc[1] != 'silent':
                    conn.send(smppref.header(0x80000006, 0, seq), delay=0.1)
                    conn.eof(delay=0.2)
        smsc.on_pdu = on_pdu
        oc = smsc.open_connection

        async def open_connection(host, port, **k):
            n = len(smsc.attempts) + 1
            r = await oc(host, port, **k)
            smsc.conns[-1].script = script(n)
            return r
        smsc.open_connection = open_connection

        async def main():
            t = asyncio.create_task(esme.start())
            if stop_at is not None:
                await asyncio.sleep(stop_at)
                obs['state_at_stop'] = int(esme.session_state)
                obs['bound_at_stop'] = int(esme.session_state) in (2, 3, 4)      # BOUND_TX / BOUND_RX / BOUND_TRX
                t0 = loop.time()
                st = asyncio.create_task(esme.stop())
                try:
                    await asyncio.wait_for(asyncio.shield(t), horizon)
                    obs['start_returned_after'] = loop.time() - t0
                except asyncio.TimeoutError:
                    obs['start_returned_after'] = None
                except BaseException as e:  # noqa: BLE001
                    obs['start_raised'] = e
                    obs['start_returned_after'] = loop.time() - t0
                await asyncio.sleep(1.0)
                obs['stop_done'] = st.done()
                if not st.done():
                    st.cancel()
            else:
                await asyncio.sleep(horizon)
            obs['done'] = t.done()
            if t.done() and not t.cancelled() and t.exception() is not None:
                obs['start_raised'] = t.exception()
            obs['state'] = int(esme.session_state)
            obs['attempts'] = list(smsc.attempts)
            obs['conns'] = [(c.opened_at, c.closed_at, [struct.unpack('>I', p[4:8])[0] for _t, w in c.log for p in vsess.split_pdus(w)[0]], c.script)
                            for c in smsc.conns]
            obs['end_time'] = loop.time()
            if not t.done():
                t.cancel()
                try:
                    await t
                except BaseException:  # noqa: BLE001
                    pass
        loop.run_until_complete(main())
    finally:
        undo()
        vsess.finish(loop)
    return obs


def stop_on_closed_peer(hook_time, stop_after, inbound):
    """the SMSC sends a request and closes its socket; the application's received hook is still running (so the end of the connection
    has not been noticed and the session counts as bound) when stop() is called; afterwards the receiver answers the request.
    stop() must return and start() must end without an exception."""
    import struct
    from harness import smppref
    from aiosmpplib.retrytimer import SimpleExponentialBackoff
    loop = vsess.VLoop()
    asyncio.set_event_loop(loop)
    smsc = vsess.FakeSMSC(loop)
    undo = vsess.install(loop, smsc)
    obs = {}
    try:
        esme, hook = vsess.quiet_esme(enquire_link_interval=30.0, socket_timeout=10.0, retry_timer=SimpleExponentialBackoff(200, 2))
        q = {'deliver_sm': smppref.encode_sm(5, 5, src=b'111', dst=b'222', short_message=b'hello'),
             'enquire_link': smppref.header(0x15, 0, 5)}[inbound]

        def rgate(m, p):
            if bytes(p) == q:
                return asyncio.sleep(hook_time)
            return None
        hook.received_gate = rgate

        def on_pdu(conn, pdu):
            for p in vsess.split_pdus(pdu)[0]:
                cmd, seq = struct.unpack('>I', p[4:8])[0], struct.unpack('>I', p[12:16])[0]
                if cmd in (1, 2, 9):
                    conn.send(vsess.bind_resp_for(p))
                    if conn.index == 0:
                        conn.send(q, delay=0.5)
                        conn.close_peer(delay=0.6)
        smsc.on_pdu = on_pdu

        async def main():
            t = asyncio.create_task(esme.start())
            await asyncio.sleep(0.6 + stop_after)
            st = asyncio.create_task(esme.stop())
            await asyncio.sleep(120.0)
            obs['stop_returned'] = st.done()
            obs['start_done'] = t.done()
            obs['start_exc'] = repr(t.exception()) if t.done() and not t.cancelled() and t.exception() is not None else None
            for x in (st, t):
                if not x.done():
                    x.cancel()
            await asyncio.gather(st, t, return_exceptions=True)
        loop.run_until_complete(main())
    finally:
        undo()
        vsess.finish(loop)
    return obs


def stop_slow_unbind_hook(variant, hook_time=1.5):
    """stop() on a healthy bound session; the application's sending hook for the unbind takes `hook_time` seconds; meanwhile something ends
    one of the session tasks (a PDU from the SMSC wakes the keeper, which sees the shutdown flag; or the SMSC closes the connection), so
    start() tears the session down and returns while stop() is still inside the hook. stop() must return all the same."""
    import struct
    from harness import smppref
    from aiosmpplib.retrytimer import SimpleExponentialBackoff
    loop = vsess.VLoop()
    asyncio.set_event_loop(loop)
    smsc = vsess.FakeSMSC(loop)
    undo = vsess.install(loop, smsc)
    obs = {'unbind_written': False}
    try:
        esme, hook = vsess.quiet_esme(enquire_link_interval=0.5 if variant == 'keeper_wakes' else 30.0, socket_timeout=10.0,
                                      retry_timer=SimpleExponentialBackoff(200, 2))

        def sgate(m, p):
            if struct.unpack('>I', bytes(p)[4:8])[0] == 6:
                return asyncio.sleep(hook_time)
            return None
        hook.sending_gate = sgate

        def on_pdu(conn, pdu):
            for p in vsess.split_pdus(pdu)[0]:
                cmd, seq = struct.unpack('>I', p[4:8])[0], struct.unpack('>I', p[12:16])[0]
                if cmd in (1, 2, 9):
                    conn.send(vsess.bind_resp_for(p))
                    if variant == 'smsc_traffic':
                        for k in range(1, 12):
                            conn.send(smppref.header(0x15, 0, 9000 + k), delay=0.3 * k)
                    elif variant == 'smsc_closes':
                        conn.close_peer(delay=1.5)
                elif cmd == 0x15:
                    conn.send(smppref.header(0x80000015, 0, seq), delay=0.01)
                elif cmd == 6:
                    obs['unbind_written'] = True
                    conn.send(smppref.header(0x80000006, 0, seq), delay=0.01)
                    conn.eof(delay=0.05)
        smsc.on_pdu = on_pdu

        async def main():
            t = asyncio.create_task(esme.start())
            await asyncio.sleep(1.0)
            st = asyncio.create_task(esme.stop())
            await asyncio.sleep(120.0)
            obs['stop_returned'] = st.done()
            obs['start_done'] = t.done()
            obs['start_exc'] = repr(t.exception()) if t.done() and not t.cancelled() and t.exception() is not None else None
            obs['pending'] = sorted({tk.get_coro().__qualname__ for tk in asyncio.all_tasks(loop) if not tk.done() and tk is not asyncio.current_task()})
            for x in (st, t):
                if not x.done():
                    x.cancel()
            await asyncio.gather(st, t, return_exceptions=True)
        loop.run_until_complete(main())
    finally:
        undo()
        vsess.finish(loop)
    return obs


def oracle_stop_slow_unbind_hook(obs):
    if obs['start_exc']:
        return f'start() ended with {obs["start_exc"]}'
    if not obs['stop_returned']:
        return f'stop() had not returned 120 s later (tasks still pending: {obs["pending"]}); unbind written: {obs["unbind_written"]}'
    if not obs['start_done']:
        return 'start() was still running 120 s after stop()'
    return None


def oracle_stop_on_closed_peer(obs):
    if obs['start_exc']:
        return f'start() ended with {obs["start_exc"]}'
    if not obs['stop_returned']:
        return 'stop() had not returned 120 s later'
    if not obs['start_done']:
        return 'start() was still running 120 s after stop()'
    return None


def exn_term(e):
    return cz(common.exn_index(e))


def model_input(obs):
    """cycles with the shutting-down flag at the two check points, as the model wants them"""
    stop_at = obs['stop_at']
    out = []
    for i, cyc in enumerate(obs['cycles']):
        if cyc['connect'] is not None:
            c = f'CFailed {exn_term(cyc["connect"])}'
        else:
            ends = [cyc['tasks'].get(n) for n in ('receiver', 'sender', 'keeper')]
            c = 'CBound [' + '; '.join('None' if e is None else f'Some {exn_term(e)}' for e in ends) + ']'
        if i < len(obs['waits']):
            w0, w1 = obs['waits'][i]
            # the flag as stop() set it, whatever the loop then did
            s1 = 'true' if stop_at is not None and stop_at <= w0 else 'false'
            s2 = 'true' if stop_at is not None and stop_at <= w1 else 'false'
        else:
            s1 = 'true' if obs['done'] and 'start_raised' not in obs else 'false'
            s2 = 'false'
            if s1 == 'false' and not obs['done']:
                break           # the cycle was still in progress at the horizon
        out.append(f'({c}, {s1}, {s2})')
    return '[' + '; '.join(out) + ']'


def oracle(obs, scripts, bind_mode, min_delay, max_increases, interval, sock_to):
    from aiosmpplib.state import SmppSessionState
    max_delay = min_delay * 2 ** max_increases / 1000.0
    if 'start_raised' in obs:
        return f'start() raised {obs["start_raised"]!r}'
    if obs['stop_at'] is None:
        if obs['done']:
            return 'start() returned although stop() was never called'
    # back-off: delay before each attempt that follows a failure; starts over after a successful bind
    k = 0
    for i, (w0, w1) in enumerate(obs['waits']):
        cyc = obs['cycles'][i]
        k = 1 if cyc['connect'] is None else k + 1
        want = 0.0 if k == 1 else min(min_delay * 2 ** (k - 2) / 1000.0, max_delay)
        if obs['stop_at'] is not None and obs['stop_at'] <= w1:
            break
        if abs((w1 - w0) - want) > 1e-6:
            return f'delay before attempt {i + 2} is {w1 - w0:.3f}s, expected {want:.3f}s ({k} consecutive failures since the last bind; min {min_delay}ms, {max_increases} increases)'
        if i + 1 < len(obs['attempts']) and abs(obs['attempts'][i + 1] - w1) > 1e-6:
            return f'attempt {i + 2} does not start when the back-off delay ends'
    # a bind that the SMSC did not answer with the matching bind response and an accepting status never opens a session
    for i, cyc in enumerate(obs['cycles']):
        sc = scripts[i] if i < len(scripts) else ('ok', 'healthy')
        if sc[0] != 'ok' and cyc.get('state_after_bind') is not None:
            return f'attempt {i + 1}: the session became bound (state {cyc["state_after_bind"]}) although the SMSC reacted to the bind with {sc}'
    if obs['stop_at'] is None:
        # the run must have gone through the whole fault script to the healthy peer
        if len(obs['attempts']) < len(scripts):
            return f'only {len(obs["attempts"])} connect attempts in {obs["end_time"]:.0f}s for a script of {len(scripts)}'
        want_state = {'TRANSCEIVER': SmppSessionState.BOUND_TRX, 'TRANSMITTER': SmppSessionState.BOUND_TX, 'RECEIVER': SmppSessionState.BOUND_RX}[bind_mode]
        if obs['state'] != int(want_state):
            return f'after the faults the session state is {obs["state"]}, not {want_state!r}'
        return None
    # stop()
    bound = sock_to * 3 + max_delay + interval + sock_to + 5.0
    if obs['start_returned_after'] is None or obs['start_returned_after'] > bound:
        return f'start() had not returned {bound:.0f}s after stop() (stop at t={obs["stop_at"]})'
    if not obs.get('stop_done'):
        return 'stop() itself did not return'
    if obs['state'] != int(SmppSessionState.CLOSED):
        return f'session state after stop is {obs["state"]}'
    for (o, c, cmds, sc) in obs['conns']:
        if o > obs['stop_at'] + 1e-9 and sc[0] == 'ok' and 6 not in cmds:
            return f'a connection opened at t={o}, after stop() at t={obs["stop_at"]}, was bound and then dropped without unbind'
    for (o, c, cmds, sc) in obs['conns']:
        if c is None:
            return f'connection opened at t={o} is still open after start() returned (stop at t={obs["stop_at"]}, script {sc})'
    for cyc in obs['cycles']:
        if cyc.get('bound_at') is not None and cyc['bound_at'] >= obs['stop_at'] - 1e-9 and cyc.get('conn') is not None and cyc['conn'] < len(obs['conns']):
            o, c, cmds, sc = obs['conns'][cyc['conn']]
            if 6 not in cmds:
                return (f'the bind on the connection opened at t={o} completed at t={cyc["bound_at"]:.3f}, after stop() at t={obs["stop_at"]}: the session '
                        f'was bound and then closed without unbind (PDUs written: {cmds})')
    if obs['bound_at_stop'] and obs['conns']:
        o, c, cmds, sc = obs['conns'][-1]
        if 6 not in cmds:
            return f'the session was bound when stop() was called but no unbind was sent (PDUs written: {cmds})'
    return None


def gen_scenario(rng):
    n = rng.choice([0, 1, 2, 3, 5, 8])
    scripts = []
    for _ in range(n):
        sc = rng.choice(FAULTS)
        if sc[0] == 'ok':
            sc = (sc[0], sc[1], rng.choice([0.3, 3.3, 47.9]))
        scripts.append(sc)
    bind_mode = rng.choice(['TRANSCEIVER', 'TRANSMITTER', 'RECEIVER'])
    min_delay = rng.choice([1, 250, 1000, 3000])
    max_inc = rng.choice([0, 1, 3, 4, 5, 7])
    if rng.random() < 0.25:
        # a long streak of failed cycles: the delay must keep doubling up to min * 2^max_increases and stay there
        scripts = [rng.choice([('refuse',), ('bind_error', 13), ('eof_at_bind',), ('os_error',), ('wrong_resp',)]) for _ in range(max_inc + rng.choice([2, 3, 4]))]
        min_delay = rng.choice([1, 20, 250])
    scripts.append(('ok', 'stay', 3.3, rng.choice([0.0, 0.0, 0.4, 1.5, 5.0])))
    return scripts, bind_mode, min_delay, max_inc


def run(ctx):
    ctx.rule = ('fault scripts of 0-8 cycles (connect refused / no route / hangs, bind_resp with error statuses, missing, of the wrong type, garbage, EOF or '
                'reset instead of it; bound sessions ended by EOF, reset, SMSC unbind, silence, garbage) followed by a healthy peer; all three bind modes; '
                'back-off minimum 1-3000 ms with 0-5 increases; stop() at a time inside every phase (connecting, waiting for bind_resp, bound idle, '
                'tearing down, backing off) or never; non-trivial = at least one failed cycle')
    ctx.trusted_base = ['Coq 8.16.1 kernel; no axioms', 'translator/py2coq.py (except clauses of start()/_end_task)',
                        'harness/vsess.py (virtual-time loop: timers fire in order, time jumps), harness/C07.py',
                        'asyncio: wait_for/cancel semantics, StreamWriter.close()']
    ctx.assumptions = ['bounded return after stop(): bound = 4*socket_timeout + max back-off + enquire_link_interval + 5 s (the keeper wakes at the latest then)',
                       'hooks and broker return promptly']
    proved = ctx.prove('C07', THEOREMS)
    rng = ctx.rng
    n = 3000 if ctx.thorough else 90
    cases = []
    for i in range(n):
        scripts, bind_mode, min_delay, max_inc = gen_scenario(rng)
        # a run without stop gives the timeline; stop() is then placed inside its phases
        base = play(scripts, None, 700.0, bind_mode, min_delay, max_inc)
        runs = [(None, base)]
        marks = sorted(set([0.0] + base['attempts'] + [w0 for w0, _ in base['waits']] + [w1 for _, w1 in base['waits']]))
        for _ in range(2 if not ctx.thorough else 4):
            a = rng.choice(marks)
            st = a + rng.choice([0.0003, 0.137, 0.61, 2.37, 9.3, 12.7])
            runs.append((st, play(scripts, st, 400.0, bind_mode, min_delay, max_inc)))
        for st, obs in runs:
            ctx.case(('scenario', tuple(scripts), bind_mode, min_delay, max_inc, st), nontrivial=len(scripts) > 1)
            ctx.count('stop_' + ('never' if st is None else ('bound' if obs.get('bound_at_stop') else 'not_bound')))
            for cyc in obs['cycles']:
                ctx.count('cycle_' + ('bound' if cyc['connect'] is None else type(cyc['connect']).__name__))
            rp = {'scripts': repr(scripts), 'stop_at': st, 'bind_mode': bind_mode, 'min_delay_ms': min_delay, 'max_increases': max_inc}
            msg = oracle(obs, scripts, bind_mode, min_delay, max_inc, 30.0, 10.0)
            if msg:
                ctx.violation(msg, rp)
            # model: delays in ms and the ending
            delays = [int(round((w1 - w0) * 1000)) for w0, w1 in obs['waits']]
            if 'start_raised' in obs:
                end = [2, common.exn_index(obs['start_raised'])]
            elif obs['done']:
                end = [1]
            else:
                end = [0]
            exp = [len(delays)] + delays + end
            term = model_input(obs)
            cases.append((f'({min_delay}, {max_inc}, {term})', czl(exp)))
        if i < 1:
            ctx.sample({'scripts': repr(scripts), 'attempts': base['attempts'][:8], 'waits': base['waits'][:8]})
    # ---- stop() while the received hook is still busy with a request of an SMSC that has already closed its socket
    for inbound in ('deliver_sm', 'enquire_link'):
        for hook_time, stop_after in ((1.0, 0.3), (3.0, 1.0), (0.0, 0.3)) + (((12.0, 5.0), (0.5, 0.45)) if ctx.thorough else ()):
            obs = stop_on_closed_peer(hook_time, stop_after, inbound)
            ctx.traces += 1
            ctx.case(('stop_on_closed_peer', inbound, hook_time, stop_after), nontrivial=True)
            msg = oracle_stop_on_closed_peer(obs)
            if msg:
                ctx.violation(f'the SMSC sends {inbound} and closes its socket; the received hook takes {hook_time} s; stop() is called {stop_after} s after '
                              f'the close: {msg}', {'function': 'stop_on_closed_peer', 'inbound': inbound, 'hook_time': hook_time, 'stop_after': stop_after})
    # ---- stop() whose unbind is held up in the application's sending hook while the session ends underneath it
    for variant in ('smsc_traffic', 'smsc_closes', 'keeper_wakes', 'quiet'):
        for hook_time in (1.5, 0.05) + ((4.0,) if ctx.thorough else ()):
            obs = stop_slow_unbind_hook(variant, hook_time)
            ctx.traces += 1
            ctx.case(('stop_slow_unbind_hook', variant, hook_time), nontrivial=True)
            msg = oracle_stop_slow_unbind_hook(obs)
            if msg:
                ctx.violation(f'stop() on a bound session, sending hook of the unbind takes {hook_time} s, meanwhile: {variant}: {msg}',
                              {'function': 'stop_slow_unbind_hook', 'variant': variant, 'hook_time': hook_time})
    if proved or not getattr(ctx, 'build_failing', None):
        bad, errs = core.run_cases('C07', 'run', IMPORTS, 'fun p : Z * Z * list (cycle * bool * bool) => ser_run (fst (fst p)) (snd (fst p)) (snd p)', cases, shard=100)
        for fnm, out in errs:
            ctx.broken.append(f'model evaluation failed ({fnm}): {out[-600:]}')
        for i in bad[:6]:
            inp, exp = cases[i]
            ctx.violation('model and implementation disagree on the delays or the ending of start()', {
                'correspondence': 'Model/Lifecycle.v ser_run vs ESME.start()', 'input_term': inp[:3000], 'implementation_result': exp[:900]}, found_input=False)
        ctx.extra['correspondence_run_cases'] = len(cases)
        ctx.extra['correspondence_run_disagreements'] = len(bad)
    return ctx.finish()


def replay(ctx, path):
    import json
    rp = json.load(open(path))
    if 'scripts' in rp:
        scripts = eval(rp['scripts'])  # noqa: S307 - our own replay file
        obs = play(scripts, rp['stop_at'], 400.0, rp['bind_mode'], rp['min_delay_ms'], rp['max_increases'])
        print('replay:', {k: obs.get(k) for k in ('attempts', 'waits', 'done', 'state', 'start_returned_after', 'conns')})
        print('oracle:', oracle(obs, scripts, rp['bind_mode'], rp['min_delay_ms'], rp['max_increases'], 30.0, 10.0))
    elif rp.get('function') == 'stop_slow_unbind_hook':
        obs = stop_slow_unbind_hook(rp['variant'], rp['hook_time'])
        msg = oracle_stop_slow_unbind_hook(obs)
        print('replay:', obs)
        print('replay:', msg or 'property holds on this input')
        return 1 if msg else 0
    elif rp.get('function') == 'stop_on_closed_peer':
        obs = stop_on_closed_peer(rp['hook_time'], rp['stop_after'], rp['inbound'])
        msg = oracle_stop_on_closed_peer(obs)
        print('replay:', obs)
        print('replay:', msg or 'property holds on this input')
        return 1 if msg else 0
    else:
        print('replay:', json.dumps(rp)[:1500])
    return 0
