"""Independent SMPP 3.4 reference encoder/decoder written from the specification document (v3.4
issue 1.2, sections 3.2, 4.x, 5.3) and 3GPP TS 23.040 9.2.3.24 for the concatenation IEs.
Used only by oracles; shares no code with aiosmpplib."""
import struct

CMD = {
    'bind_receiver': 0x00000001, 'bind_receiver_resp': 0x80000001,
    'bind_transmitter': 0x00000002, 'bind_transmitter_resp': 0x80000002,
    'query_sm': 0x00000003, 'query_sm_resp': 0x80000003,
    'submit_sm': 0x00000004, 'submit_sm_resp': 0x80000004,
    'deliver_sm': 0x00000005, 'deliver_sm_resp': 0x80000005,
    'unbind': 0x00000006, 'unbind_resp': 0x80000006,
    'replace_sm': 0x00000007, 'replace_sm_resp': 0x80000007,
    'cancel_sm': 0x00000008, 'cancel_sm_resp': 0x80000008,
    'bind_transceiver': 0x00000009, 'bind_transceiver_resp': 0x80000009,
    'outbind': 0x0000000B,
    'enquire_link': 0x00000015, 'enquire_link_resp': 0x80000015,
    'submit_multi': 0x00000021, 'submit_multi_resp': 0x80000021,
    'alert_notification': 0x00000102,
    'data_sm': 0x00000103, 'data_sm_resp': 0x80000103,
    'generic_nack': 0x80000000,
}
CMD_NAME = {v: k for k, v in CMD.items()}

# SMPP 3.4 section 5.3.2: optional parameter tag -> (name, kind, size) ; kind: int / cstr / ostr / flag
TLV = {
    0x0005: ('dest_addr_subunit', 'int', 1), 0x0006: ('dest_network_type', 'int', 1),
    0x0007: ('dest_bearer_type', 'int', 1), 0x0008: ('dest_telematics_id', 'int', 2),
    0x000D: ('source_addr_subunit', 'int', 1), 0x000E: ('source_network_type', 'int', 1),
    0x000F: ('source_bearer_type', 'int', 1), 0x0010: ('source_telematics_id', 'int', 1),
    0x0017: ('qos_time_to_live', 'int', 4), 0x0019: ('payload_type', 'int', 1),
    0x001D: ('additional_status_info_text', 'cstr', None), 0x001E: ('receipted_message_id', 'cstr', None),
    0x0030: ('ms_msg_wait_facilities', 'int', 1), 0x0201: ('privacy_indicator', 'int', 1),
    0x0202: ('source_subaddress', 'ostr', None), 0x0203: ('dest_subaddress', 'ostr', None),
    0x0204: ('user_message_reference', 'int', 2), 0x0205: ('user_response_code', 'int', 1),
    0x020A: ('source_port', 'int', 2), 0x020B: ('destination_port', 'int', 2),
    0x020C: ('sar_msg_ref_num', 'int', 2), 0x020D: ('language_indicator', 'int', 1),
    0x020E: ('sar_total_segments', 'int', 1), 0x020F: ('sar_segment_seqnum', 'int', 1),
    0x0210: ('sc_interface_version', 'int', 1), 0x0302: ('callback_num_pres_ind', 'int', 1),
    0x0303: ('callback_num_atag', 'ostr', None), 0x0304: ('number_of_messages', 'int', 1),
    0x0381: ('callback_num', 'ostr', None), 0x0420: ('dpf_result', 'int', 1), 0x0421: ('set_dpf', 'int', 1),
    0x0422: ('ms_availability_status', 'int', 1), 0x0423: ('network_error_code', 'ostr', 3),
    0x0424: ('message_payload', 'ostr', None), 0x0425: ('delivery_failure_reason', 'int', 1),
    0x0426: ('more_messages_to_send', 'int', 1), 0x0427: ('message_state', 'int', 1),
    0x0501: ('ussd_service_op', 'ostr', 1), 0x1201: ('display_time', 'int', 1), 0x1203: ('sms_signal', 'int', 2),
    0x1204: ('ms_validity', 'int', 1), 0x130C: ('alert_on_message_delivery', 'flag', 0),
    0x1380: ('its_reply_type', 'int', 1), 0x1383: ('its_session_info', 'ostr', 2),
}


def header(cmd, status, seq, body=b''):
    return struct.pack('>IIII', 16 + len(body), cmd, status, seq) + body


def parse_header(pdu):
    ln, cmd, status, seq = struct.unpack('>IIII', pdu[:16])
    return ln, cmd, status, seq


def split_stream(data):
    """Independent framer: cut a byte stream into PDUs by command_length."""
    out = []
    i = 0
    while i + 16 <= len(data):
        ln = struct.unpack('>I', data[i:i + 4])[0]
        if ln < 16 or i + ln > len(data):
            break
        out.append(data[i:i + ln])
        i += ln
    return out, data[i:]


def cstr(b):
    return b + b'\x00'


def tlv(tag, value):
    return struct.pack('>HH', tag, len(value)) + value


def tlv_int(tag, v):
    size = TLV[tag][2]
    return tlv(tag, v.to_bytes(size, 'big'))


def encode_sm(cmd, seq, *, service_type=b'', src_ton=0, src_npi=0, src=b'', dst_ton=0, dst_npi=0, dst=b'',
              esm_class=0, protocol_id=0, priority_flag=0, schedule=b'', validity=b'', registered_delivery=0,
              replace_if_present=0, data_coding=0, sm_default_msg_id=0, short_message=b'', tlvs=b'', status=0):
    """submit_sm / deliver_sm body, SMPP 3.4 sections 4.4.1 / 4.6.1."""
    body = (cstr(service_type) + bytes([src_ton, src_npi]) + cstr(src) + bytes([dst_ton, dst_npi]) + cstr(dst)
            + bytes([esm_class, protocol_id, priority_flag]) + cstr(schedule) + cstr(validity)
            + bytes([registered_delivery, replace_if_present, data_coding, sm_default_msg_id, len(short_message)])
            + short_message + tlvs)
    return header(cmd, status, seq, body)


def _read_cstr(b, i):
    j = b.index(b'\x00', i)
    return b[i:j], j + 1


def decode_sm(pdu):
    """Parse a submit_sm / deliver_sm PDU into a dict of raw field values (bytes/ints) + TLV list."""
    ln, cmd, status, seq = parse_header(pdu)
    assert ln == len(pdu), 'command_length mismatch'
    i = 16
    f = {'command': cmd, 'status': status, 'seq': seq}
    f['service_type'], i = _read_cstr(pdu, i)
    f['src_ton'], f['src_npi'] = pdu[i], pdu[i + 1]
    f['src'], i = _read_cstr(pdu, i + 2)
    f['dst_ton'], f['dst_npi'] = pdu[i], pdu[i + 1]
    f['dst'], i = _read_cstr(pdu, i + 2)
    f['esm_class'], f['protocol_id'], f['priority_flag'] = pdu[i], pdu[i + 1], pdu[i + 2]
    f['schedule'], i = _read_cstr(pdu, i + 3)
    f['validity'], i = _read_cstr(pdu, i)
    f['registered_delivery'], f['replace_if_present'], f['data_coding'], f['sm_default_msg_id'], sm_len = pdu[i:i + 5]
    i += 5
    f['short_message'] = pdu[i:i + sm_len]
    i += sm_len
    tl = []
    while i < ln:
        tag, length = struct.unpack('>HH', pdu[i:i + 4])
        tl.append((tag, pdu[i + 4:i + 4 + length]))
        i += 4 + length
    assert i == ln, 'TLV area overruns command_length'
    f['tlvs'] = tl
    return f


def tlv_value(f, tag):
    for t, v in f['tlvs']:
        if t == tag:
            return v
    return None


def parse_udh(sm):
    """TS 23.040 9.2.3.24: returns (dict ie_id -> data, rest). Raises on malformed."""
    udhl = sm[0]
    hdr = sm[1:1 + udhl]
    assert len(hdr) == udhl, 'UDH longer than message'
    ies = {}
    i = 0
    while i < len(hdr):
        iei, iel = hdr[i], hdr[i + 1]
        ies[iei] = hdr[i + 2:i + 2 + iel]
        assert len(ies[iei]) == iel
        i += 2 + iel
    return ies, sm[1 + udhl:], 1 + udhl


def concat_info(f):
    """(ref, total, seq, text octets, header octets) from UDH or SAR TLVs; None if not segmented."""
    if f['esm_class'] & 0x40:
        ies, rest, hl = parse_udh(f['short_message'] or tlv_value(f, 0x0424) or b'')
        if 0x00 in ies:
            d = ies[0x00]
            assert len(d) == 3
            return d[0], d[1], d[2], rest, hl
        if 0x08 in ies:
            d = ies[0x08]
            assert len(d) == 4
            return (d[0] << 8) | d[1], d[2], d[3], rest, hl
        return None
    ref = tlv_value(f, 0x020C)
    tot = tlv_value(f, 0x020E)
    sq = tlv_value(f, 0x020F)
    if ref is None and tot is None and sq is None:
        return None
    assert ref is not None and tot is not None and sq is not None, 'incomplete SAR TLVs'
    assert len(ref) == 2 and len(tot) == 1 and len(sq) == 1
    return int.from_bytes(ref, 'big'), tot[0], sq[0], f['short_message'] or tlv_value(f, 0x0424) or b'', 0


# ---- 3GPP TS 23.038 default alphabet (independent copy for the oracles) ----
GSM_BASIC = ('@£$¥èéùìòÇ\nØø\rÅåΔ_ΦΓΛΩΠΨΣΘΞ\x1bÆæßÉ !"#¤%&\'()*+,-./0123456789:;<=>?'
             '¡ABCDEFGHIJKLMNOPQRSTUVWXYZÄÖÑÜ§¿abcdefghijklmnopqrstuvwxyzäöñüà')
GSM_EXT = {0x0A: '\x0c', 0x14: '^', 0x28: '{', 0x29: '}', 0x2F: '\\', 0x3C: '[', 0x3D: '~', 0x3E: ']', 0x40: '|', 0x65: '€'}


def gsm_decode(octets):
    out = []
    i = 0
    while i < len(octets):
        o = octets[i]
        if o == 0x1B:
            assert i + 1 < len(octets), 'segment ends with the GSM escape septet'
            assert octets[i + 1] in GSM_EXT, 'escape followed by a code outside the extension table'
            out.append(GSM_EXT[octets[i + 1]])
            i += 2
        else:
            assert o < 128, 'octet above 0x7F in GSM text'
            out.append(GSM_BASIC[o])
            i += 1
    return ''.join(out)


def gsm_septets(text):
    enc = {c: i for i, c in enumerate(GSM_BASIC) if i != 0x1B}
    ext = {c: k for k, c in GSM_EXT.items()}
    n = 0
    for ch in text:
        if ch in enc:
            n += 1
        elif ch in ext:
            n += 2
        else:
            return None
    return n


def decode_text(octets, data_coding):
    if data_coding == 0:
        return gsm_decode(octets)
    if data_coding == 8:
        assert len(octets) % 2 == 0, 'odd number of octets in UCS2 text'
        return bytes(octets).decode('utf-16-be', errors='strict')
    if data_coding == 1:
        return bytes(octets).decode('ascii')
    if data_coding == 3:
        return bytes(octets).decode('latin-1')
    raise AssertionError(f'data_coding {data_coding} not handled by the reference receiver')


# ---- reference encoders used by the C04 oracle (independent of aiosmpplib) ----
def gsm_encode(text):
    """one octet per septet (unpacked, as SMPP carries the default alphabet); None if a character is outside the alphabet"""
    enc = {c: i for i, c in enumerate(GSM_BASIC) if i != 0x1B}
    ext = {c: k for k, c in GSM_EXT.items()}
    out = bytearray()
    for ch in text:
        if ch in enc:
            out.append(enc[ch])
        elif ch in ext:
            out += bytes([0x1B, ext[ch]])
        else:
            return None
    return bytes(out)


DATA_CODING = {'gsm0338': 0, 'ascii': 1, 'latin_1': 3, 'ucs2': 8}


def text_encode(text, alphabet):
    """bytes of `text` in the named alphabet, or None when it cannot be represented"""
    try:
        if alphabet == 'gsm0338':
            return gsm_encode(text)
        if alphabet == 'ucs2':
            return text.encode('utf-16-be')
        if alphabet == 'ascii':
            return text.encode('ascii')
        if alphabet == 'latin_1':
            return text.encode('latin-1')
    except UnicodeError:
        return None
    raise AssertionError(alphabet)


def text_decode(octets, data_coding, default='gsm0338'):
    """what a conformant receiver configured with `default` for data_coding 0 reads"""
    name = {0: default, 1: 'ascii', 3: 'latin_1', 8: 'ucs2'}[data_coding]
    if name == 'gsm0338':
        return gsm_decode(octets)
    if name == 'ucs2':
        return bytes(octets).decode('utf-16-be')
    return bytes(octets).decode({'ascii': 'ascii', 'latin_1': 'latin-1'}[name])


def smpp_time(t):
    """SMPP 3.4 section 7.1: absolute 'YYMMDDhhmmsstnnp' / relative 'YYMMDDhhmmss000R' (a year = 365 days, a month = 30 days)"""
    from datetime import datetime
    if t is None:
        return b''
    if isinstance(t, datetime):
        off = t.utcoffset()
        secs = 0 if off is None else off.days * 86400 + off.seconds
        q, p = abs(secs) // 900, ('+' if secs >= 0 else '-')
        return ('%02d%02d%02d%02d%02d%02d%d%02d%s' % (t.year % 100, t.month, t.day, t.hour, t.minute, t.second,
                                                      t.microsecond // 100000, q, p)).encode()
    days, secs = t.days, t.seconds
    y, r = divmod(days, 365)
    mo, d = divmod(r, 30)
    return ('%02d%02d%02d%02d%02d%02d000R' % (y, mo, d, secs // 3600, secs % 3600 // 60, secs % 60)).encode()


def ref_tlv(tag, value):
    """TLV octets for an application-level value per the section 5.3.2 table; unknown tags are octet strings"""
    _name, kind, size = TLV.get(tag, ('vendor', 'ostr', None))
    if kind == 'int':
        return tlv(tag, int(value).to_bytes(size, 'big'))
    if kind == 'cstr':
        return tlv(tag, value.encode('ascii') + b'\x00')
    if kind == 'ostr':
        return tlv(tag, value.encode('latin_1'))        # an octet string: the application value is one character per octet
    return tlv(tag, b'') if value else b''


def udh8(ref, total, seq):
    return bytes([5, 0, 3, ref, total, seq])


def udh16(ref, total, seq):
    return bytes([6, 8, 4, ref >> 8, ref & 0xFF, total, seq])
