"""C20 - delivery-receipt text: proofs (Props/C20.v) + correspondence of Model/Receipt.v with
DeliverSm.parse_receipt / encode_receipt + direct round-trip oracle."""
from datetime import datetime

from lib import core
from lib.core import cz, czl
from harness import common

THEOREMS = ['C20_builder_shape', 'C20_roundtrip', 'C20_text_up_to_padding', 'C20_unknown_fields_kept', 'C20_non_receipt_empty', 'C20_dates', 'C20_nonvacuous']
IMPORTS = ['AV.Model.Base', 'AV.Model.TimeFmt', 'AV.Model.Receipt']

STATES = ['DELIVRD', 'EXPIRED', 'DELETED', 'UNDELIV', 'ACCEPTD', 'UNKNOWN', 'REJECTD', 'ENROUTE', 'weird', '']
NAMES = ['id', 'sub', 'dlvrd', 'submit date', 'done date', 'stat', 'err', 'text']


def ser_dict(d):
    out = []
    for k, v in d.items():
        out.append(len(k))
        out += [ord(c) for c in k]
        if isinstance(v, bool):
            raise TypeError('bool in receipt')
        if isinstance(v, int):
            out += [1, v]
        elif isinstance(v, str):
            out += [2, len(v)] + [ord(c) for c in v]
        elif isinstance(v, datetime):
            out += [3, v.year, v.month, v.day, v.hour, v.minute]
        else:
            raise TypeError(type(v))
    return out


def ascii_lower_ok(s):
    """Model's lower() is ASCII-only; keep inputs whose field names behave the same under str.lower()."""
    return all(ch.lower() == (chr(ord(ch) + 32) if 'A' <= ch <= 'Z' else ch) for ch in s)


def make_deliver(text, esm_class=4, tlv=None):
    from aiosmpplib.protocol import DeliverSm
    from aiosmpplib.state import PhoneNumber, OptionalParam, RECEIPTED_MESSAGE_ID
    ops = [OptionalParam(RECEIPTED_MESSAGE_ID, tlv)] if tlv is not None else []
    return DeliverSm(short_message=text or 'x', source=PhoneNumber('1'), destination=PhoneNumber('2'),
                     esm_class=esm_class, optional_params=ops) if text else None


def parse_impl(text, esm_class, tlv):
    from aiosmpplib.protocol import DeliverSm
    from aiosmpplib.state import PhoneNumber, OptionalParam, RECEIPTED_MESSAGE_ID
    ops = [OptionalParam(RECEIPTED_MESSAGE_ID, tlv)] if tlv is not None else []
    d = DeliverSm(short_message='placeholder', source=PhoneNumber('1'), destination=PhoneNumber('2'),
                  esm_class=esm_class, optional_params=ops)
    d.short_message = text            # the constructor rejects empty text; parse_receipt reads the attribute
    return d


def rand_date(rng):
    # dates carry seconds (and microseconds): the receipt format keeps them to the minute, truncated
    return datetime(rng.randint(1969, 2068), rng.randint(1, 12), rng.choice([1, 15, 28, 28]), rng.choice([0, 12, 23, 23]), rng.choice([0, 30, 59, 59]),
                    rng.choice([0, 0, 29, 30, 42, 59]), rng.choice([0, 0, 999999]))


def gen_receipts(ctx, n):
    rng = ctx.rng
    idchars = 'abcdefABCDEF0123456789-_./@'
    out = []
    texts = ['', 'hello', 'a b c', 'x:y', 'id:1 sub:2', 'Text:again', ':', ' lead', 'trail ', '12345678901234567890', 'longer than twenty characters: yes', 'üñí']
    for i in range(n):
        d = {
            'id': ''.join(rng.choice(idchars) for _ in range(rng.choice([0, 1, 8, 10, 20, 40]))) if rng.random() < 0.9 else '',
            'sub': rng.choice([0, 1, 9, 10, 99, 100, 999, rng.randint(0, 999)]),
            'dlvrd': rng.choice([0, 1, 999, rng.randint(0, 999)]),
            'submit date': rng.choice([datetime(1969, 1, 1, 0, 0), datetime(2068, 12, 31, 23, 59), datetime(2000, 2, 29, 9, 5), rand_date(rng)]),
            'done date': rand_date(rng),
            'stat': rng.choice(STATES),
            'err': rng.choice([0, 1, 7, 69, 255, 999, rng.randint(0, 999)]),
            'text': rng.choice(texts) if rng.random() < 0.7 else ''.join(rng.choice('ab :xyz0') for _ in range(rng.randint(0, 30))),
        }
        out.append(d)
    return out


def recase(rng, text):
    """Change the casing of the eight field names in a built receipt text (text field stays last)."""
    from aiosmpplib.protocol import DeliverSm  # noqa: F401
    mode = rng.choice(['asis', 'lower', 'upper', 'title', 'swap', 'random'])
    if mode == 'asis':
        return text
    cut = text.index(' Text:')
    head, tail = text[:cut], text[cut:]
    out = []
    for tok in (head + ' Text:').split(':'):
        out.append(tok)
    # recase only the name part of each "value name" token
    res = []
    parts = (head + ' Text').split(':')
    for j, p in enumerate(parts):
        if j == 0:
            name, pre = p, ''
        else:
            sp = p.find(' ')
            pre, name = p[:sp + 1], p[sp + 1:]
        if mode == 'lower':
            name = name.lower()
        elif mode == 'upper':
            name = name.upper()
        elif mode == 'title':
            name = name.title()
        elif mode == 'swap':
            name = name.swapcase()
        else:
            name = ''.join(c.upper() if rng.random() < 0.5 else c.lower() for c in name)
        res.append(pre + name)
    return ':'.join(res) + tail[len(' Text'):]


def oracle(DeliverSm, d, text, tlv, parsed, extra=None):
    """parse(text built from d) == d (text up to trailing spaces; id from TLV when empty)."""
    want = dict(d)
    for k in ('submit date', 'done date'):
        if isinstance(want.get(k), datetime):
            want[k] = want[k].replace(second=0, microsecond=0)      # 'to the minute'
    if not want['id'] and tlv is not None:
        want['id'] = tlv
    got = dict(parsed)
    if got.get('text', '').rstrip(' ') != want['text'].rstrip(' '):
        return f'text field {got.get("text")!r} != {want["text"]!r}'
    got.pop('text', None)
    want.pop('text')
    if extra:
        for k, v in extra.items():
            if got.pop(k.lower(), None) != v:
                return f'extra field {k} not kept as string'
    if got != want:
        return f'parsed {got!r} != built-from {want!r}'
    return None


def run(ctx):
    ctx.rule = ('structured receipt dictionaries (ids over SMSC characters incl. empty, counts/err 0..999 with boundaries, dates 1969-2068, seven standard '
                'states + others, texts with spaces/colons/empty/long) built with encode_receipt, re-cased field names, optional receipted_message_id '
                'TLV, extra key:value tokens; non-receipt esm_class values; plus a malformed stream for model fidelity; distinct by (text, esm, tlv)')
    ctx.trusted_base = ['Coq 8.16.1 kernel; no axioms', 'correspondence harness harness/C20.py',
                        'CPython str.find/lower/int/strptime/format semantics as modelled in Model/Receipt.v (ASCII field names)']
    ctx.assumptions = ['field names are ASCII (str.lower modelled on ASCII letters only)']
    proved = ctx.prove('C20', THEOREMS)
    from aiosmpplib.protocol import DeliverSm
    rng = ctx.rng
    cases = []
    enc_cases = []
    n = 3000 if ctx.thorough else 500
    for d in gen_receipts(ctx, n):
        text = DeliverSm.encode_receipt(d)
        enc_cases.append((d, text))
        text2 = recase(rng, text)
        tlv = rng.choice([None, 'TLVID42', '']) if rng.random() < 0.5 else None
        extra = None
        if rng.random() < 0.2:
            extra = {'Foo': 'bar', 'x-Y': '12'}
            cut = text2.lower().index(' text:')
            text2 = text2[:cut] + ' Foo:bar x-Y:12' + text2[cut:]
        m = parse_impl(text2, rng.choice([4, 4, 4, 0x44, 0xC4 - 256 if False else 4]), tlv)
        try:
            parsed = m.parse_receipt()
            again = m.parse_receipt()
            r = [0] + ser_dict(parsed)
        except Exception as e:  # noqa: BLE001
            parsed = None
            r = [1, common.exn_index(e)]
        ctx.case(('rt', text2, tlv))
        cases.append((f'({m.esm_class}, {core.cstr(text2)}, {core.copt(tlv, core.cstr)})', czl(r)))
        if parsed is None:
            ctx.violation(f'parse_receipt raised on a built receipt {text2!r}', {'function': 'roundtrip', 'dict': repr(d), 'text': text2, 'tlv': tlv})
            continue
        if again is not parsed and again != parsed:
            ctx.violation('second parse_receipt() call returned a different dictionary', {'function': 'roundtrip', 'text': text2})
        msg = oracle(DeliverSm, d, text2, tlv, parsed, extra)
        if msg:
            ctx.violation(msg, {'function': 'roundtrip', 'dict': repr(d), 'text': text2, 'tlv': tlv})
    ctx.count('built_receipts', n)
    # non-receipts parse to {}
    for esm in [0, 1, 2, 3, 8, 0x40, 0x3C, 0x20, 0x10, 5, 6, 7, 0x84 - 256, -4, 255, -255, 0x44]:
        m = parse_impl('id:1 sub:001 dlvrd:001 submit date:2401010000 done date:2401010000 stat:DELIVRD err:000 Text:x', esm, None)
        try:
            parsed = m.parse_receipt()
            r = [0] + ser_dict(parsed)
        except Exception as e:  # noqa: BLE001
            r = [1, common.exn_index(e)]
        cases.append((f'({cz(esm)}, {core.cstr(m.short_message)}, None)', czl(r)))
        ctx.case(('esm', esm))
        is_r = ((esm & 0b00111100) >> 2) == 1
        if not is_r and r != [0]:
            ctx.violation(f'esm_class {esm} is not a receipt but parse_receipt returned {r}', {'function': 'nonreceipt', 'esm_class': esm})
    # malformed stream (model fidelity incl. exception classes)
    base = 'id:abc sub:001 dlvrd:001 submit date:2401011234 done date:2401011235 stat:DELIVRD err:000 Text:hello world'
    alphabet = 'abcdeTX :0123456789-+_\t'
    nm = 3000 if ctx.thorough else 500
    for _ in range(nm):
        t = list(base) if rng.random() < 0.8 else [rng.choice(alphabet) for _ in range(rng.randint(0, 40))]
        for _k in range(rng.randint(1, 4)):
            if not t:
                break
            i = rng.randrange(len(t))
            op = rng.random()
            if op < 0.5:
                t[i] = rng.choice(alphabet)
            elif op < 0.75:
                del t[i]
            else:
                t.insert(i, rng.choice(alphabet))
        s = ''.join(t)
        tlv = rng.choice([None, None, 'T1'])
        m = parse_impl(s, 4, tlv)
        try:
            r = [0] + ser_dict(m.parse_receipt())
        except Exception as e:  # noqa: BLE001
            r = [1, common.exn_index(e)]
        # parsing is a function of the text: a second call on the same object gives the same result - in particular a text that is
        # refused is refused again, and does not turn into a truncated dictionary
        try:
            r2 = [0] + ser_dict(m.parse_receipt())
        except Exception as e:  # noqa: BLE001
            r2 = [1, common.exn_index(e)]
        if r2 != r:
            ctx.violation(f'parse_receipt() called twice on the same DeliverSm (text {s!r}): first {"raised" if r[0] else "returned a dictionary"}, '
                          f'then {"raised" if r2[0] else "returned " + repr(m.parse_receipt())}', {'function': 'parse_twice', 'text': s, 'tlv': tlv})
        cases.append((f'(4, {core.cstr(s)}, {core.copt(tlv, core.cstr)})', czl(r)))
        ctx.case(('mal', s, tlv), nontrivial=len(s) > 0)
    # date strings through strptime directly (field-width ambiguity)
    for s in ['2401011234', '240101123', '24111234', '2411234', '241234', '24123', '2412', '24 11234', '2402301234', '2402291234',
              '2302291234', '6901010000', '6812312359', '0000000000', '2413011234', '2401321234', '2401012400', '2401011260',
              '24010112345', '240101 234', '24010a1234']:
        m = parse_impl(f'id:1 submit date:{s} Text:x', 4, None)
        try:
            r = [0] + ser_dict(m.parse_receipt())
        except Exception as e:  # noqa: BLE001
            r = [1, common.exn_index(e)]
        try:
            r2 = [0] + ser_dict(m.parse_receipt())
        except Exception as e:  # noqa: BLE001
            r2 = [1, common.exn_index(e)]
        if r2 != r:
            ctx.violation(f'parse_receipt() called twice on a DeliverSm whose submit date is {s!r}: first {"raised" if r[0] else "returned"}, then '
                          f'{"raised" if r2[0] else "returned " + repr(m.parse_receipt())}', {'function': 'parse_twice', 'text': m.short_message, 'tlv': None})
        cases.append((f'(4, {core.cstr(m.short_message)}, None)', czl(r)))
        ctx.case(('date', s))
    ctx.count('malformed_texts', nm)
    # encode_receipt model
    ecases = []
    for d, text in enc_cases[:1500]:
        sd, dd = d['submit date'], d['done date']
        rec = (f'{{| r_id := {core.cstr(d["id"])}; r_sub := {d["sub"]}; r_dlvrd := {d["dlvrd"]}; '
               f'r_sdate := Some ({sd.year}, {sd.month}, {sd.day}, {sd.hour}, {sd.minute}); '
               f'r_ddate := Some ({dd.year}, {dd.month}, {dd.day}, {dd.hour}, {dd.minute}); '
               f'r_stat := {core.cstr(d["stat"])}; r_err := {d["err"]}; r_text := {core.cstr(d["text"])} |}}')
        ecases.append((rec, core.cstr(text)))
    ctx.sample({'dict': repr(enc_cases[0][0]), 'text': enc_cases[0][1]})
    if proved or not getattr(ctx, 'build_failing', None):
        for name, fn, cs in (
            ('parse', 'fun p : Z * list Z * option (list Z) => ser_res_rdict (parse_receipt (fst (fst p)) (snd (fst p)) (snd p))', cases),
            ('encode', 'fun r : receipt => encode_receipt r', ecases),
        ):
            bad, errs = core.run_cases('C20', name, IMPORTS, fn, cs, shard=500)
            for fnm, out in errs:
                ctx.broken.append(f'model evaluation failed ({fnm}): {out[-600:]}')
            for i in bad[:5]:
                inp, exp = cs[i]
                ctx.violation(f'model and implementation disagree on {name}', {
                    'correspondence': f'Model/Receipt.v vs protocol.py ({name})', 'input_term': inp[:2000],
                    'implementation_result': exp[:2000]}, found_input=False)
            ctx.extra[f'correspondence_{name}_cases'] = len(cs)
            ctx.extra[f'correspondence_{name}_disagreements'] = len(bad)
    return ctx.finish()


def replay(ctx, path):
    import json
    with open(path) as f:
        r = json.load(f)
    print('replay: re-run ./check C20 with VERIF_SEED=%s; input: %s' % (r.get('seed'), r.get('text')))
    return 0
