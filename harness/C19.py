"""C19 - persistence: proofs (Props/C19.v) + the real SimpleCorrelator on a real directory:
  (a) restart after every prefix of a history: a new instance on the same directory holds the same five stores,
  (b) a crash injected at every I/O primitive (and torn writes) of the saves of an operation: every file loads as the state
      before or after its write,
  (c) correspondence with Model/Persist.v: the I/O primitives of _save, the dictionary-level trace of every call
      (validated with trace_ok/run_prims in Coq), the JSON trees of the files and the revived stores."""
import asyncio
import dataclasses
import json
import os
import shutil
import tempfile

from lib import core
from lib.core import cz, czl
from harness import common
from harness import C12 as J

THEOREMS = ['C19_crash_atomic', 'C19_save_result', 'C19_inplace_protocol_refuted', 'C19_write_through', 'C19_write_through_stateful', 'C19_restart', 'C19_nonvacuous']
IMPORTS = ['AV.Model.Base', 'AV.Model.TimeFmt', 'AV.Model.Pdu', 'AV.Model.Json', 'AV.Model.Persist']
PRE = J.PRE
STORES = ['_store', '_segment_store', '_segment_status_store', '_delivery_store', '_delivery_segment_store']


class Crash(BaseException):
    """simulated process death at an I/O primitive"""


class Clock:
    def __init__(self):
        self.now = 1000.0

    def monotonic(self):
        return self.now


class Hook:
    def __init__(self):
        self.errors = []

    async def send_error(self, msg, err, cid):
        self.errors.append(getattr(msg, 'log_id', ''))


# ---- I/O interposition (no source hooks: names looked up in the correlator module are replaced) ------------
class IO:
    """records the I/O primitives of _save and crashes at primitive number crash_at (write: after `torn` characters)"""
    def __init__(self):
        self.trace = []
        self.crash_at = None
        self.torn = None
        self.count = 0

    def tick(self, what):
        self.trace.append(what)
        self.count += 1
        return self.crash_at is not None and self.count == self.crash_at

    def open(self, name, mode='r', *a, **k):
        if 'w' not in mode:
            return open(name, mode, *a, **k)
        base = os.path.basename(name)
        if self.tick(('open_w', base)):
            raise Crash()
        return _File(open(name, mode, *a, **k), self, base)

    def replace(self, src, dst):
        if self.tick(('replace', os.path.basename(src), os.path.basename(dst))):
            raise Crash()
        os.replace(src, dst)


class _File:
    """a buffered text file: what write() is given reaches the file system when the file is closed (or, at a crash inside write(), a
    prefix of it does: a torn write). A crash is the death of the process: the buffer is lost, nothing is flushed on the way out."""
    def __init__(self, f, io, base):
        self.f, self.io, self.base = f, io, base
        self.buf = []

    def write(self, data):
        if self.io.tick(('write', self.base, len(data))):
            n = self.io.torn if self.io.torn is not None else 0
            self.f.write(''.join(self.buf) + data[:n])
            self.f.flush()
            self.buf = []
            raise Crash()
        self.buf.append(data)
        return len(data)

    def flush(self):
        self.f.write(''.join(self.buf))
        self.buf = []
        self.f.flush()

    def __enter__(self):
        return self

    def __exit__(self, *exc):
        if exc[0] is None and self.io.tick(('close', self.base)):
            self.buf = []                     # the process dies before the buffer is written
            self.f.close()
            raise Crash()
        if exc[0] is not None and issubclass(exc[0], Crash):
            self.buf = []                     # a crash inside the with block: nothing more is written
            self.f.close()
            return False
        self.f.write(''.join(self.buf))
        self.buf = []
        self.f.close()
        return False


class OsProxy:
    def __init__(self, io):
        self._io = io

    def __getattr__(self, name):
        if name == 'replace':
            return self._io.replace
        return getattr(os, name)


def install(cm, io, clock):
    cm.open = io.open
    cm.os = OsProxy(io)
    cm.time = clock


def uninstall(cm):
    import time
    if 'open' in cm.__dict__:
        del cm.open
    cm.os = os
    cm.time = time


def make_corr(cm, directory, clock, ttl=(15.0, 100.0)):
    c = cm.SimpleCorrelator('c', directory, max_ttl_response=ttl[0], max_ttl_delivery=ttl[1])
    c.hook = Hook()
    c.client_id = 'x'
    return c


# ---- canonical forms -----------------------------------------------------------------------------------------
def canon(v):
    """structure of a stored value, tuples and lists alike, messages by class + public fields"""
    from aiosmpplib.protocol import SmppMessage
    from aiosmpplib.correlator import SegmentStatus
    if isinstance(v, SmppMessage):
        return ('msg', type(v).__name__, tuple((n, canon(x)) for n, x in J.fields_of(v)))
    if isinstance(v, SegmentStatus):
        return ('seg', canon(v.status), canon(v.orig_submit_sm), canon(v.last_response), canon(v.last_receipt))
    if dataclasses.is_dataclass(v):
        return ('dc', type(v).__name__, tuple((f.name, canon(getattr(v, f.name))) for f in dataclasses.fields(v)))
    if isinstance(v, (list, tuple)):
        return ('seq',) + tuple(canon(x) for x in v)
    if isinstance(v, dict):
        return ('dict',) + tuple((k, canon(x)) for k, x in v.items())
    if isinstance(v, float):
        return ('f', repr(v))
    return ('v', type(v).__name__ if not isinstance(v, int) else 'int', v if not isinstance(v, int) else int(v))


def stores_of(c):
    return {name: canon(getattr(c, name)._data) for name in STORES}


def stamp(x):
    return int(round(x * 1000000))


# ---- live store -> model terms -----------------------------------------------------------------------------
def sval_term(name, v):
    from aiosmpplib.correlator import SegmentStatus
    if isinstance(v, SegmentStatus):
        st = '; '.join(f'("{k}", {cz(int(x))})' for k, x in v.status.items())
        opt = lambda m: 'None' if m is None else f'(Some {J.message_term(m)})'
        return f'(SSegStat [{st}] {J.message_term(v.orig_submit_sm)} {opt(v.last_response)} {opt(v.last_receipt)})'
    if name == '_segment_store':
        return f'(SPair {core.cstr(str(v[0]))} {cz(int(v[1]))})'
    if name == '_delivery_segment_store':
        segs = '; '.join(f'("{k}", {core.cstr(t)})' for k, t in v[1].items())
        return f'(SSegText {stamp(v[0])} [{segs}])'
    return f'(SStamped {stamp(v[0])} {J.message_term(v[1])})'


def sval_ser(name, v):
    from aiosmpplib.correlator import SegmentStatus
    key = lambda k: [len(k)] + J.codes(k)
    if isinstance(v, SegmentStatus):
        out = [3, len(v.status)]
        for k, x in v.status.items():
            out += key(k) + [int(x)]
        out += J.message_ser(v.orig_submit_sm)
        for m in (v.last_response, v.last_receipt):
            out += [0] if m is None else [1] + J.message_ser(m)
        return out
    if name == '_segment_store':
        return [2, len(str(v[0]))] + J.codes(str(v[0])) + [int(v[1])]
    if name == '_delivery_segment_store':
        out = [4, stamp(v[0]), len(v[1])]
        for k, t in v[1].items():
            out += key(k) + [len(t)] + J.codes(t)
        return out
    return [1, stamp(v[0])] + J.message_ser(v[1])


def store_term(name, data):
    return '[' + '; '.join(f'("{k}", {sval_term(name, v)})' for k, v in data.items()) + ']'


def store_ser(name, data):
    out = [len(data)]
    for k, v in data.items():
        out += [len(k)] + J.codes(k) + sval_ser(name, v)
    return out


def doc_term(v, key=None, depth=0):
    """parsed file content -> json term; floats are the monotonic stamps"""
    if isinstance(v, float) and key not in J.TIME_KEYS:
        return f'(JReal {stamp(v)})'
    if isinstance(v, list):
        return f'(JArr [{"; ".join(doc_term(x) for x in v)}])'
    if isinstance(v, dict):
        return '(JObj [' + '; '.join(f'("{k}", {doc_term(x, k)})' for k, x in v.items()) + '])'
    return J.json_term(v, key)


def doc_ser(v, key=None):
    if isinstance(v, float) and key not in J.TIME_KEYS:
        return [8, stamp(v)]
    if isinstance(v, list):
        out = [6, len(v)]
        for x in v:
            out += doc_ser(x)
        return out
    if isinstance(v, dict):
        out = [7, len(v)]
        for k, x in v.items():
            out += [len(k)] + J.codes(k) + doc_ser(x, k)
        return out
    return J.json_ser(v, key)


# ---- histories -----------------------------------------------------------------------------------------------
def gen_history(rng, n_ops):
    """operations over a few plain and segmented messages; ids/sequence numbers unique"""
    ops = []
    seq = [10]
    live_seq, live_ids, seg_groups = [], [], []

    def nseq():
        seq[0] += 1
        return seq[0]
    for _ in range(n_ops):
        acts = ['put', 'put', 'seg', 'pds', 'advance']
        if live_seq:
            acts += ['get'] * 4
        if live_ids:
            acts += ['get_delivery'] * 3
        if seg_groups:
            acts += ['get_segmented']
        a = rng.choice(acts)
        if a == 'put':
            s = nseq()
            ops.append(('put', 'plain', s, f'L{s}', rng.choice(['', 'x', 'данные', 'half-emoji \ud83d', 'zażółć'])))
            live_seq.append(s)
        elif a == 'seg':
            total = rng.choice([2, 3])
            ref = rng.randint(1, 200)
            seqs = [nseq() for _ in range(total)]
            for i, s in enumerate(seqs):
                ops.append(('put', 'seg', s, f'G{ref}', 'e', ref, total, i + 1))
                live_seq.append(s)
            seg_groups.append(seqs)
        elif a == 'get':
            s = rng.choice(live_seq)
            live_seq.remove(s)
            ops.append(('get', s, rng.choice(['ok', 'ok', 'ok', 'fail', 'nack']), f'm{s}'))
            if ops[-1][2] == 'ok':
                ops.append(('put_delivery', f'm{s}', s))
                live_ids.append(f'm{s}')
        elif a == 'get_delivery':
            mid = rng.choice(live_ids + ['unknown'])
            if mid in live_ids and rng.random() < 0.8:
                live_ids.remove(mid)
            ops.append(('get_delivery', mid, rng.choice([0, 0, 5])))
        elif a == 'pds':
            total = rng.choice([2, 3])
            ref = rng.randint(1, 50)
            order = list(range(1, total + 1))
            rng.shuffle(order)
            for i in order[:rng.randint(1, total)]:
                ops.append(('put_delivery_segmented', ref, total, i, f'part{i}-'))
        elif a == 'get_segmented':
            ops.append(('get_segmented', rng.choice([s for g in seg_groups for s in g]), rng.random() < 0.5))
        else:
            ops.append(('advance', rng.choice([1.0, 20.0, 150.0])))
    return ops


def make_submit(op):
    from aiosmpplib.protocol import SubmitSm
    from aiosmpplib.state import PhoneNumber, TON, NPI, OptionalParam, SAR_MSG_REF_NUM, SAR_TOTAL_SEGMENTS, SAR_SEGMENT_SEQNUM
    src = PhoneNumber('385991', TON.INTERNATIONAL, NPI.ISDN)
    if op[1] == 'plain':
        return SubmitSm(short_message='hello', source=src, destination=src, sequence_num=op[2], log_id=op[3], extra_data=op[4])
    return SubmitSm(short_message=f'seg{op[7]}', source=src, destination=src, sequence_num=op[2], log_id=op[3], extra_data=op[4],
                    optional_params=[OptionalParam(SAR_MSG_REF_NUM, op[5]), OptionalParam(SAR_TOTAL_SEGMENTS, op[6]), OptionalParam(SAR_SEGMENT_SEQNUM, op[7])])


async def apply_op(c, clock, op, submitted):
    from aiosmpplib.protocol import SubmitSmResp, GenericNack, DeliverSm
    from aiosmpplib.state import PhoneNumber, TON, NPI, SmppCommandStatus, OptionalParam, SAR_MSG_REF_NUM, SAR_TOTAL_SEGMENTS, SAR_SEGMENT_SEQNUM
    src = PhoneNumber('385991', TON.INTERNATIONAL, NPI.ISDN)
    kind = op[0]
    if kind == 'put':
        m = make_submit(op)
        submitted[op[2]] = m
        await c.put(m)
    elif kind == 'get':
        if op[2] == 'nack':
            r = GenericNack(sequence_num=op[1], command_status=SmppCommandStatus.ESME_RINVCMDID)
        else:
            r = SubmitSmResp(sequence_num=op[1], message_id=op[3],
                             command_status=SmppCommandStatus.ESME_ROK if op[2] == 'ok' else SmppCommandStatus.ESME_RTHROTTLED)
        return await c.get(r)
    elif kind == 'put_delivery':
        m = submitted.get(op[2]) or make_submit(('put', 'plain', op[2], 'late', ''))
        await c.put_delivery(op[1], m)
    elif kind == 'get_delivery':
        text = f'id:{op[1]} sub:001 dlvrd:001 submit date:2401010000 done date:2401010001 stat:{"DELIVRD" if op[2] == 0 else "UNDELIV"} err:{op[2]:03d} text:x'
        return await c.get_delivery(DeliverSm(short_message=text, source=src, destination=src, esm_class=0x04, sequence_num=900))
    elif kind == 'put_delivery_segmented':
        d = DeliverSm(short_message=op[4], source=src, destination=src, sequence_num=901,
                      optional_params=[OptionalParam(SAR_MSG_REF_NUM, op[1]), OptionalParam(SAR_TOTAL_SEGMENTS, op[2]), OptionalParam(SAR_SEGMENT_SEQNUM, op[3])])
        return await c.put_delivery_segmented(d)
    elif kind == 'get_segmented':
        return await c.get_segmented(op[1], op[2])
    elif kind == 'advance':
        clock.now += op[1]
        await c._remove_expired()
    return None


# ---- dictionary-level traces ---------------------------------------------------------------------------------
class Tracer:
    """wraps the PersistingDict methods of one correlator; in-place updates are found by comparing snapshots"""
    def __init__(self, cm, corr):
        self.cm, self.corr = cm, corr
        self.events = {n: [] for n in STORES}
        self.snap = {n: self._snapshot(n) for n in STORES}
        self.ids = {}
        self.names = {id(getattr(corr, n)): n for n in STORES}

    def _snapshot(self, n):
        return {k: canon(v) for k, v in getattr(self.corr, n)._data.items()}

    def vid(self, cv):
        return self.ids.setdefault(cv, len(self.ids) + 1)

    def kid(self, k):
        return self.ids.setdefault(('key', k), len(self.ids) + 1)

    def sync(self, n):
        """emit PMutate for every value that changed since the last event without a primitive"""
        new = self._snapshot(n)
        for k, cv in new.items():
            if k in self.snap[n] and self.snap[n][k] != cv:
                self.events[n].append(f'(PMutate {self.kid(k)} {self.vid(cv)})')
        self.snap[n] = new

    def install(self):
        pd = self.cm.PersistingDict
        tr = self
        self.orig = (pd.__setitem__, pd.__delitem__, pd.pop)

        def setitem(d, key, value):
            n = tr.names.get(id(d))
            if n:
                tr.sync(n)
            tr.orig[0](d, key, value)
            if n:
                tr.snap[n] = tr._snapshot(n)
                tr.events[n].append(f'(PSet {tr.kid(key)} {tr.vid(canon(value))})')

        def delitem(d, key):
            n = tr.names.get(id(d))
            if n:
                tr.sync(n)
                tr.events[n].append(f'(PDel {tr.kid(key)})')
            try:
                tr.orig[1](d, key)
            finally:
                if n:
                    tr.snap[n] = tr._snapshot(n)

        def pop(d, key, *a):
            n = tr.names.get(id(d))
            if n:
                tr.sync(n)
                tr.events[n].append(f'(PPop {tr.kid(key)})')
            try:
                return tr.orig[2](d, key, *a)
            finally:
                if n:
                    tr.snap[n] = tr._snapshot(n)
        pd.__setitem__, pd.__delitem__, pd.pop = setitem, delitem, pop

    def uninstall(self):
        pd = self.cm.PersistingDict
        pd.__setitem__, pd.__delitem__, pd.pop = self.orig

    def finish_call(self):
        for n in STORES:
            self.sync(n)

    def state_term(self, data_by_key):
        return '[' + '; '.join(f'({self.kid(k)}, {self.vid(cv)})' for k, cv in data_by_key.items()) + ']'


def file_docs(directory):
    out = {}
    for n in STORES:
        p = os.path.join(directory, 'c' + n + '.json')
        try:
            with open(p, 'rb') as f:
                out[n] = json.loads(f.read())
        except FileNotFoundError:
            out[n] = None
        except ValueError:
            out[n] = 'unreadable'
    return out


def run(ctx):
    ctx.rule = ('histories of put (plain and segmented) / get (ok, failed, generic_nack) / put_delivery / get_delivery (known, unknown, failed receipts) / '
                'put_delivery_segmented / get_segmented / clock advances with expiry on a real directory; restart after EVERY prefix; crash at EVERY I/O '
                'primitive of every save of sampled operations plus torn writes at 0, 1, half and all-but-one characters; non-trivial = store with an entry')
    ctx.trusted_base = ['Coq 8.16.1 kernel; no axioms', 'the operating system: os.replace is atomic, a file opened for writing under another name does not touch the target',
                        'JSON text layer (json/orjson)', 'harness/C19.py: simulated crash = exception raised at an I/O primitive after which the directory is re-read']
    ctx.assumptions = ['crash = process death (no power-loss reordering of rename and data blocks: _save does not fsync)',
                       'delivery correlations are looked for within max_ttl_delivery of their recording']
    proved = ctx.prove('C19', THEOREMS)
    import aiosmpplib.correlator as cm
    rng = ctx.rng
    n_hist = 40 if ctx.thorough else 8
    trace_cases, json_cases, load_cases, io_bad = [], [], [], 0
    base = tempfile.mkdtemp(prefix='c19_')
    try:
        for h in range(n_hist):
            ops = gen_history(rng, rng.randint(8, 16))
            d = os.path.join(base, f'h{h}')
            os.makedirs(d)
            clock, io = Clock(), IO()
            install(cm, io, clock)
            try:
                c = make_corr(cm, d, clock)
                tracer = Tracer(cm, c)
                tracer.install()
                submitted = {}
                loop = asyncio.new_event_loop()
                try:
                    for oi, op in enumerate(ops):
                        ctx.count('op_' + op[0])
                        before_data = {n: dict(tracer.snap[n]) for n in STORES}
                        for n in STORES:
                            tracer.events[n] = []
                        io.trace = []
                        # ---- (b) crash injection on a copy of the directory, for a sample of operations
                        if rng.random() < (0.6 if ctx.thorough else 0.35):
                            io_bad += crash_points(ctx, cm, d, base, clock, op, submitted, ops[:oi], rng)
                            install(cm, io, clock)
                        try:
                            loop.run_until_complete(apply_op(c, clock, op, submitted))
                        except Exception as e:  # noqa: BLE001
                            ctx.violation(f'{op[0]} on a correlator with a persistence directory raised {type(e).__name__}: {str(e)[:160]} - the operation is not recorded',
                                          {'history': repr(ops[:oi + 1])[:1500]})
                            break
                        tracer.finish_call()
                        # ---- (c1) the save protocol: open tmp, write, close, rename - per file
                        saves = [e for e in io.trace]
                        i = 0
                        while i < len(saves):
                            grp = saves[i:i + 4]
                            okp = (len(grp) == 4 and grp[0][0] == 'open_w' and grp[0][1].endswith('.json.tmp') and grp[1][0] == 'write'
                                   and grp[2][0] == 'close' and grp[3][0] == 'replace' and grp[3][1] == grp[0][1] and grp[3][2] == grp[0][1][:-4])
                            if not okp:
                                ctx.violation(f'_save does not follow the protocol open(tmp)/write/close/replace(tmp, file): {grp}',
                                              {'correspondence': 'Model/Persist.v save_ops vs PersistingDict._save', 'io_trace': repr(saves)[:900]}, found_input=False)
                                break
                            i += 4
                        ctx.count('saves', len(saves) // 4)
                        # ---- (c2) dictionary-level trace of the call, per store: validated and replayed in Coq
                        docs = file_docs(d)
                        for n in STORES:
                            evs = tracer.events[n]
                            live = tracer.snap[n]
                            if not evs and before_data[n] == live:
                                continue
                            term = f'({tracer.state_term(before_data[n])}, [{"; ".join(evs)}])'
                            exp = [1] + [x for k, cv in live.items() for x in (tracer.kid(k), tracer.vid(cv))]
                            trace_cases.append((term, czl(exp)))
                            ctx.case(('trace', n, tuple(evs)), nontrivial=bool(evs))
                        # ---- (a) restart after this prefix: a new instance holds the same stores
                        fresh = make_corr(cm, d, clock)
                        a, b = stores_of(c), stores_of(fresh)
                        for n in STORES:
                            if a[n] != b[n]:
                                lost = [k for k in dict(a[n][1:]) if k not in dict(b[n][1:])]
                                ctx.violation(f'restart after operation {oi} ({op[0]}): {n} of a new instance on the same directory differs from the '
                                              f'running one (missing keys {lost[:4]}, {len(b[n]) - 1} of {len(a[n]) - 1} entries)' if lost or len(a[n]) != len(b[n]) else
                                              f'restart after operation {oi} ({op[0]}): an entry of {n} is restored with different content',
                                              {'history': repr(ops[:oi + 1])[:1500], 'store': n, 'live': repr(a[n])[:600], 'reloaded': repr(b[n])[:600]})
                                break
                        for mid, item in c._delivery_store._data.items():
                            got = fresh._delivery_store._data.get(mid)
                            if got is None or (got[1].log_id, got[1].extra_data) != (item[1].log_id, item[1].extra_data):
                                ctx.violation(f'delivery correlation {mid} is not found again with its log_id/extra_data after a restart',
                                              {'history': repr(ops[:oi + 1])[:1500]})
                        ctx.case(('restart', h, oi), nontrivial=any(len(v) > 1 for v in a.values()))
                        # ---- (a') restart after a reboot (the monotonic clock starts again from a small value): every recorded delivery
                        #      correlation is found by get_delivery of a new instance, with its log_id and extra_data
                        if c._delivery_store._data and rng.random() < 0.5:
                            rb = os.path.join(base, 'reboot')
                            shutil.rmtree(rb, ignore_errors=True)
                            shutil.copytree(d, rb)
                            ck = Clock()
                            ck.now = rng.choice([0.5, 3.0, clock.now + 50.0])
                            install(cm, IO(), ck)
                            tracer.uninstall()
                            try:
                                nc = make_corr(cm, rb, ck)
                                for mid, item in list(c._delivery_store._data.items()):
                                    if ck.now - item[0] > 100.0:
                                        continue
                                    got = loop.run_until_complete(apply_op(nc, ck, ('get_delivery', mid, 0), {}))
                                    ctx.count('reboot_get_delivery')
                                    if got is None or (got.log_id, got.extra_data) != (item[1].log_id, item[1].extra_data):
                                        ctx.violation(f'delivery correlation {mid} recorded before a restart is not returned by get_delivery of a new instance '
                                                      f'(clock of the new process {ck.now}, stored at {item[0]}): got {got!r:.120}',
                                                      {'history': repr(ops[:oi + 1])[:1500], 'new_clock': ck.now})
                                        break
                            finally:
                                tracer.install()
                                install(cm, io, clock)
                                shutil.rmtree(rb, ignore_errors=True)
                        # ---- (c3) file trees and revival against the model
                        for n in STORES:
                            data = getattr(c, n)._data
                            if docs[n] is None or not data and rng.random() < 0.7:
                                continue
                            json_cases.append((store_term(n, data), czl([0] + doc_ser(docs[n]))))
                            load_cases.append((f'(Some {doc_term(docs[n])})', czl(store_ser(n, getattr(fresh, n)._data))))
                finally:
                    loop.close()
                    tracer.uninstall()
            finally:
                uninstall(cm)
        # a damaged file: the store starts empty (model: load_store of a non-object / unrevivable document)
        for bad_doc, txt in (('None', None), ('(Some (JObj [("k", JArr [JReal 1; JObj [("__smpp_command__", JStr [88])]])]))',
                                                                        '{"k": [1.0, {"__smpp_command__": "X"}]}')):
            d = os.path.join(base, 'damaged')
            os.makedirs(d, exist_ok=True)
            p = os.path.join(d, 'c_delivery_store.json')
            if txt is None:
                open(p, 'w').write('{"truncated": [12.5, {"__smpp_c')
            else:
                open(p, 'w').write(txt)
            fresh = make_corr(cm, d, Clock())
            load_cases.append((bad_doc, czl(store_ser('_delivery_store', fresh._delivery_store._data))))
    finally:
        shutil.rmtree(base, ignore_errors=True)
    ctx.extra['crash_points_not_before_or_after'] = io_bad
    if proved or not getattr(ctx, 'build_failing', None):
        for name, fn, cases in (
            ('trace', 'fun p : list (Z * Z) * list (prim Z) => let d := run_prims Z {| pd_data := fst p; pd_file := fst p |} (snd p) in '
                      '(if dirty_after Z (fst p) false (snd p) then 0 else 1) :: List.concat (map (fun kv => [fst kv; snd kv]) (pd_data d))', trace_cases),
            ('store_json', 'ser_store_json', json_cases),
            ('load', 'ser_load', load_cases),
        ):
            bad, errs = core.run_cases('C19', name, IMPORTS, fn, cases, shard=60, preamble=PRE)
            for fnm, out in errs:
                ctx.broken.append(f'model evaluation failed ({fnm}): {out[-600:]}')
            for i in bad[:6]:
                inp, exp = cases[i]
                what = ('a call updates a stored object in place without a following assignment, or its dictionary-level effect differs from the model'
                        if name == 'trace' else f'model and implementation disagree on {name}')
                ctx.violation(what, {'correspondence': f'Model/Persist.v vs correlator.py ({name})', 'input_term': inp[:2500],
                                     'implementation_result': exp[:700]}, found_input=False)
            ctx.extra[f'correspondence_{name}_cases'] = len(cases)
            ctx.extra[f'correspondence_{name}_disagreements'] = len(bad)
    return ctx.finish()


def crash_points(ctx, cm, d, base, clock, op, submitted, prefix, rng):
    """run `op` on copies of directory d with a crash at each I/O primitive; every file must load as before or after"""
    bad = 0
    # reference run without crash: the primitives and the state after
    ref = os.path.join(base, 'ref')
    shutil.rmtree(ref, ignore_errors=True)
    shutil.copytree(d, ref)
    io = IO()
    ck = Clock()
    ck.now = clock.now
    install(cm, io, ck)
    before = stores_of(make_corr(cm, ref, ck))
    c = make_corr(cm, ref, ck)
    loop = asyncio.new_event_loop()
    try:
        io.count = 0
        io.trace = []
        loop.run_until_complete(apply_op(c, ck, op, dict(submitted)))
        n_prims = io.count
        prims = list(io.trace)
        after_steps = []      # state of each file after each completed save (a call may save the same file twice)
        after = stores_of(make_corr(cm, ref, ck))
        points = []
        for k in range(1, n_prims + 1):
            if prims[k - 1][0] == 'write':
                ln = prims[k - 1][2]
                for torn in sorted({0, 1, ln // 2, max(ln - 1, 0)}):
                    points.append((k, torn))
            else:
                points.append((k, None))
        for k, torn in points:
            work = os.path.join(base, 'crash')
            shutil.rmtree(work, ignore_errors=True)
            shutil.copytree(d, work)
            io2 = IO()
            io2.crash_at, io2.torn = k, torn
            ck2 = Clock()
            ck2.now = clock.now
            install(cm, io2, ck2)
            c2 = make_corr(cm, work, ck2)
            # intermediate states: replay the reference run up to each completed save is equivalent to 'before or after' per file
            try:
                loop.run_until_complete(apply_op(c2, ck2, op, dict(submitted)))
            except Crash:
                pass
            io3 = IO()
            install(cm, io3, ck2)
            got = stores_of(make_corr(cm, work, ck2))
            ctx.count('crash_point_' + prims[k - 1][0] + ('' if torn is None else '_torn'))
            ctx.case(('crash', repr(op), k, torn))
            for n in STORES:
                ok = got[n] == before[n] or got[n] == after[n] or got[n] in mid_states(cm, d, base, ck2, op, submitted, n, loop)
                if not ok:
                    bad += 1
                    ctx.violation(f'crash at I/O primitive {k} {prims[k - 1]} (torn at {torn}) of {op[0]}: {n} loads with {len(got[n]) - 1} entries, '
                                  f'neither the state before ({len(before[n]) - 1}) nor after ({len(after[n]) - 1}) the write',
                                  {'history': repr(prefix + [op])[:1500], 'crash_at_primitive': k, 'torn_at': torn, 'store': n})
                    break
            else:
                # life goes on after the crash: the restarted process writes again - over whatever the crash left behind (a temp file) -,
                # here a SHORTER store (one entry consumed); the next restart must find exactly that
                c3 = make_corr(cm, work, ck2)
                for n in STORES:
                    pd = getattr(c3, n)
                    keys = list(pd.keys())
                    if not keys:
                        continue
                    pd.pop(keys[0], None)
                    want_n = stores_of(c3)[n]
                    got_n = stores_of(make_corr(cm, work, ck2))[n]
                    ctx.count('write_after_crash_checked')
                    if got_n != want_n:
                        bad += 1
                        ctx.violation(f'after a crash at I/O primitive {k} {prims[k - 1]} (torn at {torn}) of {op[0]} and a restart, consuming one entry of {n} '
                                      f'leaves a file that loads with {len(got_n) - 1} entries instead of {len(want_n) - 1}',
                                      {'history': repr(prefix + [op])[:1500], 'crash_at_primitive': k, 'torn_at': torn, 'store': n, 'then': 'pop one entry, restart'})
                        break
    finally:
        loop.close()
        for x in ('ref', 'crash', 'mid'):
            shutil.rmtree(os.path.join(base, x), ignore_errors=True)
    return bad


_MID_CACHE = {}


def mid_states(cm, d, base, clock, op, submitted, n, loop):
    """a call may save the same file more than once (e.g. put on a segment: assignment, then a deletion by the sweep); the states
    after each of its completed saves are legitimate 'after' states of the individual writes"""
    key = (d, repr(op), n, clock.now)
    if key in _MID_CACHE:
        return _MID_CACHE[key]
    work = os.path.join(base, 'mid')
    shutil.rmtree(work, ignore_errors=True)
    shutil.copytree(d, work)
    io = IO()
    ck = Clock()
    ck.now = clock.now
    install(cm, io, ck)
    c = make_corr(cm, work, ck)
    states = []
    # a snapshot after every COMPLETED save of this store (the file closed and renamed), not at the rename itself: a rename of a file
    # whose content is still in the buffer is not a legitimate intermediate state
    pd = getattr(c, n)
    orig_save = pd._save

    def save_and_snapshot():
        orig_save()
        io_saved = cm.open
        states.append(canon(make_corr(cm, work, ck).__dict__[n]._data))
        cm.open = io_saved
    pd._save = save_and_snapshot
    try:
        loop.run_until_complete(apply_op(c, ck, op, dict(submitted)))
    except Exception:  # noqa: BLE001
        pass
    _MID_CACHE[key] = states
    return states


def replay(ctx, path):
    rp = json.load(open(path))
    print('replay:', json.dumps(rp)[:2000])
    return 0
