"""C15 - wire discipline: proofs (Props/C15.v) + concurrent sender / receiver / keeper / stop with suspending hooks and
reconnects on the real ESME.start() (virtual-time loop).  One global event log (hook calls with their start and end,
transport writes per connection, PDUs fed by the SMSC, bind_resp times) is checked by an oracle with an independent
framer, and validated by the Coq predicate wire_ok of Model/Wire.v (trace validation)."""
import asyncio
import struct

from lib import core
from lib.core import czl
from harness import smppref, vsess

THEOREMS = ['C15_frames_of_whole_pdus', 'C15_every_write_announced', 'C15_gate', 'C15_modes', 'C15_handed_over_exactly_once', 'C15_read_pdu_survives_cancellation', 'C15_answer_after_hook', 'C15_nonvacuous', 'C15_actions_nonvacuous']
IMPORTS = ['AV.Model.Wire']
BIND_CMD = {'TRANSCEIVER': 9, 'TRANSMITTER': 2, 'RECEIVER': 1}
BOUND_STATE = {'TRANSCEIVER': 4, 'TRANSMITTER': 2, 'RECEIVER': 3}


def play(rng, bind_mode, n_msgs, horizon, stale_probe=False, unbind_race=False):
    from aiosmpplib.state import BindMode, PhoneNumber, TON, NPI
    from aiosmpplib.protocol import SubmitSm
    from aiosmpplib.retrytimer import SimpleExponentialBackoff
    loop = vsess.VLoop()
    asyncio.set_event_loop(loop)
    smsc = vsess.FakeSMSC(loop)
    undo = vsess.install(loop, smsc)
    log = []            # global event log, in order of occurrence
    obs = {'log': log}
    try:
        # stale_probe: a keep-alive probe whose sending hook is still running when the connection is replaced
        esme, hook = vsess.quiet_esme(enquire_link_interval=2.0 if stale_probe else rng.choice([2.0, 5.0, 30.0]), socket_timeout=10.0,
                                      bind_mode=getattr(BindMode, bind_mode), retry_timer=SimpleExponentialBackoff(200, 2))
        delays = {'sending': rng.choice([0.0, 0.0, 0.3, 1.7, 4.0]), 'received': rng.choice([0.0, 0.0, 0.2, 1.1, 3.0])}
        hid = [0]

        def gate(kind):
            def g(msg, pdu):
                hid[0] += 1
                me = hid[0]
                log.append((kind + '_begin', me, bytes(pdu), loop.time(), len(smsc.conns) - 1))
                d = delays[kind] * rng.choice([0, 1, 1, 2]) if delays[kind] else 0.0

                async def w():
                    try:
                        if d:
                            await asyncio.sleep(d)
                    finally:
                        log.append((kind + '_end', me, bytes(pdu), loop.time(), len(smsc.conns) - 1))
                return w()
            return g
        hook.sending_gate = gate('sending')
        hook.received_gate = gate('received')
        src = PhoneNumber('38591', TON.INTERNATIONAL, NPI.ISDN)
        bind_delay = 2.5 if stale_probe else rng.choice([0.0, 0.5, 2.5])
        drop_first_at = rng.choice([None, None, 3.3, 7.7])
        # one session in five: the bind response on the first or second connection has the right command id and an unparsable body
        bad_bind_conn = rng.choice([0, 1]) if rng.random() < 0.2 and not stale_probe else None
        obs['bad_bind_conn'] = bad_bind_conn
        # one session in four: the SMSC numbers its requests in the upper half of the 32-bit range - every response echoes the number as it is
        inbound_seq = [rng.choice([0x80000000, 0x9ABCDE00, 0xFFFFFF00]) if rng.random() < 0.25 else 1000]

        def on_pdu(conn, pdu):
            ps = vsess.split_pdus(pdu)[0]
            log.append(('write', conn.index, bytes(pdu), loop.time()))
            for p in ps:
                cmd, seq = struct.unpack('>I', p[4:8])[0], struct.unpack('>I', p[12:16])[0]
                if cmd in (1, 2, 9):
                    def answer(conn=conn, p=p):
                        log.append(('bind_resp', conn.index, b'', loop.time()))
                        if conn.index == bad_bind_conn:
                            # the right command id, a body that cannot be parsed: the PDU is read all the same and must reach the hook (raw)
                            body = rng.choice([b'A' * 22 + b'\x00', b'sm\xffsc\x00', b'SMSC'])
                            br = struct.pack('>IIII', 16 + len(body), cmd | 0x80000000, 0, seq) + body
                            if conn.closed_at is None:
                                log.append(('bind_fed', conn.index, br, loop.time()))
                                conn.send(br)
                            return
                        br = vsess.bind_resp_for(p)
                        if conn.closed_at is None:
                            log.append(('bind_fed', conn.index, br, loop.time()))
                        conn.send(br)
                        # inbound traffic on this connection
                        for k in range(0 if (stale_probe and conn.index == 0) else rng.choice([0, 2, 4])):
                            inbound_seq[0] += 1
                            kind = rng.choice(['deliver_sm', 'enquire_link', 'deliver_sm', 'segment', 'alert', 'broken'])
                            if kind == 'deliver_sm':
                                q = smppref.encode_sm(5, inbound_seq[0], src=b'111', dst=b'222', short_message=b'hello %d' % k)
                            elif kind == 'segment':
                                # one segment of a multi-part message (SAR parameters or UDH): intermediate segments are answered too
                                if rng.random() < 0.5:
                                    tl = (smppref.tlv(0x020C, struct.pack('>H', 40 + conn.index)) + smppref.tlv(0x020E, bytes([3]))
                                          + smppref.tlv(0x020F, bytes([rng.choice([1, 2, 3])])))
                                    q = smppref.encode_sm(5, inbound_seq[0], src=b'111', dst=b'222', short_message=b'part %d ' % k, tlvs=tl)
                                else:
                                    q = smppref.encode_sm(5, inbound_seq[0], src=b'111', dst=b'222', esm_class=0x40,
                                                          short_message=smppref.udh8(50 + conn.index, 3, rng.choice([1, 2, 3])) + b'part %d ' % k)
                            elif kind == 'enquire_link':
                                q = smppref.header(0x15, 0, inbound_seq[0])
                            elif kind == 'alert':
                                q = smppref.header(0x102, 0, inbound_seq[0], b'\x01\x01123\x00\x01\x01456\x00')
                            else:
                                q = smppref.header(5, 0, inbound_seq[0], b'\x00\x01')
                            at = rng.choice([0.1, 0.4, 1.3, 2.9])

                            def feed(conn=conn, q=q):
                                if conn.closed_at is None and not conn.reader.at_eof():
                                    log.append(('fed', conn.index, q, loop.time()))
                                    conn.send(q)
                            loop.call_later(at, feed)
                        if conn.index == 0 and unbind_race:
                            # the SMSC unbinds but keeps the connection open; the application queues a message in the grace period
                            def smsc_unbind(conn=conn):
                                if conn.closed_at is None and not conn.reader._eof:
                                    q = smppref.header(6, 0, 777777)
                                    log.append(('fed', conn.index, q, loop.time()))
                                    conn.send(q)
                            loop.call_later(1.7, smsc_unbind)
                        elif conn.index == 0 and drop_first_at is not None:
                            conn.eof(delay=drop_first_at)
                    if bind_delay:
                        loop.call_later(bind_delay, answer)
                    else:
                        answer()
                elif cmd == 4:
                    conn.send(smppref.header(0x80000004, 0, seq, b'id%d\x00' % seq), delay=0.05)
                elif cmd == 0x15:
                    conn.send(smppref.header(0x80000015, 0, seq), delay=0.05)
                elif cmd == 6:
                    conn.send(smppref.header(0x80000006, 0, seq), delay=0.05)
                    conn.eof(delay=0.1)
        smsc.on_pdu = on_pdu

        async def main():
            t = asyncio.create_task(esme.start())
            await asyncio.sleep(0.2)
            for i in range(n_msgs):
                await esme.broker.enqueue(SubmitSm(short_message=f'msg {i}', source=src, destination=src, log_id=f'm{i}'))
                if rng.random() < 0.5:
                    await asyncio.sleep(rng.choice([0.0, 0.3, 1.1]))
            if unbind_race:
                # land in the ~0.5 s in which start() is ending the session tasks after the unbind
                await asyncio.sleep(max(0.0, bind_delay + 1.7 + rng.choice([0.05, 0.2, 0.4]) - loop.time()))
                await esme.broker.enqueue(SubmitSm(short_message='late', source=src, destination=src, log_id='late'))
            stop_at = None if (stale_probe or unbind_race) else rng.choice([None, horizon * 0.4, horizon * 0.8])
            states = []
            slept = loop.time()
            while loop.time() < horizon:
                await asyncio.sleep(0.9)
                states.append((loop.time(), int(esme.session_state), esme._bound.is_set()))
                if stop_at is not None and loop.time() >= stop_at and 'stopped' not in obs:
                    obs['stopped'] = loop.time()
                    log.append(('stop', -1, b'', loop.time()))
                    asyncio.create_task(esme.stop())
            obs['states'] = states
            obs['start_done'] = t.done()
            obs['start_exc'] = t.exception() if t.done() and not t.cancelled() else None
            if not t.done():
                t.cancel()
                try:
                    await t
                except BaseException:  # noqa: BLE001
                    pass
        loop.run_until_complete(main())
        obs['n_conns'] = len(smsc.conns)
    finally:
        undo()
        vsess.finish(loop)
    return obs


def nack_failure_session(kind, fail_mode):
    """the SMSC sends a request the ESME cannot serve (an unsupported command, or a deliver_sm it cannot parse) and the negative answer
    cannot be written (the connection fails at that moment): the PDU was read, so the received hook must still get it, once"""
    from aiosmpplib.retrytimer import SimpleExponentialBackoff
    loop = vsess.VLoop()
    asyncio.set_event_loop(loop)
    smsc = vsess.FakeSMSC(loop)
    undo = vsess.install(loop, smsc)
    obs = {'received': [], 'announced': []}
    try:
        esme, hook = vsess.quiet_esme(enquire_link_interval=30.0, socket_timeout=10.0, retry_timer=SimpleExponentialBackoff(200, 2))
        q = {'alert': smppref.header(0x102, 0, 4242, b'\x01\x01123\x00\x01\x01456\x00'),
             'submit_sm': smppref.encode_sm(4, 4242, src=b'111', dst=b'222', short_message=b'to the ESME?'),
             'query_sm': smppref.header(3, 0, 4242, b'id1\x00\x01\x01123\x00'),
             'broken_deliver_sm': smppref.header(5, 0, 4242, b'\x00\x01'),
             'deliver_sm': smppref.encode_sm(5, 4242, src=b'111', dst=b'222', short_message=b'hello'),
             'enquire_link': smppref.header(0x15, 0, 4242)}[kind]
        obs['pdu'] = q

        def sgate(msg, pdu):
            obs['announced'].append(bytes(pdu))
            if struct.unpack('>I', bytes(pdu)[4:8])[0] & 0x80000000 and fail_mode in ('lost_during_sending_hook', 'cancelled_during_handover'):
                smsc.conns[0].reset(delay=0.2)
                return asyncio.sleep(0.6)
            return None
        hook.sending_gate = sgate

        def rgate(msg, pdu):
            obs['received'].append(bytes(pdu))
            if fail_mode == 'cancelled_during_handover' and bytes(pdu) == q:
                return asyncio.sleep(3.0)       # the application is slow; start() is cancelled while it is busy with this PDU
            return None
        hook.received_gate = rgate

        def on_pdu(conn, pdu):
            for p in vsess.split_pdus(pdu)[0]:
                cmd, seq = struct.unpack('>I', p[4:8])[0], struct.unpack('>I', p[12:16])[0]
                if cmd in (1, 2, 9):
                    conn.send(vsess.bind_resp_for(p))
                    if conn.index == 0:
                        def feed(conn=conn):
                            if fail_mode == 'write_error':
                                conn.transport.fail_writes = ConnectionResetError('reset by peer while writing')
                            conn.send(q)
                        loop.call_later(1.0, feed)
                elif cmd == 0x15:
                    conn.send(smppref.header(0x80000015, 0, seq), delay=0.05)
        smsc.on_pdu = on_pdu

        async def main():
            t = asyncio.create_task(esme.start())
            if fail_mode == 'cancelled_during_handover':
                await asyncio.sleep(2.5)
                t.cancel()                      # the application ends the ESME: start() tears the session down and cancels the receiver
                await asyncio.gather(t, return_exceptions=True)
                await asyncio.sleep(6.0)
                obs['start_done'] = False
                obs['n_conns'] = len(smsc.conns)
                return
            await asyncio.sleep(8.0)
            obs['start_done'] = t.done()
            obs['n_conns'] = len(smsc.conns)
            t.cancel()
            try:
                await t
            except BaseException:  # noqa: BLE001
                pass
        loop.run_until_complete(main())
    finally:
        undo()
        vsess.finish(loop)
    return obs


def oracle_nack_failure(obs):
    if obs.get('start_done'):
        return 'start() ended'
    k = obs['received'].count(obs['pdu'])
    if k != 1:
        answered = [a[:16].hex() for a in obs['announced'] if a[12:16] == obs['pdu'][12:16] and a[4] & 0x80]
        return (f'the inbound PDU {obs["pdu"][:16].hex()} was read (its answer {answered} was announced to the sending hook) but handed to the received '
                f'hook {k} times')
    return None


def oracle(obs, bind_mode):
    log = obs['log']
    if obs['start_exc'] is not None:
        return f'start() raised {obs["start_exc"]!r}'
    if obs['start_done'] and 'stopped' not in obs:
        return 'start() returned without stop()'
    n = obs['n_conns']
    announced = []          # (bytes) in order
    bind_ok = {}            # conn -> position in the log of the bind_resp
    for pos, e in enumerate(log):
        if e[0] == 'bind_resp':
            bind_ok[e[1]] = pos
    fed = {}
    for pos, e in enumerate(log):
        if e[0] == 'sending_begin':
            announced.append(e[2])
        elif e[0] == 'write':
            c, data = e[1], e[2]
            # (a) whole PDUs, announced beforehand with exactly those bytes
            pdus, rest = vsess.split_pdus(data)
            if rest or len(pdus) != 1:
                return f'a write of {len(data)} octets on connection {c} is not exactly one whole PDU'
            if data not in announced:
                return f'PDU {data[:16].hex()} was written without having been announced to the sending hook with those bytes'
            announced.remove(data)
            cmd = struct.unpack('>I', data[4:8])[0]
            first = not any(x[0] == 'write' and x[1] == c for x in log[:pos])
            # (c) bind first, nothing else before the bind succeeded
            if first and cmd != BIND_CMD[bind_mode]:
                return f'first PDU on connection {c} is command {cmd:#x}, not the {bind_mode} bind request'
            if not first and (c not in bind_ok or pos < bind_ok[c]):
                return f'command {cmd:#x} written on connection {c} before its bind had succeeded'
            # (e) a receiver never transmits submit_sm
            if bind_mode == 'RECEIVER' and cmd == 4:
                return 'submit_sm written by an ESME bound as receiver'
            # (d) responses echo the sequence number of a request fed on this connection, once
            if cmd & 0x80000000:
                seq = struct.unpack('>I', data[12:16])[0]
                reqs = fed.get(c, {})
                if seq not in reqs:
                    return f'response {cmd:#x} seq {seq} on connection {c} answers no request the SMSC sent on it'
                req_cmd, answered, hook_end_pos, parsed = reqs[seq]
                if answered:
                    return f'request seq {seq} answered twice'
                reqs[seq] = (req_cmd, True, hook_end_pos, parsed)
                if req_cmd == 5 and cmd == 0x80000005:
                    # parsed deliver_sm: the response comes after the received hook returned
                    ends = [p2 for p2, x in enumerate(log[:pos]) if x[0] == 'received_end' and x[2][12:16] == data[12:16] and x[2][4:8] == b'\x00\x00\x00\x05']
                    if not ends:
                        return f'deliver_sm_resp seq {seq} written before the received hook for that deliver_sm returned'
        elif e[0] == 'fed':
            c, q = e[1], e[2]
            cmd, seq = struct.unpack('>I', q[4:8])[0], struct.unpack('>I', q[12:16])[0]
            fed.setdefault(c, {})[seq] = (cmd, False, None, None)
    # (b) every PDU read is handed to the received hook exactly once
    rec = [e[2] for e in log if e[0] == 'received_begin']
    for e in log:
        if e[0] == 'fed':
            k = rec.count(e[2])
            closed_soon = False
            if k > 1:
                return f'inbound PDU {e[2][:16].hex()} handed to the received hook {k} times'
            if k == 0:
                # not read before the connection went away is acceptable; read but not handed over is not
                # the receiver got past it: a PDU fed later on the same connection reached the hook
                later = [x for x in log if x[0] == 'fed' and x[1] == e[1] and x[3] > e[3] and rec.count(x[2]) > 0]
                if later:
                    return f'inbound PDU {e[2][:16].hex()} was never handed to the received hook although the connection stayed in use'
    # (b') the bind response is read by connect() itself: it, too, is handed over exactly once
    for e in log:
        if e[0] == 'bind_fed':
            k = rec.count(e[2])
            if k > 1:
                return f'bind response {e[2][:16].hex()} on connection {e[1]} handed to the received hook {k} times'
            wrote_later = any(x[0] == 'write' and x[1] == e[1] and x[3] > e[3] for x in log)
            # the run ends at its horizon: a response fed in its last half second may simply not have been read any more
            t_end = max([x[0] for x in obs.get('states', [])] + [0.0])
            if k == 0 and (wrote_later or (e[1] == obs.get('bad_bind_conn') and e[3] <= t_end - 0.5)):
                return f'bind response {e[2].hex()[:60]} on connection {e[1]} was read but never handed to the received hook'
    # (e) state corresponds to the mode whenever the session is bound
    for t, st, bound in obs['states']:
        if bound and st not in (BOUND_STATE[bind_mode], 5):
            return f'session state {st} while bound in mode {bind_mode}'
    return None


def to_coq_trace(obs, bind_mode):
    """events for wire_ok: (kind, conn, pdu) with kind 0 announce, 1 write, 2 bind succeeded, 3 new connection"""
    out = []
    seen = set()
    for e in obs['log']:
        if e[0] == 'sending_begin':
            out.append(f'EAnnounce {czl(list(e[2]))}')
        elif e[0] == 'write':
            if e[1] not in seen:
                seen.add(e[1])
                out.append('EConnect')
            out.append(f'EWrite {czl(list(e[2]))}')
        elif e[0] == 'bind_resp':
            out.append('EBound')
    return '[' + '; '.join(out) + ']'


def run(ctx):
    ctx.rule = ('sender (0-6 queued SubmitSm), receiver answering deliver_sm / enquire_link / unsupported / unparsable PDUs, keeper probes (interval 2-30 s) '
                'and stop() running concurrently; sending and received hooks that suspend for 0-8 s; bind_resp delayed 0-2.5 s; the first connection '
                'dropped at 3.3 / 7.7 s or kept; all three bind modes; non-trivial = more than one task wrote on a connection')
    ctx.trusted_base = ['Coq 8.16.1 kernel; no axioms', 'harness/vsess.py (virtual-time loop), harness/C15.py (global event log)',
                        'asyncio: a coroutine runs atomically between awaits; StreamWriter.write hands the whole buffer to the transport in one call']
    ctx.assumptions = ['the framing theorem uses C03_command_length: every PDU the library builds carries its own length']
    proved = ctx.prove('C15', THEOREMS)
    rng = ctx.rng
    n = 5000 if ctx.thorough else 120
    cases = []
    for i in range(n):
        bind_mode = rng.choice(['TRANSCEIVER', 'TRANSCEIVER', 'TRANSMITTER', 'RECEIVER'])
        seed = rng.randrange(1 << 30)
        import random
        n_msgs, horizon = rng.choice([0, 1, 3, 6]), rng.choice([12.0, 25.0])
        stale = rng.random() < 0.2
        if stale:
            horizon = 14.0
            ctx.count('family_probe_suspended_across_reconnect')
        race = (not stale) and rng.random() < 0.15
        if race:
            ctx.count('family_message_queued_while_session_is_being_torn_down')
        obs = play(random.Random(seed), bind_mode, 0 if race else n_msgs, horizon, stale, race)
        writers = len({e[2][4:8] for e in obs['log'] if e[0] == 'write'})
        ctx.case(('scenario', seed, bind_mode), nontrivial=writers > 2)
        ctx.count('mode_' + bind_mode)
        ctx.count('writes', sum(1 for e in obs['log'] if e[0] == 'write'))
        ctx.count('connections', obs['n_conns'])
        rp = {'scenario_seed': seed, 'bind_mode': bind_mode, 'n_msgs': n_msgs, 'horizon': horizon, 'stale_probe': stale, 'unbind_race': race}
        msg = oracle(obs, bind_mode)
        if msg:
            ctx.violation(msg, rp)
        term = to_coq_trace(obs, bind_mode)
        stream_ok = 1
        cases.append((f'({BIND_CMD[bind_mode]}, {term})', czl([1])))
        if i < 1:
            ctx.sample({'events': [(e[0], e[1] if isinstance(e[1], int) else 0, round(e[3], 2)) for e in obs['log'][:14]]})
    # ---- a request that is answered negatively (or normally) while the connection fails: the PDU was read, the received hook gets it once
    action_cases = []
    for kind in ('submit_sm', 'query_sm', 'broken_deliver_sm', 'deliver_sm', 'enquire_link', 'alert'):
        for fail_mode in ('none', 'write_error', 'lost_during_sending_hook', 'cancelled_during_handover'):
            obs = nack_failure_session(kind, fail_mode)
            ctx.traces += 1
            ctx.case(('answer_fails', kind, fail_mode), nontrivial=True)
            ctx.count('family_answer_cannot_be_written')
            msg = oracle_nack_failure(obs)
            if msg:
                ctx.violation(f'{kind} from the SMSC, connection failure while it is answered ({fail_mode}): {msg}',
                              {'function': 'nack_failure', 'kind': kind, 'fail_mode': fail_mode})
            action_cases.append((f'({czl(list(obs["pdu"]))}, {"false" if fail_mode == "none" else "true"})', czl([obs['received'].count(obs['pdu'])])))
    # ---- the receiver cancelled while it handles a response it has read (scenario of harness/C01.py): the PDU still reaches the hook once
    from harness import C01 as _C01
    for kind in ('ok', 'nack'):
        obs = _C01.receiver_cancelled_session(3.0, 0.2, kind)
        ctx.traces += 1
        ctx.case(('receiver_cancelled', kind), nontrivial=True)
        if len(obs['resp_pdus']) != 1:
            ctx.violation(f'the response ({kind}) to a submit_sm was read, the receiver was cancelled inside its correlation (send_error hook of an older '
                          f'message suspended, connection lost): the PDU reached the received hook {len(obs["resp_pdus"])} time(s)',
                          {'function': 'receiver_cancelled', 'kind': kind})
    if proved or not getattr(ctx, 'build_failing', None):
        bad, errs = core.run_cases('C15', 'actions', ['AV.Model.Base', 'AV.Model.Pdu', 'AV.Model.Recv', 'AV.Model.RecvActions'],
                                   'fun p : list Z * bool => ser_hook_calls EncGsm (fst p) (snd p)', action_cases, shard=50)
        for fnm, out in errs:
            ctx.broken.append(f'model evaluation failed ({fnm}): {out[-600:]}')
        for i in bad[:5]:
            inp, exp = action_cases[i]
            ctx.violation('model and implementation disagree on how often the received hook gets a PDU whose answer cannot be written', {
                'correspondence': 'Model/RecvActions.v vs esme.py _receive_data/_handle_request', 'input_term': inp[:2000], 'implementation_result': exp},
                found_input=False)
        ctx.extra['correspondence_actions_cases'] = len(action_cases)
        ctx.extra['correspondence_actions_disagreements'] = len(bad)
    if proved or not getattr(ctx, 'build_failing', None):
        bad, errs = core.run_cases('C15', 'wire', IMPORTS, 'fun p : Z * list wevent => [if wire_ok (fst p) (snd p) then 1 else 0]', cases, shard=30)
        for fnm, out in errs:
            ctx.broken.append(f'model evaluation failed ({fnm}): {out[-600:]}')
        for i in bad[:6]:
            inp, exp = cases[i]
            ctx.violation('the event trace of the real session does not satisfy wire_ok (announce-before-write with equal bytes, whole PDUs, bind first)', {
                'correspondence': 'Model/Wire.v wire_ok on the trace of ESME.start()', 'input_term': inp[:3000]}, found_input=False)
        ctx.extra['trace_validation_cases'] = len(cases)
        ctx.extra['trace_validation_rejected'] = len(bad)
    return ctx.finish()


def replay(ctx, path):
    import json
    import random
    rp = json.load(open(path))
    if 'scenario_seed' in rp:
        obs = play(random.Random(rp['scenario_seed']), rp['bind_mode'], rp['n_msgs'], rp['horizon'], rp.get('stale_probe', False), rp.get('unbind_race', False))
        print('replay: scenario regenerated from scenario_seed;', len(obs['log']), 'events; oracle says:', oracle(obs, rp['bind_mode']))
        for e in obs['log'][:60]:
            print('  ', e[0], e[1], e[2][:16].hex(), round(e[3], 3))
    elif rp.get('function') == 'nack_failure':
        obs = nack_failure_session(rp['kind'], rp['fail_mode'])
        msg = oracle_nack_failure(obs)
        print('replay: PDUs announced to the sending hook:', [a[:16].hex() for a in obs['announced']])
        print('replay: PDUs handed to the received hook:', [a[:16].hex() for a in obs['received']])
        print('replay:', msg or 'property holds on this input')
        return 1 if msg else 0
    else:
        print(json.dumps(rp)[:1500])
    return 0
