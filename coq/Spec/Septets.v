(* 3GPP TS 23.038 section 6.1.2.1.1 - packing of 7-bit characters, written through the bit
   stream: every septet contributes its 7 bits least-significant first, the stream is padded
   with zero bits to a multiple of 8 and cut into octets, least-significant bit first.
   Independent of codec.py. *)
From Coq Require Import ZArith List.
Import ListNotations.
Open Scope Z_scope.

Definition bit (x : Z) (j : Z) : Z := (x / 2 ^ j) mod 2.

Definition bits7 (c : Z) : list Z := [bit c 0; bit c 1; bit c 2; bit c 3; bit c 4; bit c 5; bit c 6].

Definition octet_of_bits (b0 b1 b2 b3 b4 b5 b6 b7 : Z) : Z :=
  b0 + 2 * b1 + 4 * b2 + 8 * b3 + 16 * b4 + 32 * b5 + 64 * b6 + 128 * b7.

(* cut a bit stream into octets; a final partial octet is padded with zero bits *)
Fixpoint octets_of_bits (bits : list Z) : list Z :=
  match bits with
  | b0 :: b1 :: b2 :: b3 :: b4 :: b5 :: b6 :: b7 :: rest => octet_of_bits b0 b1 b2 b3 b4 b5 b6 b7 :: octets_of_bits rest
  | [] => []
  | [b0] => [octet_of_bits b0 0 0 0 0 0 0 0]
  | [b0; b1] => [octet_of_bits b0 b1 0 0 0 0 0 0]
  | [b0; b1; b2] => [octet_of_bits b0 b1 b2 0 0 0 0 0]
  | [b0; b1; b2; b3] => [octet_of_bits b0 b1 b2 b3 0 0 0 0]
  | [b0; b1; b2; b3; b4] => [octet_of_bits b0 b1 b2 b3 b4 0 0 0]
  | [b0; b1; b2; b3; b4; b5] => [octet_of_bits b0 b1 b2 b3 b4 b5 0 0]
  | [b0; b1; b2; b3; b4; b5; b6] => [octet_of_bits b0 b1 b2 b3 b4 b5 b6 0]
  end.

Definition spec_pack (septets : list Z) : list Z := octets_of_bits (flat_map bits7 septets).

(* unpacking: read the octets as a bit stream and cut it into groups of 7 bits; a final
   group of fewer than 7 bits is padding and is dropped *)
Definition bits8 (o : Z) : list Z := [bit o 0; bit o 1; bit o 2; bit o 3; bit o 4; bit o 5; bit o 6; bit o 7].

Definition septet_of_bits (b0 b1 b2 b3 b4 b5 b6 : Z) : Z :=
  b0 + 2 * b1 + 4 * b2 + 8 * b3 + 16 * b4 + 32 * b5 + 64 * b6.

Fixpoint septets_of_bits (bits : list Z) : list Z :=
  match bits with
  | b0 :: b1 :: b2 :: b3 :: b4 :: b5 :: b6 :: rest => septet_of_bits b0 b1 b2 b3 b4 b5 b6 :: septets_of_bits rest
  | _ => []
  end.

Definition spec_unpack (octets : list Z) : list Z := septets_of_bits (flat_map bits8 octets).
