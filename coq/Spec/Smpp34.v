(* SMPP 3.4 (issue 1.2) wire format, written from the specification document alone: section 3.2 (PDU
   format and integer/C-octet-string/octet-string types), 4.1.x (bind), 4.4.1/4.6.1 (submit_sm/deliver_sm),
   4.4.2/4.6.2 (responses), 5.1.2 (command ids), 5.3.2 (optional parameter tags).  Nothing here refers to
   the implementation or to anything generated from it. *)
From Coq Require Import ZArith List Bool.
Import ListNotations.
Open Scope Z_scope.

(* 3.1: integers are unsigned, most significant octet first *)
Definition u8 (x : Z) : list Z := [x].
Definition u16 (x : Z) : list Z := [x / 256; x mod 256].
Definition u32 (x : Z) : list Z := [x / 16777216; (x / 65536) mod 256; (x / 256) mod 256; x mod 256].
(* C-octet string: ASCII characters followed by a NUL *)
Definition cz (s : list Z) : list Z := s ++ [0].

(* 3.2: command_length (whole PDU), command_id, command_status, sequence_number, body *)
Definition spec_pdu (cmd st seq : Z) (body : list Z) : list Z :=
  u32 (16 + Z.of_nat (length body)) ++ u32 cmd ++ u32 st ++ u32 seq ++ body.

(* 5.3.1: tag, length of the value, value *)
Definition spec_tlv (tag : Z) (v : list Z) : list Z := u16 tag ++ u16 (Z.of_nat (length v)) ++ v.

(* 5.1.2.1 command ids of the operations an ESME client uses *)
Definition CMD_GENERIC_NACK := 2147483648.        (* 0x80000000 *)
Definition CMD_BIND_RECEIVER := 1.
Definition CMD_BIND_RECEIVER_RESP := 2147483649.
Definition CMD_BIND_TRANSMITTER := 2.
Definition CMD_BIND_TRANSMITTER_RESP := 2147483650.
Definition CMD_SUBMIT_SM := 4.
Definition CMD_SUBMIT_SM_RESP := 2147483652.
Definition CMD_DELIVER_SM := 5.
Definition CMD_DELIVER_SM_RESP := 2147483653.
Definition CMD_UNBIND := 6.
Definition CMD_UNBIND_RESP := 2147483654.
Definition CMD_BIND_TRANSCEIVER := 9.
Definition CMD_BIND_TRANSCEIVER_RESP := 2147483657.
Definition CMD_ENQUIRE_LINK := 21.
Definition CMD_ENQUIRE_LINK_RESP := 2147483669.
Definition spec_commands : list Z :=
  [CMD_GENERIC_NACK; CMD_BIND_RECEIVER; CMD_BIND_RECEIVER_RESP; CMD_BIND_TRANSMITTER; CMD_BIND_TRANSMITTER_RESP;
   CMD_SUBMIT_SM; CMD_SUBMIT_SM_RESP; CMD_DELIVER_SM; CMD_DELIVER_SM_RESP; CMD_UNBIND; CMD_UNBIND_RESP;
   CMD_BIND_TRANSCEIVER; CMD_BIND_TRANSCEIVER_RESP; CMD_ENQUIRE_LINK; CMD_ENQUIRE_LINK_RESP].

(* 5.3.2 optional parameters: tag, kind, size of the value in octets (0 = variable) *)
Inductive tlvkind := KInt | KCStr | KOStr | KFlag.
Definition spec_tlv_table : list (Z * (tlvkind * Z)) :=
  [(5, (KInt, 1)); (6, (KInt, 1)); (7, (KInt, 1)); (8, (KInt, 2)); (13, (KInt, 1)); (14, (KInt, 1)); (15, (KInt, 1));
   (16, (KInt, 1)); (23, (KInt, 4)); (25, (KInt, 1)); (29, (KCStr, 0)); (30, (KCStr, 0)); (48, (KInt, 1));
   (513, (KInt, 1)); (514, (KOStr, 0)); (515, (KOStr, 0)); (516, (KInt, 2)); (517, (KInt, 1)); (522, (KInt, 2));
   (523, (KInt, 2)); (524, (KInt, 2)); (525, (KInt, 1)); (526, (KInt, 1)); (527, (KInt, 1)); (528, (KInt, 1));
   (770, (KInt, 1)); (771, (KOStr, 0)); (772, (KInt, 1)); (897, (KOStr, 0)); (1056, (KInt, 1)); (1057, (KInt, 1));
   (1058, (KInt, 1)); (1059, (KOStr, 3)); (1060, (KOStr, 0)); (1061, (KInt, 1)); (1062, (KInt, 1)); (1063, (KInt, 1));
   (1281, (KOStr, 1)); (4609, (KInt, 1)); (4611, (KInt, 2)); (4612, (KInt, 1)); (4876, (KFlag, 0)); (4992, (KInt, 1));
   (4995, (KOStr, 2))].
Definition TLV_SAR_MSG_REF_NUM := 524.
Definition TLV_SAR_TOTAL_SEGMENTS := 526.
Definition TLV_SAR_SEGMENT_SEQNUM := 527.
Definition TLV_SC_INTERFACE_VERSION := 528.
Definition TLV_MESSAGE_PAYLOAD := 1060.

(* 5.2.19 data_coding values with a defined alphabet that the library claims to support *)
Definition DC_DEFAULT := 0.
Definition DC_IA5 := 1.
Definition DC_LATIN1 := 3.
Definition DC_UCS2 := 8.

(* 4.1.1/4.1.3/4.1.5 bind_xxx body *)
Definition spec_bind_body (system_id password system_type : list Z) (iface ton npi : Z) (range : list Z) : list Z :=
  cz system_id ++ cz password ++ cz system_type ++ u8 iface ++ u8 ton ++ u8 npi ++ cz range.
(* 4.1.2/4.1.4/4.1.6 bind_xxx_resp body; sc_interface_version optional *)
Definition spec_bindresp_body (system_id : list Z) (ver : option Z) : list Z :=
  cz system_id ++ match ver with Some v => spec_tlv TLV_SC_INTERFACE_VERSION (u8 v) | None => [] end.
(* 4.4.2/4.6.2 *)
Definition spec_smresp_body (message_id : list Z) : list Z := cz message_id.

(* 4.4.1 submit_sm / 4.6.1 deliver_sm: mandatory fields in order, then optional parameters in any order *)
Record sm_wire := {
  w_service : list Z; w_src_ton : Z; w_src_npi : Z; w_src : list Z;
  w_dst_ton : Z; w_dst_npi : Z; w_dst : list Z;
  w_esm : Z; w_pid : Z; w_prio : Z; w_sched : list Z; w_valid : list Z;
  w_regdel : Z; w_replace : Z; w_dc : Z; w_defmsg : Z;
  w_sm : list Z;                 (* short_message octets, sm_length is their number *)
  w_tlvs : list Z                (* the optional parameter area, already laid out *)
}.
Definition spec_sm_body (f : sm_wire) : list Z :=
  cz (w_service f) ++ u8 (w_src_ton f) ++ u8 (w_src_npi f) ++ cz (w_src f)
  ++ u8 (w_dst_ton f) ++ u8 (w_dst_npi f) ++ cz (w_dst f)
  ++ u8 (w_esm f) ++ u8 (w_pid f) ++ u8 (w_prio f) ++ cz (w_sched f) ++ cz (w_valid f)
  ++ u8 (w_regdel f) ++ u8 (w_replace f) ++ u8 (w_dc f) ++ u8 (w_defmsg f) ++ u8 (Z.of_nat (length (w_sm f)))
  ++ w_sm f ++ w_tlvs f.

(* 3GPP TS 23.040 9.2.3.24.1 / .8: concatenation information elements in the user data header *)
Definition udh_concat8 (ref total seq : Z) : list Z := [5; 0; 3; ref; total; seq].
Definition udh_concat16 (ref total seq : Z) : list Z := [6; 8; 4; ref / 256; ref mod 256; total; seq].

(* ---- the general User Data Header of 3GPP TS 23.040 9.2.3.24: UDHL, then information elements (id, length, data) in any order ---- *)
Definition ie := (Z * list Z)%type.
Definition enc_ie (e : ie) : list Z := fst e :: Z.of_nat (length (snd e)) :: snd e.
Definition enc_ies (l : list ie) : list Z := flat_map enc_ie l.
Definition concat_ie8 (ref total seq : Z) : ie := (0, [ref; total; seq]).
Definition concat_ie16 (ref total seq : Z) : ie := (8, [ref / 256; ref mod 256; total; seq]).
(* an element that is not a concatenation element: application port addressing, special SMS indication, ... *)
Definition other_ie (e : ie) : Prop :=
  ~ (fst e = 8 /\ length (snd e) = 4%nat) /\ ~ (fst e = 0 /\ length (snd e) = 3%nat) /\ (length (snd e) <= 255)%nat.
Definition udh_of (ies : list ie) : list Z := Z.of_nat (length (enc_ies ies)) :: enc_ies ies.
