(* An independent receiving entity for concatenated short messages: SMPP 3.4 sar_* TLVs and
   3GPP TS 23.040 9.2.3.24.1 / 9.2.3.24.8 concatenation information elements. It accepts a list of
   submit_sm segments (in emission order) only if every segment fits a single short message, the
   numbering is exactly 1..n with one reference and total n <= 255, all segments agree on
   esm_class and data_coding, and every segment's text decodes ON ITS OWN in strict mode (so no
   boundary can fall inside a GSM escape pair or a UTF-16 surrogate pair); it returns the
   concatenation of the decoded texts. *)
From Coq Require Import ZArith List Bool.
Import ListNotations.
Require Import AV.Generated.ExnOrder AV.Model.Base AV.Model.Codec AV.Model.Split.
Open Scope Z_scope.

Definition udhi (esm : Z) : bool := 0 <? (esm / 64) mod 2.

(* (reference, total, sequence number, text octets, UDH octets incl. length octet) *)
Definition concat_info (s : segment) : option (Z * Z * Z * list Z * Z) :=
  if udhi (seg_esm s) then
    match seg_sm s with
    | udhl :: ie :: iel :: rest =>
      if (ie =? 0) && (iel =? 3) && (udhl =? 5) then
        match rest with
        | r :: t :: q :: body => Some (r, t, q, body, 6)
        | _ => None
        end
      else if (ie =? 8) && (iel =? 4) && (udhl =? 6) then
        match rest with
        | r1 :: r2 :: t :: q :: body => Some (r1 * 256 + r2, t, q, body, 7)
        | _ => None
        end
      else None
    | _ => None
    end
  else
    match seg_sar s with
    | Some (r, q, t) => Some (r, t, q, seg_sm s, 0)
    | None => None
    end.

Definition decode_body (dc : Z) (body : list Z) : res (list Z) :=
  if dc =? 0 then gsm_decode Strict body
  else if dc =? 8 then ucs2_decode body
  else Err EXN_ValueError.

(* single-PDU limits: 254 octets of short_message; with a UDH 140 octets, or 160 septets
   including the header (rounded up to a septet boundary) for the GSM alphabet *)
Definition fits (s : segment) (body : list Z) (hdr : Z) : bool :=
  (Z.of_nat (length (seg_sm s)) <=? 254)
  && (if hdr =? 0 then true
      else if seg_dc s =? 0 then ((hdr * 8 + 6) / 7 + Z.of_nat (length body) <=? 160)
      else (Z.of_nat (length (seg_sm s)) <=? 140)).

Fixpoint recv_multi (ref n dc esm : Z) (i : Z) (segs : list segment) : res (list Z) :=
  match segs with
  | [] => Ok []
  | s :: t =>
    match concat_info s with
    | Some (r, tot, q, body, hdr) =>
      if (r =? ref) && (tot =? n) && (q =? i) && (seg_dc s =? dc) && (seg_esm s =? esm) && fits s body hdr
      then do x <- decode_body dc body; do y <- recv_multi ref n dc esm (i + 1) t; Ok (x ++ y)
      else Err EXN_ValueError
    | None => Err EXN_ValueError
    end
  end.

Definition receiver (ref : Z) (segs : list segment) : res (list Z) :=
  match segs with
  | [] => Err EXN_ValueError
  | [s] =>
    match concat_info s with
    | None => if negb (udhi (seg_esm s)) && (Z.of_nat (length (seg_sm s)) <=? 254)
              then decode_body (seg_dc s) (seg_sm s) else Err EXN_ValueError
    | Some _ => Err EXN_ValueError
    end
  | s0 :: _ =>
    let n := Z.of_nat (length segs) in
    if n <=? 255 then recv_multi ref n (seg_dc s0) (seg_esm s0) 1 segs else Err EXN_ValueError
  end.
