(* Lemmas for C14: expiry of unanswered requests, for every interleaving of correlator calls. *)
From Coq Require Import ZArith QArith Lqa Lia List Bool.
Import ListNotations.
Require Import AV.Generated.ExnOrder AV.Generated.SmppConsts AV.Model.Base AV.Model.PyDict AV.Model.Limiter
               AV.Model.Correlator AV.Proofs.PyDictProofs AV.Proofs.LimiterProofs.
Open Scope Z_scope.

(* ---------- what the operations leave untouched ---------- *)

Lemma cumulated_frame c ref ss : c_store (fst (cumulated c ref ss)) = c_store c /\ c_ttl (fst (cumulated c ref ss)) = c_ttl c.
Proof.
  unfold cumulated. destruct (map snd (ss_status ss)) as [|v vs]; [split; reflexivity|].
  destruct ((zmax_list vs v =? STATUS_SENDING) || (zmax_list vs v =? STATUS_SENT)); split; reflexivity.
Qed.

Lemma expired_frame c m : c_store (fst (expired c m)) = c_store c /\ c_ttl (fst (expired c m)) = c_ttl c.
Proof.
  unfold expired. destruct (is_submit m); [|split; reflexivity].
  destruct (dget (sm_seq m) (c_seg c)) as [[ref sseq]|]; [|split; reflexivity].
  cbn [with_seg c_stat].
  destruct (dget ref (c_stat c)) as [ss|]; [|split; reflexivity].
  match goal with |- context [cumulated ?c2 ?r ?s] => pose proof (cumulated_frame c2 r s) as [H1 H2]; destruct (cumulated c2 r s) as [c3 code] end.
  cbn [fst] in H1, H2. destruct ((code =? STATUS_EXPIRED) || (code =? STATUS_FAILED)); cbn [fst]; split; assumption.
Qed.

(* a plain (unsegmented) SubmitSm that expires is handed to send_error itself *)
Lemma expired_plain c m : is_submit m = true -> dget (sm_seq m) (c_seg c) = None -> snd (expired c m) = Some m.
Proof. intros H1 H2. unfold expired. rewrite H1, H2. reflexivity. Qed.

Lemma put_store_frame c now m eid :
  c_store (put_store c now m eid) = dset (c_store c) (sm_seq m) {| e_at := now; e_msg := m; e_id := eid |}
  /\ c_ttl (put_store c now m eid) = c_ttl c.
Proof.
  unfold put_store. destruct (is_submit m); [|split; reflexivity].
  destruct (sm_sar m) as [[ref sseq] total]. destruct ((0 <? total) && (total <=? 255)); split; reflexivity.
Qed.

(* put(segment): the first segment of a message starts a status cell under a new key; a later one joins the cell of the message
   being sent under its reference *)
Definition fresh_cell (m : smsg) (total : Z) : segstat :=
  {| ss_status := map (fun i => (Z.of_nat i, STATUS_SENDING)) (seq 1 (Z.to_nat total)); ss_orig := m; ss_last_resp := None; ss_last_rcpt := None |}.

Lemma put_store_first c now m eid ref sseq total :
  is_submit m = true -> sm_sar m = (ref, sseq, total) -> 0 < total <= 255 -> ~ 1 < sseq ->
  put_store c now m eid =
  {| c_store := dset (c_store c) (sm_seq m) {| e_at := now; e_msg := m; e_id := eid |};
     c_seg := dset (c_seg c) (sm_seq m) (skey ref (sm_seq m), sseq);
     c_stat := dset (c_stat c) (skey ref (sm_seq m)) (set_status (fresh_cell m total) sseq STATUS_SENDING);
     c_cur := dset (c_cur c) ref (skey ref (sm_seq m)); c_ttl := c_ttl c |}.
Proof.
  intros Hs Hsar Ht Hn. unfold put_store. rewrite Hs, Hsar.
  replace ((0 <? total) && (total <=? 255)) with true by (symmetry; apply andb_true_iff; split; [apply Z.ltb_lt|apply Z.leb_le]; lia).
  replace (1 <? sseq) with false by (symmetry; apply Z.ltb_ge; lia).
  reflexivity.
Qed.

Lemma put_store_join c now m eid ref sseq total k ss :
  is_submit m = true -> sm_sar m = (ref, sseq, total) -> 0 < total <= 255 -> 1 < sseq ->
  dget ref (c_cur c) = Some k -> dget k (c_stat c) = Some ss ->
  put_store c now m eid =
  {| c_store := dset (c_store c) (sm_seq m) {| e_at := now; e_msg := m; e_id := eid |};
     c_seg := dset (c_seg c) (sm_seq m) (k, sseq);
     c_stat := dset (c_stat c) k (set_status ss sseq STATUS_SENDING);
     c_cur := c_cur c; c_ttl := c_ttl c |}.
Proof.
  intros Hs Hsar Ht Hn Hc Hk. unfold put_store. rewrite Hs, Hsar.
  replace ((0 <? total) && (total <=? 255)) with true by (symmetry; apply andb_true_iff; split; [apply Z.ltb_lt|apply Z.leb_le]; lia).
  replace (1 <? sseq) with true by (symmetry; apply Z.ltb_lt; exact Hn).
  cbn [with_store c_cur c_stat]. rewrite Hc, Hk. reflexivity.
Qed.

(* the other operations never touch the reference -> key map *)
Lemma cumulated_cur c ref ss : c_cur (fst (cumulated c ref ss)) = c_cur c.
Proof.
  unfold cumulated. destruct (map snd (ss_status ss)); [reflexivity|].
  destruct ((zmax_list l z =? STATUS_SENDING) || (zmax_list l z =? STATUS_SENT)); reflexivity.
Qed.
Lemma expired_cur c m : c_cur (fst (expired c m)) = c_cur c.
Proof.
  unfold expired. destruct (is_submit m); [|reflexivity]. destruct (dget (sm_seq m) (c_seg c)) as [[ref sseq]|]; [|reflexivity].
  cbn [with_seg c_stat]. destruct (dget ref (c_stat c)) as [ss|]; [|reflexivity].
  match goal with |- context [cumulated ?c2 ref ?s2] => pose proof (cumulated_cur c2 ref s2) as H; destruct (cumulated c2 ref s2) as [c3 code] end.
  cbn [fst] in H. destruct ((code =? STATUS_EXPIRED) || (code =? STATUS_FAILED)); cbn [fst]; rewrite H; reflexivity.
Qed.
Lemma get_pop_cur c r : c_cur (fst (get_pop c r)) = c_cur c.
Proof.
  unfold get_pop. destruct (dget (rs_seq r) (c_store c)); [|reflexivity]. destruct (negb (answers r (e_msg e))); [reflexivity|].
  cbn [fst]. destruct (is_submit (e_msg e)); [|reflexivity].
  cbn [with_store c_seg c_stat]. destruct (dget (rs_seq r) (c_seg c)) as [[ref sseq]|]; [|reflexivity]. destruct (dget ref (c_stat c)); reflexivity.
Qed.
Lemma get_segmented_cur c sq b : c_cur (fst (fst (get_segmented c sq b))) = c_cur c.
Proof.
  unfold get_segmented. destruct (dget sq (c_seg c)) as [[ref sseq]|]; [|reflexivity].
  destruct b; cbn [with_seg c_stat].
  - destruct (dget ref (c_stat c)) as [ss|]; [|reflexivity].
    match goal with |- context [cumulated ?c2 ref ss] => pose proof (cumulated_cur c2 ref ss) as H; destruct (cumulated c2 ref ss) as [c3 code] end.
    cbn [fst] in *. rewrite H. reflexivity.
  - destruct (dget ref (c_stat c)) as [ss|]; [|reflexivity].
    pose proof (cumulated_cur c ref ss) as H. destruct (cumulated c ref ss) as [c3 code]. cbn [fst] in *. exact H.
Qed.

Lemma answers_submit r m :
  is_submit m = true -> (rs_cmd r = SmppCommand_SUBMIT_SM_RESP \/ rs_cmd r = SmppCommand_GENERIC_NACK) -> answers r m = true.
Proof.
  unfold is_submit, answers. intros Hm [E|E]; rewrite E.
  - apply Z.eqb_eq in Hm. rewrite Hm. apply orb_true_iff. right.
    assert (lookup SmppCommand_SUBMIT_SM command_response_map = Some SmppCommand_SUBMIT_SM_RESP) as -> by reflexivity. apply Z.eqb_refl.
  - rewrite Z.eqb_refl. reflexivity.
Qed.

Lemma get_pop_frame c r :
  c_ttl (fst (get_pop c r)) = c_ttl c
  /\ match dget (rs_seq r) (c_store c) with
     | None => get_pop c r = (c, None)
     | Some e => if answers r (e_msg e)
                 then snd (get_pop c r) = Some e /\ c_store (fst (get_pop c r)) = ddel (rs_seq r) (c_store c)
                 else get_pop c r = (c, None)
     end.
Proof.
  unfold get_pop. destruct (dget (rs_seq r) (c_store c)) as [e|]; [|split; reflexivity].
  destruct (answers r (e_msg e)); cbn [negb]; [|split; reflexivity].
  cbn [fst snd]. destruct (is_submit (e_msg e)); [|repeat split; reflexivity].
  cbn [with_store c_seg c_stat].
  destruct (dget (rs_seq r) (c_seg c)) as [[ref sseq]|]; [|repeat split; reflexivity].
  destruct (dget ref (c_stat c)); repeat split; reflexivity.
Qed.

(* ---------- outputs ---------- *)

Fixpoint expired_ids (os : list cout) : list Z :=
  match os with [] => [] | OExpired x :: t => e_id (so_entry x) :: expired_ids t | _ :: t => expired_ids t end.
Fixpoint got_ids (os : list cout) : list Z :=
  match os with [] => [] | OGot _ _ (Some e) :: t => e_id e :: got_ids t | _ :: t => got_ids t end.

Lemma expired_ids_app a b : expired_ids (a ++ b) = expired_ids a ++ expired_ids b.
Proof. induction a as [|[x|t r e|t e] a IH]; cbn; rewrite ?IH; reflexivity. Qed.
Lemma got_ids_app a b : got_ids (a ++ b) = got_ids a ++ got_ids b.
Proof. induction a as [|[x|t r [e|]|t e] a IH]; cbn; rewrite ?IH; reflexivity. Qed.

Definition cntl (x : Z) (l : list Z) : nat := count_occ Z.eq_dec l x.

(* ---------- the invariant ---------- *)

Definition overdue (ttl : Q) (now : Q) (e : entry) : Prop := (ttl < now - e_at e)%Q.

Definition GI (ttl : Q) (g : gstate) (EX GOT : list Z) : Prop :=
  c_ttl (g_corr g) = ttl
  /\ NoDup (dkeys (c_store (g_corr g)))
  /\ (forall x, (dcount e_id x (c_store (g_corr g)) + cntl x EX + cntl x GOT <= 1)%nat
                /\ ((1 <= dcount e_id x (c_store (g_corr g)) + cntl x EX + cntl x GOT)%nat -> x < g_next g))
  /\ (forall t k, In (t, k) (g_calls g) ->
        k_bound k <= g_next g
        /\ forall key e, In (key, e) (c_store (g_corr g)) -> e_id e < k_bound k ->
                         overdue ttl (sw_now (k_sweep k)) e -> In key (sw_keys (k_sweep k))).

Lemma GI_init ttl : GI ttl (ginit ttl) [] [].
Proof.
  unfold GI, ginit, corr_init. cbn [g_corr g_calls g_next c_ttl c_store]. split; [reflexivity|]. split; [constructor|].
  split; [intros x; unfold dcount, cntl; cbn; split; lia|]. intros t k [].
Qed.

Lemma cntl_app x a b : cntl x (a ++ b) = (cntl x a + cntl x b)%nat.
Proof. apply count_occ_app. Qed.
Lemma cntl_cons x y l : cntl x (y :: l) = ((if Z.eq_dec y x then 1 else 0) + cntl x l)%nat.
Proof. unfold cntl. cbn [count_occ]. destruct (Z.eq_dec y x); reflexivity. Qed.

Lemma dcount_In_id (d : dict entry) key e : In (key, e) d -> (1 <= dcount e_id (e_id e) d)%nat.
Proof.
  induction d as [|[k' v'] t IH]; intros H; [destruct H|]. rewrite dcount_cons.
  destruct H as [E|H]; [injection E as _ ->; destruct (Z.eq_dec (e_id e) (e_id e)); [lia|congruence]|].
  specialize (IH H). lia.
Qed.

(* one step preserves the invariant; every expiry it reports was overdue *)
Lemma gstep_GI ttl g EX GOT ev :
  GI ttl g EX GOT ->
  let '(g', os) := gstep g ev in
  GI ttl g' (expired_ids os ++ EX) (got_ids os ++ GOT)
  /\ (forall x, In (OExpired x) os -> overdue ttl (so_now x) (so_entry x)).
Proof.
  intros (Httl & Hnd & Hcnt & Hsw). destruct ev as [t o now|t|t now]; cbn [gstep].
  - (* CBegin *)
    destruct (dget t (g_calls g)) as [k0|]; [cbv beta iota; cbn [expired_ids got_ids app]; split; [unfold GI; auto|intros x []]|].
    destruct o as [m|r].
    + (* put: stores a fresh entry, then a new sweep over everything *)
      pose proof (put_store_frame (g_corr g) now m (g_next g)) as [Hps Hpt].
      cbn [expired_ids got_ids app]. split; [|intros x [E|[]]; discriminate].
      unfold GI. cbn [g_corr g_calls g_next]. split; [congruence|]. rewrite Hps.
      split; [apply dkeys_dset_NoDup; exact Hnd|]. split.
      * intros x. specialize (Hcnt x).
        pose proof (dcount_dset e_id x (sm_seq m) {| e_at := now; e_msg := m; e_id := g_next g |} (c_store (g_corr g))) as Hd.
        cbn [e_id] in Hd. destruct (Z.eq_dec (g_next g) x) as [<-|Hne]; [|split; lia].
        destruct Hcnt as [H1 H2].
        assert ((dcount e_id (g_next g) (c_store (g_corr g)) + cntl (g_next g) EX + cntl (g_next g) GOT = 0)%nat) as Hz.
        { destruct (dcount e_id (g_next g) (c_store (g_corr g)) + cntl (g_next g) EX + cntl (g_next g) GOT)%nat eqn:E0; [reflexivity|].
          assert (g_next g < g_next g) by (apply H2; lia). lia. }
        split; lia.
      * intros t' k' Hin. apply dset_In in Hin as [E|Hin].
        -- injection E as _ ->. cbn [k_bound k_sweep sweep_start sw_keys sw_now]. rewrite Hps. split; [lia|].
           intros key e He _ _. eapply In_dkeys; eauto.
        -- destruct (Hsw t' k' Hin) as [Hb Hk]. split; [lia|].
           intros key e He Hlt Ho. apply dset_In in He as [E|He]; [|apply (Hk key e He Hlt Ho)].
           injection E as _ ->. cbn [e_id] in Hlt. lia.
    + (* get: pop, then a new sweep *)
      pose proof (get_pop_frame (g_corr g) r) as [Hf1 Hf2].
      destruct (get_pop (g_corr g) r) as [c1 oe] eqn:Egp. cbn [fst snd] in Hf1, Hf2.
      destruct (dget (rs_seq r) (c_store (g_corr g))) as [e|] eqn:Eg; [destruct (answers r (e_msg e))|].
      * destruct Hf2 as [-> Hst]. cbn [expired_ids got_ids app]. split; [|intros x [E|[]]; discriminate].
        unfold GI. cbn [g_corr g_calls g_next]. split; [congruence|]. rewrite Hst.
        split; [apply dkeys_ddel_NoDup; exact Hnd|]. split.
        -- intros x. specialize (Hcnt x). pose proof (dcount_ddel e_id x (rs_seq r) (c_store (g_corr g))) as Hd.
           rewrite Eg in Hd. rewrite cntl_cons. destruct (Z.eq_dec (e_id e) x); lia.
        -- intros t' k' Hin. apply dset_In in Hin as [E|Hin].
           ++ injection E as _ ->. cbn [k_bound k_sweep sweep_start sw_keys sw_now]. rewrite Hst. split; [lia|].
              intros key e' He _ _. eapply In_dkeys; eauto.
           ++ destruct (Hsw t' k' Hin) as [Hb Hk]. split; [exact Hb|].
              intros key e' He. apply Hk. eapply ddel_subset; eauto.
      * injection Hf2 as -> ->. cbn [expired_ids got_ids app]. split; [|intros x [E|[]]; discriminate].
        unfold GI. cbn [g_corr g_calls g_next]. split; [exact Httl|]. split; [exact Hnd|]. split; [exact Hcnt|].
        intros t' k' Hin. apply dset_In in Hin as [E|Hin].
        -- injection E as _ ->. cbn [k_bound k_sweep sweep_start sw_keys sw_now]. split; [lia|].
           intros key e' He _ _. eapply In_dkeys; eauto.
        -- apply (Hsw t' k' Hin).
      * injection Hf2 as -> ->. cbn [expired_ids got_ids app]. split; [|intros x [E|[]]; discriminate].
        unfold GI. cbn [g_corr g_calls g_next]. split; [exact Httl|]. split; [exact Hnd|]. split; [exact Hcnt|].
        intros t' k' Hin. apply dset_In in Hin as [E|Hin].
        -- injection E as _ ->. cbn [k_bound k_sweep sweep_start sw_keys sw_now]. split; [lia|].
           intros key e' He _ _. eapply In_dkeys; eauto.
        -- apply (Hsw t' k' Hin).
  - (* CStep *)
    destruct (dget t (g_calls g)) as [k|] eqn:Ek; [|cbv beta iota; cbn [expired_ids got_ids app]; split; [unfold GI; auto|intros x []]].
    apply dget_In in Ek. destruct (Hsw t k Ek) as [Hbk Hkk].
    unfold sweep_step. destruct (sw_keys (k_sweep k)) as [|k0 ks] eqn:Eks.
    + (* nothing left *)
      cbn [expired_ids got_ids app]. split; [|intros x []].
      unfold GI. cbn [g_corr g_calls g_next]. split; [exact Httl|]. split; [exact Hnd|]. split; [exact Hcnt|].
      intros t' k' Hin. apply dset_In in Hin as [E|Hin]; [|apply (Hsw t' k' Hin)].
      injection E as _ ->. cbn [k_bound k_sweep]. split; [exact Hbk|].
      intros key e He Hb Ho. specialize (Hkk key e He Hb Ho). try rewrite Eks in Hkk. destruct Hkk.
    + destruct (dget k0 (c_store (g_corr g))) as [e0|] eqn:Eg.
      * destruct (qlt (c_ttl (g_corr g)) (sw_now (k_sweep k) - e_at e0)) eqn:Eo.
        -- (* expired: delete, then expired() *)
           pose proof (expired_frame (with_store (g_corr g) (ddel k0 (c_store (g_corr g)))) (e_msg e0)) as [Hes Het].
           destruct (expired (with_store (g_corr g) (ddel k0 (c_store (g_corr g)))) (e_msg e0)) as [c2 call].
           cbn [fst with_store c_store c_ttl] in Hes, Het.
           cbn [expired_ids got_ids app so_entry]. split.
           ++ unfold GI. cbn [g_corr g_calls g_next]. split; [congruence|]. rewrite Hes.
              split; [apply dkeys_ddel_NoDup; exact Hnd|]. split.
              ** intros x. specialize (Hcnt x). pose proof (dcount_ddel e_id x k0 (c_store (g_corr g))) as Hd.
                 rewrite Eg in Hd. rewrite cntl_cons. destruct (Z.eq_dec (e_id e0) x); lia.
              ** intros t' k' Hin. apply dset_In in Hin as [E|Hin].
                 --- injection E as _ ->. cbn [k_bound k_sweep sw_keys sw_now]. split; [exact Hbk|].
                     intros key e He Hb Ho. pose proof (ddel_subset _ _ _ He) as He'.
                     specialize (Hkk key e He' Hb Ho). try rewrite Eks in Hkk. destruct Hkk as [<-|Hkk]; [|exact Hkk].
                     exfalso. eapply ddel_removes; eauto.
                 --- destruct (Hsw t' k' Hin) as [Hb Hk]. split; [exact Hb|].
                     intros key e He. apply Hk. eapply ddel_subset; eauto.
           ++ intros x [E|[]]. injection E as <-. cbn [so_now so_entry]. unfold overdue.
              apply qlt_true in Eo. rewrite Httl in Eo. exact Eo.
        -- (* not yet due *)
           cbn [expired_ids got_ids app]. split; [|intros x []].
           unfold GI. cbn [g_corr g_calls g_next]. split; [exact Httl|]. split; [exact Hnd|]. split; [exact Hcnt|].
           intros t' k' Hin. apply dset_In in Hin as [E|Hin]; [|apply (Hsw t' k' Hin)].
           injection E as _ ->. cbn [k_bound k_sweep sw_keys sw_now]. split; [exact Hbk|].
           intros key e He Hb Ho. specialize (Hkk key e He Hb Ho). try rewrite Eks in Hkk. destruct Hkk as [<-|Hkk]; [|exact Hkk].
           exfalso. apply dget_In in Eg.
           assert (e = e0) as ->.
           { clear - Hnd He Eg. unfold dkeys in Hnd. induction (c_store (g_corr g)) as [|[k1 v1] tl IH]; [destruct He|].
             cbn [map fst] in Hnd. inversion_clear Hnd as [|? ? Hn Ht].
             destruct He as [E1|He], Eg as [E2|Eg].
             - congruence.
             - injection E1 as -> ->. exfalso. apply Hn. apply in_map_iff. exists (k0, e0). auto.
             - injection E2 as -> ->. exfalso. apply Hn. apply in_map_iff. exists (k0, e). auto.
             - apply IH; auto. }
           unfold overdue in Ho. apply qlt_false in Eo. rewrite Httl in Eo. lra.
      * (* key vanished meanwhile *)
        cbn [expired_ids got_ids app]. split; [|intros x []].
        unfold GI. cbn [g_corr g_calls g_next]. split; [exact Httl|]. split; [exact Hnd|]. split; [exact Hcnt|].
        intros t' k' Hin. apply dset_In in Hin as [E|Hin]; [|apply (Hsw t' k' Hin)].
        injection E as _ ->. cbn [k_bound k_sweep sw_keys sw_now]. split; [exact Hbk|].
        intros key e He Hb Ho. specialize (Hkk key e He Hb Ho). try rewrite Eks in Hkk. destruct Hkk as [<-|Hkk]; [|exact Hkk].
        exfalso. eapply dget_None_notin; eauto.
  - (* CFinish *)
    destruct (dget t (g_calls g)) as [k|] eqn:Ek; [|cbv beta iota; cbn [expired_ids got_ids app]; split; [unfold GI; auto|intros x []]].
    destruct (sw_keys (k_sweep k)) as [|k0 ks]; [|cbv beta iota; cbn [expired_ids got_ids app]; split; [unfold GI; auto|intros x []]].
    cbn [expired_ids got_ids app]. split; [|intros x []].
    unfold GI. cbn [g_corr g_calls g_next]. split; [exact Httl|]. split; [exact Hnd|]. split; [exact Hcnt|].
    intros t' k' Hin. apply ddel_subset in Hin. apply (Hsw t' k' Hin).
Qed.

Lemma grun_GI ttl evs : forall g EX GOT,
  GI ttl g EX GOT ->
  let '(g', os) := grun g evs in
  GI ttl g' (expired_ids os ++ EX) (got_ids os ++ GOT)
  /\ (forall x, In (OExpired x) os -> overdue ttl (so_now x) (so_entry x)).
Proof.
  induction evs as [|ev rest IH]; intros g EX GOT HI; cbn [grun]; [split; [exact HI|intros x []]|].
  pose proof (gstep_GI ttl g EX GOT ev HI) as H1. destruct (gstep g ev) as [g1 o1]. destruct H1 as [HI1 Ho1].
  pose proof (IH g1 _ _ HI1) as H2. destruct (grun g1 rest) as [g2 o2]. destruct H2 as [HI2 Ho2].
  split.
  - rewrite expired_ids_app, got_ids_app.
    destruct HI2 as (A & B & C & D). split; [exact A|]. split; [exact B|]. split; [|exact D].
    intros x. specialize (C x). rewrite !cntl_app in *. lia.
  - intros x Hin. apply in_app_or in Hin as [Hin|Hin]; auto.
Qed.

(* ---------- the C14 statements ---------- *)

(* (a) never early *)
Theorem never_early ttl evs x :
  In (OExpired x) (snd (grun (ginit ttl) evs)) -> (ttl < so_now x - e_at (so_entry x))%Q.
Proof.
  pose proof (grun_GI ttl evs (ginit ttl) [] [] (GI_init ttl)) as H.
  destruct (grun (ginit ttl) evs) as [g os]. destruct H as [_ H]. cbn [snd]. intros Hin. apply (H x Hin).
Qed.

(* (b),(c) every stored entry leaves the store at most once: expired at most once, and never both
   expired and handed to a response *)
Theorem expire_or_answer_once ttl evs :
  let os := snd (grun (ginit ttl) evs) in
  NoDup (expired_ids os ++ got_ids os).
Proof.
  pose proof (grun_GI ttl evs (ginit ttl) [] [] (GI_init ttl)) as H.
  destruct (grun (ginit ttl) evs) as [g os]. destruct H as [(_ & _ & Hc & _) _]. cbn [snd]. rewrite !app_nil_r in Hc.
  apply (NoDup_count_occ Z.eq_dec). intros x. specialize (Hc x). rewrite count_occ_app. unfold cntl in Hc. lia.
Qed.

(* (b) timeliness: when a call's sweep has visited all its keys, nothing that was overdue when the
   sweep began is left in the store - so the call (the first request sent after the TTL elapsed)
   completes only after every overdue entry was expired or answered *)
Theorem sweep_leaves_nothing_overdue ttl evs t k key e :
  let g := fst (grun (ginit ttl) evs) in
  In (t, k) (g_calls g) -> sw_keys (k_sweep k) = [] ->
  In (key, e) (c_store (g_corr g)) -> e_id e < k_bound k ->
  ~ (ttl < sw_now (k_sweep k) - e_at e)%Q.
Proof.
  pose proof (grun_GI ttl evs (ginit ttl) [] [] (GI_init ttl)) as H.
  destruct (grun (ginit ttl) evs) as [g os]. destruct H as [(_ & _ & _ & Hsw) _]. cbn [fst].
  intros Hin Hk He Hb Ho. destruct (Hsw t k Hin) as [_ Hkk]. specialize (Hkk key e He Hb Ho). rewrite Hk in Hkk. exact Hkk.
Qed.

(* every sweep covers every entry present when it begins *)
Theorem begin_covers_store ttl g EX GOT t o now :
  GI ttl g EX GOT -> dget t (g_calls g) = None ->
  let g' := fst (gstep g (CBegin t o now)) in
  exists k, In (t, k) (g_calls g') /\ k_bound k = g_next g' /\ sw_now (k_sweep k) = now
            /\ forall key e, In (key, e) (c_store (g_corr g')) -> In key (sw_keys (k_sweep k)).
Proof.
  intros HI Hn. cbn [gstep]. rewrite Hn. destruct o as [m|r].
  - cbn [fst g_calls g_next g_corr]. eexists. split; [apply dget_In, dget_dset_same|].
    cbn [k_bound k_sweep sweep_start sw_now sw_keys]. repeat split. intros key e He. eapply In_dkeys; eauto.
  - destruct (get_pop (g_corr g) r) as [c1 oe]. cbn [fst g_calls g_next g_corr]. eexists. split; [apply dget_In, dget_dset_same|].
    cbn [k_bound k_sweep sweep_start sw_now sw_keys]. repeat split. intros key e He. eapply In_dkeys; eauto.
Qed.

(* an expiring plain SubmitSm is reported to send_error as itself *)
Theorem plain_expiry_reports_message c sw c' sw' o :
  sweep_step c sw = (c', sw', Some o) ->
  is_submit (e_msg (so_entry o)) = true -> dget (sm_seq (e_msg (so_entry o))) (c_seg c) = None ->
  so_call o = Some (e_msg (so_entry o)).
Proof.
  unfold sweep_step. destruct (sw_keys sw) as [|k ks]; [discriminate|].
  destruct (dget k (c_store c)) as [e|]; [|discriminate].
  destruct (qlt (c_ttl c) (sw_now sw - e_at e)); [|discriminate].
  pose proof (expired_plain (with_store c (ddel k (c_store c))) (e_msg e)) as Hp.
  destruct (expired (with_store c (ddel k (c_store c))) (e_msg e)) as [c2 call]. cbn [snd with_store c_seg] in Hp.
  intros H. injection H as _ _ <-. cbn [so_entry so_call]. intros H1 H2. apply Hp; assumption.
Qed.

(* (d) at the level of the correlator: the request is in the store from the first atomic piece of put() on - before the sweep
   of that call (which may suspend in the application's hook) has run at all *)
Theorem put_visible_at_once g t m now :
  dget t (g_calls g) = None ->
  dget (sm_seq m) (c_store (g_corr (fst (gstep g (CBegin t (OpPut m) now)))))
  = Some {| e_at := now; e_msg := m; e_id := g_next g |}.
Proof.
  intros Hn. cbn [gstep]. rewrite Hn. cbn [fst g_corr].
  destruct (put_store_frame (g_corr g) now m (g_next g)) as [-> _]. apply dget_dset_same.
Qed.
