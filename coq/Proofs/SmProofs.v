(* Lemmas for C03/C04: decoding a specification submit_sm / deliver_sm - the optional-parameter loop for any number of
   parameters in any order, then the whole body. *)
From Coq Require Import ZArith List Bool Lia.
Import ListNotations.
Require Import AV.Generated.GsmTables AV.Generated.ExnOrder AV.Generated.SmppConsts
               AV.Model.Base AV.Model.Codec AV.Model.Split AV.Model.TimeFmt AV.Model.Pdu
               AV.Spec.Smpp34 AV.Proofs.PduProofs AV.Proofs.WireProofs.
Open Scope Z_scope.
Ltac Zify.zify_post_hook ::= Z.to_euclidean_division_equations.

(* ---------- what one optional parameter on the wire means ---------- *)
Definition octet (x : Z) : Prop := 0 <= x <= 255.

Definition int_of_bytes (v : list Z) : res Z :=
  match v with
  | [a] => Ok a
  | [a; b] => Ok (a * 256 + b)
  | [a; b; c; d] => Ok (((a * 256 + b) * 256 + c) * 256 + d)
  | _ => Err EXN_KeyError
  end.

Definition strip_nul (tag : Z) (s : list Z) : list Z :=
  if mem tag tlv_cstring_tags_tlv then match rev s with 0 :: r => rev r | _ => s end else s.

(* the optional-parameter area read as a list of (tag, value octets), in the order sent *)
Fixpoint tlvs_meaning (esm : Z) (codec : enc) (tl : list (Z * list Z)) (acc : list optparam) (payload : list Z)
  : res (list optparam * list Z) :=
  match tl with
  | [] => Ok (acc, payload)
  | (tag, v) :: t =>
    if tag =? TAG_MESSAGE_PAYLOAD then
      do tp <- decode_message esm codec v; tlvs_meaning esm codec t (acc ++ snd tp) (fst tp)
    else match tag_data_type tag with
         | TyInt => do x <- int_of_bytes v; tlvs_meaning esm codec t (acc ++ [{| op_tag := tag; op_val := TInt x |}]) payload
         | TyBool => tlvs_meaning esm codec t (acc ++ [{| op_tag := tag; op_val := TBool true |}]) payload
         | TyStr => do s <- (if mem tag tlv_cstring_tags_tlv then ascii_decode v else Ok v);    (* C-octet strings are ASCII; octet strings any octets *)
                    tlvs_meaning esm codec t (acc ++ [{| op_tag := tag; op_val := TStr (strip_nul tag s) |}]) payload
         end
  end.

(* well-formed on the wire: tag and length fit their two octets, a flag parameter has no value *)
Definition wf_tlv (t : Z * list Z) : Prop :=
  0 <= fst t <= 65535 /\ Z.of_nat (length (snd t)) <= 65535
  /\ (fst t <> TAG_MESSAGE_PAYLOAD -> tag_data_type (fst t) = TyBool -> snd t = []).

Definition tlv_area (tl : list (Z * list Z)) : list Z := concat (map (fun t => spec_tlv (fst t) (snd t)) tl).

Lemma unpackH_u16 pdu i x rest : 0 <= x <= 65535 -> skipn i pdu = u16 x ++ rest -> unpackH pdu i = Ok x.
Proof. intros Hx H. unfold unpackH. rewrite H. cbn [u16 app]. f_equal. lia. Qed.

Lemma skipn_plus {A} (l : list A) i j : skipn (i + j) l = skipn j (skipn i l).
Proof.
  revert l. induction i as [|i IH]; intros l; [reflexivity|].
  destruct l as [|x l]; [cbn [Nat.add skipn]; rewrite skipn_nil; reflexivity|]. cbn [Nat.add skipn]. apply IH.
Qed.

Lemma int_of_bytes_read pdu i v rest : skipn i pdu = v ++ rest ->
  (if Z.of_nat (length v) =? 1 then unpackB pdu i else if Z.of_nat (length v) =? 2 then unpackH pdu i
   else if Z.of_nat (length v) =? 4 then unpackI pdu i else Err EXN_KeyError) = int_of_bytes v.
Proof.
  intros H. destruct v as [|a [|b [|c [|d [|e t]]]]]; cbn [int_of_bytes].
  - reflexivity.
  - change (Z.of_nat (length [a])) with 1. unfold unpackB. rewrite H. reflexivity.
  - change (Z.of_nat (length [a; b])) with 2. unfold unpackH. rewrite H. reflexivity.
  - reflexivity.
  - change (Z.of_nat (length [a; b; c; d])) with 4. unfold unpackI. rewrite H. reflexivity.
  - assert (5 <= Z.of_nat (length (a :: b :: c :: d :: e :: t))) as Hge by (cbn [length]; lia).
    replace (Z.of_nat (length (a :: b :: c :: d :: e :: t)) =? 1) with false by (symmetry; apply Z.eqb_neq; lia).
    replace (Z.of_nat (length (a :: b :: c :: d :: e :: t)) =? 2) with false by (symmetry; apply Z.eqb_neq; lia).
    replace (Z.of_nat (length (a :: b :: c :: d :: e :: t)) =? 4) with false by (symmetry; apply Z.eqb_neq; lia).
    reflexivity.
Qed.

(* the loop of from_pdu over the optional-parameter area: any number of parameters, any order *)
Theorem parse_tlvs_meaning esm codec pdu : forall tl fuel index acc payload,
  Forall wf_tlv tl -> (length tl < fuel)%nat ->
  skipn index pdu = tlv_area tl -> length pdu = (index + length (tlv_area tl))%nat ->
  parse_tlvs fuel esm codec pdu (length pdu) index acc payload = tlvs_meaning esm codec tl acc payload.
Proof.
  induction tl as [|[tag v] t IH]; intros fuel index acc payload Hwf Hfuel Hsk Hlen.
  - destruct fuel as [|f]; [cbn [length] in Hfuel; lia|]. cbn [parse_tlvs tlvs_meaning]. cbn [tlv_area map concat length] in Hlen.
    replace (Nat.leb (length pdu) index) with true by (symmetry; apply Nat.leb_le; lia). reflexivity.
  - destruct fuel as [|f]; [cbn [length] in Hfuel; lia|]. cbn [length] in Hfuel.
    inversion_clear Hwf as [|? ? Hw Hwt]. destruct Hw as (Htag & Hvl & Hflag). cbn [fst snd] in *.
    unfold tlv_area in Hsk, Hlen. cbn [map concat fst snd] in Hsk, Hlen. fold (tlv_area t) in Hsk, Hlen.
    unfold spec_tlv in Hsk, Hlen. rewrite <- !app_assoc in Hsk.
    cbn [parse_tlvs tlvs_meaning].
    replace (Nat.leb (length pdu) index) with false by (symmetry; apply Nat.leb_gt; rewrite Hlen, !app_length; cbn [u16 length]; lia).
    rewrite (unpackH_u16 pdu index tag _ Htag Hsk). cbn [rbind].
    assert (skipn (index + 2) pdu = u16 (Z.of_nat (length v)) ++ v ++ tlv_area t) as Hsk2.
    { rewrite skipn_plus, Hsk. reflexivity. }
    assert (0 <= Z.of_nat (length v) <= 65535) as Hvl2 by lia.
    rewrite (unpackH_u16 pdu (index + 2) _ _ Hvl2 Hsk2). cbn [rbind].
    assert (skipn (index + 4) pdu = v ++ tlv_area t) as Hsk4.
    { replace (index + 4)%nat with (index + 2 + 2)%nat by lia. rewrite skipn_plus, Hsk2. reflexivity. }
    rewrite Nat2Z.id.
    assert (skipn (index + 4 + length v) pdu = tlv_area t) as Hnext.
    { rewrite skipn_plus, Hsk4. rewrite skipn_app, skipn_all, Nat.sub_diag. reflexivity. }
    assert (length pdu = (index + 4 + length v + length (tlv_area t))%nat) as Hlen'.
    { rewrite Hlen, !app_length. cbn [u16 length]. lia. }
    assert (slice_b pdu (index + 4) (length v) = v) as Hslice.
    { unfold slice_b. rewrite Hsk4, firstn_app, firstn_all, Nat.sub_diag. cbn [firstn]. apply app_nil_r. }
    destruct (tag =? TAG_MESSAGE_PAYLOAD) eqn:Ep.
    + rewrite Hslice. destruct (decode_message esm codec v) as [tp|]; cbn [rbind]; [|reflexivity].
      apply IH; [exact Hwt|lia|exact Hnext|exact Hlen'].
    + destruct (tag_data_type tag) eqn:Ety.
      * rewrite (int_of_bytes_read pdu (index + 4) v (tlv_area t) Hsk4).
        destruct (int_of_bytes v) as [x|]; cbn [rbind]; [|reflexivity].
        apply IH; [exact Hwt|lia|exact Hnext|exact Hlen'].
      * apply Z.eqb_neq in Ep. rewrite (Hflag Ep eq_refl) in *. cbn [length app] in *.
        apply IH; [exact Hwt|lia| |].
        -- rewrite Nat.add_0_r in Hnext. exact Hnext.
        -- lia.
      * rewrite Hslice. destruct (if mem tag tlv_cstring_tags_tlv then ascii_decode v else Ok v) as [s|]; cbn [rbind]; [|reflexivity].
        apply IH; [exact Hwt|lia|exact Hnext|exact Hlen'].
Qed.

(* ---------- the whole body ---------- *)
Lemma tlv_count_le tl : (length tl <= length (tlv_area tl))%nat.
Proof.
  induction tl as [|[tag v] t IH]; [cbn; lia|].
  change (tlv_area ((tag, v) :: t)) with (spec_tlv tag v ++ tlv_area t).
  rewrite app_length. unfold spec_tlv. rewrite !app_length. change (length (u16 tag)) with 2%nat.
  change (length (u16 (Z.of_nat (length v)))) with 2%nat. cbn [length]. lia.
Qed.

(* the message object the decoder must build from the wire fields *)
Definition sm_of (seq : Z) (f : sm_wire) (default codec : enc) (short payload : list Z) (opts : list optparam) (sch val : timeval) : smsg :=
  {| s_seq := seq; s_status := 0; s_short := short;
     s_src := {| ph_number := w_src f; ph_ton := w_src_ton f; ph_npi := w_src_npi f |};
     s_dst := {| ph_number := w_dst f; ph_ton := w_dst_ton f; ph_npi := w_dst_npi f |};
     s_service := w_service f; s_esm := w_esm f; s_pid := w_pid f; s_prio := w_prio f; s_sched := sch; s_valid := val;
     s_regdel := w_regdel f; s_replace := w_replace f;
     s_enc := (if enc_eqb codec default then None else Some codec);
     s_defmsg := w_defmsg f; s_payload := payload; s_opts := opts; s_auto := true; s_err := HStrict; s_pre := [] |}.

Record wf_wire (f : sm_wire) : Prop := {
  wf_service : ok_cstr (w_service f) /\ (length (w_service f) <= 5)%nat;
  wf_src : ok_cstr (w_src f) /\ (length (w_src f) <= 20)%nat;
  wf_dst : ok_cstr (w_dst f) /\ (length (w_dst f) <= 20)%nat;
  wf_sched : ok_cstr (w_sched f);
  wf_valid : ok_cstr (w_valid f);
  wf_tons : mem (w_src_ton f) TON_values = true /\ mem (w_dst_ton f) TON_values = true;
  wf_npis : mem (w_src_npi f) NPI_values = true /\ mem (w_dst_npi f) NPI_values = true;
  wf_smlen : Z.of_nat (length (w_sm f)) <= 255
}.

Theorem sm_decode_spec default cmd seq f tl codec short opts0 opts payload sch val :
  (cmd =? SmppCommand_SUBMIT_SM) || (cmd =? SmppCommand_DELIVER_SM) = true ->
  mem cmd SmppCommand_values = true -> u32r seq ->
  wf_wire f -> w_tlvs f = tlv_area tl -> Forall wf_tlv tl ->
  16 + Z.of_nat (length (spec_sm_body f)) <= 4294967295 ->
  enc_of_data_coding (w_dc f) default = Ok codec ->
  decode_message (w_esm f) codec (w_sm f) = Ok (short, opts0) ->
  tlvs_meaning (w_esm f) codec tl opts0 [] = Ok (opts, payload) ->
  smpp_to_time (w_sched f) = Ok sch -> smpp_to_time (w_valid f) = Ok val ->
  (short = [] \/ payload = []) ->
  let pdu := spec_pdu cmd 0 seq (spec_sm_body f) in
  exists h, parse_header pdu = Ok h /\ decode default pdu h = Ok (MSm cmd (sm_of seq f default codec short payload opts sch val)).
Proof.
  intros Hcmd Hc Hq Hwf Htl Hwtl Hbig Hdc Hdm Htm Hts Htv Hxor pdu.
  destruct Hwf as [[Ssv Lsv] [Ssr Lsr] [Sds Lds] Ssc Svl [Ht1 Ht2] [Hn1 Hn2] Hsm].
  pose proof (enum_u32 cmd (or_introl Hc)) as Rc.
  assert (mem 0 SmppCommandStatus_values = true) as Hs0 by (vm_compute; reflexivity).
  set (body := spec_sm_body f) in *.
  assert (pack_header (16 + Z.of_nat (length body)) cmd 0 seq = Ok (u32 (16 + Z.of_nat (length body)) ++ u32 cmd ++ u32 0 ++ u32 seq)) as Eh.
  { apply pack_header_total; unfold u32r in *; try assumption; lia. }
  set (hd := u32 (16 + Z.of_nat (length body)) ++ u32 cmd ++ u32 0 ++ u32 seq) in *.
  assert (pdu = hd ++ body) as Epdu by (unfold pdu, spec_pdu, hd; rewrite <- !app_assoc; reflexivity).
  pose proof (header_roundtrip _ cmd 0 seq hd body Eh Hc Hs0) as Hp. rewrite <- Epdu in Hp.
  eexists. split; [exact Hp|].
  assert (length hd = 16%nat) as Hlen by reflexivity.
  unfold decode. cbn [h_cmd h_len h_seq h_status]. rewrite Hcmd. unfold decode_sm. cbn [h_len h_seq].
  (* the mandatory fields, one after the other *)
  assert (skipn 16 pdu = w_service f ++ 0 :: w_src_ton f :: w_src_npi f :: w_src f ++ 0 :: w_dst_ton f :: w_dst_npi f :: w_dst f ++ 0
                         :: w_esm f :: w_pid f :: w_prio f :: w_sched f ++ 0 :: w_valid f ++ 0
                         :: w_regdel f :: w_replace f :: w_dc f :: w_defmsg f :: Z.of_nat (length (w_sm f)) :: w_sm f ++ w_tlvs f) as K0.
  { rewrite Epdu, (skipn_header _ _ Hlen). unfold body, spec_sm_body, cz, u8. rewrite <- !app_assoc. reflexivity. }
  destruct (get_cstr_at pdu 16 _ _ K0 Ssv) as [-> K1]. cbn [rbind]. cbv beta iota.
  set (i1 := S (16 + length (w_service f))) in *.
  destruct (unpackB_at pdu i1 _ _ K1) as [-> K2]. cbn [rbind]. rewrite (mem_enum_ok _ _ Ht1). cbn [rbind].
  replace (i1 + 1)%nat with (S i1) by lia. destruct (unpackB_at pdu _ _ _ K2) as [-> K3]. cbn [rbind]. rewrite (mem_enum_ok _ _ Hn1). cbn [rbind].
  replace (i1 + 2)%nat with (S (S i1)) by lia. destruct (get_cstr_at pdu _ _ _ K3 Ssr) as [-> K4]. cbn [rbind]. cbv beta iota.
  rewrite (check_len_ok _ _ Lsr). cbn [rbind].
  set (i2 := S (S (S i1) + length (w_src f))) in *.
  destruct (unpackB_at pdu i2 _ _ K4) as [-> K5]. cbn [rbind]. rewrite (mem_enum_ok _ _ Ht2). cbn [rbind].
  replace (i2 + 1)%nat with (S i2) by lia. destruct (unpackB_at pdu _ _ _ K5) as [-> K6]. cbn [rbind]. rewrite (mem_enum_ok _ _ Hn2). cbn [rbind].
  replace (i2 + 2)%nat with (S (S i2)) by lia. destruct (get_cstr_at pdu _ _ _ K6 Sds) as [-> K7]. cbn [rbind]. cbv beta iota.
  rewrite (check_len_ok _ _ Lds). cbn [rbind].
  set (i3 := S (S (S i2) + length (w_dst f))) in *.
  destruct (unpackB_at pdu i3 _ _ K7) as [-> K8]. cbn [rbind].
  replace (i3 + 1)%nat with (S i3) by lia. destruct (unpackB_at pdu _ _ _ K8) as [-> K9]. cbn [rbind].
  replace (i3 + 2)%nat with (S (S i3)) by lia. destruct (unpackB_at pdu _ _ _ K9) as [-> K10]. cbn [rbind].
  replace (i3 + 3)%nat with (S (S (S i3))) by lia. destruct (get_cstr_at pdu _ _ _ K10 Ssc) as [-> K11]. cbn [rbind]. cbv beta iota.
  destruct (get_cstr_at pdu _ _ _ K11 Svl) as [-> K12]. cbn [rbind]. cbv beta iota.
  set (i4 := S (S (S (S (S i3)) + length (w_sched f)) + length (w_valid f))) in *.
  destruct (unpackB_at pdu i4 _ _ K12) as [-> K13]. cbn [rbind].
  replace (i4 + 1)%nat with (S i4) by lia. destruct (unpackB_at pdu _ _ _ K13) as [-> K14]. cbn [rbind].
  replace (i4 + 2)%nat with (S (S i4)) by lia. destruct (unpackB_at pdu _ _ _ K14) as [-> K15]. cbn [rbind].
  rewrite Hdc. cbn [rbind].
  replace (i4 + 3)%nat with (S (S (S i4))) by lia. destruct (unpackB_at pdu _ _ _ K15) as [-> K16]. cbn [rbind].
  replace (i4 + 4)%nat with (S (S (S (S i4)))) by lia. destruct (unpackB_at pdu _ _ _ K16) as [-> K17]. cbn [rbind].
  cbv zeta. rewrite Nat2Z.id.
  replace (i4 + 5)%nat with (S (S (S (S (S i4))))) by lia.
  assert (slice_b pdu (S (S (S (S (S i4))))) (length (w_sm f)) = w_sm f) as ->.
  { unfold slice_b. rewrite K17, firstn_app, firstn_all, Nat.sub_diag. cbn [firstn]. apply app_nil_r. }
  rewrite Hdm. cbn [rbind]. cbv beta iota.
  (* the optional parameters *)
  assert (skipn (S (S (S (S (S i4)))) + length (w_sm f)) pdu = tlv_area tl) as Ktl.
  { rewrite skipn_plus, K17, skipn_app, skipn_all, Nat.sub_diag, <- Htl. reflexivity. }
  assert (length pdu = (S (S (S (S (S i4)))) + length (w_sm f) + length (tlv_area tl))%nat) as Hplen.
  { pose proof (f_equal (@length Z) K16) as E1. rewrite skipn_length in E1. cbn [length] in E1.
    pose proof (f_equal (@length Z) K17) as E2. rewrite skipn_length, app_length, Htl in E2. lia. }
  assert (Z.to_nat (16 + Z.of_nat (length body)) = length pdu) as ->.
  { rewrite Epdu, app_length, Hlen. lia. }
  rewrite (parse_tlvs_meaning (w_esm f) codec pdu tl (S (length pdu)) _ opts0 [] Hwtl); [|pose proof (tlv_count_le tl); lia|exact Ktl|exact Hplen].
  rewrite Htm. cbn [rbind]. cbv beta iota. rewrite Hts, Htv. cbn [rbind]. rewrite (check_len_ok _ _ Lsv). cbn [rbind].
  destruct Hxor as [->| ->].
  - cbn [andb]. reflexivity.
  - destruct short as [|s0 st]; cbn [andb]; reflexivity.
Qed.


(* ---------- optional parameters: what the encoder writes is read back ---------- *)
Definition tlv_of_opt (p : optparam) : list (Z * list Z) :=
  match tag_data_type (op_tag p), op_val p with
  | TyInt, TInt v => [(op_tag p, be (op_length p) v)]
  | TyStr, TStr s => [(op_tag p, if mem (op_tag p) tlv_cstring_tags_tlv then s ++ [0] else s)]
  | TyBool, TBool true => [(op_tag p, [])]
  | _, _ => []
  end.
Definition tl_of (opts : list optparam) : list (Z * list Z) := flat_map tlv_of_opt opts.
(* an unset flag parameter is simply absent *)
Definition norm_opts (opts : list optparam) : list optparam :=
  filter (fun p => match op_val p with TBool false => false | _ => true end) opts.

(* constructor-valid: the value has the type the tag calls for, the tag is not message_payload, C-octet strings are ASCII,
   octet strings any octets (one per character) *)
Definition opt_wf (p : optparam) : Prop :=
  op_tag p <> TAG_MESSAGE_PAYLOAD /\
  match tag_data_type (op_tag p), op_val p with
  | TyInt, TInt _ => True
  | TyStr, TStr s => if mem (op_tag p) tlv_cstring_tags_tlv then ascii_text s else octet_text s
  | TyBool, TBool _ => True
  | _, _ => False
  end.

Lemma int_format_identity len w : lookup len tlv_int_format = Some w -> w = len /\ (len = 1 \/ len = 2 \/ len = 4).
Proof.
  unfold tlv_int_format. rewrite !lookup_cons, lookup_nil. destruct (len =? 1) eqn:E1; [apply Z.eqb_eq in E1; intros H; injection H as <-; lia|].
  destruct (len =? 2) eqn:E2; [apply Z.eqb_eq in E2; intros H; injection H as <-; lia|].
  destruct (len =? 4) eqn:E4; [apply Z.eqb_eq in E4; intros H; injection H as <-; lia|discriminate].
Qed.

Lemma op_tlv_spec p b : opt_wf p -> op_tlv p = Ok b ->
  b = tlv_area (tlv_of_opt p) /\ Forall wf_tlv (tlv_of_opt p).
Proof.
  intros [Hnp Hty] H. unfold op_tlv in H. unfold tlv_of_opt.
  destruct (tag_data_type (op_tag p)) eqn:Ety; destruct (op_val p) as [v|s|bo] eqn:Ev; try contradiction.
  - destruct (lookup (op_length p) tlv_int_format) as [w|] eqn:El; [|discriminate].
    destruct (int_format_identity _ _ El) as [-> Hlen].
    apply rapp_inv in H as (x1 & r1 & H1 & H & ->). apply rapp_inv in H as (x2 & x3 & H2 & H3 & ->).
    apply packH_inv in H1 as [R1 ->]. apply packH_inv in H2 as [R2 ->].
    assert (x3 = be (op_length p) v /\ Z.of_nat (length x3) = op_length p) as [-> Hl3].
    { unfold pack_width in H3. unfold be. destruct Hlen as [E|[E|E]]; rewrite E in *; cbn [Z.eqb Pos.eqb] in *.
      - apply packB_inv in H3 as [_ ->]. split; reflexivity.
      - apply packH_inv in H3 as [_ ->]. split; reflexivity.
      - apply packI_inv in H3 as [_ ->]. split; reflexivity. }
    split.
    + unfold tlv_area. cbn [map concat fst snd]. unfold spec_tlv. rewrite Hl3, app_nil_r, <- ?app_assoc. reflexivity.
    + constructor; [|constructor]. unfold wf_tlv. cbn [fst snd]. split; [exact R1|]. split; [lia|].
      intros _ Hb. rewrite Ety in Hb. discriminate.
  - destruct bo.
    + apply rapp_inv in H as (x1 & x2 & H1 & H2 & ->). apply packH_inv in H1 as [R1 ->]. apply packH_inv in H2 as [R2 E2].
      assert (op_length p = 0) as Hl0.
      { unfold op_length. rewrite Ev.
        assert (mem (op_tag p) tlv_len1_tags = false /\ mem (op_tag p) tlv_len2_tags = false /\ mem (op_tag p) tlv_len4_tags = false) as (A1 & A2 & A4).
        { unfold tag_data_type in Ety. destruct (mem (op_tag p) tag_int_tags) eqn:Ei; [discriminate|].
          assert (forall l, forallb (fun t => mem t tag_int_tags) l = true -> mem (op_tag p) l = false) as Hsub.
          { intros l Hl. destruct (mem (op_tag p) l) eqn:Em; [|reflexivity]. apply mem_In' in Em. rewrite forallb_forall in Hl. rewrite (Hl _ Em) in Ei. discriminate. }
          repeat split; apply Hsub; vm_compute; reflexivity. }
        rewrite A1, A2, A4. destruct (mem (op_tag p) tlv_cstring_tags); reflexivity. }
      subst x2. rewrite Hl0. split.
      * unfold tlv_area. cbn [map concat fst snd]. unfold spec_tlv. cbn [length Z.of_nat]. rewrite !app_nil_r. reflexivity.
      * constructor; [|constructor]. unfold wf_tlv. cbn [fst snd length]. split; [exact R1|]. split; [lia|]. intros; reflexivity.
    + injection H as <-. split; [reflexivity|constructor].
  - destruct (if mem (op_tag p) tlv_cstring_tags_tlv then ascii_encode s else latin1_encode s) as [val|] eqn:Ea; cbn [rbind] in H; [|discriminate].
    assert (val = s) as ->.
    { destruct (mem (op_tag p) tlv_cstring_tags_tlv); [unfold ascii_encode in Ea|unfold latin1_encode in Ea];
        (destruct (forallb _ s); [injection Ea as <-; reflexivity|discriminate]). }
    apply rapp_inv in H as (x1 & r1 & H1 & H & ->). apply rapp_inv in H as (x2 & x3 & H2 & H3 & ->).
    apply packH_inv in H1 as [R1 ->]. apply packH_inv in H2 as [R2 ->]. injection H3 as <-.
    (* the length field is the length of the value written *)
    assert (op_length p = Z.of_nat (length (if mem (op_tag p) tlv_cstring_tags_tlv then s ++ [0] else s))) as Hl.
    { unfold op_length. rewrite Ev.
      assert (mem (op_tag p) tlv_len1_tags = false /\ mem (op_tag p) tlv_len2_tags = false /\ mem (op_tag p) tlv_len4_tags = false) as (A1 & A2 & A4).
      { unfold tag_data_type in Ety. destruct (mem (op_tag p) tag_int_tags) eqn:Ei; [discriminate|].
        assert (forall l, forallb (fun t => mem t tag_int_tags) l = true -> mem (op_tag p) l = false) as Hsub.
        { intros l Hl. destruct (mem (op_tag p) l) eqn:Em; [|reflexivity]. apply mem_In' in Em. rewrite forallb_forall in Hl. rewrite (Hl _ Em) in Ei. discriminate. }
        repeat split; apply Hsub; vm_compute; reflexivity. }
      rewrite A1, A2, A4. change tlv_cstring_tags_tlv with tlv_cstring_tags. destruct (mem (op_tag p) tlv_cstring_tags); [rewrite app_length; cbn [length]; lia|reflexivity]. }
    split.
    + unfold tlv_area. cbn [map concat fst snd]. unfold spec_tlv. rewrite <- Hl, app_nil_r, <- ?app_assoc. reflexivity.
    + constructor; [|constructor]. unfold wf_tlv. cbn [fst snd]. split; [exact R1|]. split; [lia|].
      intros _ Hb. rewrite Ety in Hb. discriminate.
Qed.

Lemma tlv_area_app a b : tlv_area (a ++ b) = tlv_area a ++ tlv_area b.
Proof. unfold tlv_area. rewrite map_app, concat_app. reflexivity. Qed.

Lemma rconcat_opts opts : forall b, Forall opt_wf opts -> rconcat (map op_tlv opts) = Ok b ->
  b = tlv_area (tl_of opts) /\ Forall wf_tlv (tl_of opts).
Proof.
  induction opts as [|p t IH]; intros b Hwf H; cbn [map rconcat] in H.
  - injection H as <-. split; [reflexivity|constructor].
  - inversion_clear Hwf as [|? ? Hp Ht]. apply rapp_inv in H as (x & y & Hx & Hy & ->).
    destruct (op_tlv_spec p x Hp Hx) as [-> Hw1]. destruct (IH y Ht Hy) as [-> Hw2].
    unfold tl_of. cbn [flat_map]. fold (tl_of t). rewrite tlv_area_app. split; [reflexivity|apply Forall_app; split; assumption].
Qed.

Lemma int_of_bytes_be len v : (len = 1 \/ len = 2 \/ len = 4) -> 0 <= v < 256 ^ len -> int_of_bytes (be len v) = Ok v.
Proof.
  intros [->|[->| ->]] Hv; unfold be; cbn [Z.eqb Pos.eqb u8 u16 u32 int_of_bytes]; f_equal; lia.
Qed.

Lemma ascii_decode_text s : ascii_text s -> ascii_decode s = Ok s.
Proof.
  intros H. unfold ascii_decode. replace (forallb (fun c => c <? 128) s) with true; [reflexivity|].
  symmetry. apply forallb_forall. intros c Hc. unfold ascii_text in H. rewrite Forall_forall in H. specialize (H c Hc). lia.
Qed.

Lemma meaning_of_opts esm codec : forall opts acc payload,
  Forall opt_wf opts -> Forall (fun p => exists b, op_tlv p = Ok b) opts ->
  tlvs_meaning esm codec (tl_of opts) acc payload = Ok (acc ++ norm_opts opts, payload).
Proof.
  induction opts as [|p t IH]; intros acc payload Hwf Hok; [cbn; rewrite app_nil_r; reflexivity|].
  inversion_clear Hwf as [|? ? [Hnp Hty] Hwt]. inversion_clear Hok as [|? ? [b Hb] Hot].
  unfold tl_of. cbn [flat_map]. fold (tl_of t). unfold tlv_of_opt. cbn [norm_opts filter].
  assert (op_tag p =? TAG_MESSAGE_PAYLOAD = false) as Ep by (apply Z.eqb_neq; exact Hnp).
  destruct p as [tag val]. cbn [op_tag op_val] in *.
  destruct (tag_data_type tag) eqn:Ety; destruct val as [v|s|bo]; try contradiction.
  - (* integer *)
    cbn [app tlvs_meaning]. rewrite Ep, Ety.
    unfold op_tlv in Hb. cbn [op_tag op_val] in Hb. rewrite Ety in Hb.
    destruct (lookup (op_length {| op_tag := tag; op_val := TInt v |}) tlv_int_format) as [w|] eqn:El; [|discriminate].
    destruct (int_format_identity _ _ El) as [-> Hlen].
    apply rapp_inv in Hb as (x1 & r1 & _ & Hb & _). apply rapp_inv in Hb as (x2 & x3 & _ & H3 & _).
    assert (0 <= v < 256 ^ op_length {| op_tag := tag; op_val := TInt v |}) as Hv.
    { unfold pack_width in H3. destruct Hlen as [E|[E|E]]; rewrite E in *; cbn [Z.eqb Pos.eqb] in H3.
      - apply packB_inv in H3 as [R _]. lia.
      - apply packH_inv in H3 as [R _]. lia.
      - apply packI_inv in H3 as [R _]. lia. }
    rewrite (int_of_bytes_be _ v Hlen Hv). cbn [rbind]. rewrite (IH _ payload Hwt Hot), <- app_assoc. reflexivity.
  - (* the flag parameter *)
    destruct bo.
    + cbn [app tlvs_meaning]. rewrite Ep, Ety. rewrite (IH _ payload Hwt Hot), <- app_assoc. reflexivity.
    + cbn [app]. apply (IH acc payload Hwt Hot).
  - (* strings *)
    cbn [app tlvs_meaning]. rewrite Ep, Ety.
    assert ((if mem tag tlv_cstring_tags_tlv then ascii_decode (if mem tag tlv_cstring_tags_tlv then s ++ [0] else s)
             else Ok (if mem tag tlv_cstring_tags_tlv then s ++ [0] else s))
            = Ok (if mem tag tlv_cstring_tags_tlv then s ++ [0] else s)) as Ha.
    { destruct (mem tag tlv_cstring_tags_tlv); [|reflexivity]. apply ascii_decode_text. apply Forall_app. split; [exact Hty|constructor; [lia|constructor]]. }
    rewrite Ha. cbn [rbind].
    assert (strip_nul tag (if mem tag tlv_cstring_tags_tlv then s ++ [0] else s) = s) as ->.
    { unfold strip_nul. destruct (mem tag tlv_cstring_tags_tlv); [|reflexivity]. rewrite rev_app_distr. cbn [rev app]. apply rev_involutive. }
    rewrite (IH _ payload Hwt Hot), <- app_assoc. reflexivity.
Qed.

(* ---------- submit_sm / deliver_sm round trip ---------- *)
Lemma codec_decode_nil ce : modelled_codec ce = true -> codec_decode ce [] = Ok [].
Proof. destruct ce; try discriminate; intros _; reflexivity. Qed.

Lemma decode_message_plain esm ce raw : (esm / 64) mod 2 = 0 ->
  decode_message esm ce raw = (do t <- codec_decode ce raw; Ok (t, [])).
Proof. intros H. unfold decode_message. rewrite H. reflexivity. Qed.

Definition in_payload (m : smsg) (bytes : list Z) : bool :=
  (254 <? Z.of_nat (length bytes)) || (match s_payload m with [] => false | _ => true end).

(* the message that comes back: the documented normalisations and nothing else *)
Definition sm_back (m : smsg) (default ce : enc) (bytes : list Z) (sch val : timeval) : smsg :=
  {| s_seq := s_seq m; s_status := 0;
     s_short := if in_payload m bytes then [] else text_of m;
     s_src := s_src m; s_dst := s_dst m; s_service := s_service m;
     s_esm := s_esm m; s_pid := s_pid m; s_prio := s_prio m; s_sched := sch; s_valid := val;
     s_regdel := s_regdel m; s_replace := s_replace m;
     s_enc := (if enc_eqb ce default then None else Some ce);
     s_defmsg := s_defmsg m;
     s_payload := if in_payload m bytes then text_of m else [];
     s_opts := norm_opts (s_opts m); s_auto := true; s_err := HStrict; s_pre := [] |}.

Record sm_domain (default : enc) (m : smsg) : Prop := {
  d_status : s_status m = 0;
  d_pre : s_pre m = [];
  d_strict : s_err m = HStrict;
  d_no_udhi : (s_esm m / 64) mod 2 = 0;                 (* UDH-segmented messages are the subject of C08/C09 *)
  d_default : modelled_codec default = true;
  d_enc : forall e, s_enc m = Some e -> modelled_codec e = true /\ (e = EncGsm -> default = EncGsm);
  d_service : ok_cstr (s_service m) /\ (length (s_service m) <= 5)%nat;
  d_src : ok_cstr (ph_number (s_src m)) /\ (length (ph_number (s_src m)) <= 20)%nat
          /\ mem (ph_ton (s_src m)) TON_values = true /\ mem (ph_npi (s_src m)) NPI_values = true;
  d_dst : ok_cstr (ph_number (s_dst m)) /\ (length (ph_number (s_dst m)) <= 20)%nat
          /\ mem (ph_ton (s_dst m)) TON_values = true /\ mem (ph_npi (s_dst m)) NPI_values = true;
  d_opts : Forall opt_wf (s_opts m)          (* the text may be empty: sm_length 0 and no message_payload *)
}.

Lemma header_of_spec_pdu cmd seq body :
  mem cmd SmppCommand_values = true -> 0 <= seq <= 4294967295 -> 16 + Z.of_nat (length body) <= 4294967295 ->
  parse_header (spec_pdu cmd 0 seq body) = Ok {| h_len := 16 + Z.of_nat (length body); h_cmd := cmd; h_status := 0; h_seq := seq |}.
Proof.
  intros Hc Hq Hs. assert (mem 0 SmppCommandStatus_values = true) as Hs0 by (vm_compute; reflexivity).
  pose proof (enum_u32 cmd (or_introl Hc)) as Rc.
  assert (pack_header (16 + Z.of_nat (length body)) cmd 0 seq = Ok (u32 (16 + Z.of_nat (length body)) ++ u32 cmd ++ u32 0 ++ u32 seq)) as Eh
    by (apply pack_header_total; unfold u32r in *; lia).
  pose proof (header_roundtrip _ cmd 0 seq _ body Eh Hc Hs0) as Hp. unfold spec_pdu. rewrite <- !app_assoc in Hp. exact Hp.
Qed.

Theorem sm_roundtrip default cmd m b sch val :
  (cmd =? SmppCommand_SUBMIT_SM) || (cmd =? SmppCommand_DELIVER_SM) = true -> mem cmd SmppCommand_values = true ->
  sm_domain default m ->
  (* the two time fields read back as the time parser reads the strings written (C17 says what that is) *)
  (forall s1, time_to_smpp (s_sched m) = Ok s1 -> ok_cstr s1 /\ smpp_to_time s1 = Ok sch) ->
  (forall s1, time_to_smpp (s_valid m) = Ok s1 -> ok_cstr s1 /\ smpp_to_time s1 = Ok val) ->
  encode default (MSm cmd m) = Ok b ->
  exists h ce bytes, parse_header b = Ok h /\ decode default b h = Ok (MSm cmd (sm_back m default ce bytes sch val))
                     /\ (exists e', smpp_encode default m (text_of m) = Ok (bytes, e')) /\ codec_decode ce bytes = Ok (text_of m).
Proof.
  intros Hcmd Hc [Hst Hpre Hstrict Hudhi Hdef Henc [Ssv Lsv] (Ssr & Lsr & Ht1 & Hn1) (Sds & Lds & Ht2 & Hn2) Hopts] Htsch Htval He.
  destruct (sm_layout default cmd m b He) as (sm & ptlv & opts & dc & sched & valid & Eb & Hts & Htv & Hro & Htx & Rseq & Rtot).
  rewrite Hpre in Htx. destruct Htx as (bytes & e' & Hse & Hdc & Hcase).
  destruct (Htsch sched Hts) as [Ssc Hps]. destruct (Htval valid Htv) as [Svl Hpv].
  assert (sent_opts m = s_opts m) as Eso by (unfold sent_opts; rewrite Hudhi; reflexivity). rewrite Eso in Hro.
  assert (Forall (fun p => exists x, op_tlv p = Ok x) (s_opts m)) as Hoks.
  { clear - Hro. revert opts Hro. induction (s_opts m) as [|p t IH]; intros opts H; [constructor|].
    cbn [map rconcat] in H. apply rapp_inv in H as (x & y & Hx & Hy & _). constructor; [eauto|eapply IH; eauto]. }
  destruct (rconcat_opts (s_opts m) opts Hopts Hro) as [-> Hwfo].
  destruct (text_decodes default m bytes e' dc Hstrict Hdef Henc Hse Hdc) as (ce & Hce & Hdec).
  destruct tlv_table_is_spec as (_ & _ & _ & _ & _ & Epay & _).
  rewrite Hst in Eb.
  set (tl := (if in_payload m bytes then [(TAG_MESSAGE_PAYLOAD, bytes)] else []) ++ tl_of (s_opts m)).
  set (f := {| w_service := s_service m; w_src_ton := ph_ton (s_src m); w_src_npi := ph_npi (s_src m); w_src := ph_number (s_src m);
               w_dst_ton := ph_ton (s_dst m); w_dst_npi := ph_npi (s_dst m); w_dst := ph_number (s_dst m);
               w_esm := s_esm m; w_pid := s_pid m; w_prio := s_prio m; w_sched := sched; w_valid := valid;
               w_regdel := s_regdel m; w_replace := s_replace m; w_dc := dc; w_defmsg := s_defmsg m;
               w_sm := sm; w_tlvs := tlv_area tl |}).
  (* which way the text went *)
  assert (in_payload m bytes = false /\ sm = bytes /\ ptlv = [] /\ Z.of_nat (length bytes) <= 254
          \/ in_payload m bytes = true /\ sm = [] /\ ptlv = spec_tlv TAG_MESSAGE_PAYLOAD bytes /\ Z.of_nat (length bytes) <= 65535) as Hway.
  { destruct Hcase as [(E1 & E2 & Hl & Hp)|(E1 & E2 & Hl & Hb)].
    - left. split; [|auto]. unfold in_payload. rewrite Hp. replace (254 <? Z.of_nat (length bytes)) with false by (symmetry; apply Z.ltb_ge; lia). reflexivity.
    - right. split; [exact Hb|]. rewrite Epay. auto. }
  assert (b = spec_pdu cmd 0 (s_seq m) (spec_sm_body f)) as Eb'.
  { rewrite Eb. f_equal. unfold spec_sm_body. cbn [f w_service w_src_ton w_src_npi w_src w_dst_ton w_dst_npi w_dst w_esm w_pid w_prio w_sched w_valid
                                                    w_regdel w_replace w_dc w_defmsg w_sm w_tlvs]. do 18 f_equal.
    unfold tl. rewrite tlv_area_app. f_equal.
    destruct Hway as [(-> & _ & -> & _)|(-> & _ & -> & _)]; [reflexivity|]. unfold tlv_area. cbn [map concat fst snd]. rewrite app_nil_r. reflexivity. }
  assert (16 + Z.of_nat (length (spec_sm_body f)) <= 4294967295) as Hsize.
  { rewrite Eb' in Rtot. unfold spec_pdu in Rtot. rewrite !app_length in Rtot. cbn [u32 length] in Rtot. lia. }
  assert (wf_wire f) as Hwf.
  { constructor; cbn [f w_service w_src w_dst w_sched w_valid w_src_ton w_dst_ton w_src_npi w_dst_npi w_sm]; auto.
    destruct Hway as [(_ & -> & _ & Hl)|(_ & -> & _)]; [lia|cbn; lia]. }
  assert (Forall wf_tlv tl) as Hwtl.
  { unfold tl. apply Forall_app. split; [|exact Hwfo]. destruct Hway as [(-> & _)|(-> & _ & _ & Hl)]; [constructor|].
    constructor; [|constructor]. unfold wf_tlv. cbn [fst snd]. split; [rewrite Epay; vm_compute; split; discriminate|]. split; [exact Hl|].
    intros Hne. contradiction. }
  assert (decode_message (s_esm m) ce bytes = Ok (text_of m, [])) as Hdmb.
  { rewrite (decode_message_plain _ _ _ Hudhi), Hdec. reflexivity. }
  assert (exists short payload, decode_message (w_esm f) ce (w_sm f) = Ok (short, [])
            /\ tlvs_meaning (w_esm f) ce tl [] [] = Ok (norm_opts (s_opts m), payload)
            /\ short = (if in_payload m bytes then [] else text_of m) /\ payload = (if in_payload m bytes then text_of m else [])
            /\ (short = [] \/ payload = [])) as (short & payload & Hdm & Htm & Es & Ep & Hxor).
  { cbn [f w_esm w_sm]. unfold tl. destruct Hway as [(Hip & -> & _ & _)|(Hip & -> & _ & _)]; rewrite Hip.
    - exists (text_of m), []. split; [exact Hdmb|]. split; [cbn [app]; rewrite (meaning_of_opts _ _ _ [] [] Hopts Hoks); reflexivity|].
      split; [reflexivity|]. split; [reflexivity|]. right. reflexivity.
    - exists [], (text_of m). split; [rewrite (decode_message_plain _ _ _ Hudhi), (codec_decode_nil ce); [reflexivity|]|].
      { clear - Hce Hdef Henc Hdc Hse Hstrict. (* the codec chosen on reception is a modelled one *)
        assert (dc = 0 \/ dc = SmppDataCoding_ascii \/ dc = SmppDataCoding_latin_1 \/ dc = SmppDataCoding_ucs2) as Hdcs.
        { unfold smpp_encode in Hse. rewrite Hstrict in Hse. destruct (s_enc m) as [e|] eqn:Ee.
          - destruct (Henc e eq_refl) as [Hm _]. destruct (codec_encode e HStrict _); cbn [rbind] in Hse; [|discriminate]. injection Hse as _ <-.
            destruct e; try discriminate; cbn [enc_data_coding] in Hdc; injection Hdc as <-; auto.
          - destruct (codec_encode default HStrict _) as [x|x]; [injection Hse as _ <-; injection Hdc as <-; auto|].
            destruct (x =? EXN_UnicodeEncodeError); [|discriminate]. destruct (codec_encode EncUcs2 HStrict _); cbn [rbind] in Hse; [|discriminate].
            injection Hse as _ <-. cbn [enc_data_coding] in Hdc. injection Hdc as <-. auto. }
        destruct Hdcs as [->|[->|[->| ->]]]; cbv in Hce; injection Hce as <-; [exact Hdef|reflexivity|reflexivity|reflexivity]. }
      split.
      { cbn [app tlvs_meaning]. rewrite Z.eqb_refl, Hdmb. cbn [rbind fst snd app]. rewrite (meaning_of_opts _ _ _ [] (text_of m) Hopts Hoks). reflexivity. }
      split; [reflexivity|]. split; [reflexivity|]. left. reflexivity. }
  destruct (sm_decode_spec default cmd (s_seq m) f tl ce short [] (norm_opts (s_opts m)) payload sch val
              Hcmd Hc Rseq Hwf eq_refl Hwtl Hsize Hce Hdm Htm Hps Hpv Hxor) as (h & Hph & Hd).
  rewrite <- Eb' in Hph, Hd.
  exists h, ce, bytes. split; [exact Hph|]. split; [|split; [eauto|exact Hdec]].
  rewrite Hd. do 2 f_equal. unfold sm_of, sm_back. rewrite Es, Ep.
  cbn [f w_service w_src w_dst w_src_ton w_src_npi w_dst_ton w_dst_npi w_esm w_pid w_prio w_regdel w_replace w_defmsg].
  destruct (s_src m), (s_dst m). reflexivity.
Qed.
