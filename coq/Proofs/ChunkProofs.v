(* Generic facts about the `while start < total_len` splitting loop (Model/Split.v chunk_loop). *)
From Coq Require Import ZArith List Bool Lia Arith.
Import ListNotations.
Require Import AV.Model.Base AV.Model.Split.
Open Scope Z_scope.

Lemma firstn_skipn_length {A} (n : nat) (l : list A) : (n <= length l)%nat -> length (skipn n l) = (length l - n)%nat.
Proof. intros _. apply skipn_length. Qed.

Section Chunks.
  Variables (L k : nat) (guard : list Z -> bool).
  Hypothesis HkL : (k < L)%nat.

  Definition cut (rem : list Z) : nat :=
    let n := Nat.min L (length rem) in
    if Nat.eqb n L && guard (firstn L rem) then (n - k)%nat else n.

  Lemma cut_bounds rem : rem <> [] -> (1 <= cut rem <= Nat.min L (length rem))%nat.
  Proof.
    intros Hne. unfold cut. assert (1 <= length rem)%nat by (destruct rem; [congruence|cbn; lia]).
    destruct (Nat.eqb_spec (Nat.min L (length rem)) L) as [E|E]; cbn [andb]; [|lia].
    destruct (guard (firstn L rem)); lia.
  Qed.

  Lemma chunk_loop_unfold f rem : rem <> [] ->
    chunk_loop (S f) L k guard rem = firstn (cut rem) rem :: chunk_loop f L k guard (skipn (cut rem) rem).
  Proof. intros Hne. cbn [chunk_loop]. destruct rem; [congruence|reflexivity]. Qed.

  Lemma chunk_concat f : forall rem, (length rem < f)%nat -> concat (chunk_loop f L k guard rem) = rem.
  Proof.
    induction f as [|f IH]; intros rem Hf; [lia|].
    destruct rem as [|x t] eqn:E; [reflexivity|]. rewrite <- E in *.
    assert (rem <> []) as Hne by (rewrite E; discriminate).
    rewrite chunk_loop_unfold by exact Hne. cbn [concat].
    pose proof (cut_bounds rem Hne) as Hc.
    rewrite IH by (rewrite skipn_length; lia). apply firstn_skipn.
  Qed.

  Lemma chunk_sizes f : forall rem, (length rem < f)%nat ->
    Forall (fun c => (1 <= length c <= L)%nat) (chunk_loop f L k guard rem).
  Proof.
    induction f as [|f IH]; intros rem Hf; [lia|].
    destruct rem as [|x t] eqn:E; [constructor|]. rewrite <- E in *.
    assert (rem <> []) as Hne by (rewrite E; discriminate).
    rewrite chunk_loop_unfold by exact Hne. pose proof (cut_bounds rem Hne) as Hc.
    constructor; [rewrite firstn_length; lia|]. apply IH. rewrite skipn_length. lia.
  Qed.

  (* enough fuel is enough *)
  Lemma chunk_fuel f1 : forall f2 rem, (length rem < f1)%nat -> (length rem < f2)%nat ->
    chunk_loop f1 L k guard rem = chunk_loop f2 L k guard rem.
  Proof.
    induction f1 as [|f1 IH]; intros f2 rem H1 H2; [lia|].
    destruct f2 as [|f2]; [lia|].
    destruct rem as [|x t] eqn:E; [reflexivity|]. rewrite <- E in *.
    assert (rem <> []) as Hne by (rewrite E; discriminate).
    rewrite !chunk_loop_unfold by exact Hne. pose proof (cut_bounds rem Hne) as Hc.
    f_equal. apply IH; rewrite skipn_length; lia.
  Qed.

  Lemma chunk_count_le f : forall rem, (length rem < f)%nat ->
    (length (chunk_loop f L k guard rem) <= length rem)%nat.
  Proof.
    induction f as [|f IH]; intros rem Hf; [lia|].
    destruct rem as [|x t] eqn:E; [cbn; lia|]. rewrite <- E in *.
    assert (rem <> []) as Hne by (rewrite E; discriminate).
    rewrite chunk_loop_unfold by exact Hne. pose proof (cut_bounds rem Hne) as Hc. cbn [length].
    specialize (IH (skipn (cut rem) rem)). rewrite skipn_length in IH. lia.
  Qed.

  Lemma chunk_nonempty f rem : rem <> [] -> (length rem < f)%nat -> chunk_loop f L k guard rem <> [].
  Proof. intros Hne Hf. destruct f; [lia|]. rewrite chunk_loop_unfold by exact Hne. discriminate. Qed.
End Chunks.

Lemma last_skipn n (l : list Z) : (n < length l)%nat -> last (skipn n l) 0 = last l 0.
Proof.
  revert l. induction n as [|n IH]; intros l H; [reflexivity|].
  destruct l as [|x t]; [cbn in H; lia|]. cbn [skipn]. cbn [length] in H.
  rewrite IH by lia. destruct t; [cbn in H; lia|reflexivity].
Qed.

Lemma last_firstn n (l : list Z) : (1 <= n <= length l)%nat -> last (firstn n l) 0 = nth (n - 1) l 0.
Proof.
  revert l. induction n as [|n IH]; intros l H; [lia|].
  destruct l as [|x t]; [cbn in H; lia|]. cbn [firstn]. cbn [length] in H.
  destruct n as [|n'].
  - reflexivity.
  - destruct t as [|y t']; [cbn in H; lia|].
    change (last (x :: firstn (S n') (y :: t')) 0) with (last (firstn (S n') (y :: t')) 0).
    rewrite IH by (cbn [length] in *; lia). cbn [Nat.sub nth]. rewrite Nat.sub_0_r. reflexivity.
Qed.


Lemma In_skipn' {A} (n : nat) (l : list A) x : In x (skipn n l) -> In x l.
Proof. intros H. rewrite <- (firstn_skipn n l). apply in_or_app. right. exact H. Qed.
Lemma In_firstn' {A} (n : nat) (l : list A) x : In x (firstn n l) -> In x l.
Proof. intros H. rewrite <- (firstn_skipn n l). apply in_or_app. left. exact H. Qed.

Lemma nth_firstn_lt (i n : nat) (l : list Z) : (i < n)%nat -> nth i (firstn n l) 0 = nth i l 0.
Proof.
  revert n l. induction i as [|i IH]; intros n l H; (destruct n as [|n]; [lia|]); destruct l as [|x t]; try reflexivity.
  cbn [firstn nth]. apply IH. lia.
Qed.

(* ---------- a marked unit must stay with its successor ---------- *)
Section Marks.
  Variable mark : Z -> bool.
  Variable L : nat.
  Hypothesis HL : (2 <= L)%nat.

  Definition guard_last (chunk : list Z) : bool := mark (last chunk 0).

  Fixpoint no_adj (l : list Z) : bool :=
    match l with
    | x :: (y :: _) as t => negb (mark x && mark y) && no_adj t
    | _ => true
    end.

  Definition ends_ok (l : list Z) : Prop := l = [] \/ mark (last l 0) = false.

  Lemma no_adj_skipn n : forall l, no_adj l = true -> no_adj (skipn n l) = true.
  Proof.
    induction n as [|n IH]; intros l H; [exact H|].
    destruct l as [|x t]; [reflexivity|]. cbn [skipn]. apply IH.
    destruct t as [|y t']; [reflexivity|]. cbn [no_adj] in H. apply andb_prop in H as [_ H]. exact H.
  Qed.

  (* in a list without two adjacent marked units, a marked unit's predecessor is unmarked *)
  Lemma no_adj_nth l : no_adj l = true -> forall i, (S i < length l)%nat ->
    mark (nth (S i) l 0) = true -> mark (nth i l 0) = false.
  Proof.
    revert l. intros l. induction l as [|x t IH]; intros H i Hi Hm; [cbn in Hi; lia|].
    destruct t as [|y t']; [cbn in Hi; lia|].
    cbn [no_adj] in H. apply andb_prop in H as [H1 H2].
    destruct i as [|i].
    - cbn [nth] in *. rewrite Hm in H1. destruct (mark x); [discriminate|reflexivity].
    - cbn [nth]. apply (IH H2 i); [cbn [length] in *; lia|exact Hm].
  Qed.

  Theorem chunks_never_end_marked f : forall rem, (length rem < f)%nat ->
    no_adj rem = true -> ends_ok rem ->
    Forall (fun c => mark (last c 0) = false) (chunk_loop f L 1 guard_last rem).
  Proof.
    induction f as [|f IH]; intros rem Hf Hna He; [lia|].
    destruct rem as [|x t] eqn:E; [constructor|]. rewrite <- E in *.
    assert (rem <> []) as Hne by (rewrite E; discriminate).
    assert (1 < L)%nat as HkL by lia.
    rewrite (chunk_loop_unfold L 1 guard_last f rem Hne).
    pose proof (cut_bounds L 1 guard_last HkL rem Hne) as Hc.
    assert (1 <= length rem)%nat as Hlen by (rewrite E; cbn; lia).
    constructor.
    - (* this chunk *)
      unfold cut in *.
      destruct (Nat.eqb_spec (Nat.min L (length rem)) L) as [EL|EL]; cbn [andb] in *.
      + assert (L <= length rem)%nat as HLl by lia.
        unfold guard_last in *. rewrite (last_firstn L rem) in * by lia.
        destruct (mark (nth (L - 1) rem 0)) eqn:Em.
        * rewrite EL. rewrite last_firstn by lia.
          replace (L - 1 - 1)%nat with (L - 2)%nat by lia.
          apply (no_adj_nth rem Hna (L - 2)%nat); [lia|].
          replace (S (L - 2)) with (L - 1)%nat by lia. exact Em.
        * rewrite EL. rewrite last_firstn by lia. exact Em.
      + (* the last, shorter chunk is the whole remainder *)
        assert (Nat.min L (length rem) = length rem) as -> by lia.
        rewrite firstn_all. destruct He as [He|He]; [congruence|exact He].
    - apply IH.
      + rewrite skipn_length. lia.
      + apply no_adj_skipn. exact Hna.
      + destruct (Nat.eq_dec (cut L 1 guard_last rem) (length rem)) as [Eq|Neq].
        * left. rewrite Eq. apply skipn_all.
        * right. rewrite last_skipn by lia. destruct He as [He|He]; [congruence|exact He].
  Qed.
End Marks.
