From Coq Require Import ZArith List Bool Lia.
Import ListNotations.
Require Import AV.Generated.Handled AV.Model.Seq AV.Model.Resume.
Open Scope Z_scope.

Lemma zmax0_ge l x : In x l -> x <= zmax0 l.
Proof. induction l as [|y t IH]; intros H; [destruct H|]. cbn [zmax0]. destruct H as [->|H]; [lia|]. specialize (IH H). lia. Qed.
Lemma zmax0_nonneg l : 0 <= zmax0 l.
Proof. induction l as [|y t IH]; cbn [zmax0]; lia. Qed.

(* counting up from cur without reaching the maximum *)
Lemma take_numbers_above n : forall g, sg_cur g + Z.of_nat n <= sg_max g ->
  forall x, In x (take_numbers n g) -> sg_cur g < x <= sg_cur g + Z.of_nat n.
Proof.
  induction n as [|k IH]; intros g Hroom x Hin; [destruct Hin|].
  cbn [take_numbers] in Hin. unfold next_sequence in Hin. cbn zeta in Hin.
  destruct (Z.eqb_spec (sg_cur g) (sg_max g)) as [E|E]; [lia|].
  destruct Hin as [<-|Hin]; [lia|].
  specialize (IH {| sg_min := sg_min g; sg_max := sg_max g; sg_cur := sg_cur g + 1 |}). cbn [sg_cur sg_max] in IH.
  specialize (IH ltac:(lia) x Hin). lia.
Qed.

(* after a restart: as long as the generator has not reached its maximum, no number it hands out is one the correlator still knows *)
Theorem resumed_numbers_are_fresh mn mx stored n :
  (forall s, In s stored -> 0 < s) -> stored <> [] ->
  zmax0 stored + Z.of_nat n <= mx ->
  forall x, In x (take_numbers n (resume (seq_init mn mx) stored)) -> ~ In x stored.
Proof.
  intros Hpos Hne Hroom x Hin Hst.
  assert (0 < zmax0 stored) as Hm.
  { destruct stored as [|s t]; [congruence|]. pose proof (Hpos s (or_introl eq_refl)). pose proof (zmax0_ge (s :: t) s (or_introl eq_refl)). lia. }
  unfold resume in Hin. assert (esme_resumes_after_stored_numbers = true) as E by reflexivity. rewrite E in Hin.
  replace (0 <? zmax0 stored) with true in Hin by (symmetry; apply Z.ltb_lt; exact Hm). cbn [andb] in Hin.
  unfold seq_init in Hin. cbn [sg_min sg_max] in Hin.
  pose proof (take_numbers_above n {| sg_min := mn; sg_max := mx; sg_cur := zmax0 stored |} Hroom x Hin) as Hx. cbn [sg_cur] in Hx.
  pose proof (zmax0_ge stored x Hst). lia.
Qed.

(* nothing stored: the generator starts where it always did *)
Lemma resume_nothing g : resume g [] = g.
Proof. unfold resume. cbn [zmax0]. rewrite andb_false_r. reflexivity. Qed.
