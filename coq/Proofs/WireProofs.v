(* Lemmas for C04: the model encoder lays bytes out exactly as Spec/Smpp34.v prescribes; the model decoder
   reads specification PDUs, including shapes the library itself never emits. *)
From Coq Require Import ZArith List Bool Lia ZifyBool.
Import ListNotations.
Require Import AV.Generated.GsmTables AV.Generated.ExnOrder AV.Generated.SmppConsts
               AV.Model.Base AV.Model.Codec AV.Model.Split AV.Model.TimeFmt AV.Model.Pdu
               AV.Spec.Smpp34 AV.Proofs.CodecProofs AV.Proofs.SplitProofs AV.Proofs.PduProofs.
Open Scope Z_scope.
Ltac Zify.zify_post_hook ::= Z.to_euclidean_division_equations.

(* ---------- constants: command ids and the optional-parameter table ---------- *)
Definition model_commands : list Z :=
  [SmppCommand_GENERIC_NACK; SmppCommand_BIND_RECEIVER; SmppCommand_BIND_RECEIVER_RESP; SmppCommand_BIND_TRANSMITTER;
   SmppCommand_BIND_TRANSMITTER_RESP; SmppCommand_SUBMIT_SM; SmppCommand_SUBMIT_SM_RESP; SmppCommand_DELIVER_SM;
   SmppCommand_DELIVER_SM_RESP; SmppCommand_UNBIND; SmppCommand_UNBIND_RESP; SmppCommand_BIND_TRANSCEIVER;
   SmppCommand_BIND_TRANSCEIVER_RESP; SmppCommand_ENQUIRE_LINK; SmppCommand_ENQUIRE_LINK_RESP].

Lemma command_ids_are_spec :
  model_commands = spec_commands
  /\ forallb (fun c => mem c message_type_map_keys) spec_commands = true
  /\ forallb (fun c => mem c spec_commands) message_type_map_keys = true.
Proof. vm_compute. repeat split; reflexivity. Qed.

Definition int_len (tag : Z) : Z :=
  if mem tag tlv_len1_tags then 1 else if mem tag tlv_len2_tags then 2 else if mem tag tlv_len4_tags then 4 else 0.

Definition row_ok (row : Z * (tlvkind * Z)) : bool :=
  let '(tag, (k, size)) := row in
  if tag =? TLV_MESSAGE_PAYLOAD then (tag =? TAG_MESSAGE_PAYLOAD) && (match k with KOStr => true | _ => false end)
  else match k with
  | KInt => match tag_data_type tag with TyInt => true | _ => false end && (int_len tag =? size)
            && (match lookup size tlv_int_format with Some w => w =? size | None => false end)
            && ((size =? 1) || (size =? 2) || (size =? 4))
  | KCStr => match tag_data_type tag with TyStr => true | _ => false end && (int_len tag =? 0)
             && mem tag tlv_cstring_tags && mem tag tlv_cstring_tags_tlv
  | KOStr => match tag_data_type tag with TyStr => true | _ => false end && (int_len tag =? 0)
             && negb (mem tag tlv_cstring_tags) && negb (mem tag tlv_cstring_tags_tlv)
  | KFlag => match tag_data_type tag with TyBool => true | _ => false end && (int_len tag =? 0)
             && negb (mem tag tlv_cstring_tags)
  end.

Lemma tlv_table_is_spec : forallb row_ok spec_tlv_table = true
  /\ TAG_SAR_MSG_REF_NUM = TLV_SAR_MSG_REF_NUM /\ TAG_SAR_TOTAL_SEGMENTS = TLV_SAR_TOTAL_SEGMENTS
  /\ TAG_SAR_SEGMENT_SEQNUM = TLV_SAR_SEGMENT_SEQNUM /\ TAG_SC_INTERFACE_VERSION = TLV_SC_INTERFACE_VERSION
  /\ TAG_MESSAGE_PAYLOAD = TLV_MESSAGE_PAYLOAD
  /\ SmppDataCoding_ascii = DC_IA5 /\ SmppDataCoding_latin_1 = DC_LATIN1 /\ SmppDataCoding_ucs2 = DC_UCS2
  /\ SmppDataCoding_gsm0338 = DC_DEFAULT.
Proof. vm_compute. repeat split; reflexivity. Qed.

Lemma row_ok_In row : In row spec_tlv_table -> row_ok row = true.
Proof. intros H. destruct tlv_table_is_spec as [T _]. rewrite forallb_forall in T. exact (T row H). Qed.

(* big-endian value of the given width *)
Definition be (size v : Z) : list Z := if size =? 1 then u8 v else if size =? 2 then u16 v else u32 v.

Lemma packH_ok x : 0 <= x <= 65535 -> packH x = Ok (u16 x).
Proof. intros H. unfold packH. replace ((0 <=? x) && (x <=? 65535)) with true; [reflexivity|]. symmetry. apply andb_true_intro. split; apply Z.leb_le; lia. Qed.
Lemma packH_inv x b : packH x = Ok b -> 0 <= x <= 65535 /\ b = u16 x.
Proof.
  unfold packH. destruct ((0 <=? x) && (x <=? 65535)) eqn:E; [|discriminate]. intros H. injection H as <-.
  apply andb_prop in E as [E1 E2]. apply Z.leb_le in E1, E2. split; [lia|reflexivity].
Qed.

Lemma op_length_int tag v : op_length {| op_tag := tag; op_val := TInt v |} = int_len tag.
Proof.
  unfold op_length, int_len. cbn [op_tag op_val].
  destruct (mem tag tlv_len1_tags); [reflexivity|]. destruct (mem tag tlv_len2_tags); [reflexivity|].
  destruct (mem tag tlv_len4_tags); [reflexivity|]. destruct (mem tag tlv_cstring_tags); reflexivity.
Qed.

(* every integer parameter of the table: tag, its width, the value big-endian *)
Theorem int_tlv_layout tag size v :
  In (tag, (KInt, size)) spec_tlv_table -> 0 <= v < 256 ^ size ->
  op_tlv {| op_tag := tag; op_val := TInt v |} = Ok (spec_tlv tag (be size v)).
Proof.
  intros Hin Hv. pose proof (row_ok_In _ Hin) as R. cbn [row_ok] in R.
  assert (0 <= tag <= 65535) as Htag.
  { assert (forallb (fun r => (0 <=? fst r) && (fst r <=? 65535)) spec_tlv_table = true) as T by (vm_compute; reflexivity).
    rewrite forallb_forall in T. specialize (T _ Hin). cbn [fst] in T. apply andb_prop in T as [T1 T2]. apply Z.leb_le in T1, T2. split; assumption. }
  destruct (tag =? TLV_MESSAGE_PAYLOAD) eqn:Emp.
  { rewrite andb_false_r in R. discriminate. }
  apply andb_prop in R as [R R4]. apply andb_prop in R as [R R3]. apply andb_prop in R as [R1 R2].
  unfold op_tlv. rewrite op_length_int. cbn [op_tag op_val].
  destruct (tag_data_type tag); try discriminate. apply Z.eqb_eq in R2. rewrite R2.
  destruct (lookup size tlv_int_format) as [w|]; [|discriminate]. apply Z.eqb_eq in R3. subst w.
  rewrite (packH_ok tag Htag).
  assert (size = 1 \/ size = 2 \/ size = 4) as Hs by lia.
  unfold spec_tlv, be, pack_width.
  destruct Hs as [->|[->| ->]]; cbn [Z.eqb Pos.eqb].
  - rewrite (packH_ok 1 ltac:(lia)), (packB_ok v ltac:(lia)). reflexivity.
  - rewrite (packH_ok 2 ltac:(lia)), (packH_ok v ltac:(lia)). reflexivity.
  - rewrite (packH_ok 4 ltac:(lia)), (packI_ok v ltac:(lia)). reflexivity.
Qed.

Lemma op_length_str tag s : int_len tag = 0 ->
  op_length {| op_tag := tag; op_val := TStr s |} = if mem tag tlv_cstring_tags then Z.of_nat (length s) + 1 else Z.of_nat (length s).
Proof.
  unfold op_length, int_len. cbn [op_tag op_val].
  destruct (mem tag tlv_len1_tags); [discriminate|]. destruct (mem tag tlv_len2_tags); [discriminate|].
  destruct (mem tag tlv_len4_tags); [discriminate|]. reflexivity.
Qed.

Lemma table_tag_range row : In row spec_tlv_table -> 0 <= fst row <= 65535.
Proof.
  intros Hin. assert (forallb (fun r => (0 <=? fst r) && (fst r <=? 65535)) spec_tlv_table = true) as T by (vm_compute; reflexivity).
  rewrite forallb_forall in T. specialize (T _ Hin). apply andb_prop in T as [T1 T2]. apply Z.leb_le in T1, T2. split; assumption.
Qed.

Definition ascii_text (s : list Z) : Prop := Forall (fun c => 0 <= c < 128) s.
Lemma ascii_encode_text s : ascii_text s -> ascii_encode s = Ok s.
Proof.
  intros H. unfold ascii_encode. replace (forallb (fun c => (0 <=? c) && (c <? 128)) s) with true; [reflexivity|].
  symmetry. apply forallb_forall. intros c Hc. unfold ascii_text in H. rewrite Forall_forall in H. specialize (H c Hc). lia.
Qed.

(* octet strings: any octets, one per character *)
Definition octet_text (s : list Z) : Prop := Forall (fun c => 0 <= c < 256) s.
Lemma latin1_encode_text s : octet_text s -> latin1_encode s = Ok s.
Proof.
  intros H. unfold latin1_encode. replace (forallb (fun c => (0 <=? c) && (c <? 256)) s) with true; [reflexivity|].
  symmetry. apply forallb_forall. intros c Hc. unfold octet_text in H. rewrite Forall_forall in H. specialize (H c Hc). lia.
Qed.
Lemma ascii_is_octet_text s : ascii_text s -> octet_text s.
Proof. unfold ascii_text, octet_text. apply Forall_impl. intros c Hc. lia. Qed.

(* C-octet-string parameters carry a terminating NUL, octet-string parameters do not *)
Theorem cstr_tlv_layout tag s :
  In (tag, (KCStr, 0)) spec_tlv_table -> ascii_text s -> Z.of_nat (length s) < 65535 ->
  op_tlv {| op_tag := tag; op_val := TStr s |} = Ok (spec_tlv tag (cz s)).
Proof.
  intros Hin Hs Hl. pose proof (row_ok_In _ Hin) as R. pose proof (table_tag_range _ Hin) as Htag. cbn [fst] in Htag. cbn [row_ok] in R.
  destruct (tag =? TLV_MESSAGE_PAYLOAD); [rewrite andb_false_r in R; discriminate|].
  apply andb_prop in R as [R R4]. apply andb_prop in R as [R R3]. apply andb_prop in R as [R1 R2]. apply Z.eqb_eq in R2.
  unfold op_tlv. rewrite (op_length_str tag s R2). cbn [op_tag op_val]. rewrite R3, R4.
  destruct (tag_data_type tag); try discriminate. rewrite (ascii_encode_text s Hs). cbn [rbind].
  cbv iota. rewrite (packH_ok tag Htag), (packH_ok (Z.of_nat (length s) + 1) ltac:(lia)). unfold spec_tlv, cz, rapp. cbn [rbind]. rewrite app_length. cbn [length].
  replace (Z.of_nat (length s + 1)) with (Z.of_nat (length s) + 1) by lia. reflexivity.
Qed.

Theorem ostr_tlv_layout tag size s :
  In (tag, (KOStr, size)) spec_tlv_table -> tag <> TLV_MESSAGE_PAYLOAD -> octet_text s -> Z.of_nat (length s) <= 65535 ->
  op_tlv {| op_tag := tag; op_val := TStr s |} = Ok (spec_tlv tag s).
Proof.
  intros Hin Hnp Hs Hl. pose proof (row_ok_In _ Hin) as R. pose proof (table_tag_range _ Hin) as Htag. cbn [fst] in Htag. cbn [row_ok] in R.
  destruct (tag =? TLV_MESSAGE_PAYLOAD) eqn:Emp; [apply Z.eqb_eq in Emp; contradiction|].
  apply andb_prop in R as [R R4]. apply andb_prop in R as [R R3]. apply andb_prop in R as [R1 R2]. apply Z.eqb_eq in R2.
  apply negb_true_iff in R3, R4.
  unfold op_tlv. rewrite (op_length_str tag s R2). cbn [op_tag op_val]. rewrite R3, R4.
  destruct (tag_data_type tag); try discriminate. rewrite (latin1_encode_text s Hs). cbn [rbind].
  cbv iota. rewrite (packH_ok tag Htag), (packH_ok (Z.of_nat (length s)) ltac:(lia)). reflexivity.
Qed.

(* alert_on_message_delivery: present = tag with an empty value, unset = absent *)
Theorem flag_tlv_layout tag :
  In (tag, (KFlag, 0)) spec_tlv_table ->
  op_tlv {| op_tag := tag; op_val := TBool true |} = Ok (spec_tlv tag []) /\ op_tlv {| op_tag := tag; op_val := TBool false |} = Ok [].
Proof.
  intros Hin. pose proof (row_ok_In _ Hin) as R. pose proof (table_tag_range _ Hin) as Htag. cbn [fst] in Htag. cbn [row_ok] in R.
  destruct (tag =? TLV_MESSAGE_PAYLOAD); [rewrite andb_false_r in R; discriminate|].
  apply andb_prop in R as [R R3]. apply andb_prop in R as [R1 R2]. apply Z.eqb_eq in R2. apply negb_true_iff in R3.
  unfold op_tlv. cbn [op_tag op_val]. destruct (tag_data_type tag); try discriminate. split; [|reflexivity].
  assert (op_length {| op_tag := tag; op_val := TBool true |} = 0) as ->.
  { unfold op_length, int_len in *. cbn [op_tag op_val]. destruct (mem tag tlv_len1_tags); [discriminate|].
    destruct (mem tag tlv_len2_tags); [discriminate|]. destruct (mem tag tlv_len4_tags); [discriminate|]. rewrite R3. reflexivity. }
  rewrite (packH_ok tag Htag), (packH_ok 0 ltac:(lia)). reflexivity.
Qed.

(* ---------- header and the simple classes ---------- *)
Lemma pack_header_spec len cmd st seq hd :
  pack_header len cmd st seq = Ok hd -> hd = u32 len ++ u32 cmd ++ u32 st ++ u32 seq.
Proof.
  unfold pack_header. intros H.
  apply rapp_inv in H as (b1 & r1 & H1 & H & ->). apply rapp_inv in H as (b2 & r2 & H2 & H & ->).
  apply rapp_inv in H as (b3 & b4 & H3 & H4 & ->).
  apply packI_inv in H1 as [_ ->]. apply packI_inv in H2 as [_ ->]. apply packI_inv in H3 as [_ ->]. apply packI_inv in H4 as [_ ->].
  reflexivity.
Qed.

Lemma pack_header_total len cmd st seq :
  0 <= len <= 4294967295 -> 0 <= cmd <= 4294967295 -> 0 <= st <= 4294967295 -> 0 <= seq <= 4294967295 ->
  pack_header len cmd st seq = Ok (u32 len ++ u32 cmd ++ u32 st ++ u32 seq).
Proof. intros H1 H2 H3 H4. unfold pack_header. rewrite (packI_ok _ H1), (packI_ok _ H2), (packI_ok _ H3), (packI_ok _ H4). reflexivity. Qed.

Lemma cstr_inv s b : cstr s = Ok b -> b = cz s.
Proof.
  unfold cstr, ascii_encode. destruct (forallb _ s); cbn [rbind]; [|discriminate]. intros H. injection H as <-. reflexivity.
Qed.

Lemma finish_layout body cmd st seq b :
  (do hd <- pack_header (16 + Z.of_nat (length body)) cmd st seq; Ok (hd ++ body)) = Ok b -> b = spec_pdu cmd st seq body.
Proof.
  destruct (pack_header _ _ _ _) as [hd|] eqn:Eh; cbn [rbind]; [|discriminate]. intros H. injection H as <-.
  apply pack_header_spec in Eh. subst hd. unfold spec_pdu. rewrite <- !app_assoc. reflexivity.
Qed.

Theorem simple_layout default msg b :
  encode default msg = Ok b ->
  match msg with
  | MPlain cmd seq st => b = spec_pdu cmd st seq []
  | MSmResp cmd seq st mid => b = spec_pdu cmd st seq (spec_smresp_body mid)
  | MBind cmd bd => b = spec_pdu cmd (b_status bd) (b_seq bd)
                          (spec_bind_body (b_system_id bd) (b_password bd) (b_system_type bd) (b_iface bd) (b_ton bd) (b_npi bd) (b_range bd))
  | MBindResp cmd seq st sid ver => b = spec_pdu cmd st seq (spec_bindresp_body sid ver)
  | MSm _ _ => True
  end.
Proof.
  destruct msg as [cmd m|cmd seq st mid|cmd bd|cmd seq st sid ver|cmd seq st]; cbn [encode]; intros He.
  - exact I.
  - destruct (cstr mid) as [body|] eqn:Eb; cbn [rbind] in He; [|discriminate]. apply cstr_inv in Eb. subst body.
    apply finish_layout in He. exact He.
  - destruct (cstr (b_system_id bd) +++ _) as [body|] eqn:Eb; cbn [rbind] in He; [|discriminate].
    apply finish_layout in He. subst b. f_equal.
    apply rapp_inv in Eb as (x1 & r & E1 & Eb & ->). apply rapp_inv in Eb as (x2 & r2 & E2 & Eb & ->).
    apply rapp_inv in Eb as (x3 & r3 & E3 & Eb & ->). apply rapp_inv in Eb as (x4 & r4 & E4 & Eb & ->).
    apply rapp_inv in Eb as (x5 & r5 & E5 & Eb & ->). apply rapp_inv in Eb as (x6 & x7 & E6 & E7 & ->).
    apply cstr_inv in E1, E2, E3, E7. apply packB_inv in E4 as [_ ->]. apply packB_inv in E5 as [_ ->]. apply packB_inv in E6 as [_ ->].
    subst. reflexivity.
  - destruct (cstr sid +++ _) as [body|] eqn:Eb; cbn [rbind] in He; [|discriminate].
    apply finish_layout in He. subst b. f_equal.
    apply rapp_inv in Eb as (x1 & r & E1 & Eb & ->). apply cstr_inv in E1. subst x1. unfold spec_bindresp_body. f_equal.
    destruct ver as [v|]; [|injection Eb as <-; reflexivity].
    rewrite op_tlv_scver in Eb. apply rapp_inv in Eb as (y1 & r1 & F1 & Eb & ->). apply rapp_inv in Eb as (y2 & y3 & F2 & F3 & ->).
    apply packH_inv in F1 as [_ ->]. apply packH_inv in F2 as [_ ->]. apply packB_inv in F3 as [_ ->].
    destruct tlv_table_is_spec as (_ & _ & _ & _ & -> & _). reflexivity.
  - change 16 with (16 + Z.of_nat (length (@nil Z))) in He. apply pack_header_spec in He. subst b. unfold spec_pdu. rewrite app_nil_r. reflexivity.
Qed.

(* ---------- submit_sm / deliver_sm ---------- *)
Definition text_of (m : smsg) : list Z := match s_short m with [] => s_payload m | t => t end.
Definition sent_opts (m : smsg) : list optparam :=
  if 0 <? (s_esm m / 64) mod 2 then filter (fun p => negb (mem (op_tag p) sar_tags)) (s_opts m) else s_opts m.

Theorem sm_layout default cmd m b :
  encode default (MSm cmd m) = Ok b ->
  exists sm ptlv opts dc sched valid,
    b = spec_pdu cmd (s_status m) (s_seq m)
          (spec_sm_body {| w_service := s_service m;
                           w_src_ton := ph_ton (s_src m); w_src_npi := ph_npi (s_src m); w_src := ph_number (s_src m);
                           w_dst_ton := ph_ton (s_dst m); w_dst_npi := ph_npi (s_dst m); w_dst := ph_number (s_dst m);
                           w_esm := s_esm m; w_pid := s_pid m; w_prio := s_prio m; w_sched := sched; w_valid := valid;
                           w_regdel := s_regdel m; w_replace := s_replace m; w_dc := dc; w_defmsg := s_defmsg m;
                           w_sm := sm; w_tlvs := ptlv ++ opts |})
    /\ time_to_smpp (s_sched m) = Ok sched /\ time_to_smpp (s_valid m) = Ok valid
    /\ rconcat (map op_tlv (sent_opts m)) = Ok opts
    /\ match s_pre m with
       | [] => exists bytes e', smpp_encode default m (text_of m) = Ok (bytes, e')
                 /\ (match e' with Some e => enc_data_coding e | None => Ok 0 end) = Ok dc
                 /\ ((sm = bytes /\ ptlv = [] /\ Z.of_nat (length bytes) <= 254 /\ s_payload m = [])
                     \/ (sm = [] /\ ptlv = spec_tlv TLV_MESSAGE_PAYLOAD bytes /\ Z.of_nat (length bytes) <= 65535
                         /\ (254 <? Z.of_nat (length bytes)) || (match s_payload m with [] => false | _ => true end) = true))
       | pre => sm = pre /\ ptlv = []
       end
    /\ 0 <= s_seq m <= 4294967295 /\ Z.of_nat (length b) <= 4294967295.
Proof.
  cbn [encode]. unfold encode_sm. fold (text_of m). fold (sent_opts m).
  destruct (match s_pre m with [] => _ | _ => _ end) as [[[sm ptlv] e']|] eqn:Est; cbn [rbind]; [|discriminate].
  destruct (match e' with Some e => enc_data_coding e | None => Ok 0 end) as [dc|] eqn:Edc; cbn [rbind]; [|discriminate].
  destruct (rconcat _) as [opts|] eqn:Eo; cbn [rbind]; [|discriminate].
  destruct (cstr (s_service m) +++ _) as [body|] eqn:Eb; cbn [rbind]; [|discriminate].
  intros He.
  destruct (pack_header _ _ _ _) as [hd|] eqn:Eh; cbn [rbind fst] in He; [|discriminate]. injection He as <-.
  pose proof (pack_header_inv _ _ _ _ _ Eh) as (Rlen & _ & _ & Rseq & Hhl & _).
  assert (Z.of_nat (length (hd ++ body)) <= 4294967295) as Rtot by (rewrite app_length, Hhl; lia).
  apply pack_header_spec in Eh. subst hd.
  apply rapp_inv in Eb as (x1 & r & E1 & Eb & ->). apply rapp_inv in Eb as (x2 & r2 & E2 & Eb & ->).
  apply rapp_inv in Eb as (x3 & r3 & E3 & Eb & ->). apply rapp_inv in Eb as (x4 & r4 & E4 & Eb & ->).
  apply rapp_inv in Eb as (x5 & r5 & E5 & Eb & ->). apply rapp_inv in Eb as (x6 & r6 & E6 & Eb & ->).
  apply rapp_inv in Eb as (x7 & r7 & E7 & Eb & ->). apply rapp_inv in Eb as (x8 & r8 & E8 & Eb & ->).
  apply rapp_inv in Eb as (x9 & r9 & E9 & Eb & ->). apply rapp_inv in Eb as (x10 & r10 & E10 & Eb & ->).
  apply rapp_inv in Eb as (x11 & r11 & E11 & Eb & ->). apply rapp_inv in Eb as (x12 & r12 & E12 & Eb & ->).
  apply rapp_inv in Eb as (x13 & r13 & E13 & Eb & ->). apply rapp_inv in Eb as (x14 & r14 & E14 & Eb & ->).
  apply rapp_inv in Eb as (x15 & r15 & E15 & Eb & ->). apply rapp_inv in Eb as (x16 & r16 & E16 & Eb & ->).
  apply rapp_inv in Eb as (x17 & r17 & E17 & Eb & ->). apply rapp_inv in Eb as (x18 & r18 & E18 & Eb & ->).
  apply rapp_inv in Eb as (x19 & x20 & E19 & E20 & ->).
  injection E18 as <-. injection E19 as <-. injection E20 as <-.
  apply cstr_inv in E1, E4, E7.
  apply packB_inv in E2 as [_ ->]. apply packB_inv in E3 as [_ ->]. apply packB_inv in E5 as [_ ->]. apply packB_inv in E6 as [_ ->].
  apply packB_inv in E8 as [_ ->]. apply packB_inv in E9 as [_ ->]. apply packB_inv in E10 as [_ ->].
  apply packB_inv in E13 as [_ ->]. apply packB_inv in E14 as [_ ->]. apply packB_inv in E15 as [_ ->]. apply packB_inv in E16 as [_ ->].
  apply packB_inv in E17 as [_ ->].
  destruct (time_to_smpp (s_sched m)) as [sched|] eqn:Ts; cbn [rbind] in E11; [|discriminate]. apply cstr_inv in E11.
  destruct (time_to_smpp (s_valid m)) as [valid|] eqn:Tv; cbn [rbind] in E12; [|discriminate]. apply cstr_inv in E12.
  subst.
  exists sm, ptlv, opts, dc, sched, valid.
  split. { unfold spec_pdu, spec_sm_body. cbn [w_service w_src_ton w_src_npi w_src w_dst_ton w_dst_npi w_dst w_esm w_pid w_prio w_sched w_valid
                                              w_regdel w_replace w_dc w_defmsg w_sm w_tlvs]. unfold u8. rewrite <- !app_assoc. reflexivity. }
  split; [reflexivity|]. split; [reflexivity|]. split; [reflexivity|].
  assert (forall P Q : Prop, P -> Q -> P /\ Q) as Hconj by (intros; split; assumption).
  apply Hconj; [|split; [exact Rseq|exact Rtot]].
  destruct (s_pre m) as [|p0 pre].
  - destruct (smpp_encode default m (text_of m)) as [[bytes e'']|] eqn:Ese; cbn [rbind] in Est; [|discriminate].
    exists bytes, e''.
    destruct ((254 <? Z.of_nat (length bytes)) && _ && negb (s_auto m)); [discriminate|].
    destruct ((254 <? Z.of_nat (length bytes)) || _) eqn:Ebig.
    + destruct (packH TAG_MESSAGE_PAYLOAD +++ packH (Z.of_nat (length bytes))) as [tl|] eqn:Etl; cbn [rbind] in Est; [|discriminate].
      injection Est as <- <- <-. split; [reflexivity|]. split; [exact Edc|]. right. split; [reflexivity|].
      apply rapp_inv in Etl as (y1 & y2 & F1 & F2 & ->). apply packH_inv in F1 as [_ ->]. apply packH_inv in F2 as [R2 ->].
      split; [|split; [lia|reflexivity]].
      destruct tlv_table_is_spec as (_ & _ & _ & _ & _ & -> & _). unfold spec_tlv. rewrite <- !app_assoc. reflexivity.
    + injection Est as <- <- <-. split; [reflexivity|]. split; [exact Edc|]. left.
      apply orb_false_iff in Ebig as [B1 B2]. apply Z.ltb_ge in B1.
      split; [reflexivity|]. split; [reflexivity|]. split; [exact B1|]. destruct (s_payload m); [reflexivity|discriminate].
  - injection Est as <- <- <-. split; reflexivity.
Qed.

(* ---------- the text bytes decode, under the data_coding sent, to the text supplied ---------- *)
Lemma gsm_strict_roundtrip s b : gsm_encode Strict s = Ok b -> gsm_decode Strict b = Ok s.
Proof.
  intros H. assert (is_gsm_text s = true) as Hs.
  { apply strict_succeeds_iff. unfold gsm_encode in H. destruct (to_gsm_codes Strict s) as [codes|]; [eauto|discriminate]. }
  destruct (gsm_roundtrip s Hs Strict) as (b' & E & D). rewrite E in H. injection H as <-. apply D.
Qed.

Lemma units_partial_of_strict b us : units_of_bytes b = Some us -> units_of_bytes_partial b = us.
Proof.
  revert us. induction b as [b IH] using (well_founded_induction (Wf_nat.well_founded_ltof _ (@length Z))). intros us H.
  destruct b as [|h [|l t]]; cbn [units_of_bytes units_of_bytes_partial] in *.
  - injection H as <-. reflexivity.
  - discriminate.
  - destruct (units_of_bytes t) as [r|] eqn:E; cbn [option_map] in H; [|discriminate]. injection H as <-.
    f_equal. apply IH; [unfold ltof; cbn [length]; lia|exact E].
Qed.

Lemma decode_partial_of_strict us s : units_decode us = Some s -> units_decode_partial us = Some s.
Proof.
  revert s. induction us as [us IH] using (well_founded_induction (Wf_nat.well_founded_ltof _ (@length Z))). intros s H.
  destruct us as [|u t]; cbn [units_decode units_decode_partial] in *; [exact H|].
  destruct (is_high u).
  - destruct t as [|l t']; [discriminate|]. destruct (is_low l); [|discriminate].
    destruct (units_decode t') as [r|] eqn:E; cbn [option_map] in H; [|discriminate].
    rewrite (IH t' ltac:(unfold ltof; cbn [length]; lia) r E). exact H.
  - destruct (is_low u); [discriminate|].
    destruct (units_decode t) as [r|] eqn:E; cbn [option_map] in H; [|discriminate].
    rewrite (IH t ltac:(unfold ltof; cbn [length]; lia) r E). exact H.
Qed.

Lemma ucs2_partial_roundtrip text bytes : ucs2_encode text = Ok bytes -> ucs2_decode_partial bytes = Ok text.
Proof.
  intros H. apply ucs2_roundtrip in H. unfold ucs2_decode in H. unfold ucs2_decode_partial.
  destruct (units_of_bytes bytes) as [us|] eqn:E; [|discriminate]. rewrite (units_partial_of_strict _ _ E).
  destruct (units_decode us) as [s|] eqn:E2; [|discriminate]. injection H as ->. rewrite (decode_partial_of_strict _ _ E2). reflexivity.
Qed.

Definition modelled_codec (e : enc) : bool :=
  match e with EncGsm | EncAscii | EncLatin1 | EncUcs2 => true | _ => false end.

Lemma ascii_decode_encode s b : ascii_encode s = Ok b -> ascii_decode b = Ok s.
Proof.
  unfold ascii_encode. destruct (forallb _ s) eqn:E; [|discriminate]. intros H. injection H as <-.
  unfold ascii_decode. replace (forallb (fun c => c <? 128) s) with true; [reflexivity|].
  symmetry. apply forallb_forall. intros c Hc. rewrite forallb_forall in E. specialize (E c Hc). lia.
Qed.

Lemma codec_strict_roundtrip e text bytes :
  modelled_codec e = true -> codec_encode e HStrict text = Ok bytes -> codec_decode e bytes = Ok text.
Proof.
  destruct e; try discriminate; intros _; cbn [codec_encode codec_decode to_errmode].
  - apply gsm_strict_roundtrip.
  - apply ascii_decode_encode.
  - unfold latin1_encode. destruct (forallb _ text); [|discriminate]. intros H. injection H as <-. reflexivity.
  - intros H. apply ucs2_partial_roundtrip. destruct (ucs2_encode text); [exact H|discriminate].
Qed.

(* receiver side: data_coding 0 selects the session default alphabet *)
Theorem text_decodes default m bytes e' dc :
  s_err m = HStrict -> modelled_codec default = true ->
  (forall e, s_enc m = Some e -> modelled_codec e = true /\ (e = EncGsm -> default = EncGsm)) ->
  smpp_encode default m (text_of m) = Ok (bytes, e') ->
  (match e' with Some e => enc_data_coding e | None => Ok 0 end) = Ok dc ->
  exists ce, enc_of_data_coding dc default = Ok ce /\ codec_decode ce bytes = Ok (text_of m).
Proof.
  intros Hst Hd He. unfold smpp_encode. rewrite Hst.
  destruct (s_enc m) as [e|].
  - destruct (He e eq_refl) as [Hm Hg].
    destruct (codec_encode e HStrict (text_of m)) as [b|] eqn:E; cbn [rbind]; [|discriminate]. intros H. injection H as <- <-.
    intros Hdc. destruct e; try discriminate; cbn [enc_data_coding] in Hdc; injection Hdc as <-.
    + exists EncGsm. rewrite (Hg eq_refl). split; [reflexivity|]. apply codec_strict_roundtrip; [reflexivity|exact E].
    + exists EncAscii. split; [reflexivity|]. apply codec_strict_roundtrip; [reflexivity|exact E].
    + exists EncLatin1. split; [reflexivity|]. apply codec_strict_roundtrip; [reflexivity|exact E].
    + exists EncUcs2. split; [reflexivity|]. apply codec_strict_roundtrip; [reflexivity|exact E].
  - destruct (codec_encode default HStrict (text_of m)) as [b|x] eqn:E.
    + intros H. injection H as <- <-. intros Hdc. injection Hdc as <-. exists default. split; [reflexivity|].
      apply codec_strict_roundtrip; assumption.
    + destruct (x =? EXN_UnicodeEncodeError); [|discriminate].
      destruct (codec_encode EncUcs2 HStrict (text_of m)) as [b|] eqn:E2; cbn [rbind]; [|discriminate].
      intros H. injection H as <- <-. intros Hdc. cbn [enc_data_coding] in Hdc. injection Hdc as <-.
      exists EncUcs2. split; [reflexivity|]. apply codec_strict_roundtrip; [reflexivity|exact E2].
Qed.

(* ---------- decoding specification PDUs ---------- *)
Definition u32r (x : Z) : Prop := 0 <= x <= 4294967295.

Lemma mem_In' x l : mem x l = true -> In x l.
Proof. intros H. unfold mem in H. apply existsb_exists in H as (z & Hz & E). apply Z.eqb_eq in E. subst z. exact Hz. Qed.

Lemma enum_u32 x : mem x SmppCommand_values = true \/ mem x SmppCommandStatus_values = true -> u32r x.
Proof.
  assert (forallb (fun v => (0 <=? v) && (v <=? 4294967295)) (SmppCommand_values ++ SmppCommandStatus_values) = true) as T by (vm_compute; reflexivity).
  rewrite forallb_forall in T. intros [H|H]; apply mem_In' in H; specialize (T x ltac:(apply in_or_app; auto)); unfold u32r; lia.
Qed.

Lemma encode_total_from_body body cmd st seq :
  u32r cmd -> u32r st -> u32r seq -> Z.of_nat (length body) <= 100000 ->
  (do hd <- pack_header (16 + Z.of_nat (length body)) cmd st seq; Ok (hd ++ body)) = Ok (spec_pdu cmd st seq body).
Proof.
  intros Hc Hs Hq Hl. unfold u32r in *.
  assert (0 <= 16 + Z.of_nat (length body) <= 4294967295) as Hlen by lia.
  rewrite (pack_header_total _ _ _ _ Hlen Hc Hs Hq). cbn [rbind].
  unfold spec_pdu. rewrite <- !app_assoc. reflexivity.
Qed.

(* a specification submit_sm_resp / deliver_sm_resp, with its body or (error status) without *)
Theorem smresp_decode_spec default cmd seq st (mid : option (list Z)) :
  (cmd =? SmppCommand_SUBMIT_SM_RESP) || (cmd =? SmppCommand_DELIVER_SM_RESP) = true ->
  mem cmd SmppCommand_values = true -> mem st SmppCommandStatus_values = true -> u32r seq ->
  (forall s, mid = Some s -> ok_cstr s /\ (length s <= 64)%nat) ->
  let pdu := spec_pdu cmd st seq (match mid with Some s => spec_smresp_body s | None => [] end) in
  exists h, parse_header pdu = Ok h /\ decode default pdu h = Ok (MSmResp cmd seq st (match mid with Some s => s | None => [] end)).
Proof.
  intros Hcmd Hc Hs Hq Hm pdu. pose proof (enum_u32 cmd (or_introl Hc)) as Rc. pose proof (enum_u32 st (or_intror Hs)) as Rs.
  destruct mid as [s|].
  - destruct (Hm s eq_refl) as [Hok Hl].
    apply (smresp_roundtrip default cmd seq st s pdu Hcmd Hc Hs Hok Hl).
    cbn [encode]. rewrite (cstr_ok s Hok). cbn [rbind]. unfold pdu, spec_smresp_body, cz.
    apply encode_total_from_body; try assumption. rewrite app_length. cbn [length]. lia.
  - assert (pack_header 16 cmd st seq = Ok (u32 16 ++ u32 cmd ++ u32 st ++ u32 seq)) as Eh
      by (apply pack_header_total; unfold u32r in *; try assumption; lia).
    pose proof (header_roundtrip _ _ _ _ _ [] Eh Hc Hs) as Hp. rewrite app_nil_r in Hp.
    assert (pdu = u32 16 ++ u32 cmd ++ u32 st ++ u32 seq) as -> by (unfold pdu, spec_pdu; rewrite app_nil_r; reflexivity).
    eexists. split; [exact Hp|]. unfold decode. cbn [h_cmd h_len h_seq h_status].
    assert ((cmd =? SmppCommand_SUBMIT_SM) || (cmd =? SmppCommand_DELIVER_SM) = false) as ->.
    { apply orb_prop in Hcmd. destruct Hcmd as [E|E]; apply Z.eqb_eq in E; rewrite E; vm_compute; reflexivity. }
    rewrite Hcmd. reflexivity.
Qed.

(* a specification bind_xxx_resp: body with or without sc_interface_version, or no body at all *)
Theorem bindresp_decode_spec default cmd seq st (body : option (list Z * option Z)) :
  is_bind_resp cmd = true -> mem cmd SmppCommand_values = true -> mem st SmppCommandStatus_values = true -> u32r seq ->
  (forall s ver, body = Some (s, ver) -> ok_cstr s /\ (length s <= 15)%nat /\ forall v, ver = Some v -> 0 <= v <= 255) ->
  let pdu := spec_pdu cmd st seq (match body with Some (s, ver) => spec_bindresp_body s ver | None => [] end) in
  exists h, parse_header pdu = Ok h /\
    decode default pdu h = Ok (match body with Some (s, ver) => MBindResp cmd seq st s ver | None => MBindResp cmd seq st [] None end).
Proof.
  intros Hcmd Hc Hs Hq Hb pdu. pose proof (enum_u32 cmd (or_introl Hc)) as Rc. pose proof (enum_u32 st (or_intror Hs)) as Rs.
  destruct body as [[s ver]|].
  - destruct (Hb s ver eq_refl) as (Hok & Hl & Hv).
    apply (bindresp_roundtrip default cmd seq st s ver pdu Hcmd Hc Hs Hok Hl Hv).
    cbn [encode]. rewrite (cstr_ok s Hok).
    assert (match ver with Some v => op_tlv {| op_tag := TAG_SC_INTERFACE_VERSION; op_val := TInt v |} | None => Ok [] end
            = Ok (match ver with Some v => spec_tlv TLV_SC_INTERFACE_VERSION (u8 v) | None => [] end)) as ->.
    { destruct ver as [v|]; [|reflexivity]. rewrite op_tlv_scver, (packB_ok v (Hv v eq_refl)). vm_compute. reflexivity. }
    unfold rapp. cbn [rbind]. unfold pdu, spec_bindresp_body, cz.
    apply encode_total_from_body; try assumption.
    rewrite !app_length. destruct ver; cbn [length spec_tlv u16 u8 app]; lia.
  - assert (pack_header 16 cmd st seq = Ok (u32 16 ++ u32 cmd ++ u32 st ++ u32 seq)) as Eh
      by (apply pack_header_total; unfold u32r in *; try assumption; lia).
    pose proof (header_roundtrip _ _ _ _ _ [] Eh Hc Hs) as Hp. rewrite app_nil_r in Hp.
    assert (pdu = u32 16 ++ u32 cmd ++ u32 st ++ u32 seq) as -> by (unfold pdu, spec_pdu; rewrite app_nil_r; reflexivity).
    eexists. split; [exact Hp|]. unfold decode. cbn [h_cmd h_len h_seq h_status].
    destruct (is_bind_resp_not_other cmd Hcmd) as (-> & -> & ->). rewrite Hcmd. reflexivity.
Qed.

(* a specification bind_transceiver / bind_transmitter / bind_receiver *)
Theorem bind_decode_spec default cmd bd :
  is_bind cmd = true -> mem cmd SmppCommand_values = true -> wf_bind bd -> u32r (b_seq bd) ->
  let pdu := spec_pdu cmd 0 (b_seq bd)
               (spec_bind_body (b_system_id bd) (b_password bd) (b_system_type bd) (b_iface bd) (b_ton bd) (b_npi bd) (b_range bd)) in
  exists h, parse_header pdu = Ok h /\ decode default pdu h = Ok (MBind cmd bd).
Proof.
  intros Hcmd Hc Hwf Hq pdu. pose proof (enum_u32 cmd (or_introl Hc)) as Rc.
  apply (bind_roundtrip default cmd bd pdu Hcmd Hc Hwf).
  destruct Hwf as (Hst & S1 & L1 & S2 & L2 & S3 & L3 & S4 & L4 & Ri & Ht & Hn).
  cbn [encode].
  rewrite (cstr_ok _ S1), (cstr_ok _ S2), (cstr_ok _ S3), (cstr_ok _ S4), (packB_ok _ Ri),
          (packB_ok _ (enum_byte_range _ (or_introl Ht))), (packB_ok _ (enum_byte_range _ (or_intror Hn))).
  unfold rapp. cbn [rbind]. rewrite Hst. unfold pdu, spec_bind_body, cz, u8.
  apply encode_total_from_body; try assumption; [unfold u32r; lia|].
  rewrite !app_length. cbn [length]. lia.
Qed.

(* ---------- concatenation headers: 8-bit and 16-bit reference (3GPP TS 23.040) ---------- *)
Definition sar_of (ref total seq : Z) : list optparam :=
  [{| op_tag := TAG_SAR_MSG_REF_NUM; op_val := TInt ref |}; {| op_tag := TAG_SAR_SEGMENT_SEQNUM; op_val := TInt seq |};
   {| op_tag := TAG_SAR_TOTAL_SEGMENTS; op_val := TInt total |}].

Theorem udh_decode esm codec ref total seq body :
  0 < (esm / 64) mod 2 ->
  (0 <= ref <= 255 ->
   decode_message esm codec (udh_concat8 ref total seq ++ body) = (do t <- codec_decode codec body; Ok (t, sar_of ref total seq)))
  /\ (0 <= ref <= 65535 ->
      decode_message esm codec (udh_concat16 ref total seq ++ body) = (do t <- codec_decode codec body; Ok (t, sar_of ref total seq))).
Proof.
  intros Hesm. assert (0 <? (esm / 64) mod 2 = true) as Hb by (apply Z.ltb_lt; exact Hesm).
  split; intros Hr; unfold decode_message; rewrite Hb; cbn [andb app udh_concat8 udh_concat16 length].
  - unfold unpackB at 1. cbn [skipn rbind]. change (Z.to_nat (5 + 1)) with 6%nat.
    cbn [scan_ies Nat.ltb Nat.leb]. unfold unpackB, unpackH. cbn [skipn rbind Nat.add].
    change (0 =? IE_ID_16BIT) with false. change (0 =? IE_ID_8BIT) with true. change (3 =? 3) with true. cbn [andb]. cbv iota. cbn [rbind].
    change (1 + 2 + Z.to_nat 3)%nat with 6%nat. destruct (length body); cbn [scan_ies Nat.ltb Nat.leb rbind skipn]; reflexivity.
  - unfold unpackB at 1. cbn [skipn rbind]. change (Z.to_nat (6 + 1)) with 7%nat.
    cbn [scan_ies Nat.ltb Nat.leb]. unfold unpackB, unpackH. cbn [skipn rbind Nat.add].
    change (8 =? IE_ID_16BIT) with true. change (4 =? 4) with true. cbn [andb]. cbv iota. cbn [rbind].
    change (1 + 2 + Z.to_nat 4)%nat with 7%nat. replace (ref / 256 * 256 + ref mod 256) with ref by lia.
    destruct (length body); cbn [scan_ies Nat.ltb Nat.leb rbind skipn]; reflexivity.
Qed.

(* ---------- the general User Data Header: information elements in any order ---------- *)
Lemma skipn_app_exact {A} (pre l : list A) : skipn (length pre) (pre ++ l) = l.
Proof. induction pre as [|x t IH]; [reflexivity|exact IH]. Qed.

Lemma enc_ies_app a b : enc_ies (a ++ b) = enc_ies a ++ enc_ies b.
Proof. unfold enc_ies. apply flat_map_app. Qed.

Lemma enc_ie_length e : length (enc_ie e) = (2 + length (snd e))%nat.
Proof. unfold enc_ie. cbn [length]. reflexivity. Qed.

(* one iteration of the loop over an element that is not a concatenation element: skipped *)
Lemma scan_skip_one f pre e rest end_ acc :
  other_ie e -> (length pre < end_)%nat ->
  scan_ies (S f) (pre ++ enc_ie e ++ rest) (length pre) end_ acc
  = scan_ies f (pre ++ enc_ie e ++ rest) (length pre + length (enc_ie e)) end_ acc.
Proof.
  intros (H16 & H8 & Hlen) Hlt. cbn [scan_ies]. apply Nat.ltb_lt in Hlt. rewrite Hlt.
  unfold enc_ie. cbn [app].
  destruct (unpackB_at (pre ++ fst e :: Z.of_nat (length (snd e)) :: snd e ++ rest) (length pre) _ _ (skipn_app_exact pre _)) as [-> K].
  cbn [rbind]. destruct (unpackB_at _ _ _ _ K) as [-> _]. cbn [rbind].
  assert ((fst e =? IE_ID_16BIT) && (Z.of_nat (length (snd e)) =? 4) = false) as ->.
  { apply andb_false_iff. destruct (Z.eqb_spec (fst e) IE_ID_16BIT) as [E|E]; [|left; reflexivity]. right. apply Z.eqb_neq. intros E2.
    apply H16. split; [exact E|lia]. }
  assert ((fst e =? IE_ID_8BIT) && (Z.of_nat (length (snd e)) =? 3) = false) as ->.
  { apply andb_false_iff. destruct (Z.eqb_spec (fst e) IE_ID_8BIT) as [E|E]; [|left; reflexivity]. right. apply Z.eqb_neq. intros E2.
    apply H8. split; [exact E|lia]. }
  cbn [rbind]. rewrite Nat2Z.id. cbn [length]. f_equal. lia.
Qed.

(* a run of such elements is skipped *)
Lemma scan_skip_many : forall l f pre rest end_ acc,
  Forall other_ie l -> (length pre + length (enc_ies l) <= end_)%nat ->
  scan_ies (length l + f) (pre ++ enc_ies l ++ rest) (length pre) end_ acc
  = scan_ies f (pre ++ enc_ies l ++ rest) (length pre + length (enc_ies l)) end_ acc.
Proof.
  induction l as [|e t IH]; intros f pre rest end_ acc Hall Hle.
  - cbn [enc_ies flat_map length app Nat.add]. rewrite Nat.add_0_r. reflexivity.
  - inversion_clear Hall as [|? ? He Ht]. change (enc_ies (e :: t)) with (enc_ie e ++ enc_ies t) in *.
    rewrite app_length, enc_ie_length in Hle. cbn [length Nat.add].
    rewrite <- app_assoc. rewrite (scan_skip_one _ pre e (enc_ies t ++ rest) end_ acc He ltac:(lia)).
    replace (pre ++ enc_ie e ++ enc_ies t ++ rest) with ((pre ++ enc_ie e) ++ enc_ies t ++ rest) by (rewrite <- app_assoc; reflexivity).
    replace (length pre + length (enc_ie e))%nat with (length (pre ++ enc_ie e)) by (rewrite app_length; reflexivity).
    rewrite (IH f (pre ++ enc_ie e) rest end_ acc Ht); [|rewrite app_length, enc_ie_length; lia].
    rewrite !app_length, enc_ie_length. f_equal. lia.
Qed.

(* a header without a concatenation element - e.g. application port addressing only - yields the text and NO segmentation
   parameters: the message is not taken for a segment *)
Theorem udh_without_concatenation esm codec ies body :
  0 < (esm / 64) mod 2 -> Forall other_ie ies ->
  decode_message esm codec (udh_of ies ++ body) = (do t <- codec_decode codec body; Ok (t, [])).
Proof.
  intros Hesm Hall. assert (0 <? (esm / 64) mod 2 = true) as Hb by (apply Z.ltb_lt; exact Hesm).
  unfold decode_message, udh_of. rewrite Hb. cbn [andb app]. unfold unpackB at 1. cbn [skipn rbind].
  replace (Z.to_nat (Z.of_nat (length (enc_ies ies)) + 1)) with (S (length (enc_ies ies))) by lia.
  set (u := Z.of_nat (length (enc_ies ies))).
  change (u :: enc_ies ies ++ body) with ([u] ++ enc_ies ies ++ body).
  assert (exists f, length ([u] ++ enc_ies ies ++ body) = (length ies + S f)%nat) as [f Ef].
  { exists (length (enc_ies ies) + length body - length ies)%nat. rewrite !app_length. cbn [length].
    assert (length ies <= length (enc_ies ies))%nat.
    { clear. induction ies as [|e t IH]; [cbn; lia|]. change (enc_ies (e :: t)) with (enc_ie e ++ enc_ies t). rewrite app_length, enc_ie_length. cbn [length]. lia. }
    lia. }
  rewrite Ef. change 1%nat with (length [u]) at 1.
  rewrite (scan_skip_many ies (S f) [u] body (S (length (enc_ies ies))) None Hall ltac:(cbn [length]; lia)).
  cbn [scan_ies length]. replace (1 + length (enc_ies ies) <? S (length (enc_ies ies)))%nat with false by (symmetry; apply Nat.ltb_ge; lia).
  cbn [rbind]. replace (S (length (enc_ies ies))) with (length ([u] ++ enc_ies ies)) by (rewrite app_length; reflexivity).
  rewrite app_assoc, skipn_app_exact. reflexivity.
Qed.

(* one iteration over a concatenation element records it *)
Lemma scan_concat8 f pre ref total seq rest end_ acc :
  (length pre < end_)%nat ->
  scan_ies (S f) (pre ++ enc_ie (concat_ie8 ref total seq) ++ rest) (length pre) end_ acc
  = scan_ies f (pre ++ enc_ie (concat_ie8 ref total seq) ++ rest) (length pre + 5) end_ (Some (ref, total, seq)).
Proof.
  intros Hlt. cbn [scan_ies]. apply Nat.ltb_lt in Hlt. rewrite Hlt. unfold enc_ie, concat_ie8. cbn [fst snd].
  change (Z.of_nat (length [ref; total; seq])) with 3. cbn [app].
  destruct (unpackB_at (pre ++ 0 :: 3 :: ref :: total :: seq :: rest) (length pre) _ _ (skipn_app_exact pre _)) as [-> K1]. cbn [rbind].
  destruct (unpackB_at _ _ _ _ K1) as [-> K2]. cbn [rbind].
  change (0 =? IE_ID_16BIT) with false. change (0 =? IE_ID_8BIT) with true. change (3 =? 3) with true. cbn [andb].
  replace (length pre + 2)%nat with (S (S (length pre))) by lia. destruct (unpackB_at _ _ _ _ K2) as [-> K3]. cbn [rbind].
  replace (length pre + 3)%nat with (S (S (S (length pre)))) by lia. destruct (unpackB_at _ _ _ _ K3) as [-> K4]. cbn [rbind].
  replace (length pre + 4)%nat with (S (S (S (S (length pre))))) by lia. destruct (unpackB_at _ _ _ _ K4) as [-> _]. cbn [rbind].
  f_equal. change (Z.to_nat 3) with 3%nat. lia.
Qed.

Lemma scan_concat16 f pre ref total seq rest end_ acc :
  (length pre < end_)%nat -> 0 <= ref <= 65535 ->
  scan_ies (S f) (pre ++ enc_ie (concat_ie16 ref total seq) ++ rest) (length pre) end_ acc
  = scan_ies f (pre ++ enc_ie (concat_ie16 ref total seq) ++ rest) (length pre + 6) end_ (Some (ref, total, seq)).
Proof.
  intros Hlt Hr. cbn [scan_ies]. apply Nat.ltb_lt in Hlt. rewrite Hlt. unfold enc_ie, concat_ie16. cbn [fst snd].
  change (Z.of_nat (length [ref / 256; ref mod 256; total; seq])) with 4. cbn [app].
  destruct (unpackB_at (pre ++ 8 :: 4 :: ref / 256 :: ref mod 256 :: total :: seq :: rest) (length pre) _ _ (skipn_app_exact pre _)) as [-> K1]. cbn [rbind].
  destruct (unpackB_at _ _ _ _ K1) as [-> K2]. cbn [rbind].
  change (8 =? IE_ID_16BIT) with true. change (4 =? 4) with true. cbn [andb].
  replace (length pre + 2)%nat with (S (S (length pre))) by lia.
  unfold unpackH. rewrite K2. cbn [rbind].
  assert (skipn (length pre + 4) (pre ++ 8 :: 4 :: ref / 256 :: ref mod 256 :: total :: seq :: rest) = total :: seq :: rest) as K4.
  { replace (length pre + 4)%nat with (length (pre ++ [8; 4; ref / 256; ref mod 256])) by (rewrite app_length; reflexivity).
    replace (pre ++ 8 :: 4 :: ref / 256 :: ref mod 256 :: total :: seq :: rest) with ((pre ++ [8; 4; ref / 256; ref mod 256]) ++ total :: seq :: rest)
      by (rewrite <- app_assoc; reflexivity). apply skipn_app_exact. }
  destruct (unpackB_at _ _ _ _ K4) as [-> K5]. cbn [rbind].
  replace (length pre + 5)%nat with (S (length pre + 4)) by lia. destruct (unpackB_at _ _ _ _ K5) as [-> _]. cbn [rbind].
  replace (ref / 256 * 256 + ref mod 256) with ref by lia.
  f_equal. change (Z.to_nat 4) with 4%nat. lia.
Qed.

(* the concatenation element is found wherever it stands among the other elements of the header *)
Theorem udh_concatenation_anywhere esm codec pre post ref total seq body (wide : bool) :
  0 < (esm / 64) mod 2 -> Forall other_ie pre -> Forall other_ie post -> 0 <= ref <= (if wide then 65535 else 255) ->
  decode_message esm codec (udh_of (pre ++ [if wide then concat_ie16 ref total seq else concat_ie8 ref total seq] ++ post) ++ body)
  = (do t <- codec_decode codec body; Ok (t, sar_of ref total seq)).
Proof.
  intros Hesm Hpre Hpost Hr. assert (0 <? (esm / 64) mod 2 = true) as Hb by (apply Z.ltb_lt; exact Hesm).
  set (ce := if wide then concat_ie16 ref total seq else concat_ie8 ref total seq).
  unfold decode_message, udh_of. rewrite Hb. cbn [andb app]. unfold unpackB at 1. cbn [skipn rbind].
  set (ies := enc_ies (pre ++ ce :: post)).
  replace (Z.to_nat (Z.of_nat (length ies) + 1)) with (S (length ies)) by lia.
  set (u := Z.of_nat (length ies)).
  assert (ies = enc_ies pre ++ enc_ie ce ++ enc_ies post) as Eies.
  { unfold ies. rewrite enc_ies_app. change (enc_ies (ce :: post)) with (enc_ie ce ++ enc_ies post). reflexivity. }
  assert (length (enc_ie ce) = (if wide then 6 else 5)%nat) as Lce by (unfold ce; destruct wide; reflexivity).
  assert (forall l, (length l <= length (enc_ies l))%nat) as Hlen.
  { induction l as [|e t IH]; [cbn; lia|]. change (enc_ies (e :: t)) with (enc_ie e ++ enc_ies t). rewrite app_length, enc_ie_length. cbn [length]. lia. }
  assert (exists f, length (u :: ies ++ body) = (length pre + S (length post + S f))%nat) as [f Ef].
  { exists (length ies + length body - length pre - length post - 1)%nat. cbn [length]. rewrite app_length, Eies, !app_length, Lce.
    pose proof (Hlen pre). pose proof (Hlen post). destruct wide; lia. }
  rewrite Ef.
  assert (length ies = length (enc_ies pre) + length (enc_ie ce) + length (enc_ies post))%nat as Lies by (rewrite Eies, !app_length; lia).
  replace (u :: ies ++ body) with ([u] ++ enc_ies pre ++ (enc_ie ce ++ enc_ies post ++ body))
    by (rewrite Eies, <- !app_assoc; reflexivity).
  pose proof (scan_skip_many pre (S (length post + S f)) [u] (enc_ie ce ++ enc_ies post ++ body) (S (length ies)) None Hpre ltac:(cbn [length]; lia)) as Hskip.
  cbn [length] in Hskip. rewrite Hskip. clear Hskip.
  change (1 + length (enc_ies pre))%nat with (length [u] + length (enc_ies pre))%nat.
  replace ([u] ++ enc_ies pre ++ enc_ie ce ++ enc_ies post ++ body) with (([u] ++ enc_ies pre) ++ enc_ie ce ++ (enc_ies post ++ body))
    by (rewrite <- !app_assoc; reflexivity).
  replace (length [u] + length (enc_ies pre))%nat with (length ([u] ++ enc_ies pre)) by (rewrite app_length; reflexivity).
  assert (scan_ies (S (length post + S f)) (([u] ++ enc_ies pre) ++ enc_ie ce ++ enc_ies post ++ body) (length ([u] ++ enc_ies pre)) (S (length ies)) None
          = scan_ies (length post + S f) (([u] ++ enc_ies pre) ++ enc_ie ce ++ enc_ies post ++ body)
                     (length ([u] ++ enc_ies pre) + length (enc_ie ce)) (S (length ies)) (Some (ref, total, seq))) as ->.
  { rewrite Lce. unfold ce. destruct wide.
    - apply scan_concat16; [rewrite app_length; cbn [length]; lia|exact Hr].
    - apply scan_concat8. rewrite app_length. cbn [length]. lia. }
  replace (([u] ++ enc_ies pre) ++ enc_ie ce ++ enc_ies post ++ body) with ((([u] ++ enc_ies pre) ++ enc_ie ce) ++ enc_ies post ++ body)
    by (rewrite <- !app_assoc; reflexivity).
  replace (length ([u] ++ enc_ies pre) + length (enc_ie ce))%nat with (length (([u] ++ enc_ies pre) ++ enc_ie ce)) by (rewrite !app_length; reflexivity).
  assert (length (([u] ++ enc_ies pre) ++ enc_ie ce) + length (enc_ies post) <= S (length ies))%nat as Hle2
    by (rewrite !app_length; cbn [length]; lia).
  rewrite (scan_skip_many post (S f) (([u] ++ enc_ies pre) ++ enc_ie ce) body (S (length ies)) (Some (ref, total, seq)) Hpost Hle2).
  cbn [scan_ies].
  replace (length (([u] ++ enc_ies pre) ++ enc_ie ce) + length (enc_ies post) <? S (length ies))%nat with false
    by (symmetry; apply Nat.ltb_ge; rewrite !app_length; cbn [length]; lia).
  cbn [rbind].
  replace (S (length ies)) with (length ((([u] ++ enc_ies pre) ++ enc_ie ce) ++ enc_ies post)) by (rewrite !app_length; cbn [length]; lia).
  rewrite app_assoc, skipn_app_exact. reflexivity.
Qed.
