(* Lemmas for C06: whatever the application queues, building its PDUs ends normally or with an exception class the guarded
   region of the sender treats as a build error (send_error, go on); the loop goes on with the next message. *)
From Coq Require Import ZArith List Bool Lia.
Import ListNotations.
Require Import AV.Generated.GsmTables AV.Generated.ExnOrder AV.Generated.SmppConsts AV.Generated.Handled
               AV.Model.Base AV.Model.Codec AV.Model.Split AV.Model.TimeFmt AV.Model.Seq AV.Model.Receipt AV.Model.Pdu AV.Model.Recv AV.Model.Send.
Open Scope Z_scope.

Definition build_errors : list Z :=
  [EXN_ValueError; EXN_UnicodeEncodeError; EXN_StructError; EXN_KeyError; EXN_LookupError; EXN_Unmodelled].
Definition okE {A} (r : res A) : Prop := match r with Err e => In e build_errors | Ok _ => True end.

Lemma okE_bind {A B} (a : res A) (f : A -> res B) : okE a -> (forall x, a = Ok x -> okE (f x)) -> okE (do x <- a; f x).
Proof. destruct a as [x|e]; cbn [rbind]; intros Ha Hf; [apply Hf; reflexivity|exact Ha]. Qed.

Ltac e_leaf := first [exact I | cbn; tauto].

Lemma okE_rapp a b : okE a -> okE b -> okE (a +++ b).
Proof. unfold rapp. intros Ha Hb. apply okE_bind; [exact Ha|]. intros x _. apply okE_bind; [exact Hb|]. intros; exact I. Qed.

Lemma okE_rconcat l : Forall okE l -> okE (rconcat l).
Proof. induction 1 as [|r t Hr _ IH]; cbn [rconcat]; [exact I|]. apply okE_rapp; assumption. Qed.

Lemma okE_packB x : okE (packB x). Proof. unfold packB. destruct (_ && _); e_leaf. Qed.
Lemma okE_packH x : okE (packH x). Proof. unfold packH. destruct (_ && _); e_leaf. Qed.
Lemma okE_packI x : okE (packI x). Proof. unfold packI. destruct (_ && _); e_leaf. Qed.
Lemma okE_ascii_encode s : okE (ascii_encode s). Proof. unfold ascii_encode. destruct (forallb _ s); e_leaf. Qed.
Lemma okE_latin1_encode s : okE (latin1_encode s). Proof. unfold latin1_encode. destruct (forallb _ s); e_leaf. Qed.
Lemma okE_cstr s : okE (cstr s). Proof. unfold cstr. apply okE_bind; [apply okE_ascii_encode|]. intros; exact I. Qed.
Lemma okE_gsm_encode m s : okE (gsm_encode m s).
Proof. unfold gsm_encode. destruct (to_gsm_codes m s); [|e_leaf]. unfold pack_B. destruct (forallb _ _); e_leaf. Qed.
Lemma okE_gsm_packed_encode m s : okE (gsm_packed_encode m s).
Proof. unfold gsm_packed_encode. destruct (to_gsm_codes m s); [|e_leaf]. destruct (forallb _ _); e_leaf. Qed.
Lemma okE_ucs2_encode s : okE (ucs2_encode s). Proof. unfold ucs2_encode. destruct (utf16_units s); e_leaf. Qed.

Lemma okE_codec_encode e h text : okE (codec_encode e h text).
Proof.
  destruct e; cbn [codec_encode]; try e_leaf.
  - destruct (to_errmode h); [apply okE_gsm_encode|e_leaf].
  - destruct (to_errmode h); [apply okE_gsm_packed_encode|e_leaf].
  - destruct h; try apply okE_ascii_encode; destruct (forallb _ _); e_leaf.
  - destruct h; try apply okE_latin1_encode; destruct (forallb _ _); e_leaf.
  - pose proof (okE_ucs2_encode text) as H. destruct (ucs2_encode text) as [b|x]; [exact I|]. destruct h; [exact H| | |]; e_leaf.
Qed.

Lemma okE_smpp_encode default m text : okE (smpp_encode default m text).
Proof.
  unfold smpp_encode. destruct (s_enc m) as [e|].
  - apply okE_bind; [apply okE_codec_encode|]. intros; exact I.
  - pose proof (okE_codec_encode default (s_err m) text) as H. destruct (codec_encode default (s_err m) text) as [b|x]; [exact I|].
    destruct (x =? EXN_UnicodeEncodeError); [|exact H]. apply okE_bind; [apply okE_codec_encode|]. intros; exact I.
Qed.

Lemma okE_op_tlv p : opt_ok p = true -> okE (op_tlv p).
Proof.
  unfold opt_ok, op_tlv. destruct (tag_data_type (op_tag p)).
  - intros _. destruct (lookup _ _); [|e_leaf]. destruct (op_val p); try e_leaf.
    apply okE_rapp; [apply okE_packH|]. apply okE_rapp; [apply okE_packH|]. unfold pack_width.
    destruct (_ =? 1); [apply okE_packB|]. destruct (_ =? 2); [apply okE_packH|apply okE_packI].
  - intros _. destruct (op_val p) as [v|s|[|]]; try e_leaf. apply okE_rapp; apply okE_packH.
  - destruct (op_val p) as [v|s|b]; try discriminate. intros _.
    apply okE_bind; [destruct (mem (op_tag p) tlv_cstring_tags_tlv); [apply okE_ascii_encode|apply okE_latin1_encode]|]. intros val _. apply okE_rapp; [apply okE_packH|]. apply okE_rapp; [apply okE_packH|exact I].
Qed.

Lemma okE_time_to_smpp t : okE (time_to_smpp t).
Proof.
  destruct t as [|c|d]; cbn [time_to_smpp]; [exact I| |].
  - destruct (match c_off c with None => _ | Some o => _ end). exact I.
  - destruct (_ || _); [e_leaf|exact I].
Qed.

Lemma okE_pack_header a b c d : okE (pack_header a b c d).
Proof. unfold pack_header. repeat (apply okE_rapp; [apply okE_packI|]). apply okE_packI. Qed.

Lemma okE_encode_sm default cmd m : ctor_ok m = true -> okE (encode_sm default cmd m).
Proof.
  intros Hc. unfold encode_sm.
  apply okE_bind.
  { destruct (s_pre m); [|exact I]. apply okE_bind; [apply okE_smpp_encode|]. intros [b e'] _.
    destruct (_ && _ && _); [e_leaf|]. destruct (_ || _); [|exact I].
    apply okE_bind; [apply okE_rapp; apply okE_packH|]. intros; exact I. }
  intros [[sm ptlv] e'] _.
  apply okE_bind. { destruct e' as [e|]; [|exact I]. destruct e; cbn [enc_data_coding]; e_leaf. }
  intros dc _.
  apply okE_bind.
  { apply okE_rconcat. apply Forall_forall. intros r Hr. apply in_map_iff in Hr as (p & <- & Hp). apply okE_op_tlv.
    unfold ctor_ok in Hc. rewrite forallb_forall in Hc. apply Hc. destruct (0 <? _); [apply filter_In in Hp as [Hp _]|]; exact Hp. }
  intros opts _.
  apply okE_bind.
  { repeat first [ apply okE_rapp; [first [apply okE_cstr | apply okE_packB
                                          | (apply okE_bind; [apply okE_time_to_smpp|intros; apply okE_cstr]) | exact I]|]
                 | exact I ]. }
  intros body _. apply okE_bind; [apply okE_pack_header|]. intros; exact I.
Qed.

Lemma okE_encode_user_data d : okE (encode_user_data d).
Proof. unfold encode_user_data. destruct (is_octet _); e_leaf. Qed.
Lemma okE_ba_append x : okE (ba_append x).
Proof. unfold ba_append. destruct (is_octet x); e_leaf. Qed.

Lemma okE_split_sms text enc : okE (split_sms text enc).
Proof.
  unfold split_sms. destruct (_ =? 0).
  - apply okE_bind; [apply okE_gsm_encode|]. intros codes _. destruct (_ <=? _); [|exact I].
    apply okE_bind; [apply okE_encode_user_data|]. intros; exact I.
  - apply okE_bind; [apply okE_ucs2_encode|]. intros bytes _. destruct (_ <=? _); [|exact I].
    apply okE_bind; [apply okE_encode_user_data|]. intros; exact I.
Qed.

Lemma okE_split_sms_udh text enc ref : okE (split_sms_udh text enc ref).
Proof.
  unfold split_sms_udh. cbv zeta.
  apply okE_bind; [destruct (_ =? 0); [apply okE_gsm_encode|apply okE_ucs2_encode]|]. intros data _.
  destruct (_ <=? _); [apply okE_bind; [apply okE_encode_user_data|intros; exact I]|].
  apply okE_bind.
  { destruct (255 <? ref).
    - apply okE_bind; [apply okE_ba_append|]. intros a _. apply okE_bind; [apply okE_ba_append|]. intros; exact I.
    - apply okE_bind; [apply okE_ba_append|]. intros; exact I. }
  intros refb _. apply okE_bind; [apply okE_ba_append|]. intros; exact I.
Qed.

Theorem okE_segment_msgs default m ref : okE (segment_msgs default m ref).
Proof.
  unfold segment_msgs. destruct (s_auto m); [exact I|]. destruct (0 <? _).
  - cbv zeta. apply okE_bind; [apply okE_split_sms_udh|]. intros parts _. destruct parts as [|p [|q t]]; exact I.
  - apply okE_bind; [apply okE_smpp_encode|]. intros be _. apply okE_bind; [apply okE_split_sms|]. intros parts _.
    destruct parts as [|p [|q t]]; exact I.
Qed.

(* the clones are still constructor-valid messages *)
Lemma sar_opts_ok ref idx total : forallb opt_ok (sar_opts ref idx total) = true.
Proof. reflexivity. Qed.

Lemma segments_ctor_ok default m ref segs :
  ctor_ok m = true -> segment_msgs default m ref = Ok segs -> forallb ctor_ok segs = true.
Proof.
  intros Hc. unfold segment_msgs.
  assert (forall e parts, forallb ctor_ok (clones m e ref parts) = true) as Hcl.
  { intros e parts. unfold clones. apply forallb_forall. intros s Hs. apply in_map_iff in Hs as (ip & <- & _).
    unfold ctor_ok, upd. cbn [s_opts]. rewrite forallb_app. unfold ctor_ok in Hc. rewrite Hc. apply sar_opts_ok. }
  destruct (s_auto m); [intros H; injection H as <-; cbn [forallb]; rewrite Hc; reflexivity|].
  destruct (0 <? _).
  - cbv zeta. destruct (split_sms_udh _ _ _) as [parts|]; cbn [rbind]; [|discriminate].
    destruct parts as [|p [|q t]]; intros H; injection H as <-; try apply Hcl.
    cbn [forallb]. unfold ctor_ok, upd at 1. cbn [s_opts]. unfold ctor_ok in Hc. rewrite Hc. reflexivity.
  - destruct (smpp_encode default m (s_short m)) as [be|]; cbn [rbind]; [|discriminate].
    destruct (split_sms _ _) as [parts|]; cbn [rbind]; [|discriminate].
    destruct parts as [|p [|q t]]; intros H; injection H as <-; try apply Hcl.
    cbn [forallb]. unfold ctor_ok, upd at 1. cbn [s_opts]. unfold ctor_ok in Hc. rewrite Hc. reflexivity.
Qed.

Lemma send_segs_error default : forall segs g acc g' w e,
  forallb ctor_ok segs = true -> send_segs default g segs acc = (g', w, Some e) -> In e build_errors.
Proof.
  induction segs as [|s t IH]; intros g acc g' w e Hc H; cbn [send_segs] in H; [discriminate|].
  cbn [forallb] in Hc. apply andb_prop in Hc as [Hs Ht].
  destruct (next_sequence g) as [n g1].
  assert (ctor_ok (upd s n (s_esm s) (s_enc s) (s_pre s) (s_opts s)) = true) as Hs' by exact Hs.
  pose proof (okE_encode_sm default SmppCommand_SUBMIT_SM _ Hs') as Hk.
  destruct (encode_sm default SmppCommand_SUBMIT_SM _) as [be|x].
  - eapply IH; eauto.
  - injection H as _ _ <-. exact Hk.
Qed.

Lemma build_errors_caught e : In e build_errors -> e <> EXN_Unmodelled -> build_caught e = true.
Proof. intros Hin Hne. cbn in Hin. destruct Hin as [<-|[<-|[<-|[<-|[<-|[<-|[]]]]]]]; try (vm_compute; reflexivity). contradiction. Qed.

(* one queued message: the loop goes on (inside the modelled fragment), and the message is either written in full or
   handed to send_error exactly once *)
Theorem send_one_continues default st idx m ev st' stop :
  ctor_ok m = true -> send_one default st idx m = (ev, st', stop) ->
  (stop = None \/ stop = Some EXN_Unmodelled)
  /\ (  (exists pdus, ev = map EvWrite pdus)
     \/ (exists pdus e, ev = map EvWrite pdus ++ [EvSendError idx e])).
Proof.
  intros Hc. unfold send_one.
  destruct (if s_auto m then _ else _) as [ref gref].
  pose proof (okE_segment_msgs default m ref) as Hk.
  destruct (segment_msgs default m ref) as [segs|x] eqn:Es.
  - pose proof (segments_ctor_ok _ _ _ _ Hc Es) as Hsegs.
    destruct (send_segs default (st_seq st) segs []) as [[g' written] err] eqn:Ess.
    destruct err as [e|]; intros H; injection H as <- _ <-.
    + pose proof (send_segs_error _ _ _ _ _ _ _ Hsegs Ess) as Hin. split.
      * destruct (Z.eq_dec e EXN_Unmodelled) as [->|N]; [destruct (build_caught _); auto|]. rewrite (build_errors_caught e Hin N). left. reflexivity.
      * right. eauto.
    + split; [left; reflexivity|]. left. eauto.
  - intros H. injection H as <- _ <-. split.
    + destruct (Z.eq_dec x EXN_Unmodelled) as [->|N]; [destruct (build_caught _); auto|]. rewrite (build_errors_caught x Hk N). left. reflexivity.
    + right. exists [], x. reflexivity.
Qed.

(* any queue of constructor-valid messages: the Sender task is never ended by what was queued *)
Theorem run_queue_never_stops default : forall msgs st idx ev st' stop,
  forallb ctor_ok msgs = true -> run_queue default st idx msgs = (ev, st', stop) ->
  stop = None \/ stop = Some EXN_Unmodelled.
Proof.
  induction msgs as [|m t IH]; intros st idx ev st' stop Hc H; cbn [run_queue] in H.
  - injection H as _ _ <-. left. reflexivity.
  - cbn [forallb] in Hc. apply andb_prop in Hc as [Hm Ht].
    destruct (send_one default st idx m) as [[ev1 st1] stop1] eqn:E1.
    destruct (send_one_continues _ _ _ _ _ _ _ Hm E1) as [Hstop _].
    destruct stop1 as [e|].
    + injection H as _ _ <-. destruct Hstop as [Hs|Hs]; [discriminate|right; exact Hs].
    + destruct (run_queue default st1 (S idx) t) as [[ev2 st2] stop2] eqn:E2. injection H as _ _ <-. eapply IH; eauto.
Qed.

(* order: the events of the first message come first, then those of the rest of the queue, unchanged by what came before
   except for the sequence and reference counters *)
Theorem run_queue_order default m t st idx :
  let '(ev1, st1, stop1) := send_one default st idx m in
  stop1 = None ->
  let '(ev2, st2, stop2) := run_queue default st1 (S idx) t in
  run_queue default st idx (m :: t) = (ev1 ++ ev2, st2, stop2).
Proof.
  cbn [run_queue]. destruct (send_one default st idx m) as [[ev1 st1] stop1]. intros ->.
  destruct (run_queue default st1 (S idx) t) as [[ev2 st2] stop2]. reflexivity.
Qed.
