(* Lemmas for C16. *)
From Coq Require Import ZArith List Bool Lia ZifyBool.
Import ListNotations.
Require Import AV.Model.Keeper.
Open Scope Z_scope.

Lemma insert_head x l : exists a rest, insert x l = a :: rest /\ a <= x.
Proof.
  destruct l as [|y t]; cbn [insert]; [exists x, []; split; [reflexivity|lia]|].
  destruct (x <=? y) eqn:E; [exists x, (y :: t); split; [reflexivity|lia]|exists y, (insert x t); split; [reflexivity|lia]].
Qed.

Lemma drop_before_head from l a rest : drop_before from l = a :: rest -> from <= a.
Proof.
  induction l as [|y t IH]; cbn [drop_before]; [discriminate|]. destruct (y <? from) eqn:E; [exact IH|]. intros H. injection H as <- _. lia.
Qed.

(* ---- one step of the keeper, in the words of the property ---- *)

(* traffic before the interval has run out: no probe, the interval starts over at that arrival *)
Lemma step_traffic f interval timeout now arrivals delays horizon a rest :
  now < horizon -> drop_before now arrivals = a :: rest -> a < now + interval ->
  keeper (S f) interval timeout now arrivals delays horizon = keeper f interval timeout a rest delays horizon.
Proof.
  intros Hh Hd Ha. cbn [keeper]. replace (horizon <=? now) with false by lia. rewrite Hd. replace (a <? now + interval) with true by lia. reflexivity.
Qed.

(* nothing received for a whole interval: the probe goes out exactly then *)
Lemma step_idle f interval timeout now arrivals delays horizon :
  now < horizon ->
  (forall a rest, drop_before now arrivals = a :: rest -> now + interval <= a) ->
  keeper (S f) interval timeout now arrivals delays horizon = probe f interval timeout (now + interval) (drop_before now arrivals) delays horizon.
Proof.
  intros Hh Hq. cbn [keeper]. replace (horizon <=? now) with false by lia.
  destruct (drop_before now arrivals) as [|a rest] eqn:E; [reflexivity|].
  specialize (Hq a rest eq_refl). replace (a <? now + interval) with false by lia. reflexivity.
Qed.

(* after a probe at p: silence for the whole time-out means the drop comes exactly at p + timeout ... *)
Lemma probe_silent f interval timeout p arrivals horizon :
  p < horizon -> (forall a rest, arrivals = a :: rest -> p + timeout <= a) ->
  probe (S f) interval timeout p arrivals (None :: []) horizon = ([p], if p + timeout <? horizon then Some (p + timeout) else None).
Proof.
  intros Hh Hq. cbn [probe]. replace (horizon <=? p) with false by lia.
  destruct arrivals as [|a rest]; [reflexivity|]. specialize (Hq a rest eq_refl). replace (a <? p + timeout) with false by lia. reflexivity.
Qed.

(* ... and any arrival before that - the answer or other traffic - keeps the connection: the keeper just starts over *)
Lemma probe_answered f interval timeout p arrivals delays horizon a rest :
  p < horizon ->
  (match delays with Some d :: _ => insert (p + d) arrivals | _ => arrivals end) = a :: rest -> a < p + timeout ->
  probe (S f) interval timeout p arrivals delays horizon =
    (p :: fst (keeper f interval timeout a rest (tl delays) horizon), snd (keeper f interval timeout a rest (tl delays) horizon)).
Proof.
  intros Hh Ha Hlt. cbn [probe]. replace (horizon <=? p) with false by lia.
  destruct delays as [|[d|] t]; cbn [tl] in *; rewrite Ha; replace (a <? p + timeout) with true by lia;
    destruct (keeper f interval timeout a rest _ horizon); reflexivity.
Qed.

(* ---- a peer that answers every probe in time is never dropped, whatever else arrives, for any horizon ---- *)
Definition answers_in_time (timeout : Z) (delays : list (option Z)) : Prop :=
  Forall (fun d => match d with Some x => 0 <= x < timeout | None => False end) delays.

Lemma live_peer_gen fuel : forall interval timeout now p arrivals delays horizon,
  answers_in_time timeout delays -> (fuel <= length delays)%nat ->
  snd (keeper fuel interval timeout now arrivals delays horizon) = None
  /\ snd (probe fuel interval timeout p arrivals delays horizon) = None.
Proof.
  induction fuel as [|f IH]; intros interval timeout now p arrivals delays horizon Hans Hlen; [split; reflexivity|].
  split.
  - cbn [keeper]. destruct (horizon <=? now); [reflexivity|].
    destruct (drop_before now arrivals) as [|a rest].
    + apply (IH interval timeout now (now + interval) [] delays horizon Hans). lia.
    + destruct (a <? now + interval).
      * apply (IH interval timeout a p rest delays horizon Hans). lia.
      * apply (IH interval timeout now (now + interval) (a :: rest) delays horizon Hans). lia.
  - cbn [probe]. destruct (horizon <=? p); [reflexivity|].
    destruct delays as [|[d|] t]; cbn [length] in Hlen; [lia| |inversion Hans as [|? ? Hd _]; contradiction].
    inversion_clear Hans as [|? ? Hd Ht].
    destruct (insert_head (p + d) arrivals) as (a & rest & -> & Ha).
    replace (a <? p + timeout) with true by lia.
    destruct (IH interval timeout a p rest t horizon Ht ltac:(lia)) as [Hk _].
    destruct (keeper f interval timeout a rest t horizon) as [ps dr]. cbn [snd] in *. exact Hk.
Qed.

Theorem live_peer_never_dropped fuel interval timeout arrivals delays horizon :
  answers_in_time timeout delays -> (fuel <= length delays)%nat ->
  snd (keeper fuel interval timeout 0 arrivals delays horizon) = None.
Proof. intros Ha Hl. apply (live_peer_gen fuel interval timeout 0 0 arrivals delays horizon Ha Hl). Qed.

(* ---- a silent peer: one probe after exactly `interval`, the drop exactly `timeout` later ---- *)
Theorem silent_peer_dropped fuel interval timeout horizon delays :
  0 < interval -> 0 < timeout -> interval + timeout < horizon -> Forall (fun d => d = None) delays ->
  keeper (S (S fuel)) interval timeout 0 [] delays horizon = ([interval], Some (interval + timeout)).
Proof.
  intros Hi Ht Hh Hd. cbn [keeper drop_before]. replace (horizon <=? 0) with false by lia. cbn [probe Z.add].
  replace (horizon <=? interval) with false by lia.
  replace (interval + timeout <? horizon) with true by lia.
  destruct delays as [|d t]; [reflexivity|]. inversion_clear Hd as [|? ? Hd0 _]. subst d. reflexivity.
Qed.
