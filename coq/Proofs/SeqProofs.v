(* Lemmas for C13: sequence numbers and request/response matching. *)
From Coq Require Import ZArith List Bool Lia.
Import ListNotations.
Require Import AV.Generated.SmppConsts AV.Generated.Handled AV.Model.Base AV.Model.Seq.
Open Scope Z_scope.

(* ================= (a) the generator ================= *)

Definition wf_gen (g : seqgen) : Prop := sg_min g <= sg_max g /\ sg_min g - 1 <= sg_cur g <= sg_max g.

Definition period (g : seqgen) : Z := sg_max g - sg_min g + 1.

Lemma next_in_range g : wf_gen g ->
  let '(n, g') := next_sequence g in
  sg_min g <= n <= sg_max g /\ wf_gen g' /\ sg_min g' = sg_min g /\ sg_max g' = sg_max g /\ sg_cur g' = n.
Proof.
  intros [H1 H2]. unfold next_sequence, wf_gen. cbn [sg_min sg_max sg_cur].
  destruct (Z.eqb_spec (sg_cur g) (sg_max g)); lia.
Qed.

(* value of the k-th number handed out (k >= 1) by a generator that started in state g0 *)
Definition cur_after (g0 : seqgen) (k : Z) : Z :=
  if k =? 0 then sg_cur g0 else sg_min g0 + (sg_cur g0 - sg_min g0 + k) mod period g0.

Lemma mod_succ a P : 0 < P -> (a + 1) mod P = if a mod P =? P - 1 then 0 else a mod P + 1.
Proof.
  intros HP. pose proof (Z.mod_pos_bound a P HP) as Hb.
  rewrite <- (Zplus_mod_idemp_l a 1 P).
  destruct (Z.eqb_spec (a mod P) (P - 1)) as [E|E].
  - rewrite E. replace (P - 1 + 1) with P by lia. apply Z.mod_same. lia.
  - apply Z.mod_small. lia.
Qed.

Lemma cur_after_step g0 k : wf_gen g0 -> 0 <= k ->
  (if cur_after g0 k =? sg_max g0 then sg_min g0 else cur_after g0 k + 1) = cur_after g0 (k + 1).
Proof.
  intros [H1 H2] Hk. unfold cur_after, period.
  set (P := sg_max g0 - sg_min g0 + 1). assert (0 < P) as HP by (unfold P; lia).
  replace (k + 1 =? 0) with false by (symmetry; apply Z.eqb_neq; lia).
  replace (sg_cur g0 - sg_min g0 + (k + 1)) with (sg_cur g0 - sg_min g0 + k + 1) by lia.
  rewrite (mod_succ _ P HP).
  pose proof (Z.mod_pos_bound (sg_cur g0 - sg_min g0 + k) P HP) as Hb.
  destruct (Z.eqb_spec k 0) as [->|Hk0].
  - rewrite Z.add_0_r.
    destruct (Z.eqb_spec (sg_cur g0) (sg_max g0)) as [E|E].
    + replace (sg_cur g0 - sg_min g0) with (P - 1) by (unfold P; lia).
      rewrite Z.mod_small by lia. rewrite Z.eqb_refl. lia.
    + destruct (Z.eq_dec (sg_cur g0) (sg_min g0 - 1)) as [E2|E2].
      * replace (sg_cur g0 - sg_min g0) with (-1) by lia.
        replace (-1) with (P - 1 + (-1) * P) by lia. rewrite Z.mod_add by lia.
        rewrite Z.mod_small by lia. rewrite Z.eqb_refl. lia.
      * rewrite Z.mod_small by (unfold P; lia).
        destruct (Z.eqb_spec (sg_cur g0 - sg_min g0) (P - 1)); unfold P in *; lia.
  - destruct (Z.eqb_spec ((sg_cur g0 - sg_min g0 + k) mod P) (P - 1)) as [E|E].
    + destruct (Z.eqb_spec (sg_min g0 + (sg_cur g0 - sg_min g0 + k) mod P) (sg_max g0)); unfold P in *; lia.
    + destruct (Z.eqb_spec (sg_min g0 + (sg_cur g0 - sg_min g0 + k) mod P) (sg_max g0)); unfold P in *; lia.
Qed.

Lemma cur_after_in_range g0 k : wf_gen g0 -> 1 <= k -> sg_min g0 <= cur_after g0 k <= sg_max g0.
Proof.
  intros [H1 H2] Hk. unfold cur_after, period.
  replace (k =? 0) with false by (symmetry; apply Z.eqb_neq; lia).
  pose proof (Z.mod_pos_bound (sg_cur g0 - sg_min g0 + k) (sg_max g0 - sg_min g0 + 1) ltac:(lia)). lia.
Qed.

(* two numbers handed out fewer than one period apart differ: also across wrap-around *)
Lemma cur_after_distinct g0 i j : wf_gen g0 -> 1 <= i -> i < j -> j - i < period g0 ->
  cur_after g0 i <> cur_after g0 j.
Proof.
  intros [H1 H2] Hi Hij Hp. unfold cur_after.
  replace (i =? 0) with false by (symmetry; apply Z.eqb_neq; lia).
  replace (j =? 0) with false by (symmetry; apply Z.eqb_neq; lia).
  set (P := period g0) in *. assert (0 < P) by (unfold P, period; lia).
  set (c := sg_cur g0 - sg_min g0). intros E.
  assert ((c + j) mod P = (c + i) mod P) as Em by lia.
  assert ((j - i) mod P = 0) as Hz.
  { replace (j - i) with ((c + j) - (c + i)) by lia. rewrite Zminus_mod, Em, Z.sub_diag. apply Z.mod_0_l. lia. }
  rewrite Z.mod_small in Hz by lia. lia.
Qed.

(* ================= (b) matching ================= *)

Definition Zcount (x : Z) (l : list Z) : nat := count_occ Z.eq_dec l x.

Definition pend_ids (s : mstate) : list Z := map rq_id (ms_pending s).
Definition ids_of (st : store) : list Z := map (fun kv => rq_id (snd kv)) st.
Definition store_ids (s : mstate) : list Z := ids_of (ms_store s).

Fixpoint attributed_ids (os : list outcome) : list Z :=
  match os with
  | [] => []
  | Attributed _ _ q :: t => rq_id q :: attributed_ids t
  | _ :: t => attributed_ids t
  end.

Lemma attributed_ids_app a b : attributed_ids (a ++ b) = attributed_ids a ++ attributed_ids b.
Proof. induction a as [|[]]; cbn; rewrite ?IHa; reflexivity. Qed.

Lemma Zcount_app x a b : Zcount x (a ++ b) = (Zcount x a + Zcount x b)%nat.
Proof. apply count_occ_app. Qed.

Lemma Zcount_cons x y l : Zcount x (y :: l) = ((if Z.eq_dec y x then 1 else 0) + Zcount x l)%nat.
Proof. unfold Zcount. cbn [count_occ]. destruct (Z.eq_dec y x); reflexivity. Qed.

(* put: at most one more occurrence of the new id, nothing else gains *)
Lemma put_count x st k r :
  (Zcount x (ids_of (put st k r)) <= Zcount x (ids_of st) + (if Z.eq_dec (rq_id r) x then 1 else 0))%nat.
Proof.
  induction st as [|[k' r'] t IH]; cbn [put ids_of map].
  - rewrite Zcount_cons. cbn [snd]. change (Zcount x []) with 0%nat. lia.
  - destruct (k =? k'); cbn [ids_of map snd]; rewrite !Zcount_cons; fold (ids_of t).
    + destruct (Z.eq_dec (rq_id r) x), (Z.eq_dec (rq_id r') x); lia.
    + fold (ids_of (put t k r)). lia.
Qed.

Lemma pop_count x k st :
  Zcount x (ids_of st) =
  (Zcount x (ids_of (snd (pop k st))) +
   match fst (pop k st) with Some q => if Z.eq_dec (rq_id q) x then 1 else 0 | None => 0 end)%nat.
Proof.
  induction st as [|[k' r'] t IH]; cbn [pop ids_of map]; [reflexivity|].
  destruct (k =? k'); cbn [fst snd ids_of map].
  - rewrite Zcount_cons. fold (ids_of t). lia.
  - destruct (pop k t) as [o t'] eqn:E. cbn [fst snd] in IH. cbn [fst snd ids_of map].
    rewrite !Zcount_cons. fold (ids_of t) (ids_of t'). lia.
Qed.

Lemma take_count x id p :
  Zcount x (map rq_id p) =
  (Zcount x (map rq_id (snd (take_id id p))) +
   match fst (take_id id p) with Some q => if Z.eq_dec (rq_id q) x then 1 else 0 | None => 0 end)%nat.
Proof.
  induction p as [|q t IH]; cbn [take_id map]; [reflexivity|].
  destruct (rq_id q =? id); cbn [fst snd map].
  - rewrite Zcount_cons. lia.
  - destruct (take_id id t) as [o t'] eqn:E. cbn [fst snd map] in *. rewrite !Zcount_cons. lia.
Qed.

Lemma pop_In k st q : fst (pop k st) = Some q -> In (k, q) st.
Proof.
  induction st as [|[k' r'] t IH]; cbn [pop]; [discriminate|].
  destruct (Z.eqb_spec k k') as [->|Hne]; cbn [fst].
  - intros H; injection H as ->. left; reflexivity.
  - destruct (pop k t) as [o t']. cbn [fst] in *. intros H. right; auto.
Qed.

Lemma pop_subset k st kv : In kv (snd (pop k st)) -> In kv st.
Proof.
  induction st as [|[k' r'] t IH]; cbn [pop]; [auto|].
  destruct (k =? k'); cbn [snd]; [right; auto|].
  destruct (pop k t) as [o t']. cbn [snd] in *. intros [H|H]; [left|right]; auto.
Qed.

Lemma put_In st k r kv : In kv (put st k r) -> kv = (k, r) \/ In kv st.
Proof.
  induction st as [|[k' r'] t IH]; cbn [put].
  - intros [H|[]]; auto.
  - destruct (k =? k').
    + intros [H|H]; [left; auto|right; right; auto].
    + intros [H|H]; [right; left; auto|]. destruct (IH H); [left|right; right]; auto.
Qed.

Lemma take_In id p q : fst (take_id id p) = Some q -> In q p /\ rq_id q = id.
Proof.
  induction p as [|q' t IH]; cbn [take_id]; [discriminate|].
  destruct (Z.eqb_spec (rq_id q') id) as [E|E]; cbn [fst].
  - intros H; injection H as ->. split; [left; reflexivity|auto].
  - destruct (take_id id t) as [o t']. cbn [fst] in *. intros H. destruct (IH H). split; [right|]; auto.
Qed.

Lemma take_subset id p q : In q (snd (take_id id p)) -> In q p.
Proof.
  induction p as [|q' t IH]; cbn [take_id]; [auto|].
  destruct (rq_id q' =? id); cbn [snd]; [right; auto|].
  destruct (take_id id t) as [o t']. cbn [snd] in *. intros [H|H]; [left|right]; auto.
Qed.

(* the invariant: every ghost id lives in at most one place (pending, store, already attributed) *)
Definition occ (x : Z) (s : mstate) (A : list Z) : nat :=
  (Zcount x (pend_ids s) + Zcount x (store_ids s) + Zcount x A)%nat.

Definition Inv (s : mstate) (A : list Z) : Prop :=
  forall x, (occ x s A <= 1)%nat /\ ((1 <= occ x s A)%nat -> x < ms_next_id s).

Lemma Inv_init g : Inv (init_state g) [].
Proof. intros x. unfold occ, pend_ids, store_ids, Zcount. cbn. split; lia. Qed.

Lemma step_Inv s A e : Inv s A ->
  let '(s', os) := step s e in Inv s' (attributed_ids os ++ A).
Proof.
  intros HI. destruct e as [cmd|id|id|cmd seq|seq]; cbn [step].
  - (* EAssign *)
    destruct (is_request cmd); [|exact HI].
    destruct (next_sequence (ms_gen s)) as [n g'].
    destruct (valid_sequence n); cbn [attributed_ids app]; intros x; specialize (HI x);
      unfold occ, pend_ids, store_ids in *; cbn [ms_pending ms_store ms_next_id map rq_id] in *.
    + rewrite Zcount_cons. destruct (Z.eq_dec (ms_next_id s) x) as [E|E]; lia.
    + lia.
  - (* EPut *)
    destruct (take_id id (ms_pending s)) as [[q|] p'] eqn:Et; [|exact HI].
    assert (attributed_ids (match fst (pop (rq_seq q) (ms_store s)) with Some old => [Collision old] | None => [] end) = []) as ->
      by (destruct (fst (pop (rq_seq q) (ms_store s))); reflexivity).
    cbn [app]. intros x. specialize (HI x).
    pose proof (take_count x id (ms_pending s)) as Ht. rewrite Et in Ht. cbn [fst snd] in Ht.
    pose proof (put_count x (ms_store s) (rq_seq q) q) as Hp.
    unfold occ, pend_ids, store_ids, upd in *. cbn [ms_pending ms_store ms_next_id] in *.
    destruct (Z.eq_dec (rq_id q) x); lia.
  - (* EDrop *)
    cbn [attributed_ids app]. intros x. specialize (HI x).
    pose proof (take_count x id (ms_pending s)) as Ht.
    unfold occ, pend_ids, store_ids, upd in *. cbn [ms_pending ms_store ms_next_id] in *.
    destruct (fst (take_id id (ms_pending s))); [destruct (Z.eq_dec (rq_id r) x)|]; lia.
  - (* EResp *)
    destruct (negb (mem cmd handled_response_commands)); [exact HI|].
    destruct (if cmd =? SmppCommand_GENERIC_NACK then Ok None
              else match lookup cmd response_command_map with Some oc => Ok (Some oc) | None => Err 5 end) as [oc|];
      [|exact HI].
    destruct (other_type cmd (fst (pop seq (ms_store s)))); [exact HI|].
    destruct (pop seq (ms_store s)) as [orig st'] eqn:Ep.
    assert (forall x, Zcount x (ids_of (ms_store s)) =
                      (Zcount x (ids_of st') + match orig with Some q => if Z.eq_dec (rq_id q) x then 1 else 0 | None => 0 end)%nat) as Hc.
    { intros x. pose proof (pop_count x seq (ms_store s)) as H. rewrite Ep in H. exact H. }
    destruct orig as [q|].
    + destruct (match oc with Some c => negb (rq_cmd q =? c) | None => false end);
        [|destruct (((cmd =? SmppCommand_SUBMIT_SM_RESP) || (cmd =? SmppCommand_GENERIC_NACK)) && (rq_cmd q =? SmppCommand_SUBMIT_SM))];
        cbn [attributed_ids app]; intros x; specialize (HI x); specialize (Hc x);
        unfold occ, pend_ids, store_ids, upd in *; cbn [ms_pending ms_store ms_next_id] in *;
        rewrite ?Zcount_cons; destruct (Z.eq_dec (rq_id q) x); lia.
    + cbn [attributed_ids app]. intros x. specialize (HI x). specialize (Hc x).
      unfold occ, pend_ids, store_ids, upd in *. cbn [ms_pending ms_store ms_next_id] in *. lia.
  - (* EExpire *)
    cbn [attributed_ids app]. intros x. specialize (HI x).
    pose proof (pop_count x seq (ms_store s)) as Hc.
    unfold occ, pend_ids, store_ids, upd in *. cbn [ms_pending ms_store ms_next_id] in *.
    destruct (fst (pop seq (ms_store s))); [destruct (Z.eq_dec (rq_id r) x)|]; lia.
Qed.

Lemma run_Inv es : forall s A, Inv s A ->
  let '(s', os) := run s es in Inv s' (attributed_ids os ++ A).
Proof.
  induction es as [|e t IH]; intros s A HI; cbn [run]; [exact HI|].
  pose proof (step_Inv s A e HI) as H1. destruct (step s e) as [s1 o1].
  pose proof (IH s1 _ H1) as H2. destruct (run s1 t) as [s2 o2].
  rewrite attributed_ids_app, <- app_assoc.
  (* order of concatenation differs: o1 then o2; the invariant only counts occurrences *)
  intros x. specialize (H2 x). unfold occ in *. rewrite !Zcount_app in *. lia.
Qed.

(* at most one attribution per request, for every history *)
Theorem attribution_at_most_once g es :
  NoDup (attributed_ids (snd (run (init_state g) es))).
Proof.
  pose proof (run_Inv es (init_state g) [] (Inv_init g)) as H.
  destruct (run (init_state g) es) as [s os]. cbn [snd]. rewrite app_nil_r in H.
  apply (NoDup_count_occ Z.eq_dec). intros x. specialize (H x). unfold occ, Zcount in *. lia.
Qed.

(* every stored request sits under its own sequence number *)
Definition store_keyed (s : mstate) : Prop := forall k q, In (k, q) (ms_store s) -> rq_seq q = k.

Lemma step_store_keyed s e : store_keyed s -> store_keyed (fst (step s e)).
Proof.
  intros HK. destruct e as [cmd|id|id|cmd seq|seq]; cbn [step].
  - destruct (is_request cmd); [|exact HK]. destruct (next_sequence (ms_gen s)) as [n g'].
    destruct (valid_sequence n); exact HK.
  - destruct (take_id id (ms_pending s)) as [[q|] p'] eqn:Et; [|exact HK].
    cbn [fst]. intros k q' Hin. unfold upd in Hin. cbn [ms_store] in Hin.
    apply put_In in Hin as [E|Hin]; [injection E as -> ->; reflexivity|auto].
  - exact HK.
  - destruct (negb (mem cmd handled_response_commands)); [exact HK|].
    destruct (if cmd =? SmppCommand_GENERIC_NACK then Ok None
              else match lookup cmd response_command_map with Some oc => Ok (Some oc) | None => Err 5 end) as [oc|];
      [|exact HK].
    destruct (other_type cmd (fst (pop seq (ms_store s)))); [exact HK|].
    destruct (pop seq (ms_store s)) as [orig st'] eqn:Ep.
    assert (store_keyed (upd s (ms_pending s) st')) as HK'.
    { intros k q Hin. unfold upd in Hin. cbn [ms_store] in Hin. apply HK.
      replace st' with (snd (pop seq (ms_store s))) in Hin by (rewrite Ep; reflexivity).
      eapply pop_subset; eauto. }
    destruct orig as [q|]; [|exact HK'].
    destruct (match oc with Some c => negb (rq_cmd q =? c) | None => false end); [exact HK'|].
    destruct (((cmd =? SmppCommand_SUBMIT_SM_RESP) || (cmd =? SmppCommand_GENERIC_NACK)) && (rq_cmd q =? SmppCommand_SUBMIT_SM)); exact HK'.
  - cbn [fst]. intros k q Hin. unfold upd in Hin. cbn [ms_store] in Hin. apply HK. eapply pop_subset; eauto.
Qed.

(* table facts: every handled response other than generic_nack has an original command, and
   RESPONSE_COMMAND_MAP inverts COMMAND_RESPONSE_MAP *)
Lemma handled_responses_have_originals :
  forallb (fun c => (c =? SmppCommand_GENERIC_NACK)
                    || match lookup c response_command_map with Some _ => true | None => false end)
          handled_response_commands = true.
Proof. vm_compute. reflexivity. Qed.

Lemma response_map_inverts :
  forallb (fun p => opt_eqb (lookup (snd p) command_response_map) (Some (fst p))) response_command_map = true.
Proof. vm_compute. reflexivity. Qed.

Lemma lookup_In' k m v : lookup k m = Some v -> In (k, v) m.
Proof.
  induction m as [|[k' v'] m IH]; rewrite ?lookup_nil, ?lookup_cons; intros H; [discriminate|].
  destruct (Z.eqb_spec k k') as [->|Hne]; [injection H as ->; left; reflexivity|right; auto].
Qed.

Lemma opt_eqb_eq' a b : opt_eqb a b = true -> a = b.
Proof. destruct a, b; cbn; intros H; try discriminate; try reflexivity. apply Z.eqb_eq in H; congruence. Qed.

Lemma mem_In k l : mem k l = true -> In k l.
Proof. unfold mem. rewrite existsb_exists. intros [x [Hin E]]. apply Z.eqb_eq in E. subst; auto. Qed.

(* what an attribution means: right number, compatible command, request outstanding, and consumed *)
Theorem attribution_sound s cmd seq s' os c n q :
  store_keyed s -> step s (EResp cmd seq) = (s', os) -> In (Attributed c n q) os ->
  c = cmd /\ n = seq /\ In (seq, q) (ms_store s) /\ rq_seq q = seq
  /\ (cmd = SmppCommand_GENERIC_NACK \/ lookup (rq_cmd q) command_response_map = Some cmd)
  /\ rq_cmd q = SmppCommand_SUBMIT_SM.
Proof.
  intros HK Hs Hin. cbn [step] in Hs. revert Hs.
  destruct (negb (mem cmd handled_response_commands)); [intros Hs; injection Hs as <- <-; destruct Hin|].
  destruct (Z.eqb_spec cmd SmppCommand_GENERIC_NACK) as [En|En].
  - destruct (other_type cmd (fst (pop seq (ms_store s)))); [intros Hs; injection Hs as <- <-; destruct Hin|].
    destruct (pop seq (ms_store s)) as [orig st'] eqn:Ep.
    destruct orig as [q'|]; [|intros Hs; injection Hs as <- <-; destruct Hin].
    cbn [negb]. cbv iota.
    match goal with |- context [if ?b then _ else _] => destruct b eqn:Ea end;
      intros Hs; injection Hs as <- <-; [|destruct Hin].
    destruct Hin as [E|[]]. injection E as <- <- <-.
    assert (In (seq, q') (ms_store s)) as Hq by (apply pop_In; rewrite Ep; reflexivity).
    apply andb_prop in Ea as [_ Ea]. apply Z.eqb_eq in Ea.
    repeat split; auto.
  - destruct (lookup cmd response_command_map) as [oc|] eqn:El;
      [|intros Hs; injection Hs as <- <-; destruct Hin as [E|[]]; discriminate].
    destruct (other_type cmd (fst (pop seq (ms_store s)))); [intros Hs; injection Hs as <- <-; destruct Hin|].
    destruct (pop seq (ms_store s)) as [orig st'] eqn:Ep.
    destruct orig as [q'|]; [|intros Hs; injection Hs as <- <-; destruct Hin].
    destruct (Z.eqb_spec (rq_cmd q') oc) as [Ec|Ec]; cbn [negb]; cbv iota; [|intros Hs; injection Hs as <- <-; destruct Hin].
    match goal with |- context [if ?b then _ else _] => destruct b eqn:Ea end;
      intros Hs; injection Hs as <- <-; [|destruct Hin].
    destruct Hin as [E|[]]. injection E as <- <- <-.
    assert (In (seq, q') (ms_store s)) as Hq by (apply pop_In; rewrite Ep; reflexivity).
    apply andb_prop in Ea as [_ Ea]. apply Z.eqb_eq in Ea.
    repeat split; auto. right.
    apply lookup_In' in El. pose proof response_map_inverts as Hinv. rewrite forallb_forall in Hinv.
    specialize (Hinv _ El). cbn [fst snd] in Hinv. apply opt_eqb_eq' in Hinv. rewrite Ec. exact Hinv.
Qed.

(* the handler never fails with KeyError on the response map *)
Theorem no_crash s cmd seq : ~ In Crash (snd (step s (EResp cmd seq))).
Proof.
  cbn [step]. destruct (mem cmd handled_response_commands) eqn:Em; cbn [negb]; [|cbn; auto].
  apply mem_In in Em. pose proof handled_responses_have_originals as H. rewrite forallb_forall in H.
  specialize (H _ Em). destruct (cmd =? SmppCommand_GENERIC_NACK); cbn [orb] in H.
  - destruct (other_type _ (fst (pop seq (ms_store s)))); [cbn; auto|].
    destruct (pop seq (ms_store s)) as [[q|] st']; cbn [negb];
      [destruct (((cmd =? SmppCommand_SUBMIT_SM_RESP) || true) && (rq_cmd q =? SmppCommand_SUBMIT_SM))|];
      cbn; intuition discriminate.
  - destruct (lookup cmd response_command_map) as [oc|]; [|discriminate].
    destruct (other_type _ (fst (pop seq (ms_store s)))); [cbn; auto|].
    destruct (pop seq (ms_store s)) as [[q|] st'];
      [destruct (negb (rq_cmd q =? oc));
       [|destruct (((cmd =? SmppCommand_SUBMIT_SM_RESP) || false) && (rq_cmd q =? SmppCommand_SUBMIT_SM))]|];
      cbn; intuition discriminate.
Qed.

(* a response whose number is not outstanding, or whose type does not fit, attributes nothing *)
Theorem unmatched_response_attributes_nothing s cmd seq :
  (fst (pop seq (ms_store s)) = None
   \/ (exists q oc, fst (pop seq (ms_store s)) = Some q /\ cmd <> SmppCommand_GENERIC_NACK
                    /\ lookup cmd response_command_map = Some oc /\ rq_cmd q <> oc)) ->
  attributed_ids (snd (step s (EResp cmd seq))) = [].
Proof.
  intros H. cbn [step]. destruct (negb (mem cmd handled_response_commands)); [reflexivity|].
  destruct H as [H|[q [oc [H [Hn [Hl Hc]]]]]].
  - destruct (if cmd =? SmppCommand_GENERIC_NACK then Ok None
              else match lookup cmd response_command_map with Some oc => Ok (Some oc) | None => Err 5 end); [|reflexivity].
    destruct (other_type cmd (fst (pop seq (ms_store s)))); [reflexivity|].
    destruct (pop seq (ms_store s)) as [orig st']. cbn [fst] in H. subst orig. reflexivity.
  - apply Z.eqb_neq in Hn. rewrite Hn, Hl.
    destruct (other_type cmd (fst (pop seq (ms_store s)))); [reflexivity|].
    destruct (pop seq (ms_store s)) as [orig st']. cbn [fst] in H. subst orig.
    apply Z.eqb_neq in Hc. rewrite Hc. reflexivity.
Qed.

(* ================= (a) lifted to the session: numbers of outstanding requests ================= *)

Definition live (s : mstate) : list request := ms_pending s ++ map snd (ms_store s).

(* ghost link between a request's id and its number, and between the generator and the id counter *)
Definition Tracked (g0 : seqgen) (s : mstate) : Prop :=
  wf_gen g0 /\ 0 <= ms_next_id s
  /\ sg_min (ms_gen s) = sg_min g0 /\ sg_max (ms_gen s) = sg_max g0
  /\ sg_cur (ms_gen s) = cur_after g0 (ms_next_id s)
  /\ forall q, In q (live s) -> 0 <= rq_id q < ms_next_id s /\ rq_seq q = cur_after g0 (rq_id q + 1).

Lemma Tracked_init g0 : wf_gen g0 -> Tracked g0 (init_state g0).
Proof.
  intros H. unfold Tracked, live, init_state.
  cbn [ms_gen ms_pending ms_store ms_next_id map app].
  split; [exact H|]. split; [lia|]. split; [reflexivity|]. split; [reflexivity|]. split; [reflexivity|].
  intros q Hq. destruct Hq.
Qed.

Lemma Tracked_shrink g0 s s' :
  Tracked g0 s -> ms_gen s' = ms_gen s -> ms_next_id s' = ms_next_id s ->
  (forall q, In q (live s') -> In q (live s)) -> Tracked g0 s'.
Proof.
  intros (Hwf & Hn & Hmin & Hmax & Hcur & Hlive) Eg En Hincl.
  unfold Tracked. rewrite Eg, En.
  split; [exact Hwf|]. split; [exact Hn|]. split; [exact Hmin|]. split; [exact Hmax|]. split; [exact Hcur|].
  intros q Hq. apply Hlive, Hincl, Hq.
Qed.

Lemma live_upd s p st q : In q (live (upd s p st)) <-> In q p \/ In q (map snd st).
Proof. unfold live, upd. cbn [ms_pending ms_store]. apply in_app_iff. Qed.

Lemma live_iff s q : In q (live s) <-> In q (ms_pending s) \/ In q (map snd (ms_store s)).
Proof. unfold live. apply in_app_iff. Qed.

Lemma In_map_snd (st : store) k q : In (k, q) st -> In q (map snd st).
Proof. intros H. apply in_map_iff. exists (k, q). auto. Qed.

Lemma pop_live_incl s seq q :
  In q (live (upd s (ms_pending s) (snd (pop seq (ms_store s))))) -> In q (live s).
Proof.
  rewrite live_upd, live_iff. intros [H|H]; [left; exact H|right].
  apply in_map_iff in H as [[k q'] [E H]]. cbn [snd] in E. subst q'.
  apply (In_map_snd _ k). eapply pop_subset; eauto.
Qed.

Lemma step_Tracked g0 s e : Tracked g0 s -> Tracked g0 (fst (step s e)).
Proof.
  intros HT. destruct e as [cmd|id|id|cmd seq|seq]; cbn [step].
  - (* EAssign *)
    destruct (is_request cmd); [|exact HT].
    destruct HT as (Hwf & Hn & Hmin & Hmax & Hcur & Hlive).
    unfold next_sequence. rewrite Hmin, Hmax, Hcur, (cur_after_step g0 _ Hwf Hn).
    assert (forall q, In q (live s) ->
              0 <= rq_id q < ms_next_id s + 1 /\ rq_seq q = cur_after g0 (rq_id q + 1)) as Hlive'.
    { intros q Hq. destruct (Hlive q Hq). split; [lia|assumption]. }
    destruct (valid_sequence (cur_after g0 (ms_next_id s + 1))); cbn [fst]; unfold Tracked;
      cbn [ms_gen ms_next_id sg_min sg_max sg_cur];
      (split; [exact Hwf|]); (split; [lia|]); (split; [reflexivity|]); (split; [reflexivity|]);
      (split; [reflexivity|]); intros q Hq; apply live_iff in Hq; cbn [ms_pending ms_store] in Hq.
    + destruct Hq as [[<-|Hq]|Hq].
      * cbn [rq_id rq_seq]. split; [lia|reflexivity].
      * apply Hlive'. apply live_iff. left; exact Hq.
      * apply Hlive'. apply live_iff. right; exact Hq.
    + apply Hlive'. apply live_iff. exact Hq.
  - (* EPut *)
    destruct (take_id id (ms_pending s)) as [[q0|] p'] eqn:Et; cbn [fst]; [|exact HT].
    apply (Tracked_shrink g0 s); [exact HT|reflexivity|reflexivity|].
    intros q Hq. apply live_upd in Hq. apply live_iff. destruct Hq as [Hq|Hq].
    + left. apply (take_subset id). rewrite Et. exact Hq.
    + apply in_map_iff in Hq as [[k q'] [E Hq]]. cbn [snd] in E. subst q'.
      apply put_In in Hq as [E|Hq].
      * injection E as _ ->. left. apply (take_In id). rewrite Et. reflexivity.
      * right. apply (In_map_snd _ k). exact Hq.
  - (* EDrop *)
    cbn [fst]. apply (Tracked_shrink g0 s); [exact HT|reflexivity|reflexivity|].
    intros q Hq. apply live_upd in Hq. apply live_iff. destruct Hq as [Hq|Hq]; [left|right; exact Hq].
    eapply take_subset; eauto.
  - (* EResp *)
    destruct (negb (mem cmd handled_response_commands)); [exact HT|].
    destruct (if cmd =? SmppCommand_GENERIC_NACK then Ok None
              else match lookup cmd response_command_map with Some oc => Ok (Some oc) | None => Err 5 end) as [oc|];
      [|exact HT].
    destruct (other_type cmd (fst (pop seq (ms_store s)))); [exact HT|].
    destruct (pop seq (ms_store s)) as [orig st'] eqn:Ep.
    assert (Tracked g0 (upd s (ms_pending s) st')) as HT'.
    { apply (Tracked_shrink g0 s); [exact HT|reflexivity|reflexivity|].
      replace st' with (snd (pop seq (ms_store s))) by (rewrite Ep; reflexivity). apply pop_live_incl. }
    destruct orig as [q|]; [|exact HT'].
    destruct (match oc with Some c => negb (rq_cmd q =? c) | None => false end); [exact HT'|].
    destruct (((cmd =? SmppCommand_SUBMIT_SM_RESP) || (cmd =? SmppCommand_GENERIC_NACK)) && (rq_cmd q =? SmppCommand_SUBMIT_SM)); exact HT'.
  - (* EExpire *)
    cbn [fst]. apply (Tracked_shrink g0 s); [exact HT|reflexivity|reflexivity|]. apply pop_live_incl.
Qed.

Lemma run_Tracked g0 es : forall s, Tracked g0 s -> Tracked g0 (fst (run s es)).
Proof.
  induction es as [|e t IH]; intros s H; cbn [run]; [exact H|].
  pose proof (step_Tracked g0 s e H) as H1. destruct (step s e) as [s1 o1]. cbn [fst] in H1.
  specialize (IH s1 H1). destruct (run s1 t) as [s2 o2]. exact IH.
Qed.

(* the number given to a new request differs from the number of every outstanding request that
   was sent fewer than one period of the generator ago; and it lies in the generator's range *)
Theorem fresh_sequence_number g0 es :
  wf_gen g0 ->
  let s := fst (run (init_state g0) es) in
  let n := fst (next_sequence (ms_gen s)) in
  sg_min g0 <= n <= sg_max g0
  /\ forall q, In q (live s) -> ms_next_id s - rq_id q < period g0 -> rq_seq q <> n.
Proof.
  intros Hwf s n.
  pose proof (run_Tracked g0 es _ (Tracked_init g0 Hwf)) as (_ & Hn & Hmin & Hmax & Hcur & Hlive).
  fold s in Hn, Hmin, Hmax, Hcur, Hlive.
  assert (n = cur_after g0 (ms_next_id s + 1)) as En.
  { unfold n, next_sequence. cbn [fst]. rewrite Hmin, Hmax, Hcur. apply cur_after_step; auto. }
  split; [rewrite En; apply cur_after_in_range; auto; lia|].
  intros q Hq Hyoung. destruct (Hlive q Hq) as [Hid Hseq]. rewrite Hseq, En.
  apply cur_after_distinct; auto; lia.
Qed.

Lemma default_generator_valid n :
  seqgen_default_min <= n <= seqgen_default_max -> valid_sequence n = true.
Proof.
  unfold valid_sequence. intros H.
  assert (MIN_SEQUENCE_NUMBER <= seqgen_default_min /\ seqgen_default_max <= MAX_SEQUENCE_NUMBER
          /\ 1 <= MIN_SEQUENCE_NUMBER /\ MAX_SEQUENCE_NUMBER <= 2147483647) as (H1 & H2 & _ & _)
    by (vm_compute; repeat split; discriminate).
  apply andb_true_intro; split; apply Z.leb_le; lia.
Qed.

Lemma spec_range : MIN_SEQUENCE_NUMBER = 1 /\ MAX_SEQUENCE_NUMBER = 2147483647
                   /\ seqgen_default_min = 1 /\ seqgen_default_max = 2147483647.
Proof. vm_compute. repeat split; reflexivity. Qed.

(* a response of another type than the request stored under its number (and not a generic_nack) changes nothing: the request
   stays outstanding for its own response, or for its time-out *)
Theorem other_type_leaves_request s cmd seq q :
  fst (pop seq (ms_store s)) = Some q -> cmd <> SmppCommand_GENERIC_NACK ->
  lookup (rq_cmd q) command_response_map <> Some cmd ->
  fst (step s (EResp cmd seq)) = s /\ attributed_ids (snd (step s (EResp cmd seq))) = [].
Proof.
  intros Hp Hn Hl. cbn [step]. destruct (negb (mem cmd handled_response_commands)); [split; reflexivity|].
  apply Z.eqb_neq in Hn. rewrite Hn.
  destruct (lookup cmd response_command_map) as [oc|]; [|split; reflexivity].
  assert (other_type cmd (fst (pop seq (ms_store s))) = true) as ->; [|split; reflexivity].
  rewrite Hp. unfold other_type. rewrite Hn. cbn [negb andb].
  destruct (lookup (rq_cmd q) command_response_map) as [c|]; [|reflexivity].
  destruct (Z.eqb_spec c cmd) as [->|Hc]; [contradiction Hl; reflexivity|reflexivity].
Qed.
