(* Lemmas for C17: SMPP time format round trip. *)
From Coq Require Import ZArith List Bool Lia.
Import ListNotations.
Require Import AV.Generated.ExnOrder AV.Model.Base AV.Model.TimeFmt.
Open Scope Z_scope.
Ltac Zify.zify_post_hook ::= Z.to_euclidean_division_equations.

Definition upto (n : nat) : list Z := map Z.of_nat (seq 0 n).

Lemma In_upto n x : 0 <= x < Z.of_nat n -> In x (upto n).
Proof. intros H. unfold upto. apply in_map_iff. exists (Z.to_nat x). split; [lia|apply in_seq; lia]. Qed.

Lemma sweep_upto (f : Z -> bool) n : forallb f (upto n) = true -> forall x, 0 <= x < Z.of_nat n -> f x = true.
Proof. intros H x Hx. rewrite forallb_forall in H. apply H, In_upto, Hx. Qed.

Lemma opt_eqb_eq a b : opt_eqb a b = true -> a = b.
Proof. destruct a, b; cbn; intros H; try discriminate; try reflexivity. apply Z.eqb_eq in H; congruence. Qed.

Lemma list_eqb_eq a b : list_eqb a b = true -> a = b.
Proof.
  revert b. induction a as [|x a IH]; intros [|y b] H; cbn in H; try discriminate; [reflexivity|].
  apply andb_prop in H as [H1 H2]. apply Z.eqb_eq in H1. f_equal; auto.
Qed.

(* two-digit fields: printing and parsing, by exhaustive sweep over 0..99 *)
Lemma two_parse_all : forallb (fun n => opt_eqb (py_int [digit (n / 10); digit (n mod 10)]) (Some n)) (upto 100) = true.
Proof. vm_compute. reflexivity. Qed.
Lemma two_parse n : 0 <= n < 100 -> py_int [digit (n / 10); digit (n mod 10)] = Some n.
Proof. intros H. apply opt_eqb_eq. apply (sweep_upto _ 100 two_parse_all). lia. Qed.

Lemma fmt02_two_all : forallb (fun n => list_eqb (fmt02 n) (two n)) (upto 100) = true.
Proof. vm_compute. reflexivity. Qed.
Lemma fmt02_two n : 0 <= n < 100 -> fmt02 n = two n.
Proof. intros H. apply list_eqb_eq. apply (sweep_upto _ 100 fmt02_two_all). lia. Qed.

Lemma digit1_all : forallb (fun n => list_eqb (digits n) [digit n] && opt_eqb (py_int [digit n]) (Some n)) (upto 10) = true.
Proof. vm_compute. reflexivity. Qed.
Lemma digit1 n : 0 <= n < 10 -> digits n = [digit n] /\ py_int [digit n] = Some n.
Proof.
  intros H. pose proof (sweep_upto _ 10 digit1_all n ltac:(lia)) as E.
  apply andb_prop in E as [E1 E2]. split; [apply list_eqb_eq|apply opt_eqb_eq]; auto.
Qed.

(* ---------- absolute times ---------- *)

Definition truncated (c : civil) : civil :=
  {| c_year := c_year c; c_month := c_month c; c_day := c_day c; c_hour := c_hour c;
     c_minute := c_minute c; c_second := c_second c; c_us := (c_us c / 100000) * 100000;
     c_off := Some (match c_off c with Some o => o | None => 0 end) |}.

Definition quarter_offset (c : civil) : Prop :=
  match c_off c with None => True | Some o => exists k, -48 <= k <= 48 /\ o = 900 * k end.

Definition offset_quarters (c : civil) : Z := match c_off c with Some o => Z.abs o / 900 | None => 0 end.
Definition offset_sign (c : civil) : Z := match c_off c with Some o => if o <? 0 then 45 else 43 | None => 43 end.

Lemma valid_datetime_bounds y mo d h mi s us :
  valid_datetime y mo d h mi s us = true ->
  1 <= mo <= 12 /\ 1 <= d <= 31 /\ 0 <= h <= 23 /\ 0 <= mi <= 59 /\ 0 <= s <= 59 /\ 0 <= us <= 999999.
Proof.
  unfold valid_datetime. intros H.
  repeat (apply andb_prop in H as [H ?]).
  repeat match goal with X : (_ <=? _) = true |- _ => apply Z.leb_le in X end.
  assert (days_in_month y mo <= 31).
  { unfold days_in_month. destruct (mo =? 2); [destruct (is_leap y); lia|].
    destruct ((mo =? 4) || (mo =? 6) || (mo =? 9) || (mo =? 11)); lia. }
  lia.
Qed.

Theorem absolute_roundtrip c :
  2000 <= c_year c <= 2099 ->
  valid_datetime (c_year c) (c_month c) (c_day c) (c_hour c) (c_minute c) (c_second c) (c_us c) = true ->
  quarter_offset c ->
  time_to_smpp (TDate c) =
    Ok (two (c_year c mod 100) ++ two (c_month c) ++ two (c_day c) ++ two (c_hour c) ++ two (c_minute c)
        ++ two (c_second c) ++ [digit (c_us c / 100000)] ++ two (offset_quarters c) ++ [offset_sign c])
  /\ 0 <= offset_quarters c <= 48
  /\ forall s, time_to_smpp (TDate c) = Ok s -> length s = 16%nat /\ smpp_to_time s = Ok (TDate (truncated c)).
Proof.
  intros Hy Hv Hq. pose proof (valid_datetime_bounds _ _ _ _ _ _ _ Hv) as (Hmo & Hd & Hh & Hmi & Hs & Hus).
  assert (0 <= c_us c / 100000 < 10) as Ht by lia.
  destruct (digit1 _ Ht) as [Hdig Hpt].
  assert (0 <= offset_quarters c <= 48 /\
          (match c_off c with
           | None => ([48; 48], 43)
           | Some o => if o =? 0 then ([48; 48], 43) else (fmt02 (Z.abs o / 900), if o <? 0 then 45 else 43)
           end) = (two (offset_quarters c), offset_sign c)) as [Hoq Hoff].
  { unfold offset_quarters, offset_sign, quarter_offset in *. destruct (c_off c) as [o|].
    - destruct Hq as [k [Hk ->]]. split; [lia|].
      destruct (Z.eqb_spec (900 * k) 0) as [E|E].
      + rewrite E. reflexivity.
      + rewrite fmt02_two by lia. reflexivity.
    - split; [lia|reflexivity]. }
  assert (time_to_smpp (TDate c) =
    Ok (two (c_year c mod 100) ++ two (c_month c) ++ two (c_day c) ++ two (c_hour c) ++ two (c_minute c)
        ++ two (c_second c) ++ [digit (c_us c / 100000)] ++ two (offset_quarters c) ++ [offset_sign c])) as Hprint.
  { unfold time_to_smpp. rewrite Hoff, Hdig. reflexivity. }
  split; [exact Hprint|]. split; [exact Hoq|].
  intros s Hs'. rewrite Hprint in Hs'. injection Hs' as <-.
  split; [reflexivity|].
  unfold two. cbn [app]. unfold smpp_to_time.
  cbn [slice Nat.sub firstn skipn].
  rewrite !two_parse by lia. cbn [opt_res rbind].
  cbn [last].
  assert (offset_sign c =? 82 = false) as ->.
  { unfold offset_sign. destruct (c_off c) as [o|]; [destruct (o <? 0)|]; reflexivity. }
  rewrite Hpt. cbn [opt_res rbind].
  replace (2000 + c_year c mod 100) with (c_year c) by lia.
  assert (Z.abs (offset_quarters c * 15 / 1440) <=? 999999999 = true) as Hsmall by (apply Z.leb_le; lia).
  assert (Z.abs (- (offset_quarters c * 15) / 1440) <=? 999999999 = true) as Hsmall' by (apply Z.leb_le; lia).
  assert (1440 <=? Z.abs (offset_quarters c * 15) = false) as Hday.
  { apply Z.leb_gt. unfold offset_quarters, quarter_offset in *. destruct (c_off c) as [o|]; [destruct Hq as [k [Hk ->]]|]; lia. }
  assert (valid_datetime (c_year c) (c_month c) (c_day c) (c_hour c) (c_minute c) (c_second c)
                         (c_us c / 100000 * 100000) = true) as Hv'.
  { unfold valid_datetime in *. repeat (apply andb_prop in Hv as [Hv ?]).
    repeat (apply andb_true_intro; split); auto; apply Z.leb_le; lia. }
  unfold truncated.
  unfold offset_sign, offset_quarters, quarter_offset in *.
  destruct (c_off c) as [o|].
  - destruct Hq as [k [Hk ->]].
    destruct (Z.ltb_spec (900 * k) 0) as [Hneg|Hpos].
    + rewrite Hday. change (list_eqb [45] [45]) with true. cbv iota. rewrite Hsmall'. cbn [negb]. rewrite Hv'.
      do 4 f_equal; lia.
    + rewrite Hday. change (list_eqb [43] [45]) with false. cbv iota. rewrite Hsmall. cbn [negb]. rewrite Hv'.
      do 4 f_equal; lia.
  - rewrite Hday. change (list_eqb [43] [45]) with false. cbv iota. rewrite Hsmall. cbn [negb]. rewrite Hv'.
    do 4 f_equal; lia.
Qed.

(* ---------- relative times ---------- *)

Definition within_63_weeks (d : tdelta) : Prop :=
  td_us d = 0 /\ 0 <= td_seconds d < 86400 /\ 0 <= td_days d /\ (td_days d < 441 \/ (td_days d = 441 /\ td_seconds d = 0)).

Theorem relative_roundtrip d :
  within_63_weeks d ->
  let y := td_days d / 365 in let r := td_days d mod 365 in
  let ts := td_seconds d in
  time_to_smpp (TDelta d) =
    Ok (two y ++ two (r / 30) ++ two (r mod 30) ++ two (ts / 3600) ++ two ((ts mod 3600) / 60)
        ++ two ((ts mod 3600) mod 60) ++ [48; 48; 48; 82])
  /\ forall s, time_to_smpp (TDelta d) = Ok s -> length s = 16%nat /\ smpp_to_time s = Ok (TDelta d).
Proof.
  intros (Hus & Hsec & Hd0 & Hd). cbn zeta.
  assert (time_to_smpp (TDelta d) =
    Ok (two (td_days d / 365) ++ two (td_days d mod 365 / 30) ++ two ((td_days d mod 365) mod 30)
        ++ two (td_seconds d / 3600) ++ two ((td_seconds d mod 3600) / 60)
        ++ two ((td_seconds d mod 3600) mod 60) ++ [48; 48; 48; 82])) as Hprint.
  { unfold time_to_smpp.
    assert ((441 <? td_days d) || ((td_days d =? 441) && ((0 <? td_seconds d) || (0 <? td_us d))) = false) as ->.
    { apply orb_false_iff. split; [apply Z.ltb_ge; lia|].
      destruct (Z.eqb_spec (td_days d) 441); [|reflexivity]. cbn [andb].
      apply orb_false_iff. split; apply Z.ltb_ge; lia. }
    rewrite !fmt02_two by lia. reflexivity. }
  split; [exact Hprint|].
  intros s Hs. rewrite Hprint in Hs. injection Hs as <-. split; [reflexivity|].
  unfold two. cbn [app]. unfold smpp_to_time. cbn [slice Nat.sub firstn skipn].
  rewrite !two_parse by lia. cbn [opt_res rbind]. cbn [last].
  change (82 =? 82) with true. cbv iota. unfold mk_tdelta.
  replace (td_days d / 365 * 365 + td_days d mod 365 / 30 * 30 + (td_days d mod 365) mod 30) with (td_days d) by lia.
  replace (td_seconds d / 3600 * 3600 + td_seconds d mod 3600 / 60 * 60 + (td_seconds d mod 3600) mod 60)
    with (td_seconds d) by lia.
  replace (td_seconds d / 86400) with 0 by lia. replace (td_seconds d mod 86400) with (td_seconds d) by lia.
  rewrite Z.add_0_r.
  assert (Z.abs (td_days d) <=? 999999999 = true) as -> by (apply Z.leb_le; lia).
  destruct d as [dd ss uu]. cbn [td_days td_seconds td_us] in *. subst uu. reflexivity.
Qed.

Theorem beyond_63_weeks_rejected d :
  0 <= td_seconds d -> 0 <= td_us d ->
  (441 < td_days d \/ (td_days d = 441 /\ (0 < td_seconds d \/ 0 < td_us d))) ->
  time_to_smpp (TDelta d) = Err EXN_ValueError.
Proof.
  intros H1 H2 H. unfold time_to_smpp.
  assert ((441 <? td_days d) || ((td_days d =? 441) && ((0 <? td_seconds d) || (0 <? td_us d))) = true) as ->; [|reflexivity].
  destruct H as [H|[E [H|H]]].
  - apply orb_true_iff. left. apply Z.ltb_lt. lia.
  - apply orb_true_iff. right. rewrite E. cbn [Z.eqb andb]. change (441 =? 441) with true. cbn [andb].
    apply orb_true_iff. left. apply Z.ltb_lt. lia.
  - apply orb_true_iff. right. rewrite E. change (441 =? 441) with true. cbn [andb].
    apply orb_true_iff. right. apply Z.ltb_lt. lia.
Qed.

Lemma empty_is_none : time_to_smpp TNone = Ok [] /\ smpp_to_time [] = Ok TNone.
Proof. split; reflexivity. Qed.

(* ---- FixedOffset.from_timezone ---- *)
Theorem from_timezone_offset (positive : bool) h m :
  0 <= h < 100 -> 0 <= m < 100 ->
  from_timezone ((if positive then 43 else 45) :: two h ++ two m) = Ok ((if positive then 1 else -1) * (h * 60 + m)).
Proof.
  intros Hh Hm. unfold from_timezone, two, slice. cbn [app skipn firstn Nat.sub].
  rewrite (two_parse h Hh), (two_parse m Hm).
  destruct positive.
  - cbn [existsb]. rewrite Z.eqb_refl. cbn [orb]. f_equal. lia.
  - assert (existsb (Z.eqb 43) [45; digit (h / 10); digit (h mod 10); digit (m / 10); digit (m mod 10)] = false) as Hd.
    { unfold digit. cbn [existsb]. repeat rewrite orb_false_iff. repeat split; try reflexivity; apply Z.eqb_neq; lia. }
    rewrite Hd. f_equal. lia.
Qed.
