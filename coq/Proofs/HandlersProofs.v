(* Lemmas for C02: delivery receipts of a segmented message, any interleaving of its events. *)
From Coq Require Import ZArith QArith List Bool Lia Setoid.
Import ListNotations.
Require Import AV.Generated.ExnOrder AV.Generated.SmppConsts AV.Generated.Handled
               AV.Model.Base AV.Model.PyDict AV.Model.Limiter AV.Model.Correlator AV.Model.Seq AV.Model.Handlers
               AV.Proofs.PyDictProofs AV.Proofs.CorrelatorProofs.
Open Scope Z_scope.

(* ---------- table facts used by the handlers ---------- *)
Lemma handler_constants :
  SmppCommand_SUBMIT_SM = 4 /\ SmppCommand_SUBMIT_SM_RESP = 2147483652 /\ SmppCommand_GENERIC_NACK = 2147483648
  /\ SmppCommandStatus_ESME_ROK = 0 /\ STATUS_SENDING = 65535 /\ STATUS_SENT = 65532
  /\ mem 2147483652 handled_response_commands = true
  /\ lookup 2147483652 response_command_map = Some 4
  /\ mem 0 throttled_statuses = false.
Proof. vm_compute. repeat split; reflexivity. Qed.

(* ---------- unknown and unsegmented receipts (any state) ---------- *)

Theorem receipt_unknown_id s r :
  dget (rc_id r) (h_deliv s) = None -> handle_receipt s r true = (s, [HReceipt (rc_uid r) 0]).
Proof.
  intros H. unfold handle_receipt, get_delivery. cbn [negb]. rewrite H. destruct s; reflexivity.
Qed.

Theorem receipt_without_id s r : handle_receipt s r false = (s, [HReceipt (rc_uid r) 0]).
Proof. reflexivity. Qed.

(* error codes of receipts: in range they are booked as they are, out of range as DLR_ERROR_OTHER_ERROR - always inside the range *)
Lemma receipt_code_id e : 0 <= e < STATUS_SENT -> receipt_code e = e.
Proof. intros H. unfold receipt_code. destruct (Z.leb_spec 0 e); destruct (Z.ltb_spec e STATUS_SENT); cbn [andb]; try reflexivity; lia. Qed.
Lemma receipt_code_range e : 0 <= receipt_code e < STATUS_SENT.
Proof.
  unfold receipt_code. destruct (Z.leb_spec 0 e); destruct (Z.ltb_spec e STATUS_SENT); cbn [andb]; try lia;
    (assert (DLR_ERROR_OTHER_ERROR = 500 /\ STATUS_SENT = 65532) as [-> ->] by (split; reflexivity); lia).
Qed.
(* a receipt is handled like the receipt that carries the booked code *)
Lemma receipt_code_idem e : receipt_code (receipt_code e) = receipt_code e.
Proof. apply receipt_code_id, receipt_code_range. Qed.

Definition booked (r : receipt) : receipt := {| rc_uid := rc_uid r; rc_id := rc_id r; rc_err := receipt_code (rc_err r) |}.
Theorem receipt_booked s r b : handle_receipt s r b = handle_receipt s (booked r) b.
Proof.
  unfold handle_receipt, get_delivery, booked. cbn [rc_uid rc_id rc_err]. rewrite receipt_code_idem. reflexivity.
Qed.

(* a receipt naming a stored id of an unsegmented message carries that message's identity, and the id is consumed *)
Theorem receipt_plain s r e :
  dget (rc_id r) (h_deliv s) = Some e -> dget (sm_seq (e_msg e)) (c_seg (h_corr s)) = None ->
  exists s', handle_receipt s r true = (s', [HReceipt (rc_uid r) (sm_log (e_msg e))])
             /\ h_deliv s' = ddel (rc_id r) (h_deliv s) /\ h_corr s' = h_corr s.
Proof.
  intros Hd Hs. unfold handle_receipt, get_delivery. cbn [negb]. rewrite Hd. cbv zeta.
  destruct (is_segment (e_msg e)) eqn:Es.
  - rewrite Hs. cbv beta iota zeta. rewrite Es. unfold get_segmented. rewrite Hs. eexists. split; [reflexivity|]. split; reflexivity.
  - cbv beta iota zeta. rewrite Es. eexists. split; [reflexivity|]. split; reflexivity.
Qed.

(* ... whichever newer message uses its sequence number by now: a message that was not segmented has no segment status *)
Theorem receipt_unsegmented s r e :
  dget (rc_id r) (h_deliv s) = Some e -> is_segment (e_msg e) = false ->
  exists s', handle_receipt s r true = (s', [HReceipt (rc_uid r) (sm_log (e_msg e))])
             /\ h_deliv s' = ddel (rc_id r) (h_deliv s) /\ h_corr s' = h_corr s.
Proof.
  intros Hd Hs. unfold handle_receipt, get_delivery. cbn [negb]. rewrite Hd. cbv zeta. rewrite Hs.
  cbv beta iota zeta. rewrite Hs. eexists. split; [reflexivity|]. split; reflexivity.
Qed.

(* the delivery store only ever maps an id to the message whose accepted response carried it *)
Theorem accepted_response_stores_original s r mid e :
  mem (rs_cmd r) handled_response_commands = true -> rs_cmd r = SmppCommand_SUBMIT_SM_RESP ->
  rs_status r = SmppCommandStatus_ESME_ROK ->
  dget (rs_seq r) (c_store (h_corr s)) = Some e -> sm_cmd (e_msg e) = SmppCommand_SUBMIT_SM ->
  dget mid (h_deliv (fst (handle_response s r mid))) = Some {| e_at := 0%Q; e_msg := e_msg e; e_id := h_next s |}.
Proof.
  intros Hm Hc Hst Hg Hcmd. destruct handler_constants as (C4 & CR & CN & C0 & _ & _ & _ & Hl & Ht).
  unfold handle_response. rewrite Hm. cbn [negb]. rewrite Hc, CR, CN. change (2147483652 =? 2147483648) with false. cbv iota.
  rewrite Hl.
  pose proof (get_pop_frame (h_corr s) r) as [_ Hf]. rewrite Hg in Hf.
  assert (answers r (e_msg e) = true) as Ha.
  { unfold answers. rewrite Hcmd, Hc. apply orb_true_iff. right.
    assert (lookup SmppCommand_SUBMIT_SM command_response_map = Some SmppCommand_SUBMIT_SM_RESP) as -> by reflexivity. apply Z.eqb_refl. }
  rewrite Ha in Hf. destruct Hf as [Hf1 Hf2].
  destruct (get_pop (h_corr s) r) as [c1 oe]. cbn [fst snd] in Hf1, Hf2. subst oe.
  rewrite Hcmd, C4. change (4 =? 4) with true. cbn [negb]. cbv iota.
  change ((2147483652 =? 2147483652) || (2147483652 =? 2147483648)) with true. cbn [andb].
  rewrite Hst, C0, Ht. change (2147483652 =? 2147483652) with true. change (0 =? 0) with true. cbn [andb]. cbv iota.
  destruct (get_segmented c1 (rs_seq r) false) as [[c2 oss] code].
  assert (forall X Y Z : hstate * list hout, fst X = fst Y -> True) as _ by auto.
  destruct oss as [ss|]; [destruct (code =? STATUS_SENDING); [|destruct (code =? STATUS_EXPIRED); [|destruct (ss_last_resp ss)]]|destruct (0 <? snd (sm_sar (e_msg e)))]; cbn [fst h_deliv h_next];
    unfold put_delivery; apply dget_dset_same.
Qed.

(* ---------- cumulated status over a list of codes ---------- *)

Lemma zmax_list_ge l acc : acc <= zmax_list l acc.
Proof. revert acc. induction l as [|x t IH]; intros acc; cbn [zmax_list]; [lia|]. specialize (IH (Z.max acc x)). lia. Qed.

Lemma zmax_list_In l acc x : In x l -> x <= zmax_list l acc.
Proof.
  revert acc. induction l as [|y t IH]; intros acc H; [destruct H|]. cbn [zmax_list].
  destruct H as [->|H]; [pose proof (zmax_list_ge t (Z.max acc x)); lia|apply IH; exact H].
Qed.

Lemma zmax_list_bound l acc b : acc <= b -> (forall x, In x l -> x <= b) -> zmax_list l acc <= b.
Proof.
  revert acc. induction l as [|y t IH]; intros acc Ha Hl; cbn [zmax_list]; [exact Ha|].
  apply IH; [assert (y <= b) by (apply Hl; left; reflexivity); lia|intros x Hx; apply Hl; right; exact Hx].
Qed.

Lemma zmax_list_mem l acc : zmax_list l acc = acc \/ In (zmax_list l acc) l.
Proof.
  revert acc. induction l as [|y t IH]; intros acc; cbn [zmax_list]; [left; reflexivity|].
  destruct (IH (Z.max acc y)) as [E|Hin]; [|right; right; exact Hin].
  rewrite E. destruct (Z.max_spec acc y) as [[_ ->]|[_ ->]]; [right; left; reflexivity|left; reflexivity].
Qed.

Lemma forallb_false_ex {A} (f : A -> bool) l : forallb f l = false -> exists x, In x l /\ f x = false.
Proof.
  induction l as [|a t IH]; cbn [forallb]; [discriminate|]. destruct (f a) eqn:Ea; cbn [andb].
  - intros H. destruct (IH H) as (x & Hx & Hf). exists x. split; [right; exact Hx|exact Hf].
  - intros _. exists a. split; [left; reflexivity|exact Ea].
Qed.

(* ---------- one segmented message: k segments, any interleaving of its events ---------- *)

(* responses, receipts and expiries never touch the reference -> status key map *)
Lemma response_cur s r mid : c_cur (h_corr (fst (handle_response s r mid))) = c_cur (h_corr s).
Proof.
  unfold handle_response.
  destruct (negb (mem (rs_cmd r) handled_response_commands)); [reflexivity|].
  destruct (if rs_cmd r =? SmppCommand_GENERIC_NACK then Ok None
            else match lookup (rs_cmd r) response_command_map with Some c => Ok (Some c) | None => Err EXN_KeyError end) as [oc|e0]; [|reflexivity].
  pose proof (get_pop_cur (h_corr s) r) as P. destruct (get_pop (h_corr s) r) as [c1 oe]. cbn [fst] in P.
  destruct oe as [e|]; [|exact P].
  destruct (match oc with Some c => negb (sm_cmd (e_msg e) =? c) | None => false end); [exact P|].
  destruct (((rs_cmd r =? SmppCommand_SUBMIT_SM_RESP) || (rs_cmd r =? SmppCommand_GENERIC_NACK)) && (sm_cmd (e_msg e) =? SmppCommand_SUBMIT_SM)); [|exact P].
  pose proof (get_segmented_cur c1 (rs_seq r) false) as G. destruct (get_segmented c1 (rs_seq r) false) as [[c2 oss] code]. cbn [fst] in G.
  assert (forall s3 : hstate, h_corr s3 = c2 -> c_cur (h_corr s3) = c_cur (h_corr s)) as Hs3 by (intros s3 ->; rewrite G; exact P).
  destruct (mem (rs_status r) throttled_statuses);
    (destruct oss as [ss|];
     [ destruct (code =? STATUS_SENDING); [apply Hs3; reflexivity|];
       destruct (code =? STATUS_EXPIRED); [apply Hs3; reflexivity|];
       destruct (ss_last_resp ss); apply Hs3; reflexivity
     | destruct (0 <? snd (sm_sar (e_msg e))); apply Hs3; reflexivity ]).
Qed.

Lemma expire_cur s sq : c_cur (h_corr (fst (expire_one s sq))) = c_cur (h_corr s).
Proof.
  unfold expire_one. destruct (dget sq (c_store (h_corr s))) as [e|]; [|reflexivity].
  pose proof (expired_cur (with_store (h_corr s) (ddel sq (c_store (h_corr s)))) (e_msg e)) as H.
  destruct (expired (with_store (h_corr s) (ddel sq (c_store (h_corr s)))) (e_msg e)) as [c2 call]. cbn [fst with_corr h_corr] in *. exact H.
Qed.

Lemma get_delivery_cur c d r : c_cur (fst (fst (get_delivery c d r))) = c_cur c.
Proof.
  unfold get_delivery. destruct (dget (rc_id r) d) as [e|]; [|reflexivity].
  cbv zeta. destruct (if is_segment (e_msg e) then dget (sm_seq (e_msg e)) (c_seg c) else None) as [[ref sseq]|]; [|reflexivity].
  destruct (dget ref (c_stat c)); reflexivity.
Qed.

Lemma receipt_cur s rc b : c_cur (h_corr (fst (handle_receipt s rc b))) = c_cur (h_corr s).
Proof.
  unfold handle_receipt. destruct (negb b); [reflexivity|].
  pose proof (get_delivery_cur (h_corr s) (h_deliv s) rc) as P. destruct (get_delivery (h_corr s) (h_deliv s) rc) as [[c1 d1] om]. cbn [fst] in P.
  destruct om as [m|]; [|exact P].
  assert (c_cur (fst (fst (if is_segment m then get_segmented c1 (sm_seq m) true else (c1, None, 0)))) = c_cur c1) as G
    by (destruct (is_segment m); [apply get_segmented_cur|reflexivity]).
  destruct (if is_segment m then get_segmented c1 (sm_seq m) true else (c1, None, 0)) as [[c2 oss] code]. cbn [fst] in G.
  assert (forall s3 : hstate, h_corr s3 = c2 -> c_cur (h_corr s3) = c_cur (h_corr s)) as Hs3 by (intros s3 ->; rewrite G; exact P).
  destruct oss as [ss|]; [|apply Hs3; reflexivity].
  destruct ((code =? STATUS_SENDING) || (code =? STATUS_SENT)); [apply Hs3; reflexivity|]. destruct (ss_last_rcpt ss); apply Hs3; reflexivity.
Qed.

Inductive phase := PNot | PSending | PSent | PDone (err : Z).

Definition code (p : phase) : Z :=
  match p with PNot | PSending => STATUS_SENDING | PSent => STATUS_SENT | PDone e => e end.
Definition is_done (p : phase) : bool := match p with PDone _ => true | _ => false end.
Definition is_not (p : phase) : bool := match p with PNot => true | _ => false end.

Section Group.
  Variables (r log : Z) (k : nat) (sq md uid : nat -> Z).
  Hypothesis Hk : (2 <= k)%nat.
  Hypothesis Hk255 : (k <= 255)%nat.           (* sar_total_segments is a single octet *)
  Hypothesis sq_inj : forall i j, (i < k)%nat -> (j < k)%nat -> sq i = sq j -> i = j.
  Hypothesis md_inj : forall i j, (i < k)%nat -> (j < k)%nat -> md i = md j -> i = j.

  Definition seg (i : nat) : smsg :=
    {| sm_uid := uid i; sm_cmd := 4; sm_seq := sq i; sm_log := log; sm_sar := (r, Z.of_nat i + 1, Z.of_nat k) |}.

  Lemma seg_is_segment i : is_segment (seg i) = true.
  Proof. unfold is_segment, seg. cbn [sm_sar snd]. apply andb_true_intro. split; [apply Z.ltb_lt|apply Z.leb_le]; lia. Qed.

  (* the key of the message's status cell: its reference combined with the sequence number of its first segment *)
  Definition K : Z := skey r (sq 0%nat).

  Definition idx : list nat := seq 0 k.
  Definition status_of (ph : nat -> phase) : dict Z := map (fun i => (Z.of_nat i + 1, code (ph i))) idx.

  Definition errs_ok (ph : nat -> phase) : Prop := forall i e, (i < k)%nat -> ph i = PDone e -> 0 <= e < STATUS_SENT.

  (* the ghost summary of the receipts seen so far: (uid, err) of SegmentStatus.last_receipt *)
  Definition lr_ok (ph : nat -> phase) (lrc : option (Z * Z)) : Prop :=
    (forall i e, (i < k)%nat -> ph i = PDone e -> lrc <> None)
    /\ (forall i e, (i < k)%nat -> ph i = PDone e -> 0 < e -> exists u e', lrc = Some (u, e') /\ 0 < e')
    /\ ((forall i, (i < k)%nat -> is_done (ph i) = false) -> lrc = None).

  Definition GI0 (s : hstate) (ph : nat -> phase) (lrc : option (Z * Z)) : Prop :=
    (forall i, (i < k)%nat ->
       match ph i with
       | PSending => exists e, dget (sq i) (c_store (h_corr s)) = Some e /\ e_msg e = seg i
       | _ => dget (sq i) (c_store (h_corr s)) = None
       end)
    /\ (forall i, (i < k)%nat ->
       dget (sq i) (c_seg (h_corr s)) = match ph i with PSending | PSent => Some (K, Z.of_nat i + 1) | _ => None end)
    /\ (if forallb (fun i => is_not (ph i)) idx || forallb (fun i => is_done (ph i)) idx
        then dget K (c_stat (h_corr s)) = None
        else exists cell, dget K (c_stat (h_corr s)) = Some cell /\ ss_status cell = status_of ph
                          /\ ss_last_rcpt cell = option_map fst lrc)
    /\ (forall i, (i < k)%nat ->
       match ph i with
       | PSent => exists e, dget (md i) (h_deliv s) = Some e /\ e_msg e = seg i
       | _ => dget (md i) (h_deliv s) = None
       end)
    /\ errs_ok ph /\ lr_ok ph lrc
    /\ NoDup (dkeys (c_seg (h_corr s))) /\ NoDup (dkeys (c_stat (h_corr s))) /\ NoDup (dkeys (h_deliv s))
    /\ NoDup (dkeys (c_store (h_corr s))).

  Definition upd (ph : nat -> phase) (i : nat) (p : phase) : nat -> phase := fun j => if Nat.eqb j i then p else ph j.

  Lemma upd_same ph i p : upd ph i p i = p.
  Proof. unfold upd. rewrite Nat.eqb_refl. reflexivity. Qed.
  Lemma upd_other ph i p j : j <> i -> upd ph i p j = ph j.
  Proof. intros H. unfold upd. destruct (Nat.eqb_spec j i); [congruence|reflexivity]. Qed.

  Lemma In_idx i : In i idx <-> (i < k)%nat.
  Proof. unfold idx. rewrite in_seq. lia. Qed.

  (* setting the status of segment i keeps the shape of the status dictionary *)
  Lemma status_set ph i p : (i < k)%nat ->
    dset (status_of ph) (Z.of_nat i + 1) (code p) = status_of (upd ph i p).
  Proof.
    intros Hi. unfold status_of, idx.
    assert (forall l, (forall j, In j l -> (j < k)%nat) -> NoDup l -> In i l ->
              dset (map (fun j => (Z.of_nat j + 1, code (ph j))) l) (Z.of_nat i + 1) (code p)
              = map (fun j => (Z.of_nat j + 1, code (upd ph i p j))) l) as H.
    { induction l as [|j t IH]; intros Hl Hnd Hin; [destruct Hin|]. cbn [map dset].
      inversion_clear Hnd as [|? ? Hn Ht].
      destruct (Z.eqb_spec (Z.of_nat i + 1) (Z.of_nat j + 1)) as [E|E].
      - assert (i = j) as -> by lia. rewrite upd_same. f_equal.
        apply map_ext_in. intros x Hx. rewrite upd_other; [reflexivity|]. intros ->. contradiction.
      - assert (i <> j) by (intros ->; lia). rewrite (upd_other ph i p j) by congruence. f_equal.
        apply IH; [intros x Hx; apply Hl; right; exact Hx|exact Ht|]. destruct Hin as [->|Hin]; [congruence|exact Hin]. }
    apply H; [intros j Hj; apply in_seq in Hj; lia|apply seq_NoDup|apply in_seq; lia].
  Qed.

  Lemma status_values ph : map snd (status_of ph) = map (fun i => code (ph i)) idx.
  Proof. unfold status_of. rewrite map_map. reflexivity. Qed.

  Lemma code_le ph i : errs_ok ph -> (i < k)%nat -> code (ph i) <= STATUS_SENDING.
  Proof.
    intros He Hi. destruct handler_constants as (_ & _ & _ & _ & CS & CT & _).
    destruct (ph i) eqn:E; cbn [code]; try lia. specialize (He i err Hi E). lia.
  Qed.

  (* the cumulated status of the cell: still open while some segment is unanswered or awaits its
     receipt; final (and the cell deleted) once every segment has its receipt *)
  Lemma cumulated_open c cell ph j : errs_ok ph -> (j < k)%nat -> is_done (ph j) = false ->
    ss_status cell = status_of ph ->
    exists cd, cumulated c K cell = (c, cd) /\ (cd = STATUS_SENDING \/ cd = STATUS_SENT).
  Proof.
    intros He Hj Hnd Hs. destruct handler_constants as (_ & _ & _ & _ & CS & CT & _).
    unfold cumulated. rewrite Hs, status_values.
    destruct (map (fun i => code (ph i)) idx) as [|v vs] eqn:El.
    { exfalso. assert (In (code (ph j)) []) as []. rewrite <- El. apply in_map_iff. exists j. split; [reflexivity|apply In_idx; exact Hj]. }
    assert (forall x, In x (v :: vs) -> x <= STATUS_SENDING) as Hb.
    { intros x Hx. rewrite <- El in Hx. apply in_map_iff in Hx as [i [<- Hi]]. apply code_le; [exact He|apply In_idx; exact Hi]. }
    assert (STATUS_SENT <= zmax_list vs v) as Hge.
    { assert (In (code (ph j)) (v :: vs)) as Hin by (rewrite <- El; apply in_map_iff; exists j; split; [reflexivity|apply In_idx; exact Hj]).
      assert (STATUS_SENT <= code (ph j)) by (destruct (ph j); cbn in *; try discriminate; lia).
      destruct Hin as [E|Hin]; [pose proof (zmax_list_ge vs v); lia|pose proof (zmax_list_In vs v _ Hin); lia]. }
    assert (zmax_list vs v <= STATUS_SENDING) as Hle by (apply zmax_list_bound; [apply Hb; left; reflexivity|intros x Hx; apply Hb; right; exact Hx]).
    (* the maximum is one of the codes: SENDING, SENT or an error code below SENT *)
    assert (zmax_list vs v = STATUS_SENDING \/ zmax_list vs v = STATUS_SENT) as Hc.
    { assert (In (zmax_list vs v) (v :: vs)) as Hin by (destruct (zmax_list_mem vs v) as [E|Hm]; [rewrite E; left; reflexivity|right; exact Hm]).
      rewrite <- El in Hin. apply in_map_iff in Hin as [i [Ei Hi]]. apply In_idx in Hi.
      destruct (ph i) eqn:Ep; cbn [code] in Ei; try (left; congruence); try (right; congruence).
      specialize (He i err Hi Ep). lia. }
    exists (zmax_list vs v). split; [|exact Hc].
    destruct Hc as [E | E]; rewrite E, ?Z.eqb_refl; cbn [orb]; [reflexivity|].
    destruct (STATUS_SENT =? STATUS_SENDING); reflexivity.
  Qed.

  Lemma cumulated_final c cell ph : errs_ok ph -> (forall i, (i < k)%nat -> is_done (ph i) = true) ->
    ss_status cell = status_of ph ->
    exists cd, cumulated c K cell = (with_stat c (ddel K (c_stat c)), cd) /\ cd <> STATUS_SENDING /\ cd <> STATUS_SENT.
  Proof.
    intros He Hall Hs. destruct handler_constants as (_ & _ & _ & _ & CS & CT & _).
    unfold cumulated. rewrite Hs, status_values.
    destruct (map (fun i => code (ph i)) idx) as [|v vs] eqn:El.
    { exfalso. assert (In (code (ph 0%nat)) []) as []. rewrite <- El. apply in_map_iff. exists 0%nat. split; [reflexivity|apply In_idx; lia]. }
    assert (forall x, In x (v :: vs) -> x < STATUS_SENT) as Hb.
    { intros x Hx. rewrite <- El in Hx. apply in_map_iff in Hx as [i [<- Hi]]. apply In_idx in Hi.
      specialize (Hall i Hi). destruct (ph i) eqn:Ep; try discriminate. cbn [code]. apply (He i err Hi Ep). }
    assert (zmax_list vs v < STATUS_SENT) as Hlt.
    { destruct (zmax_list_mem vs v) as [E|Hm]; [rewrite E; apply Hb; left; reflexivity|apply Hb; right; exact Hm]. }
    exists (zmax_list vs v). split; [|split; lia].
    replace (zmax_list vs v =? STATUS_SENDING) with false by (symmetry; apply Z.eqb_neq; lia).
    replace (zmax_list vs v =? STATUS_SENT) with false by (symmetry; apply Z.eqb_neq; lia). reflexivity.
  Qed.

  Lemma forallb_idx_false (f : nat -> bool) j : (j < k)%nat -> f j = false -> forallb f idx = false.
  Proof.
    intros Hj Hf. destruct (forallb f idx) eqn:E; [|reflexivity]. rewrite forallb_forall in E.
    rewrite (E j) in Hf; [discriminate|apply In_idx; exact Hj].
  Qed.
  Lemma forallb_idx_true (f : nat -> bool) : (forall j, (j < k)%nat -> f j = true) -> forallb f idx = true.
  Proof. intros H. apply forallb_forall. intros j Hj. apply H, In_idx, Hj. Qed.

  Definition lrc_after (lrc : option (Z * Z)) (u e : Z) : option (Z * Z) :=
    if (0 <? e) || match lrc with None => true | Some _ => false end then Some (u, e) else lrc.

  (* the receipt of segment i arrives (its response was accepted before) *)
  Lemma receipt_step0 s ph lrc i rc :
    GI0 s ph lrc -> (i < k)%nat -> ph i = PSent -> rc_id rc = md i -> 0 <= rc_err rc < STATUS_SENT ->
    let ph' := upd ph i (PDone (rc_err rc)) in
    let lrc' := lrc_after lrc (rc_uid rc) (rc_err rc) in
    exists s', GI0 s' ph' lrc'
      /\ handle_receipt s rc true =
         (s', if forallb (fun j => is_done (ph' j)) idx
              then [HReceipt (match lrc' with Some (u, _) => u | None => rc_uid rc end) log]
              else [HRaw]).
  Proof.
    intros (Ha & Hb & Hc & Hd & He & Hl & N1 & N2 & N3 & N4) Hi Hp Hid Herr ph' lrc'.
    destruct handler_constants as (C4 & _ & _ & _ & CS & CT & _).
    pose proof (Hd i Hi) as Hdi. rewrite Hp in Hdi. destruct Hdi as (e & Hde & Hem).
    pose proof (Hb i Hi) as Hbi. rewrite Hp in Hbi.
    assert (forallb (fun j => is_not (ph j)) idx = false) as Fn by (apply (forallb_idx_false _ i Hi); rewrite Hp; reflexivity).
    assert (forallb (fun j => is_done (ph j)) idx = false) as Fd by (apply (forallb_idx_false _ i Hi); rewrite Hp; reflexivity).
    rewrite Fn, Fd in Hc. cbn [orb] in Hc. destruct Hc as (cell & Hcell & Hst & Hlr).
    unfold handle_receipt, get_delivery. cbn [negb]. rewrite Hid, Hde, Hem. cbv zeta. rewrite seg_is_segment, (receipt_code_id _ Herr). cbn [seg sm_seq]. rewrite Hbi, Hcell.
    set (ss1 := set_status cell (Z.of_nat i + 1) (rc_err rc)).
    assert (ss_status ss1 = status_of ph') as Hst1.
    { unfold ss1, set_status. cbn [ss_status]. rewrite Hst. apply (status_set ph i (PDone (rc_err rc)) Hi). }
    set (ss2 := if (0 <? rc_err rc) || match ss_last_rcpt ss1 with None => true | Some _ => false end
                then set_last_rcpt ss1 (rc_uid rc) else ss1).
    assert (ss_status ss2 = status_of ph' /\ ss_last_rcpt ss2 = option_map fst lrc') as [Hst2 Hlr2].
    { unfold ss2, lrc', lrc_after. assert (ss_last_rcpt ss1 = option_map fst lrc) as E1 by (unfold ss1; cbn; exact Hlr).
      rewrite E1. destruct lrc as [[u0 e0]|]; cbn [option_map fst];
        destruct (0 <? rc_err rc); cbn [orb]; split; try exact Hst1; try reflexivity; cbn; exact E1. }
    set (c1 := with_stat (h_corr s) (dset (c_stat (h_corr s)) K ss2)).
    rewrite seg_is_segment. unfold get_segmented. cbn [with_stat c_seg sm_seq seg]. change (c_seg c1) with (c_seg (h_corr s)). rewrite Hbi.
    cbn [with_seg c_stat]. change (c_stat c1) with (dset (c_stat (h_corr s)) K ss2). rewrite dget_dset_same.
    assert (errs_ok ph') as He'.
    { intros j e' Hj Hpj. unfold ph' in Hpj. destruct (Nat.eq_dec j i) as [->|Hne].
      - rewrite upd_same in Hpj. injection Hpj as <-. exact Herr.
      - rewrite upd_other in Hpj by exact Hne. apply (He j e' Hj Hpj). }
    assert (lr_ok ph' lrc') as Hl'.
    { destruct Hl as (Hl1 & Hl2 & Hl3). split; [|split].
      - intros j e' Hj Hpj. unfold lrc', lrc_after. destruct ((0 <? rc_err rc) || match lrc with None => true | Some _ => false end) eqn:Eo; [discriminate|].
        apply orb_false_iff in Eo as [_ Eo]. destruct lrc; [discriminate|discriminate].
      - intros j e' Hj Hpj Hpos. unfold ph' in Hpj. unfold lrc', lrc_after. destruct (Nat.eq_dec j i) as [->|Hne].
        + rewrite upd_same in Hpj. injection Hpj as <-. replace (0 <? rc_err rc) with true by (symmetry; apply Z.ltb_lt; lia).
          cbn [orb]. eauto.
        + rewrite upd_other in Hpj by exact Hne. destruct (Hl2 j e' Hj Hpj Hpos) as (u & e'' & -> & Hp'').
          destruct (0 <? rc_err rc) eqn:E0; cbn [orb]; [apply Z.ltb_lt in E0; eauto|eauto].
      - intros Hnone. exfalso. specialize (Hnone i Hi). unfold ph' in Hnone. rewrite upd_same in Hnone. discriminate. }
    (* invariants of the untouched / simply updated stores *)
    assert (forall j, (j < k)%nat ->
              match ph' j with
              | PSending => exists e0, dget (sq j) (c_store (h_corr s)) = Some e0 /\ e_msg e0 = seg j
              | _ => dget (sq j) (c_store (h_corr s)) = None
              end) as Ha'.
    { intros j Hj. unfold ph'. destruct (Nat.eq_dec j i) as [->|Hne]; [rewrite upd_same; specialize (Ha i Hi); rewrite Hp in Ha; exact Ha|].
      rewrite upd_other by exact Hne. apply Ha, Hj. }
    assert (forall j, (j < k)%nat ->
              dget (sq j) (ddel (sq i) (c_seg (h_corr s))) = match ph' j with PSending | PSent => Some (K, Z.of_nat j + 1) | _ => None end) as Hb'.
    { intros j Hj. unfold ph'. destruct (Nat.eq_dec j i) as [->|Hne].
      - rewrite upd_same. apply dget_ddel_same. exact N1.
      - rewrite upd_other by exact Hne. rewrite dget_ddel_other; [apply Hb, Hj|]. intros E. apply Hne. apply sq_inj; auto. }
    assert (forall j, (j < k)%nat ->
              match ph' j with
              | PSent => exists e0, dget (md j) (ddel (md i) (h_deliv s)) = Some e0 /\ e_msg e0 = seg j
              | _ => dget (md j) (ddel (md i) (h_deliv s)) = None
              end) as Hd'.
    { intros j Hj. unfold ph'. destruct (Nat.eq_dec j i) as [->|Hne].
      - rewrite upd_same. apply dget_ddel_same. exact N3.
      - rewrite upd_other by exact Hne. rewrite dget_ddel_other; [apply Hd, Hj|]. intros E. apply Hne. apply md_inj; auto. }
    assert (forallb (fun j => is_not (ph' j)) idx = false) as Fn'
      by (apply (forallb_idx_false _ i Hi); unfold ph'; rewrite upd_same; reflexivity).
    destruct (forallb (fun j => is_done (ph' j)) idx) eqn:Fd'.
    - (* the last receipt: the cell is final and removed; the hook gets the pertinent receipt *)
      assert (forall j, (j < k)%nat -> is_done (ph' j) = true) as Hall by (intros j Hj; rewrite forallb_forall in Fd'; apply Fd', In_idx, Hj).
      destruct (cumulated_final (with_seg c1 (ddel (sq i) (c_seg (h_corr s)))) ss2 ph' He' Hall Hst2) as (cd & Hcum & Hn1 & Hn2).
      rewrite Hcum. apply Z.eqb_neq in Hn1, Hn2. rewrite Hn1, Hn2. cbn [orb]. rewrite Hlr2.
      eexists. split; [|destruct lrc' as [[u e']|] eqn:El; cbn [option_map fst]; [reflexivity|]].
      + unfold GI0. cbn [h_corr h_deliv with_stat with_seg c_store c_seg c_stat c1].
        split; [exact Ha'|]. split; [exact Hb'|]. split.
        * rewrite Fn', Fd'. cbn [orb]. apply dget_ddel_same. apply dkeys_dset_NoDup. exact N2.
        * split; [exact Hd'|]. split; [exact He'|]. split; [exact Hl'|].
          split; [apply dkeys_ddel_NoDup; exact N1|]. split; [apply dkeys_ddel_NoDup, dkeys_dset_NoDup; exact N2|].
          split; [apply dkeys_ddel_NoDup; exact N3|exact N4].
      + exfalso. destruct Hl' as (Hl1 & _ & _). apply (Hl1 i (rc_err rc) Hi); [unfold ph'; apply upd_same|reflexivity].
    - (* other segments are still unanswered or await their receipt: placeholder *)
      destruct (forallb_false_ex _ _ Fd') as (j & Hj & Hjd).
      apply In_idx in Hj.
      destruct (cumulated_open (with_seg c1 (ddel (sq i) (c_seg (h_corr s)))) ss2 ph' j He' Hj Hjd Hst2) as (cd & Hcum & Hcd).
      rewrite Hcum. assert ((cd =? STATUS_SENDING) || (cd =? STATUS_SENT) = true) as ->
        by (destruct Hcd as [-> | ->]; rewrite Z.eqb_refl; [reflexivity|apply orb_true_r]).
      eexists. split; [|reflexivity].
      unfold GI0. cbn [h_corr h_deliv with_stat with_seg c_store c_seg c_stat c1].
      split; [exact Ha'|]. split; [exact Hb'|]. split.
      + rewrite Fn', Fd'. cbn [orb]. exists ss2. split; [apply dget_dset_same|]. split; [exact Hst2|exact Hlr2].
      + split; [exact Hd'|]. split; [exact He'|]. split; [exact Hl'|].
        split; [apply dkeys_ddel_NoDup; exact N1|]. split; [apply dkeys_dset_NoDup; exact N2|].
        split; [apply dkeys_ddel_NoDup; exact N3|exact N4].
  Qed.

  Lemma seg_is_submit i : is_submit (seg i) = true.
  Proof. destruct handler_constants as (C4 & _). unfold is_submit, seg. cbn [sm_cmd]. rewrite C4. reflexivity. Qed.

  Lemma fresh_status ph : (forall j, (j < k)%nat -> ph j = PNot) ->
    map (fun j => (Z.of_nat j, STATUS_SENDING)) (seq 1 k) = status_of ph.
  Proof.
    intros H. unfold status_of, idx. rewrite <- seq_shift, map_map. apply map_ext_in. intros j Hj.
    apply in_seq in Hj. rewrite (H j) by lia. cbn [code]. f_equal. lia.
  Qed.

  (* segment i is stored after its write *)
  Lemma put_step0 s ph lrc i :
    GI0 s ph lrc -> (i < k)%nat -> ph i = PNot ->
    (i = 0%nat -> forall j, (j < k)%nat -> ph j = PNot) -> (i <> 0%nat -> ph 0%nat <> PNot) ->
    (i <> 0%nat -> dget r (c_cur (h_corr s)) = Some K) ->
    exists s', hstep s (HPut (seg i)) = (s', []) /\ GI0 s' (upd ph i PSending) lrc /\ dget r (c_cur (h_corr s')) = Some K.
  Proof.
    intros (Ha & Hb & Hc & Hd & He & Hl & N1 & N2 & N3 & N4) Hi Hp Hfirst Hlater Hcur.
    cbn [hstep]. eexists. split; [reflexivity|].
    set (ph' := upd ph i PSending).
    assert (forallb (fun j => is_done (ph j)) idx = false) as Fd by (apply (forallb_idx_false _ i Hi); rewrite Hp; reflexivity).
    assert (forallb (fun j => is_not (ph' j)) idx = false) as Fn' by (apply (forallb_idx_false _ i Hi); unfold ph'; rewrite upd_same; reflexivity).
    assert (forallb (fun j => is_done (ph' j)) idx = false) as Fd' by (apply (forallb_idx_false _ i Hi); unfold ph'; rewrite upd_same; reflexivity).
    (* the new correlator state, in both cases: the segment joins (or starts) the cell under K *)
    assert (exists cell', ss_status cell' = status_of ph /\ ss_last_rcpt cell' = option_map fst lrc /\
              exists cur', dget r cur' = Some K /\
              put_store (h_corr s) 0%Q (seg i) (h_next s) =
              {| c_store := dset (c_store (h_corr s)) (sq i) {| e_at := 0%Q; e_msg := seg i; e_id := h_next s |};
                 c_seg := dset (c_seg (h_corr s)) (sq i) (K, Z.of_nat i + 1);
                 c_stat := dset (c_stat (h_corr s)) K (set_status cell' (Z.of_nat i + 1) STATUS_SENDING);
                 c_cur := cur'; c_ttl := c_ttl (h_corr s) |}) as (cell' & Hst & Hlr & cur' & Hcur' & Eput).
    { destruct (Nat.eq_dec i 0) as [E0|N0].
      - (* the first segment: a new cell under a new key *)
        subst i. exists (fresh_cell (seg 0%nat) (Z.of_nat k)). split; [|split].
        + unfold fresh_cell. cbn [ss_status]. rewrite Nat2Z.id. apply fresh_status. intros j Hj. apply (Hfirst eq_refl j Hj).
        + unfold fresh_cell. cbn [ss_last_rcpt]. destruct Hl as (_ & _ & Hl3). rewrite Hl3; [reflexivity|].
          intros j Hj. rewrite (Hfirst eq_refl j Hj). reflexivity.
        + exists (dset (c_cur (h_corr s)) r K). split; [apply dget_dset_same|].
          rewrite (put_store_first (h_corr s) 0%Q (seg 0%nat) (h_next s) r (Z.of_nat 0 + 1) (Z.of_nat k) (seg_is_submit 0%nat) eq_refl ltac:(lia) ltac:(lia)).
          reflexivity.
      - assert (forallb (fun j => is_not (ph j)) idx = false) as Fn.
        { apply (forallb_idx_false _ 0%nat ltac:(lia)). specialize (Hlater N0). destruct (ph 0%nat); try reflexivity. contradiction. }
        rewrite Fn, Fd in Hc. cbn [orb] in Hc. destruct Hc as (cell & Hcell & H1 & H2). exists cell. split; [exact H1|]. split; [exact H2|].
        exists (c_cur (h_corr s)). split; [exact (Hcur N0)|].
        rewrite (put_store_join (h_corr s) 0%Q (seg i) (h_next s) r (Z.of_nat i + 1) (Z.of_nat k) K cell (seg_is_submit i) eq_refl ltac:(lia) ltac:(lia) (Hcur N0) Hcell).
        reflexivity. }
    rewrite Eput. split; [|cbn [h_corr c_cur]; exact Hcur'].
    assert (ss_last_rcpt cell' = option_map fst lrc) as Hlr' by exact Hlr.
    unfold GI0. cbn [h_corr h_deliv c_store c_seg c_stat].
    split.
    { intros j Hj. unfold ph'. destruct (Nat.eq_dec j i) as [->|Hne].
      - rewrite upd_same. eexists. split; [apply dget_dset_same|reflexivity].
      - rewrite upd_other by exact Hne.
        assert (sq j <> sq i) as Hk2 by (intros E; apply Hne; apply sq_inj; auto).
        pose proof (Ha j Hj) as Haj. destruct (ph j); rewrite dget_dset_other by exact Hk2; exact Haj. }
    split.
    { intros j Hj. unfold ph'. destruct (Nat.eq_dec j i) as [->|Hne].
      - rewrite upd_same. apply dget_dset_same.
      - rewrite upd_other by exact Hne. rewrite dget_dset_other by (intros E; apply Hne; apply sq_inj; auto). apply Hb, Hj. }
    split.
    { rewrite Fn', Fd'. cbn [orb]. eexists. split; [apply dget_dset_same|]. unfold set_status. cbn [ss_status ss_last_rcpt].
      split; [|exact Hlr']. rewrite Hst. change STATUS_SENDING with (code PSending). apply (status_set ph i PSending Hi). }
    split.
    { intros j Hj. unfold ph'. destruct (Nat.eq_dec j i) as [->|Hne].
      - rewrite upd_same. specialize (Hd i Hi). rewrite Hp in Hd. exact Hd.
      - rewrite upd_other by exact Hne. apply Hd, Hj. }
    split.
    { intros j e Hj Hpj. unfold ph' in Hpj. destruct (Nat.eq_dec j i) as [->|Hne]; [rewrite upd_same in Hpj; discriminate|].
      rewrite upd_other in Hpj by exact Hne. apply (He j e Hj Hpj). }
    split.
    { destruct Hl as (Hl1 & Hl2 & Hl3). split; [|split].
      - intros j e Hj Hpj. unfold ph' in Hpj. destruct (Nat.eq_dec j i) as [->|Hne]; [rewrite upd_same in Hpj; discriminate|].
        rewrite upd_other in Hpj by exact Hne. apply (Hl1 j e Hj Hpj).
      - intros j e Hj Hpj. unfold ph' in Hpj. destruct (Nat.eq_dec j i) as [->|Hne]; [rewrite upd_same in Hpj; discriminate|].
        rewrite upd_other in Hpj by exact Hne. apply (Hl2 j e Hj Hpj).
      - intros Hnone. apply Hl3. intros j Hj. specialize (Hnone j Hj). unfold ph' in Hnone.
        destruct (Nat.eq_dec j i) as [->|Hne]; [rewrite Hp; reflexivity|]. rewrite upd_other in Hnone by exact Hne. exact Hnone. }
    split; [apply dkeys_dset_NoDup; exact N1|]. split; [apply dkeys_dset_NoDup; exact N2|]. split; [exact N3|apply dkeys_dset_NoDup; exact N4].
  Qed.

  Definition ok_resp (i : nat) (u : Z) : resp := {| rs_uid := u; rs_cmd := 2147483652; rs_seq := sq i; rs_status := 0 |}.

  (* the SMSC accepts segment i under message id md i *)
  Lemma resp_ok_step0 s ph lrc i u :
    GI0 s ph lrc -> (i < k)%nat -> ph i = PSending ->
    exists s' out, handle_response s (ok_resp i u) (md i) = (s', out) /\ GI0 s' (upd ph i PSent) lrc.
  Proof.
    intros (Ha & Hb & Hc & Hd & He & Hl & N1 & N2 & N3 & N4) Hi Hp.
    destruct handler_constants as (C4 & CR & CN & C0 & CS & CT & Hm & Hlk & Ht).
    pose proof (Ha i Hi) as Hai. rewrite Hp in Hai. destruct Hai as (e & Hge & Hem).
    pose proof (Hb i Hi) as Hbi. rewrite Hp in Hbi.
    assert (forallb (fun j => is_not (ph j)) idx = false) as Fn by (apply (forallb_idx_false _ i Hi); rewrite Hp; reflexivity).
    assert (forallb (fun j => is_done (ph j)) idx = false) as Fd by (apply (forallb_idx_false _ i Hi); rewrite Hp; reflexivity).
    rewrite Fn, Fd in Hc. cbn [orb] in Hc. destruct Hc as (cell & Hcell & Hst & Hlr).
    set (ph' := upd ph i PSent).
    unfold handle_response, ok_resp. cbn [rs_cmd rs_seq rs_status rs_uid]. rewrite Hm. cbn [negb]. rewrite CN.
    change (2147483652 =? 2147483648) with false. cbv iota. rewrite Hlk.
    unfold get_pop. cbn [rs_seq rs_cmd rs_status]. rewrite Hge, Hem.
    assert (answers {| rs_uid := u; rs_cmd := 2147483652; rs_seq := sq i; rs_status := 0 |} (seg i) = true) as -> by reflexivity.
    cbn [negb]. rewrite ?Hem. rewrite seg_is_submit.
    cbn [with_store c_seg c_stat seg sm_seq]. rewrite Hbi, Hcell. rewrite CN, C0.
    change (2147483652 =? 2147483648) with false. change (0 =? 0) with true. cbv iota.
    set (s1 := set_status cell (Z.of_nat i + 1) STATUS_SENT).
    set (cell' := match ss_last_resp s1 with Some _ => s1 | None => set_last_resp s1 {| rs_uid := u; rs_cmd := 2147483652; rs_seq := sq i; rs_status := 0 |} end).
    assert (ss_status cell' = status_of ph' /\ ss_last_rcpt cell' = option_map fst lrc) as [Hst' Hlr'].
    { assert (ss_status s1 = status_of ph') as E1.
      { unfold s1, set_status. cbn [ss_status]. rewrite Hst. change STATUS_SENT with (code PSent). apply (status_set ph i PSent Hi). }
      unfold cell'. destruct (ss_last_resp s1); cbn [set_last_resp ss_status ss_last_rcpt]; split; try exact E1; unfold s1; cbn; exact Hlr. }
    rewrite ?Hem. cbn [sm_cmd seg]. rewrite C4. change (4 =? 4) with true. cbn [negb]. cbv iota.
    change ((2147483652 =? SmppCommand_SUBMIT_SM_RESP) || (2147483652 =? 2147483648)) with ((2147483652 =? SmppCommand_SUBMIT_SM_RESP) || false).
    rewrite CR. change ((2147483652 =? 2147483652) || false) with true. cbn [andb]. rewrite Ht. cbv iota.
    change (2147483652 =? 2147483652) with true. cbn [andb]. cbv iota.
    unfold get_segmented. cbn [with_stat with_store c_seg c_stat c_store h_corr h_deliv h_next h_thr h_nonthr h_rlog]. rewrite Hbi. rewrite dget_dset_same.
    assert (errs_ok ph') as He'.
    { intros j e' Hj Hpj. unfold ph' in Hpj. destruct (Nat.eq_dec j i) as [->|Hne]; [rewrite upd_same in Hpj; discriminate|].
      rewrite upd_other in Hpj by exact Hne. apply (He j e' Hj Hpj). }
    match goal with |- context [cumulated ?c0 K cell'] =>
      destruct (cumulated_open c0 cell' ph' i He' Hi ltac:(unfold ph'; rewrite upd_same; reflexivity) Hst') as (cd & Hcum & Hcd); rewrite Hcum end.
    assert (GI0 {| h_corr := with_stat (with_store (h_corr s) (ddel (sq i) (c_store (h_corr s)))) (dset (c_stat (h_corr s)) K cell');
                  h_deliv := put_delivery (h_deliv s) 0%Q (md i) (seg i) (h_next s);
                  h_next := h_next s + 1; h_thr := h_thr s; h_nonthr := h_nonthr s + 1;
                  h_rlog := dset (h_rlog s) u log |} ph' lrc) as HG.
    { unfold GI0. cbn [h_corr h_deliv with_stat with_store c_store c_seg c_stat]. unfold put_delivery.
      split.
      { intros j Hj. unfold ph'. destruct (Nat.eq_dec j i) as [->|Hne].
        - rewrite upd_same. apply dget_ddel_same. exact N4.
        - rewrite upd_other by exact Hne. assert (sq j <> sq i) as Hk2 by (intros E; apply Hne; apply sq_inj; auto).
          pose proof (Ha j Hj) as Haj. destruct (ph j); rewrite dget_ddel_other by exact Hk2; exact Haj. }
      split.
      { intros j Hj. unfold ph'. destruct (Nat.eq_dec j i) as [->|Hne]; [rewrite upd_same; exact Hbi|].
        rewrite upd_other by exact Hne. apply Hb, Hj. }
      split.
      { assert (forallb (fun j => is_not (ph' j)) idx = false) as -> by (apply (forallb_idx_false _ i Hi); unfold ph'; rewrite upd_same; reflexivity).
        assert (forallb (fun j => is_done (ph' j)) idx = false) as -> by (apply (forallb_idx_false _ i Hi); unfold ph'; rewrite upd_same; reflexivity).
        cbn [orb]. exists cell'. split; [apply dget_dset_same|]. split; [exact Hst'|exact Hlr']. }
      split.
      { intros j Hj. unfold ph'. destruct (Nat.eq_dec j i) as [->|Hne].
        - rewrite upd_same. eexists. split; [apply dget_dset_same|reflexivity].
        - rewrite upd_other by exact Hne. assert (md j <> md i) as Hk2 by (intros E; apply Hne; apply md_inj; auto).
          pose proof (Hd j Hj) as Hdj. destruct (ph j); rewrite dget_dset_other by exact Hk2; exact Hdj. }
      split; [exact He'|]. split.
      { destruct Hl as (Hl1 & Hl2 & Hl3). split; [|split].
        - intros j e' Hj Hpj. unfold ph' in Hpj. destruct (Nat.eq_dec j i) as [->|Hne]; [rewrite upd_same in Hpj; discriminate|].
          rewrite upd_other in Hpj by exact Hne. apply (Hl1 j e' Hj Hpj).
        - intros j e' Hj Hpj. unfold ph' in Hpj. destruct (Nat.eq_dec j i) as [->|Hne]; [rewrite upd_same in Hpj; discriminate|].
          rewrite upd_other in Hpj by exact Hne. apply (Hl2 j e' Hj Hpj).
        - intros Hnone. apply Hl3. intros j Hj. specialize (Hnone j Hj). unfold ph' in Hnone.
          destruct (Nat.eq_dec j i) as [->|Hne]; [rewrite Hp; reflexivity|]. rewrite upd_other in Hnone by exact Hne. exact Hnone. }
      split; [exact N1|]. split; [apply dkeys_dset_NoDup; exact N2|]. split; [apply dkeys_dset_NoDup; exact N3|apply dkeys_ddel_NoDup; exact N4]. }
    cbn [seg sm_log] in *.
    destruct (cd =? STATUS_SENDING); [|destruct (cd =? STATUS_EXPIRED); [|destruct (ss_last_resp cell')]]; (eexists; eexists; split; [reflexivity|exact HG]).
  Qed.

  (* ---- the invariant with the reference -> key map: while segments remain to be stored, the message being sent under
     reference r is this one ---- *)
  Definition GI (s : hstate) (ph : nat -> phase) (lrc : option (Z * Z)) : Prop :=
    GI0 s ph lrc /\ (ph 0%nat <> PNot -> (exists j, (j < k)%nat /\ ph j = PNot) -> dget r (c_cur (h_corr s)) = Some K).

  Lemma put_step s ph lrc i :
    GI s ph lrc -> (i < k)%nat -> ph i = PNot ->
    (i = 0%nat -> forall j, (j < k)%nat -> ph j = PNot) -> (i <> 0%nat -> ph 0%nat <> PNot) ->
    exists s', hstep s (HPut (seg i)) = (s', []) /\ GI s' (upd ph i PSending) lrc.
  Proof.
    intros [HG Hcur] Hi Hp Hfirst Hlater.
    assert (i <> 0%nat -> dget r (c_cur (h_corr s)) = Some K) as Hc.
    { intros N0. apply Hcur; [apply Hlater; exact N0|]. exists i. split; assumption. }
    destruct (put_step0 s ph lrc i HG Hi Hp Hfirst Hlater Hc) as (s' & Hs & HG' & Hcur').
    exists s'. split; [exact Hs|]. split; [exact HG'|]. intros _ _. exact Hcur'.
  Qed.

  Lemma resp_ok_step s ph lrc i u :
    GI s ph lrc -> (i < k)%nat -> ph i = PSending ->
    exists s' out, handle_response s (ok_resp i u) (md i) = (s', out) /\ GI s' (upd ph i PSent) lrc.
  Proof.
    intros [HG Hcur] Hi Hp. destruct (resp_ok_step0 s ph lrc i u HG Hi Hp) as (s' & out & Hs & HG').
    exists s', out. split; [exact Hs|]. split; [exact HG'|].
    pose proof (response_cur s (ok_resp i u) (md i)) as Hc. rewrite Hs in Hc. cbn [fst] in Hc. rewrite Hc.
    intros H0 (j & Hj & Hpj). destruct (Nat.eq_dec j i) as [->|Hne]; [rewrite upd_same in Hpj; discriminate|].
    rewrite upd_other in Hpj by exact Hne. apply Hcur; [|exists j; split; assumption].
    destruct (Nat.eq_dec 0 i) as [<-|N0]; [rewrite Hp; discriminate|]. rewrite upd_other in H0 by exact N0. exact H0.
  Qed.

  Lemma receipt_step s ph lrc i rc :
    GI s ph lrc -> (i < k)%nat -> ph i = PSent -> rc_id rc = md i -> 0 <= rc_err rc < STATUS_SENT ->
    let ph' := upd ph i (PDone (rc_err rc)) in
    let lrc' := lrc_after lrc (rc_uid rc) (rc_err rc) in
    exists s', GI s' ph' lrc'
               /\ handle_receipt s rc true =
                  (s', if forallb (fun j => is_done (ph' j)) idx
                       then [HReceipt (match lrc' with Some (u, _) => u | None => rc_uid rc end) log] else [HRaw]).
  Proof.
    intros [HG Hcur] Hi Hp Hid Herr ph' lrc'. destruct (receipt_step0 s ph lrc i rc HG Hi Hp Hid Herr) as (s' & HG' & Hs).
    exists s'. split; [|exact Hs]. split; [exact HG'|].
    pose proof (receipt_cur s rc true) as Hc. rewrite Hs in Hc. cbn [fst] in Hc. rewrite Hc.
    intros H0 (j & Hj & Hpj). unfold ph' in *. destruct (Nat.eq_dec j i) as [->|Hne]; [rewrite upd_same in Hpj; discriminate|].
    rewrite upd_other in Hpj by exact Hne. apply Hcur; [|exists j; split; assumption].
    destruct (Nat.eq_dec 0 i) as [<-|N0]; [rewrite Hp; discriminate|]. rewrite upd_other in H0 by exact N0. exact H0.
  Qed.

  (* ---- any admissible interleaving of the message's events ---- *)
  Inductive gev := GPut (i : nat) | GResp (i : nat) (u : Z) | GRcpt (i : nat) (u e : Z).

  Definition conc (g : gev) : hevent :=
    match g with
    | GPut i => HPut (seg i)
    | GResp i u => HResponse (ok_resp i u) (md i)
    | GRcpt i u e => HRcpt {| rc_uid := u; rc_id := md i; rc_err := e |} true
    end.

  Definition enabled (ph : nat -> phase) (g : gev) : Prop :=
    match g with
    | GPut i => (i < k)%nat /\ ph i = PNot /\ (i <> 0%nat -> ph 0%nat <> PNot)     (* segments are stored in the order sent: 1 first *)
    | GResp i _ => (i < k)%nat /\ ph i = PSending
    | GRcpt i _ e => (i < k)%nat /\ ph i = PSent /\ 0 <= e < STATUS_SENT
    end.

  Definition after (ph : nat -> phase) (lrc : option (Z * Z)) (g : gev) : (nat -> phase) * option (Z * Z) :=
    match g with
    | GPut i => (upd ph i PSending, lrc)
    | GResp i _ => (upd ph i PSent, lrc)
    | GRcpt i u e => (upd ph i (PDone e), lrc_after lrc u e)
    end.

  (* what the received hook must get for a receipt event: the placeholder, except for the receipt
     that completes the message, which yields the pertinent receipt with the message's identity *)
  Definition expected (ph : nat -> phase) (lrc : option (Z * Z)) (g : gev) : option (list hout) :=
    match g with
    | GRcpt i u e =>
      let '(ph', lrc') := after ph lrc g in
      Some (if forallb (fun j => is_done (ph' j)) idx
            then [HReceipt (match lrc' with Some (u', _) => u' | None => u end) log]
            else [HRaw])
    | _ => None
    end.

  Fixpoint valid (ph : nat -> phase) (lrc : option (Z * Z)) (gs : list gev) : Prop :=
    match gs with
    | [] => True
    | g :: t => enabled ph g /\ valid (fst (after ph lrc g)) (snd (after ph lrc g)) t
    end.

  Fixpoint spec_outs (ph : nat -> phase) (lrc : option (Z * Z)) (gs : list gev) : list (option (list hout)) :=
    match gs with
    | [] => []
    | g :: t => expected ph lrc g :: spec_outs (fst (after ph lrc g)) (snd (after ph lrc g)) t
    end.

  Fixpoint hrun_each (s : hstate) (evs : list hevent) : list (list hout) :=
    match evs with [] => [] | ev :: t => snd (hstep s ev) :: hrun_each (fst (hstep s ev)) t end.

  Definition agrees (spec : option (list hout)) (got : list hout) : Prop :=
    match spec with Some o => got = o | None => True end.

  Definition first_first (ph : nat -> phase) : Prop := ph 0%nat = PNot -> forall j, (j < k)%nat -> ph j = PNot.

  Theorem group_run : forall gs s ph lrc,
    GI s ph lrc -> first_first ph -> valid ph lrc gs -> Forall2 agrees (spec_outs ph lrc gs) (hrun_each s (map conc gs)).
  Proof.
    induction gs as [|g t IH]; intros s ph lrc HG Hff Hv; [constructor|].
    cbn [valid] in Hv. destruct Hv as [Hen Hv]. cbn [map spec_outs hrun_each].
    destruct g as [i|i u|i u e]; cbn [enabled] in Hen.
    - destruct Hen as (Hi & Hp & Hord).
      assert (i = 0%nat -> forall j, (j < k)%nat -> ph j = PNot) as Hfirst by (intros ->; apply Hff; exact Hp).
      destruct (put_step s ph lrc i HG Hi Hp Hfirst Hord) as (s' & Hs & HG').
      cbn [conc]. rewrite Hs. cbn [fst snd]. constructor; [exact I|]. apply (IH s' _ _ HG'); [|exact Hv].
      cbn [after fst]. intros Hz j Hj. unfold upd in Hz. destruct (Nat.eqb 0 i) eqn:E0; [discriminate|].
      apply Nat.eqb_neq in E0. exfalso. apply (Hord ltac:(lia)). exact Hz.
    - destruct Hen as [Hi Hp]. destruct (resp_ok_step s ph lrc i u HG Hi Hp) as (s' & out & Hs & HG').
      cbn [conc hstep]. rewrite Hs. cbn [fst snd]. constructor; [exact I|]. apply (IH s' _ _ HG'); [|exact Hv].
      cbn [after fst]. intros Hz j Hj. unfold upd in Hz. destruct (Nat.eqb 0 i) eqn:E0; [discriminate|].
      specialize (Hff Hz i Hi). rewrite Hff in Hp. discriminate.
    - destruct Hen as (Hi & Hp & He).
      destruct (receipt_step s ph lrc i {| rc_uid := u; rc_id := md i; rc_err := e |} HG Hi Hp eq_refl He) as (s' & HG' & Hs).
      cbn [rc_uid rc_err] in *. cbn [conc hstep]. rewrite Hs. cbn [fst snd]. constructor; [|apply (IH s' _ _ HG'); [|exact Hv]].
      + cbn [agrees expected after]. reflexivity.
      + cbn [after fst]. intros Hz j Hj. unfold upd in Hz. destruct (Nat.eqb 0 i) eqn:E0; [discriminate|].
        specialize (Hff Hz i Hi). rewrite Hff in Hp. discriminate.
  Qed.

  Lemma GI_init : GI hinit (fun _ => PNot) None.
  Proof.
    split; [|intros H; contradiction H; reflexivity].
    unfold GI0, hinit, corr_init. cbn [h_corr h_deliv c_store c_seg c_stat].
    split; [intros i _; reflexivity|]. split; [intros i _; reflexivity|]. split.
    - assert (forallb (fun i : nat => is_not PNot) idx = true) as -> by (apply forallb_idx_true; reflexivity). reflexivity.
    - split; [intros i _; reflexivity|]. split; [intros i e _ H; discriminate|]. split.
      + split; [intros i e _ H; discriminate|]. split; [intros i e _ H; discriminate|]. reflexivity.
      + repeat split; constructor.
  Qed.
End Group.

(* C02 for one segmented message accepted in full, from the initial state: for ANY admissible
   interleaving of its puts, accepting responses and receipts (a response after its put, a receipt
   after its response), every receipt but the last yields the placeholder and the last one yields
   exactly one receipt event carrying the message's identity *)
Theorem segmented_receipts r log k sq md uid gs :
  (2 <= k <= 255)%nat ->
  (forall i j, (i < k)%nat -> (j < k)%nat -> sq i = sq j -> i = j) ->
  (forall i j, (i < k)%nat -> (j < k)%nat -> md i = md j -> i = j) ->
  valid k (fun _ => PNot) None gs ->
  Forall2 agrees (spec_outs log k (fun _ => PNot) None gs) (hrun_each hinit (map (conc r log k sq md uid) gs)).
Proof.
  intros [Hk Hk2] Hs Hm Hv. apply (group_run r log k sq md uid Hk Hk2 Hs Hm gs hinit _ _ (GI_init r log k sq md uid Hk Hk2)); [intros _ j _; reflexivity|exact Hv].
Qed.

(* the receipt finally handed over is a failing one as soon as any segment's receipt failed *)
Lemma lrc_new_failure lrc u e : 0 < e -> lrc_after lrc u e = Some (u, e).
Proof. intros H. unfold lrc_after. replace (0 <? e) with true by (symmetry; apply Z.ltb_lt; exact H). reflexivity. Qed.

Lemma lrc_keeps_failure lrc u e u0 e0 : lrc = Some (u0, e0) -> 0 < e0 ->
  exists u' e', lrc_after lrc u e = Some (u', e') /\ 0 < e'.
Proof.
  intros -> H0. unfold lrc_after. destruct (0 <? e) eqn:E; cbn [orb]; [apply Z.ltb_lt in E; eauto|eauto].
Qed.

Lemma lrc_first_kept u1 e1 u e : e <= 0 -> lrc_after (Some (u1, e1)) u e = Some (u1, e1).
Proof. intros H. unfold lrc_after. replace (0 <? e) with false by (symmetry; apply Z.ltb_ge; exact H). reflexivity. Qed.
