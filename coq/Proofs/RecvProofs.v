(* Lemmas for C05: whatever bytes arrive, parsing fails only with exceptions the handlers catch; every request with a
   recognised header is answered exactly once with its sequence number; the way the Receiver task can end never
   escapes start(). *)
From Coq Require Import ZArith List Bool Lia ZifyBool.
Import ListNotations.
Require Import AV.Generated.GsmTables AV.Generated.ExnOrder AV.Generated.SmppConsts AV.Generated.Handled
               AV.Model.Base AV.Model.Codec AV.Model.Split AV.Model.TimeFmt AV.Model.Receipt AV.Model.Pdu AV.Model.Recv
               AV.Proofs.PduProofs.
Open Scope Z_scope.
Ltac Zify.zify_post_hook ::= Z.to_euclidean_division_equations.

(* the exception classes parsing can end with *)
Definition parse_errors : list Z := [EXN_ValueError; EXN_UnicodeDecodeError; EXN_StructError; EXN_KeyError; EXN_Unmodelled].
Definition okerr {A} (r : res A) : Prop := match r with Err e => In e parse_errors | Ok _ => True end.

Lemma okerr_bind {A B} (a : res A) (f : A -> res B) : okerr a -> (forall x, a = Ok x -> okerr (f x)) -> okerr (do x <- a; f x).
Proof. destruct a as [x|e]; cbn [rbind]; intros Ha Hf; [apply Hf; reflexivity|exact Ha]. Qed.

Lemma okerr_ok {A} (x : A) : okerr (Ok x). Proof. exact I. Qed.
Lemma okerr_V {A} : @okerr A (Err EXN_ValueError). Proof. cbn. auto. Qed.
Lemma okerr_U {A} : @okerr A (Err EXN_UnicodeDecodeError). Proof. cbn. auto. Qed.
Lemma okerr_S {A} : @okerr A (Err EXN_StructError). Proof. cbn. auto. Qed.
Lemma okerr_K {A} : @okerr A (Err EXN_KeyError). Proof. cbn. auto 6. Qed.
Lemma okerr_M {A} : @okerr A (Err EXN_Unmodelled). Proof. cbn. auto 8. Qed.
#[local] Hint Resolve okerr_ok okerr_V okerr_U okerr_S okerr_K okerr_M : okerr.

Ltac ok_leaf := first [exact I | apply okerr_V | apply okerr_U | apply okerr_S | apply okerr_K | apply okerr_M].

Lemma okerr_unpackB b i : okerr (unpackB b i).
Proof. unfold unpackB. destruct (skipn i b) as [|x ?]; ok_leaf. Qed.
Lemma okerr_unpackH b i : okerr (unpackH b i).
Proof. unfold unpackH. destruct (skipn i b) as [|x [|y ?]]; ok_leaf. Qed.
Lemma okerr_unpackI b i : okerr (unpackI b i).
Proof. unfold unpackI. destruct (skipn i b) as [|x [|y [|z [|w ?]]]]; ok_leaf. Qed.
Lemma okerr_ascii_decode b : okerr (ascii_decode b).
Proof. unfold ascii_decode. destruct (forallb _ b); ok_leaf. Qed.
Lemma okerr_get_cstr p i : okerr (get_cstr p i).
Proof.
  unfold get_cstr. destruct (find_nul _ _); [|ok_leaf]. apply okerr_bind; [apply okerr_ascii_decode|]. intros; ok_leaf.
Qed.
Lemma okerr_mem_enum x l : okerr (mem_enum x l).
Proof. unfold mem_enum. destruct (mem x l); ok_leaf. Qed.
Lemma okerr_check_len s n : okerr (check_len s n).
Proof. unfold check_len. destruct (Nat.leb _ _); ok_leaf. Qed.
Lemma okerr_enc_of_dc dc d : okerr (enc_of_data_coding dc d).
Proof. unfold enc_of_data_coding. repeat (match goal with |- context [if ?c then _ else _] => destruct c end; try ok_leaf). Qed.

Lemma okerr_rmap {A B} (f : A -> B) r : okerr r -> okerr (rmap f r).
Proof. destruct r; cbn; auto. Qed.

Lemma okerr_gsm_loop m input esc : okerr (gsm_decode_loop m input esc).
Proof.
  revert esc. induction input as [|b rest IH]; intros esc; cbn [gsm_decode_loop].
  - destruct esc; [destruct m|]; ok_leaf.
  - destruct (decode_char b esc) as [ch esc']. destruct esc'; [apply IH|].
    destruct ch; [apply okerr_rmap, IH|]. destruct m; [ok_leaf|apply okerr_rmap, IH|apply IH].
Qed.

Lemma okerr_codec_decode e raw : okerr (codec_decode e raw).
Proof.
  destruct e; cbn [codec_decode]; try ok_leaf; try apply okerr_ascii_decode.
  - apply okerr_gsm_loop.
  - unfold gsm_packed_decode. destruct (packed_chars _ _) as [chars escd]. destruct escd; ok_leaf.
  - unfold ucs2_decode_partial. destruct (units_decode_partial _); ok_leaf.
Qed.

Lemma okerr_scan_ies fuel : forall raw pos end_ acc, okerr (scan_ies fuel raw pos end_ acc).
Proof.
  induction fuel as [|f IH]; intros; cbn [scan_ies]; [ok_leaf|].
  destruct (Nat.ltb pos end_); [|ok_leaf].
  apply okerr_bind; [apply okerr_unpackB|]. intros ie _. apply okerr_bind; [apply okerr_unpackB|]. intros len _.
  apply okerr_bind; [|intros; apply IH].
  destruct ((ie =? IE_ID_16BIT) && (len =? 4)).
  - apply okerr_bind; [apply okerr_unpackH|]. intros; apply okerr_bind; [apply okerr_unpackB|]. intros; apply okerr_bind; [apply okerr_unpackB|]. intros; ok_leaf.
  - destruct ((ie =? IE_ID_8BIT) && (len =? 3)); [|ok_leaf].
    apply okerr_bind; [apply okerr_unpackB|]. intros; apply okerr_bind; [apply okerr_unpackB|]. intros; apply okerr_bind; [apply okerr_unpackB|]. intros; ok_leaf.
Qed.

Lemma okerr_decode_message esm codec raw : okerr (decode_message esm codec raw).
Proof.
  unfold decode_message. destruct (_ && _).
  - apply okerr_bind; [apply okerr_unpackB|]. intros udh _. apply okerr_bind; [apply okerr_scan_ies|]. intros found _.
    apply okerr_bind; [apply okerr_codec_decode|]. intros; ok_leaf.
  - apply okerr_bind; [apply okerr_codec_decode|]. intros; ok_leaf.
Qed.

Lemma okerr_parse_tlvs fuel : forall esm codec pdu plen index acc payload, okerr (parse_tlvs fuel esm codec pdu plen index acc payload).
Proof.
  induction fuel as [|f IH]; intros; cbn [parse_tlvs]; [ok_leaf|].
  destruct (Nat.leb plen index); [ok_leaf|].
  apply okerr_bind; [apply okerr_unpackH|]. intros tag _. apply okerr_bind; [apply okerr_unpackH|]. intros len _.
  destruct (tag =? TAG_MESSAGE_PAYLOAD).
  - apply okerr_bind; [apply okerr_decode_message|]. intros tp _. apply IH.
  - destruct (tag_data_type tag).
    + apply okerr_bind; [|intros; apply IH].
      destruct (len =? 1); [apply okerr_unpackB|]. destruct (len =? 2); [apply okerr_unpackH|]. destruct (len =? 4); [apply okerr_unpackI|ok_leaf].
    + apply IH.
    + apply okerr_bind; [destruct (mem tag tlv_cstring_tags_tlv); [apply okerr_ascii_decode|apply okerr_ok]|]. intros; apply IH.
Qed.

(* ---- times: the OverflowError branches of the model are unreachable for two-character fields ---- *)
Lemma parse_digits_bound s : forall acc p n, parse_digits s acc p = Some n -> 0 <= acc -> acc <= n < (acc + 1) * 10 ^ Z.of_nat (length s).
Proof.
  induction s as [|c t IH]; intros acc p n H Hacc; cbn [parse_digits] in H.
  - destruct p; [|discriminate]. injection H as <-. cbn [length]. change (10 ^ Z.of_nat 0) with 1. lia.
  - assert (10 ^ Z.of_nat (length (c :: t)) = 10 * 10 ^ Z.of_nat (length t)) as Hp.
    { cbn [length]. rewrite Nat2Z.inj_succ, Z.pow_succ_r by lia. reflexivity. }
    assert (0 < 10 ^ Z.of_nat (length t)) as Hpos by (apply Z.pow_pos_nonneg; lia).
    rewrite Hp. destruct (is_digit c) eqn:Ed.
    + apply IH in H; [|unfold is_digit in Ed; lia]. unfold is_digit in Ed. nia.
    + destruct ((c =? 95) && p); [|discriminate]. destruct t as [|d t']; [discriminate|].
      destruct (is_digit d); [|discriminate]. apply IH in H; [|exact Hacc]. nia.
Qed.

Lemma lstrip_length s : (length (lstrip s) <= length s)%nat.
Proof. induction s as [|c t IH]; cbn [lstrip length]; [lia|]. destruct (is_space c); cbn [length]; lia. Qed.

Lemma strip_length s : (length (strip s) <= length s)%nat.
Proof.
  unfold strip. rewrite rev_length. etransitivity; [apply lstrip_length|]. rewrite rev_length. apply lstrip_length.
Qed.

Lemma py_int_two s n : (length s <= 2)%nat -> py_int s = Some n -> -99 <= n <= 99.
Proof.
  intros Hl H. unfold py_int in H. pose proof (strip_length s) as Hs.
  assert (forall t m, (length t <= 2)%nat -> parse_digits t 0 false = Some m -> 0 <= m <= 99) as B.
  { intros t m Ht Hm. apply parse_digits_bound in Hm; [|lia].
    assert (10 ^ Z.of_nat (length t) <= 100) by (destruct t as [|a [|b [|c ?]]]; cbn [length] in *; try lia; cbn; lia). lia. }
  destruct (strip s) as [|c t] eqn:E; [discriminate|].
  assert (length (c :: t) <= 2)%nat as Hct by lia.
  destruct (Z.eq_dec c 43) as [->|N1]; [apply B in H; [lia|cbn [length] in Hct; lia]|].
  destruct (Z.eq_dec c 45) as [->|N2].
  - destruct (parse_digits t 0 false) as [m|] eqn:Em; [|discriminate]. injection H as <-. apply B in Em; [lia|cbn [length] in Hct; lia].
  - assert (parse_digits (c :: t) 0 false = Some n) as H'.
    { destruct c as [|c|c]; try exact H. do 7 (destruct c as [c|c|]; try exact H; try contradiction). }
    apply B in H'; [lia|exact Hct].
Qed.

Lemma slice_length a b s : (length (slice a b s) <= b - a)%nat.
Proof. unfold slice. rewrite firstn_length. lia. Qed.

Lemma okerr_smpp_to_time s : okerr (smpp_to_time s).
Proof.
  unfold smpp_to_time. destruct s as [|c0 s0]; [ok_leaf|]. set (s := c0 :: s0).
  assert (forall a b, (b - a <= 2)%nat -> forall (f : Z -> res timeval),
            (forall n, -99 <= n <= 99 -> okerr (f n)) -> okerr (do n <- opt_res (py_int (slice a b s)); f n)) as Hfield.
  { intros a b Hab f Hf. destruct (py_int (slice a b s)) as [n|] eqn:E; cbn [opt_res rbind]; [|ok_leaf].
    apply Hf. eapply py_int_two; [|exact E]. pose proof (slice_length a b s). lia. }
  apply Hfield; [cbn; lia|]. intros year Hy. apply Hfield; [cbn; lia|]. intros month Hm. apply Hfield; [cbn; lia|]. intros day Hd.
  apply Hfield; [cbn; lia|]. intros hour Hh. apply Hfield; [cbn; lia|]. intros minute Hmi. apply Hfield; [cbn; lia|]. intros second Hs.
  destruct (last s 0 =? 82).
  - unfold mk_tdelta. match goal with |- context [if ?c then _ else _] => replace c with true; [ok_leaf|symmetry; lia] end.
  - apply Hfield; [cbn; lia|]. intros tenth Ht. apply Hfield; [cbn; lia|]. intros nn Hn.
    cbv zeta. destruct (1440 <=? Z.abs (nn * 15)); [ok_leaf|].
    match goal with |- context [if negb ?c then _ else _] => replace c with true end.
    + cbn [negb]. destruct (valid_datetime _ _ _ _ _ _ _); ok_leaf.
    + symmetry. destruct (list_eqb _ _); lia.
Qed.

Lemma okerr_decode_sm default pdu h : okerr (decode_sm default pdu h).
Proof.
  unfold decode_sm.
  repeat first
    [ ok_leaf
    | apply okerr_bind; [first [apply okerr_get_cstr | apply okerr_unpackB | apply okerr_mem_enum | apply okerr_check_len
                               | apply okerr_enc_of_dc | apply okerr_decode_message | apply okerr_parse_tlvs | apply okerr_smpp_to_time]|]; intros ? _
    | match goal with |- okerr (let '(_, _) := ?x in _) => destruct x end
    | match goal with |- okerr (if ?c then _ else _) => destruct c end ].
Qed.

(* parsing: whatever the bytes, from_pdu ends with one of four exception classes (or leaves the modelled fragment) *)
Theorem okerr_decode default pdu h : okerr (decode default pdu h).
Proof.
  unfold decode.
  destruct (_ || _); [apply okerr_bind; [apply okerr_decode_sm|intros; ok_leaf]|].
  destruct (_ || _).
  { apply okerr_bind; [apply okerr_ascii_decode|]. intros mid _. apply okerr_bind; [apply okerr_check_len|]. intros; ok_leaf. }
  destruct (is_bind (h_cmd h)).
  { repeat first
      [ ok_leaf
      | apply okerr_bind; [first [apply okerr_get_cstr | apply okerr_unpackB | apply okerr_mem_enum | apply okerr_check_len]|]; intros ? _
      | match goal with |- okerr (let '(_, _) := ?x in _) => destruct x end ]. }
  destruct (is_bind_resp (h_cmd h)).
  { cbv zeta. apply okerr_bind; [apply okerr_ascii_decode|]. intros sid _.
    apply okerr_bind.
    - destruct (Nat.ltb _ _); [|ok_leaf]. destruct (Nat.eqb _ _); [|ok_leaf]. apply okerr_bind; [apply okerr_unpackB|intros; ok_leaf].
    - intros ver _. apply okerr_bind; [apply okerr_check_len|intros; ok_leaf]. }
  destruct (mem _ _); ok_leaf.
Qed.

Lemma okerr_scan fuel : forall rem acc, okerr (scan fuel rem acc).
Proof.
  induction fuel as [|f IH]; intros; cbn [scan]; [ok_leaf|].
  destruct (split_on 58 rem) as [[p after]|]; [|ok_leaf].
  match goal with |- okerr (let '(_, _) := ?x in _) => destruct x as [value rest] end.
  apply okerr_bind; [|intros; apply IH].
  unfold set_param. destruct (_ || _).
  - destruct (py_int value); ok_leaf.
  - destruct (_ || _); [|ok_leaf]. apply okerr_bind; [|intros; ok_leaf].
    unfold strptime. destruct (strptime_matches value) as [|[[[[y mo] d] hh] mi] ?]; [ok_leaf|]. destruct (_ <=? _); ok_leaf.
Qed.

Lemma okerr_parse_receipt esm text tlv : okerr (parse_receipt esm text tlv).
Proof.
  unfold parse_receipt. destruct (negb _); [ok_leaf|]. apply okerr_bind; [apply okerr_scan|]. intros d _.
  destruct (match dget d k_id with Some (VStr (_ :: _)) => true | _ => false end); [ok_leaf|]. destruct tlv; ok_leaf.
Qed.

Theorem okerr_decode_request default pdu h : okerr (decode_request default pdu h).
Proof.
  unfold decode_request. apply okerr_bind; [apply okerr_decode|]. intros m _.
  destruct m as [cmd sm| | | |]; try ok_leaf. destruct (cmd =? SmppCommand_DELIVER_SM); [|ok_leaf].
  apply okerr_bind; [apply okerr_parse_receipt|intros; ok_leaf].
Qed.

(* ... and the handlers catch all of them *)
Lemma parse_errors_caught e : In e parse_errors -> e <> EXN_Unmodelled -> request_parse_caught e = true /\ response_parse_caught e = true.
Proof.
  intros Hin Hne. cbn in Hin. destruct Hin as [<-|[<-|[<-|[<-|[<-|[]]]]]]; try (split; vm_compute; reflexivity). contradiction.
Qed.

(* ---------- the reaction to one PDU ---------- *)
Theorem react_raises_only_unmodelled default pdu h e :
  rx_out (react default pdu h) = ORaise e -> e = EXN_Unmodelled.
Proof.
  unfold react. destruct (is_request (h_cmd h)).
  - destruct (negb _); [discriminate|].
    pose proof (okerr_decode_request default pdu h) as Hk. destruct (decode_request default pdu h) as [m|x].
    + cbn [rx_out]. destruct (_ =? _); discriminate.
    + destruct (request_parse_caught x) eqn:Ec; cbn [rx_out]; [discriminate|]. intros H. injection H as <-.
      destruct (Z.eq_dec x EXN_Unmodelled) as [E|N]; [exact E|]. destruct (parse_errors_caught x Hk N) as [C _]. congruence.
  - destruct (negb _); [discriminate|].
    pose proof (okerr_decode EncGsm pdu h) as Hk. destruct (decode EncGsm pdu h) as [m|x]; [discriminate|].
    destruct (response_parse_caught x) eqn:Ec; cbn [rx_out]; [discriminate|]. intros H. injection H as <-.
    destruct (Z.eq_dec x EXN_Unmodelled) as [E|N]; [exact E|]. destruct (parse_errors_caught x Hk N) as [_ C]. congruence.
Qed.

Require Import AV.Spec.Smpp34 AV.Proofs.WireProofs.

Lemma plain_bytes cmd seq st :
  0 <= cmd <= 4294967295 -> 0 <= st <= 4294967295 -> 0 <= seq <= 4294967295 ->
  bytes_of (encode EncGsm (MPlain cmd seq st)) = spec_pdu cmd st seq [].
Proof.
  intros Hc Hs Hq. cbn [encode]. rewrite (pack_header_total 16 cmd st seq ltac:(lia) Hc Hs Hq). cbn [bytes_of].
  unfold spec_pdu. rewrite app_nil_r. reflexivity.
Qed.

(* every request with a recognised header is answered by exactly one PDU that echoes its sequence number:
   generic_nack(ESME_RINVCMDID) for an unsupported command, generic_nack(ESME_RSYSERR) for an unparsable body,
   the response of its own type otherwise; a response PDU from the SMSC is never answered *)
Theorem one_answer default pdu h :
  0 <= h_seq h <= 4294967295 ->
  (forall e, rx_out (react default pdu h) <> ORaise e) ->
  if is_request (h_cmd h)
  then exists rc, lookup (h_cmd h) command_response_map = Some rc /\
       (rx_sent (react default pdu h) = [spec_pdu CMD_GENERIC_NACK 3 (h_seq h) []] /\ rx_parsed (react default pdu h) = false
        \/ rx_sent (react default pdu h) = [spec_pdu CMD_GENERIC_NACK 8 (h_seq h) []] /\ rx_parsed (react default pdu h) = false
        \/ rx_sent (react default pdu h) = [spec_pdu rc 0 (h_seq h) (if rc =? CMD_DELIVER_SM_RESP then [0] else [])]
           /\ rx_parsed (react default pdu h) = true)
  else rx_sent (react default pdu h) = [].
Proof.
  intros Hseq Hnr. unfold react in *. destruct (is_request (h_cmd h)) eqn:Ereq.
  - assert (exists rc, lookup (h_cmd h) command_response_map = Some rc /\ 0 <= rc <= 4294967295) as (rc & Hrc & Rrc).
    { unfold is_request in Ereq. apply mem_In' in Ereq.
      assert (forallb (fun k => match lookup k command_response_map with Some rc => (0 <=? rc) && (rc <=? 4294967295) | None => false end)
                      (map fst command_response_map) = true) as T by (vm_compute; reflexivity).
      rewrite forallb_forall in T. specialize (T _ Ereq). destruct (lookup (h_cmd h) command_response_map) as [rc|]; [|discriminate].
      exists rc. split; [reflexivity|lia]. }
    exists rc. split; [exact Hrc|].
    destruct (negb (mem (h_cmd h) handled_request_commands)).
    + left. cbn [rx_sent rx_parsed]. split; [|reflexivity]. unfold nack_pdu. f_equal. apply plain_bytes; [vm_compute; split; discriminate|vm_compute; split; discriminate|exact Hseq].
    + destruct (decode_request default pdu h) as [m|x].
      * right. right. cbn [rx_sent rx_parsed]. split; [|reflexivity]. unfold response_pdu. rewrite Hrc. f_equal.
        change CMD_DELIVER_SM_RESP with SmppCommand_DELIVER_SM_RESP.
        destruct (rc =? SmppCommand_DELIVER_SM_RESP) eqn:Er.
        -- apply Z.eqb_eq in Er. subst rc. cbn [encode]. unfold cstr, ascii_encode. cbn [forallb rbind app length].
           assert (0 <= 16 + Z.of_nat 1 <= 4294967295) as H17 by lia. assert (0 <= 0 <= 4294967295) as H0 by lia.
           rewrite (pack_header_total _ _ 0 (h_seq h) H17 Rrc H0 Hseq). cbn [rbind bytes_of].
           unfold spec_pdu. cbn [length]. rewrite <- !app_assoc. reflexivity.
        -- apply plain_bytes; [exact Rrc|lia|exact Hseq].
      * destruct (request_parse_caught x).
        -- right. left. cbn [rx_sent rx_parsed]. split; [|reflexivity]. unfold nack_pdu. f_equal.
           apply plain_bytes; [vm_compute; split; discriminate|vm_compute; split; discriminate|exact Hseq].
        -- exfalso. apply (Hnr x). reflexivity.
  - destruct (negb _); [reflexivity|]. destruct (decode EncGsm pdu h) as [m|x]; [reflexivity|].
    destruct (response_parse_caught x); reflexivity.
Qed.

(* ---------- the byte stream ---------- *)
Lemma parse_header_error b e : (16 <= length b)%nat -> parse_header b = Err e -> e = EXN_ValueError.
Proof.
  intros Hl. unfold parse_header.
  assert (forall i, (i + 4 <= length b)%nat -> exists v, unpackI b i = Ok v) as Hu.
  { intros i Hi. unfold unpackI. pose proof (skipn_length i b) as Hs.
    destruct (skipn i b) as [|x [|y [|z [|w ?]]]]; cbn [length] in Hs; try lia. eexists. reflexivity. }
  destruct (Hu 0%nat ltac:(lia)) as [v0 ->]. destruct (Hu 4%nat ltac:(lia)) as [v1 ->].
  destruct (Hu 8%nat ltac:(lia)) as [v2 ->]. destruct (Hu 12%nat ltac:(lia)) as [v3 ->]. cbn [rbind].
  destruct (negb _); [intros H; injection H as <-; reflexivity|discriminate].
Qed.

(* no sequence of bytes ends the Receiver task in a way that escapes start() *)
Theorem stream_never_stops_start fuel : forall default stream eof,
  let e := snd (run_stream fuel default stream eof) in start_survives e = true \/ e = ERaise EXN_Unmodelled.
Proof.
  induction fuel as [|f IH]; intros default stream eof; cbn [run_stream]; [left; reflexivity|].
  destruct (Nat.ltb (length stream) 16) eqn:E16.
  { cbn [snd]. left. destruct eof; [vm_compute|]; reflexivity. }
  apply Nat.ltb_ge in E16.
  destruct (parse_header (firstn 16 stream)) as [h|e] eqn:Eh.
  2:{ cbn [snd]. left. apply parse_header_error in Eh; [|rewrite firstn_length; lia]. subst e. vm_compute. reflexivity. }
  destruct (h_len h <? 16); [cbn [snd]; left; vm_compute; reflexivity|].
  destruct (Z.of_nat (length stream) <? h_len h); [cbn [snd]; left; destruct eof; [vm_compute|]; reflexivity|].
  set (pdu := firstn _ stream). set (r := react default pdu h).
  destruct (rx_out r) as [| |x] eqn:Eo.
  - specialize (IH default (skipn (Z.to_nat (h_len h)) stream) eof). cbv zeta in IH.
    destruct (run_stream f default _ eof) as [rs e']. cbn [snd] in *. exact IH.
  - cbn [snd]. left. reflexivity.
  - cbn [snd]. right. f_equal. eapply react_raises_only_unmodelled. exact Eo.
Qed.

(* and after a reaction that does not end the task the loop goes on with the bytes that follow: a valid PDU behind
   any answered or ignored one is processed as if it had come first *)
Theorem stream_continues fuel default pdu h rest eof :
  (length pdu = Z.to_nat (h_len h))%nat -> (16 <= length pdu)%nat -> parse_header (firstn 16 pdu) = Ok h ->
  rx_out (react default pdu h) = OContinue ->
  run_stream (S fuel) default (pdu ++ rest) eof =
    (react default pdu h :: fst (run_stream fuel default rest eof), snd (run_stream fuel default rest eof)).
Proof.
  intros Hl H16 Hh Ho. cbn [run_stream].
  assert (firstn 16 (pdu ++ rest) = firstn 16 pdu) as E1 by (rewrite firstn_app; replace (16 - length pdu)%nat with 0%nat by lia; cbn [firstn]; apply app_nil_r).
  replace (Nat.ltb (length (pdu ++ rest)) 16) with false by (symmetry; apply Nat.ltb_ge; rewrite app_length; lia).
  rewrite E1, Hh.
  replace (h_len h <? 16) with false by (symmetry; apply Z.ltb_ge; lia).
  replace (Z.of_nat (length (pdu ++ rest)) <? h_len h) with false by (symmetry; apply Z.ltb_ge; rewrite app_length; lia).
  rewrite <- Hl. rewrite firstn_app, firstn_all, Nat.sub_diag. cbn [firstn]. rewrite app_nil_r, Ho.
  rewrite skipn_app, skipn_all, Nat.sub_diag. cbn [skipn app].
  destruct (run_stream fuel default rest eof). reflexivity.
Qed.
