(* C01 for ANY NUMBER of segmented messages in flight at the same time: footprints of the correlator operations (which keys of which
   dictionary an event can change), a frame lemma for the per-message invariant QI of OutcomeProofs.v, and the lift of the
   one-message theorems to every interleaving of the events of several messages with distinct references and sequence numbers. *)
From Coq Require Import ZArith QArith List Bool Lia.
Import ListNotations.
Require Import AV.Generated.ExnOrder AV.Generated.SmppConsts AV.Generated.Handled
               AV.Model.Base AV.Model.PyDict AV.Model.Limiter AV.Model.Correlator AV.Model.Seq AV.Model.Handlers
               AV.Proofs.PyDictProofs AV.Proofs.HandlersProofs AV.Proofs.OutcomeProofs.
Open Scope Z_scope.

(* ---------- footprints of the correlator operations ---------- *)

Lemma cumulated_foot c ref ss :
  c_store (fst (cumulated c ref ss)) = c_store c /\ c_seg (fst (cumulated c ref ss)) = c_seg c
  /\ forall ref', ref' <> ref -> dget ref' (c_stat (fst (cumulated c ref ss))) = dget ref' (c_stat c).
Proof.
  unfold cumulated. destruct (map snd (ss_status ss)) as [|v vs]; [cbn [fst]; auto|].
  destruct ((zmax_list vs v =? STATUS_SENDING) || (zmax_list vs v =? STATUS_SENT)); cbn [fst with_stat c_store c_seg c_stat]; [auto|].
  split; [reflexivity|]. split; [reflexivity|]. intros ref' Hne. apply dget_ddel_other. exact Hne.
Qed.

(* the key of the status cell a put writes to *)
Definition put_key (c : corr) (m : smsg) : Z :=
  let '(ref, sseq, total) := sm_sar m in
  if 1 <? sseq
  then match dget ref (c_cur c) with
       | Some k => match dget k (c_stat c) with Some _ => k | None => skey ref (sm_seq m) end
       | None => skey ref (sm_seq m)
       end
  else skey ref (sm_seq m).

Lemma put_store_foot c now m eid :
  (forall key, key <> sm_seq m -> dget key (c_store (put_store c now m eid)) = dget key (c_store c))
  /\ (forall key, key <> sm_seq m -> dget key (c_seg (put_store c now m eid)) = dget key (c_seg c))
  /\ (forall key, key <> put_key c m -> dget key (c_stat (put_store c now m eid)) = dget key (c_stat c))
  /\ (forall ref, ref <> fst (fst (sm_sar m)) -> dget ref (c_cur (put_store c now m eid)) = dget ref (c_cur c)).
Proof.
  unfold put_store, put_key. destruct (is_submit m).
  - destruct (sm_sar m) as [[ref sseq] total]. cbn [fst]. destruct ((0 <? total) && (total <=? 255)).
    + cbn [with_store c_cur c_stat].
      destruct (1 <? sseq).
      * destruct (dget ref (c_cur c)) as [k0|].
        -- destruct (dget k0 (c_stat c)) as [ss|]; cbn [with_store with_seg with_stat with_cur c_store c_seg c_stat c_cur].
           ++ split; [intros key Hne; apply dget_dset_other; exact Hne|].
              split; [intros key Hne; apply dget_dset_other; exact Hne|].
              split; [intros key Hne; apply dget_dset_other; exact Hne|]. reflexivity.
           ++ split; [intros key Hne; apply dget_dset_other; exact Hne|].
              split; [intros key Hne; apply dget_dset_other; exact Hne|].
              split; [intros key Hne; apply dget_dset_other; exact Hne|]. intros ref' Hne. apply dget_dset_other. exact Hne.
        -- cbn [with_store with_seg with_stat with_cur c_store c_seg c_stat c_cur].
           split; [intros key Hne; apply dget_dset_other; exact Hne|].
           split; [intros key Hne; apply dget_dset_other; exact Hne|].
           split; [intros key Hne; apply dget_dset_other; exact Hne|]. intros ref' Hne. apply dget_dset_other. exact Hne.
      * cbn [with_store with_seg with_stat with_cur c_store c_seg c_stat c_cur].
        split; [intros key Hne; apply dget_dset_other; exact Hne|].
        split; [intros key Hne; apply dget_dset_other; exact Hne|].
        split; [intros key Hne; apply dget_dset_other; exact Hne|]. intros ref' Hne. apply dget_dset_other. exact Hne.
    + cbn [with_store with_seg c_store c_seg c_stat c_cur]. split; [intros key Hne; apply dget_dset_other; exact Hne|].
      split; [intros key Hne; apply dget_ddel_other; exact Hne|]. split; reflexivity.
  - cbn [with_store c_store c_seg c_stat c_cur]. split; [intros key Hne; apply dget_dset_other; exact Hne|]. repeat split; reflexivity.
Qed.

Lemma expired_foot c m :
  c_store (fst (expired c m)) = c_store c
  /\ (forall key, key <> sm_seq m -> dget key (c_seg (fst (expired c m))) = dget key (c_seg c))
  /\ (forall ref, (forall rf ss, dget (sm_seq m) (c_seg c) = Some (rf, ss) -> rf <> ref) ->
                  dget ref (c_stat (fst (expired c m))) = dget ref (c_stat c)).
Proof.
  unfold expired. destruct (is_submit m); [|cbn [fst]; auto].
  destruct (dget (sm_seq m) (c_seg c)) as [[ref sseq]|] eqn:Eg; [|cbn [fst]; auto].
  cbn [with_seg c_stat c_seg c_store].
  destruct (dget ref (c_stat c)) as [ss|] eqn:Es.
  - set (ss' := set_status ss sseq STATUS_EXPIRED).
    set (c2 := with_stat (with_seg c (ddel (sm_seq m) (c_seg c))) (dset (c_stat c) ref ss')).
    pose proof (cumulated_foot c2 ref ss') as (F1 & F2 & F3).
    destruct (cumulated c2 ref ss') as [c3 code]. cbn [fst] in F1, F2, F3.
    assert (fst (if (code =? STATUS_EXPIRED) || (code =? STATUS_FAILED) then (c3, Some (ss_orig ss')) else (c3, None)) = c3) as ->
      by (destruct ((code =? STATUS_EXPIRED) || (code =? STATUS_FAILED)); reflexivity).
    rewrite F1, F2. unfold c2. cbn [with_stat with_seg c_store c_seg c_stat].
    split; [reflexivity|]. split; [intros key Hne; apply dget_ddel_other; exact Hne|].
    intros ref' Hc. assert (ref' <> ref) as Hne by (intros ->; exact (Hc ref sseq eq_refl eq_refl)).
    rewrite (F3 ref' Hne). unfold c2. cbn [with_stat c_stat]. apply dget_dset_other. exact Hne.
  - cbn [fst with_seg c_store c_seg c_stat]. split; [reflexivity|]. split; [intros key Hne; apply dget_ddel_other; exact Hne|]. reflexivity.
Qed.

Lemma get_pop_foot c r :
  (forall key, key <> rs_seq r -> dget key (c_store (fst (get_pop c r))) = dget key (c_store c))
  /\ c_seg (fst (get_pop c r)) = c_seg c
  /\ (forall ref, (forall rf ss, dget (rs_seq r) (c_seg c) = Some (rf, ss) -> rf <> ref) ->
                  dget ref (c_stat (fst (get_pop c r))) = dget ref (c_stat c)).
Proof.
  unfold get_pop. destruct (dget (rs_seq r) (c_store c)) as [e|]; [|cbn [fst]; auto].
  destruct (negb (answers r (e_msg e))); [cbn [fst]; auto|].
  cbn [fst]. destruct (is_submit (e_msg e)).
  - cbn [with_store c_seg c_stat c_store].
    destruct (dget (rs_seq r) (c_seg c)) as [[ref sseq]|] eqn:Eg.
    + destruct (dget ref (c_stat c)) as [ss|].
      * cbn [with_stat with_store c_store c_seg c_stat].
        split; [intros key Hne; apply dget_ddel_other; exact Hne|]. split; [reflexivity|].
        intros ref' Hc. assert (ref' <> ref) as Hne by (intros ->; exact (Hc ref sseq eq_refl eq_refl)).
        apply dget_dset_other. exact Hne.
      * cbn [with_store c_store c_seg c_stat]. split; [intros key Hne; apply dget_ddel_other; exact Hne|]. auto.
    + cbn [with_store c_store c_seg c_stat]. split; [intros key Hne; apply dget_ddel_other; exact Hne|]. auto.
  - cbn [with_store c_store c_seg c_stat]. split; [intros key Hne; apply dget_ddel_other; exact Hne|]. auto.
Qed.

Lemma get_segmented_foot c sq :
  let c' := fst (fst (get_segmented c sq false)) in
  c_store c' = c_store c /\ c_seg c' = c_seg c
  /\ (forall ref, (forall rf ss, dget sq (c_seg c) = Some (rf, ss) -> rf <> ref) -> dget ref (c_stat c') = dget ref (c_stat c)).
Proof.
  unfold get_segmented. destruct (dget sq (c_seg c)) as [[ref sseq]|] eqn:Eg; [|cbn [fst]; auto].
  destruct (dget ref (c_stat c)) as [ss|]; [|cbn [fst]; auto].
  pose proof (cumulated_foot c ref ss) as (F1 & F2 & F3). destruct (cumulated c ref ss) as [c2 code]. cbn [fst] in *.
  split; [exact F1|]. split; [exact F2|]. intros ref' Hc. apply F3. intros ->. exact (Hc ref sseq eq_refl eq_refl).
Qed.

(* ---------- footprints of the three kinds of events of a message ---------- *)

Definition footprint (key : Z) (uid : option Z) (stat_ok : Z -> Prop) (s s' : hstate) : Prop :=
  (forall k', k' <> key -> dget k' (c_store (h_corr s')) = dget k' (c_store (h_corr s)))
  /\ (forall k', k' <> key -> dget k' (c_seg (h_corr s')) = dget k' (c_seg (h_corr s)))
  /\ (forall ref, stat_ok ref -> dget ref (c_stat (h_corr s')) = dget ref (c_stat (h_corr s)))
  /\ (forall u, uid <> Some u -> dget u (h_rlog s') = dget u (h_rlog s)).
(* the reference -> key map is written by puts only, at the reference of the message *)
Definition cur_foot (cur_ok : Z -> Prop) (s s' : hstate) : Prop :=
  forall ref, cur_ok ref -> dget ref (c_cur (h_corr s')) = dget ref (c_cur (h_corr s)).

Lemma put_footprint s m :
  footprint (sm_seq m) None (fun key => key <> put_key (h_corr s) m) s (fst (hstep s (HPut m)))
  /\ cur_foot (fun ref => ref <> fst (fst (sm_sar m))) s (fst (hstep s (HPut m))).
Proof.
  unfold footprint, cur_foot. cbn [hstep fst h_corr h_rlog]. destruct (put_store_foot (h_corr s) 0%Q m (h_next s)) as (F1 & F2 & F3 & F4).
  split; [|exact F4]. split; [exact F1|]. split; [exact F2|]. split; [exact F3|]. reflexivity.
Qed.

Lemma expire_footprint s sq e :
  dget sq (c_store (h_corr s)) = Some e -> sm_seq (e_msg e) = sq ->
  footprint sq None (fun ref => forall rf ss, dget sq (c_seg (h_corr s)) = Some (rf, ss) -> rf <> ref) s (fst (hstep s (HExpire sq))).
Proof.
  intros Hg Hsq. cbn [hstep]. unfold expire_one. rewrite Hg.
  pose proof (expired_foot (with_store (h_corr s) (ddel sq (c_store (h_corr s)))) (e_msg e)) as (F1 & F2 & F3).
  destruct (expired (with_store (h_corr s) (ddel sq (c_store (h_corr s)))) (e_msg e)) as [c2 call].
  cbn [fst with_store c_store c_seg c_stat] in F1, F2, F3. unfold footprint. cbn [fst with_corr h_corr h_rlog]. rewrite Hsq in F2, F3.
  split; [intros k' Hne; rewrite F1; apply dget_ddel_other; exact Hne|]. split; [exact F2|]. split; [exact F3|]. reflexivity.
Qed.

Lemma fst_if {A B} (b : bool) (a : A) (x y : B) : fst (if b then (a, x) else (a, y)) = a.
Proof. destruct b; reflexivity. Qed.

Lemma response_footprint s r mid :
  footprint (rs_seq r) (Some (rs_uid r)) (fun ref => forall rf ss, dget (rs_seq r) (c_seg (h_corr s)) = Some (rf, ss) -> rf <> ref)
            s (fst (handle_response s r mid)).
Proof.
  unfold handle_response.
  assert (footprint (rs_seq r) (Some (rs_uid r)) (fun ref => forall rf ss, dget (rs_seq r) (c_seg (h_corr s)) = Some (rf, ss) -> rf <> ref) s s) as Hrefl
    by (repeat split; reflexivity).
  destruct (negb (mem (rs_cmd r) handled_response_commands)); [exact Hrefl|].
  destruct (if rs_cmd r =? SmppCommand_GENERIC_NACK then Ok None
            else match lookup (rs_cmd r) response_command_map with Some c => Ok (Some c) | None => Err EXN_KeyError end) as [oc|e0]; [|exact Hrefl].
  pose proof (get_pop_foot (h_corr s) r) as (P1 & P2 & P3).
  destruct (get_pop (h_corr s) r) as [c1 oe]. cbn [fst] in P1, P2, P3.
  assert (footprint (rs_seq r) (Some (rs_uid r)) (fun ref => forall rf ss, dget (rs_seq r) (c_seg (h_corr s)) = Some (rf, ss) -> rf <> ref) s (with_corr s c1)) as H1.
  { unfold footprint, with_corr. cbn [h_corr h_rlog]. split; [exact P1|]. split; [intros k' _; rewrite P2; reflexivity|]. split; [exact P3|]. reflexivity. }
  destruct oe as [e|]; [|exact H1].
  destruct (match oc with Some c => negb (sm_cmd (e_msg e) =? c) | None => false end); [exact H1|].
  destruct (((rs_cmd r =? SmppCommand_SUBMIT_SM_RESP) || (rs_cmd r =? SmppCommand_GENERIC_NACK)) && (sm_cmd (e_msg e) =? SmppCommand_SUBMIT_SM)); [|exact H1].
  pose proof (get_segmented_foot c1 (rs_seq r)) as G. cbv zeta in G.
  destruct (get_segmented c1 (rs_seq r) false) as [[c2 oss] code]. cbn [fst] in G. destruct G as (G1 & G2 & G3).
  (* whatever the hooks are told, the state is the same record around c2 *)
  assert (forall s3 : hstate, h_corr s3 = c2 -> h_rlog s3 = dset (h_rlog s) (rs_uid r) (sm_log (e_msg e)) ->
          footprint (rs_seq r) (Some (rs_uid r)) (fun ref => forall rf ss, dget (rs_seq r) (c_seg (h_corr s)) = Some (rf, ss) -> rf <> ref) s s3) as Hs3.
  { intros s3 Hc Hl. unfold footprint. rewrite Hc, Hl, G1, G2, P2.
    split; [exact P1|]. split; [reflexivity|]. split.
    - intros ref Hok. rewrite G3; [apply P3; exact Hok|]. rewrite P2. exact Hok.
    - intros u Hu. apply dget_dset_other. intros ->. apply Hu. reflexivity. }
  destruct (mem (rs_status r) throttled_statuses);
    (destruct oss as [ss|];
     [ destruct (code =? STATUS_SENDING); [apply Hs3; reflexivity|];
       destruct (code =? STATUS_EXPIRED); [apply Hs3; reflexivity|];
       destruct (ss_last_resp ss); apply Hs3; reflexivity
     | destruct (0 <? snd (sm_sar (e_msg e))); apply Hs3; reflexivity ]).
Qed.

(* ---------- the frame lemma: an event that stays off a message's keys preserves that message's invariant ---------- *)
Lemma QI_frame r log k sq uid s s' q lr :
  QI r log k sq uid s q lr ->
  (forall i, (i < k)%nat -> dget (sq i) (c_store (h_corr s')) = dget (sq i) (c_store (h_corr s))) ->
  (forall i, (i < k)%nat -> dget (sq i) (c_seg (h_corr s')) = dget (sq i) (c_seg (h_corr s))) ->
  dget (K r sq) (c_stat (h_corr s')) = dget (K r sq) (c_stat (h_corr s)) ->
  (forall r', lr = Some r' -> dget (rs_uid r') (h_rlog s') = dget (rs_uid r') (h_rlog s)) ->
  (q 0%nat <> QNot -> (exists j, (j < k)%nat /\ q j = QNot) -> dget r (c_cur (h_corr s')) = dget r (c_cur (h_corr s))) ->
  NoDup (dkeys (c_seg (h_corr s'))) -> NoDup (dkeys (c_stat (h_corr s'))) -> NoDup (dkeys (c_store (h_corr s'))) ->
  QI r log k sq uid s' q lr.
Proof.
  intros [(Ha & Hb & Hc & Hl & N1 & N2 & N3 & Hff) Hcur] F1 F2 F3 F4 F5 M1 M2 M3. split.
  - unfold QI0.
    split; [intros i Hi; rewrite (F1 i Hi); exact (Ha i Hi)|].
    split; [intros i Hi; rewrite (F2 i Hi); exact (Hb i Hi)|].
    split; [rewrite F3; exact Hc|].
    split.
    + destruct Hl as (L1 & L2 & L3 & L4 & L5 & L6). unfold lr_okq. repeat split; try assumption.
      intros r' E. rewrite (F4 r' E). exact (L5 r' E).
    + repeat split; assumption.
  - intros H0 Hex. rewrite (F5 H0 Hex). exact (Hcur H0 Hex).
Qed.

(* ---------- several messages ---------- *)
Record mdesc := { md_r : Z; md_log : Z; md_k : nat; md_sq : nat -> Z; md_uid : nat -> Z }.

Lemma skey_inj r1 s1 r2 s2 : 0 <= r1 < 65536 -> 0 <= r2 < 65536 -> s1 <> s2 -> skey r1 s1 <> skey r2 s2.
Proof. unfold skey. lia. Qed.

Section Concurrent.
  Variable n : nat.                       (* the messages are numbered 0 .. n-1 *)
  Variable D : nat -> mdesc.
  Hypothesis D_ok : forall j, (j < n)%nat ->
    (2 <= md_k (D j) <= 255)%nat /\ 0 <= md_r (D j) < 65536
    /\ forall a b, (a < md_k (D j))%nat -> (b < md_k (D j))%nat -> md_sq (D j) a = md_sq (D j) b -> a = b.
  (* distinct sequence numbers among the messages in flight; their segmentation references may coincide *)
  Hypothesis D_sep : forall i j, (i < n)%nat -> (j < n)%nat -> i <> j ->
    forall a b, (a < md_k (D i))%nat -> (b < md_k (D j))%nat -> md_sq (D i) a <> md_sq (D j) b.

  Definition QIj (j : nat) := QI (md_r (D j)) (md_log (D j)) (md_k (D j)) (md_sq (D j)) (md_uid (D j)).
  Definition MI (s : hstate) (Q : nat -> nat -> qphase) (LR : nat -> option resp) : Prop :=
    forall j, (j < n)%nat -> QIj j s (Q j) (LR j).

  Definition gev := (nat * oev)%type.
  Definition upd {A} (f : nat -> A) (j : nat) (v : A) : nat -> A := fun i => if Nat.eqb i j then v else f i.
  Lemma upd_same {A} (f : nat -> A) j v : upd f j v j = v. Proof. unfold upd. rewrite Nat.eqb_refl. reflexivity. Qed.
  Lemma upd_other {A} (f : nat -> A) j v i : i <> j -> upd f j v i = f i.
  Proof. intros H. unfold upd. destruct (Nat.eqb_spec i j); [congruence|reflexivity]. Qed.

  Definition gconc (e : gev) : hevent :=
    let d := D (fst e) in oconc (md_r d) (md_log d) (md_k d) (md_sq d) (md_uid d) (snd e).
  (* message i is in the middle of storing its segments *)
  Definition storing (Q : nat -> nat -> qphase) (i : nat) : Prop :=
    Q i 0%nat <> QNot /\ exists a, (a < md_k (D i))%nat /\ Q i a = QNot.
  Definition genabled (Q : nat -> nat -> qphase) (LR : nat -> option resp) (e : gev) : Prop :=
    let j := fst e in
    (j < n)%nat /\ oenabled (md_k (D j)) (md_sq (D j)) (Q j) (snd e)
    /\ match snd e with
       (* a response object is a new Python object: its identity differs from that of the responses other messages still hold *)
       | OResp _ r' _ => forall i, (i < n)%nat -> i <> j -> forall r'', LR i = Some r'' -> rs_uid r'' <> rs_uid r'
       (* the sender stores the segments of one message before it turns to the next: no other message with the same reference
          is in the middle of storing its segments *)
       | OPut _ => forall i, (i < n)%nat -> i <> j -> md_r (D i) = md_r (D j) -> ~ storing Q i
       | _ => True
       end.
  Definition gafter (Q : nat -> nat -> qphase) (LR : nat -> option resp) (e : gev) :=
    let j := fst e in (upd Q j (fst (oafter (Q j) (LR j) (snd e))), upd LR j (snd (oafter (Q j) (LR j) (snd e)))).
  Definition gexpected (Q : nat -> nat -> qphase) (LR : nat -> option resp) (e : gev) : list hout :=
    let j := fst e in oexpected (md_log (D j)) (md_k (D j)) (Q j) (LR j) (snd e).

  Fixpoint gvalid Q LR (gs : list gev) : Prop :=
    match gs with [] => True | e :: t => genabled Q LR e /\ gvalid (fst (gafter Q LR e)) (snd (gafter Q LR e)) t end.
  Fixpoint gspec Q LR (gs : list gev) : list (list hout) :=
    match gs with [] => [] | e :: t => gexpected Q LR e :: gspec (fst (gafter Q LR e)) (snd (gafter Q LR e)) t end.

  (* what an event of message j can touch, in terms of j's own keys *)
  Lemma event_footprint s Q LR e :
    MI s Q LR -> genabled Q LR e ->
    let j := fst e in
    exists i, (i < md_k (D j))%nat /\
      footprint (md_sq (D j) i) (match snd e with OResp _ r' _ => Some (rs_uid r') | _ => None end)
                (fun key => key <> K (md_r (D j)) (md_sq (D j))) s (fst (hstep s (gconc e)))
      /\ cur_foot (fun ref => match snd e with OPut _ => ref <> md_r (D j) | _ => True end) s (fst (hstep s (gconc e))).
  Proof.
    intros HM (Hj & Hen & _). destruct e as [j g]. cbn [fst snd] in *. specialize (HM j Hj).
    unfold gconc. cbn [fst snd]. destruct g as [i|i r' mid|i]; cbn [oenabled] in Hen; cbn [oconc].
    - destruct Hen as (Hi & Hp & Hord). exists i. split; [exact Hi|].
      pose proof (put_footprint s (oseg (md_r (D j)) (md_log (D j)) (md_k (D j)) (md_sq (D j)) (md_uid (D j)) i)) as [F C].
      unfold oseg in F at 1, C at 1. cbn [sm_seq sm_sar fst] in F, C. split; [|exact C].
      (* the cell written is the message's own *)
      assert (put_key (h_corr s) (oseg (md_r (D j)) (md_log (D j)) (md_k (D j)) (md_sq (D j)) (md_uid (D j)) i) = K (md_r (D j)) (md_sq (D j))) as Ek.
      { unfold put_key, oseg. cbn [sm_sar sm_seq]. destruct (Nat.eq_dec i 0) as [->|N0].
        - change (1 <? Z.of_nat 0 + 1) with false. cbv iota. reflexivity.
        - replace (1 <? Z.of_nat i + 1) with true by (symmetry; apply Z.ltb_lt; lia).
          destruct HM as [(_ & _ & Hc & _) Hcur].
          rewrite (Hcur (Hord N0) (ex_intro _ i (conj Hi Hp))).
          assert (forallb (fun a => is_qnot (Q j a)) (oidx (md_k (D j))) = false) as Fn.
          { destruct (D_ok j Hj) as ([Hk2 Hk3] & _). apply (oforallb_false _ Hk2 Hk3 _ 0%nat); [lia|]. specialize (Hord N0). destruct (Q j 0%nat); try reflexivity. contradiction. }
          assert (all_processed (md_k (D j)) (Q j) = false) as Fp by (destruct (D_ok j Hj) as ([Hk2 Hk3] & _); apply (oforallb_false _ Hk2 Hk3 _ i Hi); rewrite Hp; reflexivity).
          rewrite Fn, Fp in Hc. cbn [andb] in Hc. destruct Hc as (cell & -> & _). reflexivity. }
      rewrite Ek in F. exact F.
    - destruct Hen as (Hi & Hp & Hsq & _). exists i. split; [exact Hi|].
      pose proof (response_footprint s r' mid) as (F1 & F2 & F3 & F4). rewrite Hsq in F1, F2, F3.
      destruct HM as [(_ & Hb & _) _]. specialize (Hb i Hi). rewrite Hp in Hb.
      cbn [hstep]. split.
      + split; [exact F1|]. split; [exact F2|]. split; [|exact F4].
        intros ref Hne. apply F3. intros rf ss E. rewrite Hb in E. injection E as <- _. congruence.
      + intros ref _. rewrite response_cur. reflexivity.
    - destruct Hen as (Hi & Hp). exists i. split; [exact Hi|].
      destruct HM as [(Ha & Hb & _) _]. pose proof (Ha i Hi) as Hai. rewrite Hp in Hai. destruct Hai as (e & He & Hm).
      specialize (Hb i Hi). rewrite Hp in Hb.
      pose proof (expire_footprint s (md_sq (D j) i) e He) as F.
      assert (sm_seq (e_msg e) = md_sq (D j) i) as Es by (rewrite Hm; reflexivity). specialize (F Es).
      destruct F as (F1 & F2 & F3 & F4). split.
      + split; [exact F1|]. split; [exact F2|]. split; [|exact F4].
        intros ref Hne. apply F3. intros rf ss E. rewrite Hb in E. injection E as <- _. congruence.
      + intros ref _. cbn [hstep]. rewrite expire_cur. reflexivity.
  Qed.

  (* one event of one message: that message moves as it would alone, all the others keep their invariant *)
  Lemma g_step s Q LR e :
    MI s Q LR -> genabled Q LR e ->
    exists s', hstep s (gconc e) = (s', gexpected Q LR e) /\ MI s' (fst (gafter Q LR e)) (snd (gafter Q LR e)).
  Proof.
    intros HM Hen. pose proof (event_footprint s Q LR e HM Hen) as Hfoot.
    destruct Hen as (Hj & Hen & Hextra). destruct e as [j g]. cbn [fst snd] in *.
    destruct (D_ok j Hj) as ([Hk Hk255] & Hrj & Hinj).
    destruct (o_step (md_r (D j)) (md_log (D j)) (md_k (D j)) (md_sq (D j)) (md_uid (D j)) Hk Hk255 Hinj s (Q j) (LR j) g (HM j Hj) Hen)
      as (s' & Hs & HQ').
    exists s'. split; [exact Hs|].
    unfold gafter. cbn [fst snd]. intros i Hi. destruct (Nat.eq_dec i j) as [->|Hne].
    - unfold QIj. rewrite !upd_same. exact HQ'.
    - unfold QIj. rewrite !upd_other by exact Hne.
      destruct Hfoot as (a & Ha & (F1 & F2 & F3 & F4) & F5). unfold gconc in F1, F2, F3, F4, F5. cbn [fst snd] in F1, F2, F3, F4, F5.
      rewrite Hs in F1, F2, F3, F4, F5. cbn [fst] in F1, F2, F3, F4, F5.
      pose proof (D_sep i j Hi Hj Hne) as Hsq. destruct (D_ok i Hi) as ([Hki _] & Hri & _).
      destruct HQ' as [(_ & _ & _ & _ & N1 & N2 & N3 & _) _].
      apply (QI_frame _ _ _ _ _ s s' _ _ (HM i Hi)).
      + intros b Hb. apply F1. apply Hsq; assumption.
      + intros b Hb. apply F2. apply Hsq; assumption.
      + apply F3. unfold K. apply skey_inj; [exact Hri|exact Hrj|]. apply Hsq; lia.
      + intros r'' E. apply F4. destruct g as [x|x r' mid|x]; try discriminate.
        intros E2. injection E2 as E2. exact (Hextra i Hi Hne r'' E (eq_sym E2)).
      + intros H0 Hex. apply F5. destruct g as [x|x r' mid|x]; try exact I.
        intros Er. apply (Hextra i Hi Hne Er). split; assumption.
      + exact N1.
      + exact N2.
      + exact N3.
  Qed.

  Theorem g_run : forall gs s Q LR, MI s Q LR -> gvalid Q LR gs -> hrun_each s (map gconc gs) = gspec Q LR gs.
  Proof.
    induction gs as [|e t IH]; intros s Q LR HM Hv; [reflexivity|].
    cbn [gvalid] in Hv. destruct Hv as [Hen Hv]. cbn [map gspec hrun_each].
    destruct (g_step s Q LR e HM Hen) as (s' & Hs & HM'). rewrite Hs. cbn [fst snd]. f_equal. apply (IH s' _ _ HM' Hv).
  Qed.

  (* ---- projection onto one message ---- *)
  Fixpoint proj (j : nat) (gs : list gev) : list oev :=
    match gs with [] => [] | (i, g) :: t => if Nat.eqb i j then g :: proj j t else proj j t end.
  Fixpoint pick {A} (j : nat) (gs : list gev) (outs : list A) : list A :=
    match gs, outs with
    | (i, _) :: t, o :: os => if Nat.eqb i j then o :: pick j t os else pick j t os
    | _, _ => []
    end.

  Lemma projection j : forall gs Q LR, gvalid Q LR gs ->
    ovalid (md_k (D j)) (md_sq (D j)) (Q j) (LR j) (proj j gs)
    /\ pick j gs (gspec Q LR gs) = ospec (md_log (D j)) (md_k (D j)) (Q j) (LR j) (proj j gs).
  Proof.
    induction gs as [|[i g] t IH]; intros Q LR Hv; [split; [exact I|reflexivity]|].
    cbn [gvalid] in Hv. destruct Hv as [(Hi & Hen & _) Hv]. cbn [fst snd] in Hi, Hen.
    specialize (IH _ _ Hv). unfold gafter in IH. cbn [fst snd] in IH.
    cbn [proj gspec pick]. destruct (Nat.eqb_spec i j) as [->|Hne].
    - rewrite !upd_same in IH. destruct IH as [IH1 IH2]. cbn [ovalid ospec]. split; [split; assumption|].
      unfold gexpected. cbn [fst snd]. f_equal. exact IH2.
    - rewrite !upd_other in IH by congruence. exact IH.
  Qed.

  Lemma MI_init : MI hinit (fun _ _ => QNot) (fun _ => None).
  Proof. intros j _. apply QI_init. Qed.

  (* every message gets the outcome it would get alone, whatever the other messages do in between *)
  Theorem concurrent_outcomes gs j :
    gvalid (fun _ _ => QNot) (fun _ => None) gs -> (j < n)%nat ->
    pick j gs (hrun_each hinit (map gconc gs))
      = ospec (md_log (D j)) (md_k (D j)) (fun _ => QNot) None (proj j gs)
    /\ ovalid (md_k (D j)) (md_sq (D j)) (fun _ => QNot) None (proj j gs)
    /\ verdict (md_log (D j)) (md_k (D j)) (fst (ofinal (fun _ => QNot) None (proj j gs)))
               (concat (pick j gs (hrun_each hinit (map gconc gs)))).
  Proof.
    intros Hv Hj. rewrite (g_run gs hinit _ _ MI_init Hv).
    destruct (projection j gs _ _ Hv) as [Pv Pe]. split; [exact Pe|]. split; [exact Pv|].
    rewrite Pe. destruct (D_ok j Hj) as ([Hk Hk255] & _ & Hinj).
    rewrite <- (o_run (md_r (D j)) (md_log (D j)) (md_k (D j)) (md_sq (D j)) (md_uid (D j)) Hk Hk255 Hinj (proj j gs) hinit _ _
                      (QI_init _ _ _ _ _) Pv).
    exact (outcome_exactly_once (md_r (D j)) (md_log (D j)) (md_k (D j)) (md_sq (D j)) (md_uid (D j)) Hk Hk255 Hinj (proj j gs) Pv).
  Qed.
End Concurrent.

(* ---------- stray responses: unknown or already answered numbers, and responses of another type ---------- *)
(* a response whose number is not stored (unsolicited, duplicate, late), or which is of another type than the request stored under
   its number, changes nothing and is handed to the hook without any message's identity (log 0) *)
Definition stray (s : hstate) (r : resp) : Prop :=
  match dget (rs_seq r) (c_store (h_corr s)) with
  | None => True
  | Some e => answers r (e_msg e) = false
  end.

Lemma stray_response_noop s r mid :
  stray s r ->
  fst (handle_response s r mid) = s
  /\ forall o, In o (snd (handle_response s r mid)) -> match o with HResp _ l _ _ => l = 0 | HSendError _ => False | _ => True end.
Proof.
  intros Hs. unfold handle_response.
  destruct (negb (mem (rs_cmd r) handled_response_commands)); [split; [reflexivity|intros o [<-|[]]; exact I]|].
  destruct (if rs_cmd r =? SmppCommand_GENERIC_NACK then Ok None
            else match lookup (rs_cmd r) response_command_map with Some c => Ok (Some c) | None => Err EXN_KeyError end) as [oc|e0];
    [|split; [reflexivity|intros o [<-|[]]; exact I]].
  assert (get_pop (h_corr s) r = (h_corr s, None)) as ->.
  { unfold get_pop, stray in *. destruct (dget (rs_seq r) (c_store (h_corr s))) as [e|]; [rewrite Hs; reflexivity|reflexivity]. }
  cbn [fst snd]. split; [destruct s; reflexivity|]. intros o [<-|[]]. reflexivity.
Qed.

Section Stray.
  Variable n : nat.
  Variable D : nat -> mdesc.
  Hypothesis D_ok : forall j, (j < n)%nat ->
    (2 <= md_k (D j) <= 255)%nat /\ 0 <= md_r (D j) < 65536
    /\ forall a b, (a < md_k (D j))%nat -> (b < md_k (D j))%nat -> md_sq (D j) a = md_sq (D j) b -> a = b.
  Hypothesis D_sep : forall i j, (i < n)%nat -> (j < n)%nat -> i <> j ->
    forall a b, (a < md_k (D i))%nat -> (b < md_k (D j))%nat -> md_sq (D i) a <> md_sq (D j) b.

  (* the events of the messages, with stray responses anywhere in between *)
  Inductive xev := XMsg (e : gev) | XStray (r : resp) (mid : Z).
  Definition xconc (x : xev) : hevent := match x with XMsg e => gconc D e | XStray r mid => HResponse r mid end.

  Fixpoint xvalid (s : hstate) Q LR (xs : list xev) : Prop :=
    match xs with
    | [] => True
    | XMsg e :: t => genabled n D Q LR e /\ xvalid (fst (hstep s (gconc D e))) (fst (gafter Q LR e)) (snd (gafter Q LR e)) t
    | XStray r mid :: t => stray s r /\ xvalid s Q LR t
    end.
  Fixpoint xmsgs (xs : list xev) : list gev := match xs with [] => [] | XMsg e :: t => e :: xmsgs t | XStray _ _ :: t => xmsgs t end.
  (* outputs at the message events only *)
  Fixpoint xpick {A} (xs : list xev) (outs : list A) : list A :=
    match xs, outs with
    | XMsg _ :: t, o :: os => o :: xpick t os
    | XStray _ _ :: t, _ :: os => xpick t os
    | _, _ => []
    end.
  Fixpoint xstray_outs {A} (xs : list xev) (outs : list A) : list A :=
    match xs, outs with
    | XMsg _ :: t, _ :: os => xstray_outs t os
    | XStray _ _ :: t, o :: os => o :: xstray_outs t os
    | _, _ => []
    end.

  Theorem stray_responses_change_nothing : forall xs s Q LR,
    MI n D s Q LR -> xvalid s Q LR xs ->
    gvalid n D Q LR (xmsgs xs)
    /\ xpick xs (hrun_each s (map xconc xs)) = gspec D Q LR (xmsgs xs)
    /\ forall outs o, In outs (xstray_outs xs (hrun_each s (map xconc xs))) -> In o outs ->
         match o with HResp _ l _ _ => l = 0 | HSendError _ => False | _ => True end.
  Proof.
    induction xs as [|x t IH]; intros s Q LR HM Hv; [split; [exact I|split; [reflexivity|intros outs o []]]|].
    destruct x as [e|r mid]; cbn [xvalid] in Hv; destruct Hv as [Hen Hv]; cbn [map xmsgs hrun_each xconc].
    - destruct (g_step n D D_ok D_sep s Q LR e HM Hen) as (s' & Hs & HM'). rewrite Hs in Hv |- *. cbn [fst snd] in *.
      destruct (IH s' _ _ HM' Hv) as (I1 & I2 & I3).
      split; [cbn [gvalid]; split; assumption|]. split; [cbn [xpick gspec]; f_equal; exact I2|]. cbn [xstray_outs]. exact I3.
    - destruct (stray_response_noop s r mid Hen) as [E1 E2]. cbn [hstep]. rewrite E1.
      destruct (IH s Q LR HM Hv) as (I1 & I2 & I3).
      split; [exact I1|]. split; [cbn [xpick]; exact I2|]. cbn [xstray_outs]. intros outs o [<-|Hin] Ho; [exact (E2 o Ho)|exact (I3 outs o Hin Ho)].
  Qed.
End Stray.
