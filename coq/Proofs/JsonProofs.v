(* Lemmas for C12: json_decode (json_encode m) = m for every message of every class. *)
From Coq Require Import ZArith List Bool String Ascii Lia.
Import ListNotations.
Require Import AV.Generated.ExnOrder AV.Generated.SmppConsts AV.Model.Base AV.Model.TimeFmt AV.Model.Pdu AV.Model.Json.
Open Scope Z_scope.
Open Scope string_scope.
Open Scope list_scope.

Definition wf_opt (p : optparam) : Prop :=
  match tag_data_type (op_tag p), op_val p with
  | TyInt, TInt _ => True
  | TyStr, TStr _ => op_tag p <> TAG_MESSAGE_PAYLOAD
  | TyBool, TBool _ => True
  | _, _ => False
  end.

Definition wf_value (c : conv) (v : value) : Prop :=
  match c, v with
  | CId, (VInt _ | VStr _ | VBool _ | VNone) => True
  | CEnum ms, VInt z => mem z ms = true
  | CPhone, VPhone _ t p => mem t TON_values = true /\ mem p NPI_values = true
  | CTime, VTime _ => True
  | COpts, VOpts l => Forall wf_opt l
  | _, _ => False
  end.

(* the attributes are exactly the dataclass fields of the class, in order, with values of the field's type *)
Definition wf (m : message) : Prop :=
  exists name spec, class_by_cmd (m_cmd m) class_table = Some (name, spec)
    /\ Forall2 (fun fv kc => fst fv = fst kc /\ wf_value (snd kc) (snd fv)) (m_fields m) spec.

Lemma opt_roundtrip p : wf_opt p -> opt_of (opt_json p) = Ok p.
Proof.
  destruct p as [tag val]. unfold wf_opt, opt_of, opt_json. cbn [op_tag op_val jget String.eqb Ascii.eqb Bool.eqb].
  destruct (tag_data_type tag), val; try contradiction; intros H; try reflexivity.
  destruct (Z.eqb_spec tag TAG_MESSAGE_PAYLOAD); [contradiction|reflexivity].
Qed.

Lemma opts_roundtrip l : Forall wf_opt l -> mapM opt_of (map opt_json l) = Ok l.
Proof.
  induction l as [|p t IH]; intros H; [reflexivity|]. inversion_clear H as [|? ? Hp Ht].
  cbn [map mapM]. rewrite (opt_roundtrip p Hp). cbn [rbind]. rewrite (IH Ht). reflexivity.
Qed.

Lemma value_roundtrip c v : wf_value c v -> of_json_value c (to_json_value v) = Ok v.
Proof.
  destruct c, v; cbn [wf_value]; try contradiction; intros H; try reflexivity.
  - cbn [of_json_value to_json_value enum_of]. rewrite H. reflexivity.
  - destruct H as [Ht Hp]. cbn [of_json_value to_json_value jget String.eqb Ascii.eqb Bool.eqb enum_of]. rewrite Ht. cbn [rbind]. rewrite Hp. reflexivity.
  - destruct t; reflexivity.
  - destruct l as [|p t]; [reflexivity|]. cbn [of_json_value to_json_value map].
    change (opt_json p :: map opt_json t) with (map opt_json (p :: t)). rewrite (opts_roundtrip _ H). reflexivity.
Qed.

(* ---- facts about the class table, by evaluation ---- *)
Fixpoint nodup_keys (l : list string) : bool :=
  match l with [] => true | k :: t => negb (existsb (String.eqb k) t) && nodup_keys t end.

Definition entry_ok (e : Z * (string * list (string * conv))) : bool :=
  let '(c, (n, spec)) := e in
  match class_by_name (codes n) class_table with Some c' => (c' =? c)%Z | None => false end
  && match codes n with [] => false | _ => true end
  && nodup_keys ("__smpp_command__" :: map fst spec).

Lemma table_ok : forallb entry_ok class_table = true.
Proof. vm_compute. reflexivity. Qed.

Lemma class_by_cmd_In cmd t r : class_by_cmd cmd t = Some r -> In (cmd, r) t.
Proof.
  induction t as [|[c r'] t IH]; cbn [class_by_cmd]; [discriminate|].
  destruct (Z.eqb_spec c cmd) as [->|Hne]; intros H; [injection H as ->; left; reflexivity|right; auto].
Qed.

Lemma nodup_keys_spec k t : nodup_keys (k :: t) = true -> ~ In k t /\ nodup_keys t = true.
Proof.
  cbn [nodup_keys]. intros H. apply andb_prop in H as [H1 H2]. split; [|exact H2].
  intros Hin. apply negb_true_iff in H1. assert (existsb (String.eqb k) t = true) as E.
  { apply existsb_exists. exists k. split; [exact Hin|apply String.eqb_refl]. }
  congruence.
Qed.

Lemma jget_mapped (f : value -> json) fields k v :
  nodup_keys (map fst fields) = true -> In (k, v) fields ->
  jget k (map (fun fv => (fst fv, f (snd fv))) fields) = Some (f v).
Proof.
  induction fields as [|[k0 v0] t IH]; intros Hnd Hin; [contradiction|].
  cbn [map fst] in Hnd. apply nodup_keys_spec in Hnd as [Hni Hnd]. cbn [map jget fst snd].
  destruct Hin as [E|Hin].
  - injection E as -> ->. rewrite String.eqb_refl. reflexivity.
  - destruct (String.eqb_spec k k0) as [->|Hne]; [|apply IH; assumption].
    exfalso. apply Hni. apply in_map_iff. exists (k0, v). split; [reflexivity|exact Hin].
Qed.

Lemma mapM_read o fields spec :
  (forall k v, In (k, v) fields -> jget k o = Some (to_json_value v)) ->
  Forall2 (fun fv kc => fst fv = fst kc /\ wf_value (snd kc) (snd fv)) fields spec ->
  mapM (read_field o) spec = Ok fields.
Proof.
  intros Hget H. induction H as [|[k v] [k' c] fields spec [Hk Hw] _ IH]; [reflexivity|].
  cbn [fst snd] in Hk, Hw. subst k'. cbn [mapM]. unfold read_field at 1. cbn [fst snd].
  rewrite (Hget k v (or_introl eq_refl)), (value_roundtrip c v Hw). cbn [rbind].
  rewrite IH; [reflexivity|]. intros k2 v2 Hin. apply Hget. right. exact Hin.
Qed.

Theorem json_roundtrip m : wf m -> exists j, to_json m = Ok j /\ of_json j = Ok m.
Proof.
  intros (name & spec & Hc & Hf). unfold to_json. rewrite Hc. eexists. split; [reflexivity|].
  pose proof (class_by_cmd_In _ _ _ Hc) as Hin. pose proof table_ok as T. rewrite forallb_forall in T. specialize (T _ Hin).
  cbn [entry_ok] in T. apply andb_prop in T as [T T3]. apply andb_prop in T as [T1 T2].
  destruct (class_by_name (codes name) class_table) as [c'|] eqn:En; [|discriminate]. apply Z.eqb_eq in T1. subst c'.
  assert (map fst (m_fields m) = map fst spec) as Hkeys.
  { clear - Hf. induction Hf as [|fv kc l l' [Hk _] _ IH]; [reflexivity|]. cbn [map]. rewrite Hk, IH. reflexivity. }
  rewrite <- Hkeys in T3. apply nodup_keys_spec in T3 as [Hnc Hnd].
  unfold of_json. cbn [jget]. rewrite String.eqb_refl.
  destruct (codes name) as [|c0 cs] eqn:Ecodes; [discriminate|]. rewrite En, Hc.
  rewrite (mapM_read _ (m_fields m) spec); [cbn [rbind]; destruct m; reflexivity| |exact Hf].
  intros k v Hkv. cbn [jget].
  destruct (String.eqb_spec k "__smpp_command__") as [->|_].
  - exfalso. apply Hnc. apply in_map_iff. exists ("__smpp_command__", v). split; [reflexivity|exact Hkv].
  - apply (jget_mapped to_json_value); assumption.
Qed.

(* the encoded form is a JSON object that names the message type, and decoding dispatches on that name alone *)
Theorem names_type m j : to_json m = Ok j ->
  exists name spec fields, class_by_cmd (m_cmd m) class_table = Some (name, spec)
    /\ j = JObj (("__smpp_command__", JStr (codes name)) :: fields).
Proof.
  unfold to_json. destruct (class_by_cmd (m_cmd m) class_table) as [[name spec]|]; [|discriminate].
  intros H. injection H as <-. eauto.
Qed.
