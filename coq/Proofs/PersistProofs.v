(* Lemmas for C19: crash atomicity of the save protocol, write-through of dictionary operations, revival of persisted stores. *)
From Coq Require Import ZArith List Bool String Ascii Lia.
Import ListNotations.
Require Import AV.Generated.ExnOrder AV.Generated.SmppConsts AV.Model.Base AV.Model.TimeFmt AV.Model.Pdu AV.Model.Json AV.Model.Persist
               AV.Proofs.JsonProofs.
Open Scope Z_scope.
Open Scope string_scope.
Open Scope list_scope.

(* ---------- 1. a crash at any point of a save leaves the old or the new content ---------- *)
Theorem crash_atomic (D : Type) (parse : list Z -> option D) (empty : D) s content s' :
  crash_state s content s' ->
  load D parse empty s' = load D parse empty s \/ load D parse empty s' = load D parse empty (run_io s (save_ops content)).
Proof. intros H. destruct H; [left; reflexivity|left; reflexivity|left; reflexivity|right; reflexivity]. Qed.

Lemma save_result s content : f_main (run_io s (save_ops content)) = Some content /\ f_tmp (run_io s (save_ops content)) = None.
Proof. unfold run_io, save_ops. cbn [fold_left io_step f_tmp f_main option_map app]. split; reflexivity. Qed.

(* a leftover temporary file of an interrupted save does not disturb the next save *)
Lemma save_ignores_stale_tmp m t1 t2 content :
  run_io {| f_main := m; f_tmp := t1 |} (save_ops content) = run_io {| f_main := m; f_tmp := t2 |} (save_ops content).
Proof. reflexivity. Qed.

(* the truncating protocol used before the fix: the crash between truncation and write loads as neither *)
Lemma inplace_protocol_refuted :
  exists s content (parse : list Z -> option (list Z)) s',
    In s' (inplace_crash_states s content)
    /\ load _ parse [] s' <> load _ parse [] s
    /\ load _ parse [] s' <> load _ parse [] {| f_main := Some content; f_tmp := None |}.
Proof.
  exists {| f_main := Some [1]; f_tmp := None |}, [2], (fun b => match b with [] => None | _ => Some b end),
         {| f_main := Some []; f_tmp := None |}.
  split; [right; left; reflexivity|]. split; cbn; discriminate.
Qed.

(* ---------- 2. write-through ---------- *)
Section WT.
  Variable V : Type.
  Definition synced (d : pdict V) : Prop := pd_file d = pd_data d.

  Lemma trace_synced_gen tr : forall d,
    trace_ok V tr = true -> (synced d \/ existsb (is_set V) tr = true) -> synced (run_prims V d tr).
  Proof.
    induction tr as [|p t IH]; intros d Hok Hs.
    - destruct Hs as [Hs|Hs]; [exact Hs|discriminate].
    - unfold run_prims. cbn [fold_left]. fold (run_prims V (prim_step V d p) t).
      destruct p as [k v|k|k|k v]; cbn [trace_ok] in Hok.
      + apply IH; [exact Hok|]. left. reflexivity.
      + apply IH; [exact Hok|]. cbn [prim_step]. destruct (kget V k (pd_data d)); [left; reflexivity|].
        destruct Hs as [Hs|Hs]; [left; exact Hs|right; exact Hs].
      + apply IH; [exact Hok|]. cbn [prim_step]. destruct (kget V k (pd_data d)); [left; reflexivity|].
        destruct Hs as [Hs|Hs]; [left; exact Hs|right; exact Hs].
      + apply andb_prop in Hok as [He Hok]. apply IH; [exact Hok|]. right. exact He.
  Qed.

  Theorem trace_synced tr d : trace_ok V tr = true -> synced d -> synced (run_prims V d tr).
  Proof. intros Hok Hs. apply trace_synced_gen; [exact Hok|left; exact Hs]. Qed.

  Theorem dirty_sound tr : forall d dirty,
    (dirty = false -> synced d) -> dirty_after V (pd_data d) dirty tr = false -> synced (run_prims V d tr).
  Proof.
    induction tr as [|p t IH]; intros d dirty Hs Hd.
    - cbn [dirty_after] in Hd. apply Hs. exact Hd.
    - unfold run_prims. cbn [fold_left]. fold (run_prims V (prim_step V d p) t).
      destruct p as [k v|k|k|k v]; cbn [dirty_after prim_step] in *.
      + apply (IH _ false); [intros _; reflexivity|exact Hd].
      + destruct (kget V k (pd_data d)); [apply (IH _ false); [intros _; reflexivity|exact Hd]|apply (IH _ dirty); assumption].
      + destruct (kget V k (pd_data d)); [apply (IH _ false); [intros _; reflexivity|exact Hd]|apply (IH _ dirty); assumption].
      + destruct (kget V k (pd_data d)); [apply (IH _ true); [discriminate|exact Hd]|apply (IH _ dirty); assumption].
  Qed.

  (* and an in-place update that is not followed by an assignment is lost on restart *)
  Lemma mutate_alone_unsynced k v v' (d : pdict V) :
    synced d -> kget V k (pd_data d) = Some v -> kset V k v' (pd_data d) <> pd_data d ->
    ~ synced (run_prims V d [PMutate k v']).
  Proof.
    intros Hs Hk Hne. unfold run_prims, synced. cbn [fold_left prim_step]. rewrite Hk. cbn [pd_file pd_data].
    rewrite Hs. intros E. apply Hne. symmetry. exact E.
  Qed.
End WT.

(* ---------- 3. revival ---------- *)
Definition wf_optmsg (o : option message) : Prop := match o with None => True | Some m => wf m end.
Definition wf_sval (v : sval) : Prop :=
  match v with
  | SStamped _ m => wf m
  | SPair _ _ => True
  | SSegStat _ orig lr lc => wf orig /\ wf_optmsg lr /\ wf_optmsg lc
  | SSegText _ segs => Forall (fun kv => fst kv <> "__smpp_command__" /\ fst kv <> "orig_submit_sm") segs
  end.

Lemma to_json_shape m j : to_json m = Ok j -> exists o, j = JObj o /\ has_key "__smpp_command__" o = true.
Proof.
  intros H. apply names_type in H as (name & spec & fields & _ & ->). eexists. split; [reflexivity|].
  cbn [has_key]. rewrite String.eqb_refl. reflexivity.
Qed.

Lemma msg_roundtrip m j : wf m -> to_json m = Ok j -> of_json j = Ok m.
Proof. intros Hw Hj. destruct (json_roundtrip m Hw) as (j' & E & D). rewrite E in Hj. injection Hj as <-. exact D. Qed.

Lemma optmsg_roundtrip o j : wf_optmsg o -> opt_msg_json o = Ok j -> revive_opt j = Ok o.
Proof.
  destruct o as [m|]; cbn [wf_optmsg opt_msg_json]; intros Hw Hj.
  - destruct (to_json_shape _ _ Hj) as (ob & -> & _). unfold revive_opt. rewrite (msg_roundtrip m _ Hw Hj). reflexivity.
  - injection Hj as <-. reflexivity.
Qed.

Lemma ints_roundtrip status : ints_of (map (fun kv => (fst kv, JInt (snd kv))) status) = Ok status.
Proof. induction status as [|[k z] t IH]; [reflexivity|]. cbn [map ints_of fst snd]. rewrite IH. reflexivity. Qed.

Lemma strs_roundtrip segs : strs_of (map (fun kv => (fst kv, JStr (snd kv))) segs) = Ok segs.
Proof. induction segs as [|[k z] t IH]; [reflexivity|]. cbn [map strs_of fst snd]. rewrite IH. reflexivity. Qed.

Lemma has_key_segs k (segs : list (string * list Z)) :
  Forall (fun kv => fst kv <> k) segs -> has_key k (map (fun kv => (fst kv, JStr (snd kv))) segs) = false.
Proof.
  induction 1 as [|[k' s] t Hk _ IH]; [reflexivity|]. cbn [map has_key fst snd]. rewrite IH, orb_false_r.
  apply String.eqb_neq. intros E. apply Hk. cbn [fst]. symmetry. exact E.
Qed.

Theorem sval_roundtrip v j : wf_sval v -> sval_json v = Ok j -> revive_val j = Ok v.
Proof.
  destruct v as [st m|a b|status orig lr lc|st segs]; cbn [wf_sval sval_json]; intros Hw Hj.
  - destruct (to_json m) as [jm|] eqn:Em; cbn [rbind] in Hj; [|discriminate]. injection Hj as <-.
    destruct (to_json_shape _ _ Em) as (o & -> & Hk). cbn [revive_val]. unfold process_object. rewrite Hk.
    rewrite (msg_roundtrip m _ Hw Em). reflexivity.
  - injection Hj as <-. reflexivity.
  - destruct Hw as (Ho & Hr & Hc).
    destruct (to_json orig) as [jo|] eqn:Eo; cbn [rbind] in Hj; [|discriminate].
    destruct (opt_msg_json lr) as [jr|] eqn:Er; cbn [rbind] in Hj; [|discriminate].
    destruct (opt_msg_json lc) as [jc|] eqn:Ec; cbn [rbind] in Hj; [|discriminate]. injection Hj as <-.
    cbn [revive_val]. unfold process_object. cbn [has_key jget String.eqb Ascii.eqb Bool.eqb orb].
    rewrite ints_roundtrip. cbn [rbind].
    destruct (to_json_shape _ _ Eo) as (oo & -> & _). rewrite (msg_roundtrip orig _ Ho Eo). cbn [rbind].
    rewrite (optmsg_roundtrip lr jr Hr Er), (optmsg_roundtrip lc jc Hc Ec). reflexivity.
  - injection Hj as <-. cbn [revive_val]. unfold process_object.
    rewrite (has_key_segs "__smpp_command__" segs), (has_key_segs "orig_submit_sm" segs).
    + cbn [rbind]. rewrite strs_roundtrip. reflexivity.
    + eapply Forall_impl; [|exact Hw]. intros kv [_ H]. exact H.
    + eapply Forall_impl; [|exact Hw]. intros kv [H _]. exact H.
Qed.

(* a new instance on the same directory finds exactly the store that was saved *)
Theorem store_roundtrip (s : store) o :
  Forall (fun kv => wf_sval (snd kv)) s -> store_json s = Ok o -> load_store (Some (JObj o)) = s.
Proof.
  intros Hw Hj. unfold load_store.
  assert (revive_store o = Ok s) as ->; [|reflexivity].
  revert o Hj. induction Hw as [|[k v] t Hv _ IH]; intros o Hj; cbn [store_json] in Hj.
  - injection Hj as <-. reflexivity.
  - destruct (sval_json v) as [j|] eqn:Ej; cbn [rbind] in Hj; [|discriminate].
    destruct (store_json t) as [r|] eqn:Er; cbn [rbind] in Hj; [|discriminate]. injection Hj as <-.
    cbn [revive_store]. rewrite (sval_roundtrip v j Hv Ej). cbn [rbind]. rewrite (IH r eq_refl). reflexivity.
Qed.
