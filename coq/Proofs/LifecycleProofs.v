(* Lemmas for C07. *)
From Coq Require Import ZArith List Bool Lia ZifyBool.
Import ListNotations.
Require Import AV.Generated.ExnOrder AV.Generated.Handled AV.Model.Base AV.Model.Recv AV.Model.Lifecycle.
Open Scope Z_scope.

(* every network/peer fault class is caught by the connect cycle; those _end_task does not swallow are caught one level up *)
Lemma faults_caught e : is_fault e = true -> start_catches e = true.
Proof.
  (* exception classes are a finite universe: the generated subclass table *)
  intros H. assert (In e (map fst exn_superclasses) \/ ~ In e (map fst exn_superclasses)) as [Hin|Hout].
  { destruct (in_dec Z.eq_dec e (map fst exn_superclasses)); auto. }
  - assert (forallb (fun x => implb (is_fault x) (start_catches x)) (map fst exn_superclasses) = true) as T by (vm_compute; reflexivity).
    rewrite forallb_forall in T. specialize (T e Hin). rewrite H in T. exact T.
  - exfalso. unfold is_fault in H. apply existsb_exists in H as (c & _ & Hc). unfold exn_is in Hc.
    assert (supers e exn_superclasses = []) as E.
    { clear - Hout. induction exn_superclasses as [|[k s] r IH]; [reflexivity|]. cbn [supers]. cbn [map fst In] in Hout.
      destruct (Z.eqb_spec k e); [exfalso; apply Hout; left; assumption|]. apply IH. intros Hr. apply Hout. right. exact Hr. }
    rewrite E in Hc. discriminate.
Qed.

Lemma fault_cycle_no_escape c : fault_cycle c = true -> cycle_escape c = None.
Proof.
  destruct c as [e|ended]; cbn [fault_cycle cycle_escape]; intros H.
  - rewrite (faults_caught e H). reflexivity.
  - destruct (filter _ ended) as [|[e|] rest] eqn:Ef; try reflexivity.
    assert (In (Some e) (filter (fun x => match x with Some e => negb (end_task_tolerates e) | None => false end) ended)) as Hin
      by (rewrite Ef; left; reflexivity).
    apply filter_In in Hin as [Hin _]. rewrite forallb_forall in H. specialize (H _ Hin). cbn in H.
    rewrite (faults_caught e H). reflexivity.
Qed.

(* any sequence of faults, of any length, without stop(): start() is still running *)
Theorem faults_never_end_start : forall cs t,
  forallb (fun x => fault_cycle (fst (fst x)) && negb (snd (fst x)) && negb (snd x)) cs = true ->
  snd (run t cs) = Running.
Proof.
  induction cs as [|[[c s1] s2] rest IH]; intros t H; cbn [run]; [reflexivity|].
  cbn [forallb fst snd] in H. apply andb_prop in H as [H Hrest]. apply andb_prop in H as [H H2]. apply andb_prop in H as [Hc H1].
  rewrite (fault_cycle_no_escape c Hc). apply negb_true_iff in H1, H2. rewrite H1.
  destruct (t_wait _) as [d t2]. rewrite H2. specialize (IH t2 Hrest). destruct (run t2 rest). cbn [snd] in *. exact IH.
Qed.

(* start() returns only through the shutting-down flag; after the flag is seen no further attempt is made *)
Theorem returns_only_after_stop : forall cs t ds, run t cs = (ds, Returned) -> existsb (fun x => snd (fst x) || snd x) cs = true.
Proof.
  induction cs as [|[[c s1] s2] rest IH]; intros t ds H; cbn [run] in H; [discriminate|].
  cbn [existsb fst snd]. destruct (cycle_escape c); [discriminate|]. destruct s1; [reflexivity|].
  destruct (t_wait _) as [d t2]. destruct s2; [reflexivity|]. cbn [orb].
  destruct (run t2 rest) as [ds' e] eqn:E. injection H as _ ->. eapply IH. exact E.
Qed.

Theorem stop_seen_no_new_attempt c s2 rest t : cycle_escape c = None -> run t ((c, true, s2) :: rest) = ([], Returned).
Proof. intros H. cbn [run]. rewrite H. reflexivity. Qed.

(* ---- the back-off sequence ---- *)
Definition timer_ok (t : timer) (n : Z) : Prop := 0 < t_min t /\ 0 <= n /\ t_max t = t_min t * 2 ^ n.

(* k consecutive waits after a reset *)
Fixpoint waits (t : timer) (k : nat) : list Z * timer :=
  match k with O => ([], t) | S k' => let '(d, t') := t_wait t in let '(ds, t'') := waits t' k' in (d :: ds, t'') end.

Lemma pow2_pos n : 0 <= n -> 0 < 2 ^ n. Proof. intros. apply Z.pow_pos_nonneg; lia. Qed.

Lemma wait_from_positive t n j :
  timer_ok t n -> 0 <= j -> t_next t = Z.min (t_min t * 2 ^ j) (t_max t) ->
  fst (t_wait t) = Z.min (t_min t * 2 ^ j) (t_max t)
  /\ t_next (snd (t_wait t)) = Z.min (t_min t * 2 ^ (j + 1)) (t_max t)
  /\ t_min (snd (t_wait t)) = t_min t /\ t_max (snd (t_wait t)) = t_max t.
Proof.
  intros (Hmin & Hn & Hmax) Hj Hnext. unfold t_wait.
  pose proof (pow2_pos j Hj) as Pj. pose proof (pow2_pos n Hn) as Pn.
  assert (2 ^ (j + 1) = 2 * 2 ^ j) as E1 by (rewrite Z.pow_add_r by lia; lia).
  assert (t_next t <> 0) as Hnz by nia.
  replace (t_next t =? 0) with false by (symmetry; apply Z.eqb_neq; exact Hnz). cbn [fst snd].
  split; [exact Hnext|].
  destruct (t_next t <? t_max t) eqn:Elt; cbn [t_next t_min t_max].
  - assert (t_next t = t_min t * 2 ^ j) as En by lia.
    assert (j < n) as Hjn.
    { destruct (Z_lt_le_dec j n); [assumption|]. assert (2 ^ n <= 2 ^ j) by (apply Z.pow_le_mono_r; lia). nia. }
    assert (2 ^ (j + 1) <= 2 ^ n) by (apply Z.pow_le_mono_r; lia).
    rewrite E1. split; [|split; reflexivity]. nia.
  - assert (t_next t = t_max t) as En by lia. split; [|split; reflexivity].
    assert (t_max t <= t_min t * 2 ^ j) by lia. rewrite E1. nia.
Qed.

(* the k-th wait after a reset sleeps 0, then min, 2 min, 4 min, ... capped at max = min * 2^max_increases *)
Theorem backoff_sequence t n : timer_ok t n -> t_next t = 0 ->
  forall k, (1 <= k)%nat ->
  let r := waits t k in
  nth (k - 1) (fst r) (-1) = kth_delay t (Z.of_nat k)
  /\ t_min (snd r) = t_min t /\ t_max (snd r) = t_max t
  /\ t_next (snd r) = Z.min (t_min t * 2 ^ (Z.of_nat k - 1)) (t_max t).
Proof.
  intros Hok H0.
  (* generalise: after the first wait the timer is at stage j *)
  assert (forall k t' j, timer_ok t' n -> 0 <= j -> t_next t' = Z.min (t_min t' * 2 ^ j) (t_max t') ->
            forall i, (i < k)%nat ->
            nth i (fst (waits t' k)) (-1) = Z.min (t_min t' * 2 ^ (j + Z.of_nat i)) (t_max t')) as Hgen_nth.
  { induction k as [|k IH]; intros t' j Hok' Hj Hn i Hi; [lia|]. cbn [waits].
    destruct (wait_from_positive t' n j Hok' Hj Hn) as (Hd & Hn' & Hmin' & Hmax').
    destruct (t_wait t') as [d t1]. cbn [fst snd] in *. destruct (waits t1 k) as [ds t2] eqn:Ew. cbn [fst].
    destruct i as [|i]; [cbn [nth]; rewrite Z.add_0_r; exact Hd|]. cbn [nth].
    assert (timer_ok t1 n) as Hok1 by (destruct Hok' as (A & B & C); unfold timer_ok; rewrite Hmin', Hmax'; auto).
    specialize (IH t1 (j + 1) Hok1 ltac:(lia)). rewrite Hmin', Hmax' in IH. specialize (IH Hn' i ltac:(lia)).
    rewrite Ew in IH. cbn [fst] in IH. rewrite IH. f_equal. f_equal. f_equal. lia. }
  assert (forall k t' j, timer_ok t' n -> 0 <= j -> t_next t' = Z.min (t_min t' * 2 ^ j) (t_max t') ->
            t_min (snd (waits t' k)) = t_min t' /\ t_max (snd (waits t' k)) = t_max t'
            /\ t_next (snd (waits t' k)) = Z.min (t_min t' * 2 ^ (j + Z.of_nat k)) (t_max t')) as Hgen_st.
  { induction k as [|k IH]; intros t' j Hok' Hj Hn; cbn [waits].
    - cbn [snd]. rewrite Z.add_0_r. auto.
    - destruct (wait_from_positive t' n j Hok' Hj Hn) as (Hd & Hn' & Hmin' & Hmax').
      destruct (t_wait t') as [d t1]. cbn [fst snd] in *. destruct (waits t1 k) as [ds t2] eqn:Ew. cbn [snd].
      assert (timer_ok t1 n) as Hok1 by (destruct Hok' as (A & B & C); unfold timer_ok; rewrite Hmin', Hmax'; auto).
      specialize (IH t1 (j + 1) Hok1 ltac:(lia)). rewrite Hmin', Hmax' in IH. specialize (IH Hn'). rewrite Ew in IH. cbn [snd] in IH.
      destruct IH as (A & B & C). rewrite A, B, C. repeat split; try reflexivity. f_equal. f_equal. f_equal. lia. }
  intros k Hk. destruct k as [|k]; [lia|]. cbv zeta.
  set (t1 := {| t_min := t_min t; t_max := t_max t; t_next := t_min t |}).
  assert (waits t (S k) = (0 :: fst (waits t1 k), snd (waits t1 k))) as Ew0.
  { cbn [waits]. unfold t_wait. rewrite H0. cbn [Z.eqb]. fold t1. destruct (waits t1 k). reflexivity. }
  rewrite Ew0. cbn [fst snd].
  assert (timer_ok t1 n) as Hok1 by exact Hok.
  destruct Hok as (Hmin & Hn & Hmax).
  assert (t_next t1 = Z.min (t_min t1 * 2 ^ 0) (t_max t1)) as Hn1.
  { cbn [t1 t_next t_min t_max]. pose proof (pow2_pos n Hn). change (2 ^ 0) with 1. nia. }
  destruct (Hgen_st k t1 0 Hok1 ltac:(lia) Hn1) as (A & B & C).
  replace (S k - 1)%nat with k by lia.
  split; [|split; [exact A|split; [exact B|]]].
  - unfold kth_delay. destruct k as [|k]; [reflexivity|]. cbn [nth].
    replace (Z.of_nat (S (S k)) =? 1) with false by (symmetry; apply Z.eqb_neq; lia).
    rewrite (Hgen_nth (S k) t1 0 Hok1 ltac:(lia) Hn1 k ltac:(lia)). cbn [t1 t_min t_max]. f_equal. f_equal. f_equal. lia.
  - rewrite C. cbn [t1 t_min t_max]. f_equal. f_equal. f_equal. lia.
Qed.

(* consequences in the words of the property *)
Corollary backoff_bounds t n : timer_ok t n -> forall k, 1 <= k ->
  0 <= kth_delay t k <= t_max t
  /\ kth_delay t 1 <= t_min t
  /\ (2 <= k -> kth_delay t (k + 1) = Z.min (2 * kth_delay t k) (t_max t)).
Proof.
  intros (Hmin & Hn & Hmax) k Hk. unfold kth_delay. pose proof (pow2_pos n Hn) as Pn.
  split; [|split].
  - destruct (k =? 1) eqn:E; [nia|]. assert (0 < 2 ^ (k - 2)) by (apply pow2_pos; lia). nia.
  - change (1 =? 1) with true. cbv iota. lia.
  - intros H2. replace (k + 1 =? 1) with false by (symmetry; apply Z.eqb_neq; lia).
    replace (k =? 1) with false by (symmetry; apply Z.eqb_neq; lia).
    replace (k + 1 - 2) with (k - 2 + 1) by lia. rewrite Z.pow_add_r by lia. change (2 ^ 1) with 2.
    assert (0 < 2 ^ (k - 2)) by (apply pow2_pos; lia). nia.
Qed.

(* the delays of the loop during a streak of failed cycles are exactly those consecutive waits ... *)
Theorem run_failure_streak : forall cs t,
  forallb (fun x => match fst (fst x) with CFailed e => is_fault e | CBound _ => false end && negb (snd (fst x)) && negb (snd x)) cs = true ->
  fst (run t cs) = fst (waits t (length cs)).
Proof.
  induction cs as [|[[c s1] s2] rest IH]; intros t H; [reflexivity|].
  cbn [forallb fst snd] in H. apply andb_prop in H as [H Hrest]. apply andb_prop in H as [H H2]. apply andb_prop in H as [Hc H1].
  destruct c as [e|ended]; [|discriminate]. apply negb_true_iff in H1, H2. subst s1 s2.
  cbn [run cycle_bound cycle_escape length waits]. rewrite (faults_caught e Hc).
  destruct (t_wait t) as [d t2]. specialize (IH t2 Hrest). destruct (run t2 rest) as [ds en]. destruct (waits t2 (length rest)) as [ws tw].
  cbn [fst] in *. rewrite IH. reflexivity.
Qed.

(* ... and a successful bind starts the sequence over: the next attempt after a bound session follows at once *)
Theorem run_after_bound ended rest t :
  cycle_escape (CBound ended) = None ->
  run t ((CBound ended, false, false) :: rest) =
    (0 :: fst (run {| t_min := t_min t; t_max := t_max t; t_next := t_min t |} rest),
     snd (run {| t_min := t_min t; t_max := t_max t; t_next := t_min t |} rest)).
Proof.
  intros H. cbn [run cycle_bound]. rewrite H. unfold t_wait, t_reset. cbn [t_next t_min t_max Z.eqb].
  destruct (run _ rest). reflexivity.
Qed.
