(* C01, the torn-down sender: a message in progress when the sender is cancelled gets exactly one outcome - from the handler when some
   part is not yet recorded by the correlator (then the correlator never produces one), from the correlator when every part is. *)
From Coq Require Import ZArith QArith List Bool Lia Arith.
Import ListNotations.
Require Import AV.Generated.ExnOrder AV.Generated.SmppConsts AV.Generated.Handled
               AV.Model.Base AV.Model.PyDict AV.Model.Limiter AV.Model.Correlator AV.Model.Seq AV.Model.Handlers AV.Model.SenderCancel
               AV.Proofs.PyDictProofs AV.Proofs.CorrelatorProofs AV.Proofs.HandlersProofs AV.Proofs.OutcomeProofs.

Lemma cancel_rule_facts : sender_cancel_reports_message = true /\ sender_cancel_skips_recorded_last = true.
Proof. split; reflexivity. Qed.

(* the handler keeps quiet exactly when every part is recorded *)
Lemma handler_quiet_iff k c : (1 <= k)%nat -> (cp_index c < k)%nat ->
  (handler_reports k c = false <-> stored_parts c = k).
Proof.
  intros Hk Hc. unfold handler_reports. destruct cancel_rule_facts as [-> ->]. cbn [andb].
  destruct c as [[|i]|i]; cbn [recorded stored_parts cp_index] in *.
  - split; [discriminate|lia].
  - destruct (Nat.eqb_spec i (k - 1)); cbn [negb]; split; try discriminate; lia.
  - destruct (Nat.eqb_spec i (k - 1)); cbn [negb]; split; try discriminate; try lia; reflexivity.
Qed.

Section Cancelled.
  Variables (r log : Z) (k : nat) (sq uid : nat -> Z).
  Hypothesis Hk : (2 <= k)%nat.
  Hypothesis Hk255 : (k <= 255)%nat.
  Hypothesis sq_inj : forall i j, (i < k)%nat -> (j < k)%nat -> sq i = sq j -> i = j.

  (* a part that is never put stays "not sent" through any admissible history *)
  Lemma never_put_stays_not gs : forall q lr j,
    q j = QNot -> ovalid k sq q lr gs -> ~ In (OPut j) gs -> fst (ofinal q lr gs) j = QNot.
  Proof.
    induction gs as [|g t IH]; intros q lr j Hq Hv Hn; [exact Hq|].
    cbn [ovalid] in Hv. destruct Hv as [Hen Hv]. cbn [ofinal]. apply IH; [|exact Hv|intros H; apply Hn; right; exact H].
    destruct g as [i|i r' mid|i]; cbn [oafter fst]; cbn [oenabled] in Hen.
    - rewrite qupd_other; [exact Hq|]. intros ->. apply Hn. left. reflexivity.
    - destruct Hen as (_ & Hp & _). rewrite qupd_other; [exact Hq|]. intros ->. congruence.
    - destruct Hen as (_ & Hp). rewrite qupd_other; [exact Hq|]. intros ->. congruence.
  Qed.

  (* the handler reported the message: whatever the SMSC answers to the parts that were recorded, whichever of them time out, in any
     order - the correlator never produces an outcome for this message *)
  Theorem cancelled_reported_once c gs :
    (cp_index c < k)%nat -> handler_reports k c = true ->
    ovalid k sq (fun _ => QNot) None gs -> (forall i, In (OPut i) gs -> (i < stored_parts c)%nat) ->
    filter is_outcome (concat (hrun_each hinit (map (oconc r log k sq uid) gs))) = [].
  Proof.
    intros Hc Hr Hv Hput.
    assert (stored_parts c < k)%nat as Hlt.
    { destruct (Nat.eq_dec (stored_parts c) k) as [E|E].
      - apply (handler_quiet_iff k c ltac:(lia) Hc) in E. congruence.
      - destruct c as [i|i]; cbn [stored_parts cp_index] in *; lia. }
    pose proof (outcome_exactly_once r log k sq uid Hk Hk255 sq_inj gs Hv) as V. unfold verdict in V.
    assert (all_processed k (fst (ofinal (fun _ => QNot) None gs)) = false) as Fp.
    { apply (oforallb_false k Hk Hk255 _ (k - 1)%nat); [lia|].
      rewrite (never_put_stays_not gs _ _ (k - 1)%nat eq_refl Hv); [reflexivity|].
      intros Hin. specialize (Hput _ Hin). lia. }
    rewrite Fp in V. exact V.
  Qed.

  (* the handler kept quiet: every part is recorded, so the outcome theorem for the complete message applies *)
  Theorem cancelled_quiet_all_recorded c :
    (cp_index c < k)%nat -> handler_reports k c = false -> stored_parts c = k.
  Proof. intros Hc Hq. apply (handler_quiet_iff k c ltac:(lia) Hc). exact Hq. Qed.
End Cancelled.

(* a message that is not segmented: reported by the handler exactly when the correlator does not hold it *)
Theorem cancelled_plain c : cp_index c = 0%nat ->
  (handler_reports 1 c = true /\ stored_parts c = 0%nat) \/ (handler_reports 1 c = false /\ stored_parts c = 1%nat).
Proof.
  intros Hc. unfold handler_reports. destruct cancel_rule_facts as [-> ->].
  destruct c as [i|i]; cbn [cp_index] in Hc; subst i; cbn; [left|right]; split; reflexivity.
Qed.

Theorem cancelled_sender :
  forall r log k sq uid c gs,
  (2 <= k <= 255)%nat ->
  (forall i j, (i < k)%nat -> (j < k)%nat -> sq i = sq j -> i = j) ->
  (cp_index c < k)%nat ->
  (handler_reports k c = true ->
     ovalid k sq (fun _ => QNot) None gs -> (forall i, In (OPut i) gs -> (i < stored_parts c)%nat) ->
     filter is_outcome (concat (hrun_each hinit (map (oconc r log k sq uid) gs))) = [])
  /\ (handler_reports k c = false -> stored_parts c = k).
Proof.
  intros r log k sq uid c gs [Hk Hk255] Hinj Hc. split.
  - intros Hr Hv Hput. exact (cancelled_reported_once r log k sq uid Hk Hk255 Hinj c gs Hc Hr Hv Hput).
  - intros Hq. apply (handler_quiet_iff k c ltac:(lia) Hc). exact Hq.
Qed.
