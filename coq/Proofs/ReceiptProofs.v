(* Lemmas for C20: delivery receipt text round trip. *)
From Coq Require Import ZArith List Bool Lia.
Import ListNotations.
Require Import AV.Generated.ExnOrder AV.Model.Base AV.Model.TimeFmt AV.Model.Receipt AV.Proofs.TimeProofs.
Open Scope Z_scope.
Ltac Zify.zify_post_hook ::= Z.to_euclidean_division_equations.

(* ---------- the scanner ---------- *)

Lemma split_on_app c a b : ~ In c a -> split_on c (a ++ c :: b) = Some (a, b).
Proof.
  induction a as [|x a IH]; intros Hn; cbn [app split_on].
  - rewrite Z.eqb_refl. reflexivity.
  - destruct (Z.eqb_spec x c) as [->|Hne]; [exfalso; apply Hn; left; reflexivity|].
    rewrite IH by (intros H; apply Hn; right; exact H). reflexivity.
Qed.

Lemma lower_char_colon x : lower_char x = 58 -> x = 58.
Proof. unfold lower_char. destruct ((65 <=? x) && (x <=? 90)) eqn:E; [|auto]. apply andb_prop in E as [E1 E2]. lia. Qed.

Lemma lower_no_colon s : ~ In 58 (lower s) -> ~ In 58 s.
Proof.
  unfold lower. intros H Hin. apply H. apply in_map_iff. exists 58. split; [reflexivity|exact Hin].
Qed.

Lemma scan_nil f acc : scan f [] acc = Ok acc.
Proof. destruct f; reflexivity. Qed.

(* one "name:value " token that is not the text field *)
Lemma scan_field f name v rest acc :
  ~ In 58 name -> list_eqb (lower name) k_text = false -> ~ In 32 v ->
  scan (S f) (name ++ 58 :: v ++ 32 :: rest) acc =
  (do acc' <- set_param acc (lower name) v; scan f rest acc').
Proof.
  intros Hn Ht Hv. cbn [scan]. rewrite (split_on_app 58 name _ Hn), Ht, (split_on_app 32 v rest Hv). reflexivity.
Qed.

(* the text field takes everything that is left *)
Lemma scan_text f name v acc :
  ~ In 58 name -> list_eqb (lower name) k_text = true ->
  scan (S f) (name ++ 58 :: v) acc = (do acc' <- set_param acc (lower name) v; Ok acc').
Proof.
  intros Hn Ht. cbn [scan]. rewrite (split_on_app 58 name _ Hn), Ht.
  destruct (set_param acc (lower name) v) as [acc'|e]; cbn [rbind]; [apply scan_nil|reflexivity].
Qed.

(* ---------- numbers and dates ---------- *)

Lemma fmt03_all : forallb (fun n => opt_eqb (py_int (fmt03 n)) (Some n) && negb (mem 32 (fmt03 n))) (upto 1000) = true.
Proof. vm_compute. reflexivity. Qed.

Lemma mem_false_not_In k l : mem k l = false -> ~ In k l.
Proof.
  unfold mem. intros H Hin. assert (existsb (Z.eqb k) l = true) as E; [|congruence].
  apply existsb_exists. exists k. split; [exact Hin|apply Z.eqb_refl].
Qed.

Lemma fmt03_ok n : 0 <= n <= 999 -> py_int (fmt03 n) = Some n /\ ~ In 32 (fmt03 n).
Proof.
  intros H. pose proof (sweep_upto _ 1000 fmt03_all n ltac:(lia)) as E. apply andb_prop in E as [E1 E2].
  split; [apply opt_eqb_eq; exact E1|apply mem_false_not_In, negb_true_iff; exact E2].
Qed.

Lemma two_nospace_all : forallb (fun n => negb (mem 32 (two n))) (upto 100) = true.
Proof. vm_compute. reflexivity. Qed.
Lemma two_nospace n : 0 <= n < 100 -> ~ In 32 (two n).
Proof. intros H. apply mem_false_not_In, negb_true_iff. apply (sweep_upto _ 100 two_nospace_all). lia. Qed.

Definition hd_is (l : list (Z * nat)) (v : Z) : bool :=
  match l with (v', 2%nat) :: _ => v' =? v | _ => false end.

Lemma hd_is_spec l v : hd_is l v = true -> exists tl, l = (v, 2%nat) :: tl.
Proof.
  unfold hd_is. destruct l as [|[v' [|[|[|n]]]] tl]; try discriminate.
  intros E. apply Z.eqb_eq in E. subst. eauto.
Qed.

Lemma cands_y_all : forallb (fun v => hd_is (cands_y (two v)) v && (Nat.eqb (length (cands_y (two v))) 1)) (upto 100) = true.
Proof. vm_compute. reflexivity. Qed.
Lemma cands_m_all : forallb (fun v => (v =? 0) || hd_is (cands_m (two v)) v) (upto 13) = true.
Proof. vm_compute. reflexivity. Qed.
Lemma cands_d_all : forallb (fun v => (v =? 0) || hd_is (cands_d (two v)) v) (upto 32) = true.
Proof. vm_compute. reflexivity. Qed.
Lemma cands_H_all : forallb (fun v => hd_is (cands_H (two v)) v) (upto 24) = true.
Proof. vm_compute. reflexivity. Qed.
Lemma cands_M_all : forallb (fun v => hd_is (cands_M (two v)) v) (upto 60) = true.
Proof. vm_compute. reflexivity. Qed.

Lemma cands_y_hd v rest : 0 <= v < 100 -> cands_y (digit (v / 10) :: digit (v mod 10) :: rest) = [(v, 2%nat)].
Proof.
  intros H. pose proof (sweep_upto _ 100 cands_y_all v ltac:(lia)) as E. apply andb_prop in E as [E1 E2].
  change (cands_y (digit (v / 10) :: digit (v mod 10) :: rest)) with (cands_y (two v)).
  apply hd_is_spec in E1 as [tl E1]. rewrite E1 in *. destruct tl; [reflexivity|discriminate].
Qed.
Lemma cands_m_hd v rest : 1 <= v <= 12 -> exists tl, cands_m (digit (v / 10) :: digit (v mod 10) :: rest) = (v, 2%nat) :: tl.
Proof.
  intros H. pose proof (sweep_upto _ 13 cands_m_all v ltac:(lia)) as E.
  change (cands_m (digit (v / 10) :: digit (v mod 10) :: rest)) with (cands_m (two v)).
  apply orb_prop in E as [E|E]; [lia|apply hd_is_spec; exact E].
Qed.
Lemma cands_d_hd v rest : 1 <= v <= 31 -> exists tl, cands_d (digit (v / 10) :: digit (v mod 10) :: rest) = (v, 2%nat) :: tl.
Proof.
  intros H. pose proof (sweep_upto _ 32 cands_d_all v ltac:(lia)) as E.
  change (cands_d (digit (v / 10) :: digit (v mod 10) :: rest)) with (cands_d (two v)).
  apply orb_prop in E as [E|E]; [lia|apply hd_is_spec; exact E].
Qed.
Lemma cands_H_hd v rest : 0 <= v <= 23 -> exists tl, cands_H (digit (v / 10) :: digit (v mod 10) :: rest) = (v, 2%nat) :: tl.
Proof.
  intros H. pose proof (sweep_upto _ 24 cands_H_all v ltac:(lia)) as E.
  change (cands_H (digit (v / 10) :: digit (v mod 10) :: rest)) with (cands_H (two v)).
  apply hd_is_spec; exact E.
Qed.
Lemma cands_M_hd v rest : 0 <= v <= 59 -> exists tl, cands_M (digit (v / 10) :: digit (v mod 10) :: rest) = (v, 2%nat) :: tl.
Proof.
  intros H. pose proof (sweep_upto _ 60 cands_M_all v ltac:(lia)) as E.
  change (cands_M (digit (v / 10) :: digit (v mod 10) :: rest)) with (cands_M (two v)).
  apply hd_is_spec; exact E.
Qed.

Definition valid_minute_date (y mo d h mi : Z) : Prop :=
  1969 <= y <= 2068 /\ 1 <= mo <= 12 /\ 1 <= d <= days_in_month y mo /\ 0 <= h <= 23 /\ 0 <= mi <= 59.

Lemma days_in_month_le31 y m : days_in_month y m <= 31.
Proof.
  unfold days_in_month. destruct (m =? 2); [destruct (is_leap y); lia|].
  destruct ((m =? 4) || (m =? 6) || (m =? 9) || (m =? 11)); lia.
Qed.

Lemma strptime_date_str y mo d h mi :
  valid_minute_date y mo d h mi -> strptime (date_str y mo d h mi) = Ok (VDate y mo d h mi).
Proof.
  intros (Hy & Hmo & Hd & Hh & Hmi). pose proof (days_in_month_le31 y mo) as Hdm.
  unfold strptime, date_str, strptime_matches, two. cbn [app].
  rewrite cands_y_hd by lia. cbn [flat_map skipn app].
  destruct (cands_m_hd mo (digit (d / 10) :: digit (d mod 10) :: digit (h / 10) :: digit (h mod 10)
                           :: digit (mi / 10) :: [digit (mi mod 10)]) Hmo) as [tlm ->].
  cbn [flat_map skipn app].
  destruct (cands_d_hd d (digit (h / 10) :: digit (h mod 10) :: digit (mi / 10) :: [digit (mi mod 10)]) ltac:(lia)) as [tld ->].
  cbn [flat_map skipn app].
  destruct (cands_H_hd h (digit (mi / 10) :: [digit (mi mod 10)]) Hh) as [tlh ->].
  cbn [flat_map skipn app].
  destruct (cands_M_hd mi [] Hmi) as [tlmi ->].
  cbn [flat_map skipn app].
  replace (if y mod 100 <? 69 then 2000 + y mod 100 else 1900 + y mod 100) with y
    by (destruct (Z.ltb_spec (y mod 100) 69); lia).
  replace (d <=? days_in_month y mo) with true by (symmetry; apply Z.leb_le; lia).
  reflexivity.
Qed.

Lemma date_str_nospace y mo d h mi : valid_minute_date y mo d h mi -> ~ In 32 (date_str y mo d h mi).
Proof.
  intros (Hy & Hmo & Hd & Hh & Hmi). pose proof (days_in_month_le31 y mo) as Hdm.
  unfold date_str. rewrite !in_app_iff.
  pose proof (two_nospace (y mod 100) ltac:(lia)). pose proof (two_nospace mo ltac:(lia)).
  pose proof (two_nospace d ltac:(lia)). pose proof (two_nospace h ltac:(lia)). pose proof (two_nospace mi ltac:(lia)).
  tauto.
Qed.

(* ---------- the whole receipt ---------- *)

Definition encode_with (n1 n2 n3 n4 n5 n6 n7 n8 : list Z) (r : receipt) : list Z :=
  n1 ++ 58 :: r_id r
  ++ 32 :: n2 ++ 58 :: fmt03 (r_sub r)
  ++ 32 :: n3 ++ 58 :: fmt03 (r_dlvrd r)
  ++ 32 :: n4 ++ 58 :: opt_date_str (r_sdate r)
  ++ 32 :: n5 ++ 58 :: opt_date_str (r_ddate r)
  ++ 32 :: n6 ++ 58 :: r_stat r
  ++ 32 :: n7 ++ 58 :: fmt03 (r_err r)
  ++ 32 :: n8 ++ 58 :: pad20 (r_text r).

Lemma encode_receipt_is_encode_with r :
  encode_receipt r = encode_with k_id k_sub k_dlvrd k_submit_date k_done_date k_stat k_err [84; 101; 120; 116] r.
Proof. reflexivity. Qed.

Definition wf_receipt (r : receipt) : Prop :=
  ~ In 32 (r_id r) /\ ~ In 32 (r_stat r)
  /\ 0 <= r_sub r <= 999 /\ 0 <= r_dlvrd r <= 999 /\ 0 <= r_err r <= 999
  /\ (exists y mo d h mi, r_sdate r = Some (y, mo, d, h, mi) /\ valid_minute_date y mo d h mi)
  /\ (exists y mo d h mi, r_ddate r = Some (y, mo, d, h, mi) /\ valid_minute_date y mo d h mi).

Definition date_val (o : option (Z * Z * Z * Z * Z)) : rval :=
  match o with Some (y, mo, d, h, mi) => VDate y mo d h mi | None => VStr [] end.

Definition expected_dict (r : receipt) (id : list Z) : rdict :=
  [(k_id, VStr id); (k_sub, VInt (r_sub r)); (k_dlvrd, VInt (r_dlvrd r));
   (k_submit_date, date_val (r_sdate r)); (k_done_date, date_val (r_ddate r));
   (k_stat, VStr (r_stat r)); (k_err, VInt (r_err r)); (k_text, VStr (pad20 (r_text r)))].

Lemma list_eqb_refl l : list_eqb l l = true.
Proof. induction l; cbn; [reflexivity|]. rewrite Z.eqb_refl. exact IHl. Qed.

Lemma canon_no_colon n k : lower n = k -> ~ In 58 k -> ~ In 58 n.
Proof. intros <- H. apply lower_no_colon. exact H. Qed.

Lemma no58 k : mem 58 k = false -> ~ In 58 k.
Proof. apply mem_false_not_In. Qed.

Theorem receipt_roundtrip n1 n2 n3 n4 n5 n6 n7 n8 r esm tlv :
  lower n1 = k_id -> lower n2 = k_sub -> lower n3 = k_dlvrd -> lower n4 = k_submit_date ->
  lower n5 = k_done_date -> lower n6 = k_stat -> lower n7 = k_err -> lower n8 = k_text ->
  wf_receipt r -> is_receipt esm = true ->
  parse_receipt esm (encode_with n1 n2 n3 n4 n5 n6 n7 n8 r) tlv =
  Ok (expected_dict r (match r_id r, tlv with [], Some v => v | i, _ => i end)).
Proof.
  intros E1 E2 E3 E4 E5 E6 E7 E8 (Hid & Hstat & Hsub & Hdl & Herr & Hsd & Hdd) Hrec.
  destruct Hsd as (y1 & mo1 & d1 & h1 & mi1 & Es & Vs). destruct Hdd as (y2 & mo2 & d2 & h2 & mi2 & Ed & Vd).
  unfold parse_receipt. rewrite Hrec. cbn [negb].
  set (text := encode_with n1 n2 n3 n4 n5 n6 n7 n8 r).
  assert (exists f, S (length text) = S (S (S (S (S (S (S (S f)))))))) as [f ->].
  { exists (length text - 7)%nat. unfold text, encode_with. repeat (rewrite app_length; cbn [length]). lia. }
  unfold text, encode_with.
  rewrite scan_field; [|apply (canon_no_colon _ _ E1), no58; reflexivity|rewrite E1; reflexivity|exact Hid].
  rewrite E1. change (set_param [] k_id (r_id r)) with (Ok (dset [] k_id (VStr (r_id r)))). cbn [rbind].
  destruct (fmt03_ok _ Hsub) as [Pi1 Ns1]. destruct (fmt03_ok _ Hdl) as [Pi2 Ns2]. destruct (fmt03_ok _ Herr) as [Pi3 Ns3].
  rewrite scan_field; [|apply (canon_no_colon _ _ E2), no58; reflexivity|rewrite E2; reflexivity|exact Ns1].
  rewrite E2. unfold set_param at 1. change (list_eqb k_sub k_sub) with true. cbn [orb]. rewrite Pi1. cbn [rbind].
  rewrite scan_field; [|apply (canon_no_colon _ _ E3), no58; reflexivity|rewrite E3; reflexivity|exact Ns2].
  rewrite E3. unfold set_param at 1. change (list_eqb k_dlvrd k_sub) with false. change (list_eqb k_dlvrd k_dlvrd) with true.
  cbn [orb]. rewrite Pi2. cbn [rbind].
  rewrite Es, Ed. cbn [opt_date_str].
  rewrite scan_field; [|apply (canon_no_colon _ _ E4), no58; reflexivity|rewrite E4; reflexivity|apply date_str_nospace; exact Vs].
  rewrite E4. unfold set_param at 1.
  change (list_eqb k_submit_date k_sub) with false. change (list_eqb k_submit_date k_dlvrd) with false.
  change (list_eqb k_submit_date k_err) with false. change (list_eqb k_submit_date k_submit_date) with true.
  cbn [orb]. rewrite (strptime_date_str _ _ _ _ _ Vs). cbn [rbind].
  rewrite scan_field; [|apply (canon_no_colon _ _ E5), no58; reflexivity|rewrite E5; reflexivity|apply date_str_nospace; exact Vd].
  rewrite E5. unfold set_param at 1.
  change (list_eqb k_done_date k_sub) with false. change (list_eqb k_done_date k_dlvrd) with false.
  change (list_eqb k_done_date k_err) with false. change (list_eqb k_done_date k_submit_date) with false.
  change (list_eqb k_done_date k_done_date) with true.
  cbn [orb]. rewrite (strptime_date_str _ _ _ _ _ Vd). cbn [rbind].
  rewrite scan_field; [|apply (canon_no_colon _ _ E6), no58; reflexivity|rewrite E6; reflexivity|exact Hstat].
  rewrite E6. unfold set_param at 1.
  change (list_eqb k_stat k_sub) with false. change (list_eqb k_stat k_dlvrd) with false.
  change (list_eqb k_stat k_err) with false. change (list_eqb k_stat k_submit_date) with false.
  change (list_eqb k_stat k_done_date) with false. cbn [orb rbind].
  rewrite scan_field; [|apply (canon_no_colon _ _ E7), no58; reflexivity|rewrite E7; reflexivity|exact Ns3].
  rewrite E7. unfold set_param at 1.
  change (list_eqb k_err k_sub) with false. change (list_eqb k_err k_dlvrd) with false.
  change (list_eqb k_err k_err) with true. cbn [orb]. rewrite Pi3. cbn [rbind].
  rewrite scan_text; [|apply (canon_no_colon _ _ E8), no58; reflexivity|rewrite E8; reflexivity].
  rewrite E8. unfold set_param at 1.
  change (list_eqb k_text k_sub) with false. change (list_eqb k_text k_dlvrd) with false.
  change (list_eqb k_text k_err) with false. change (list_eqb k_text k_submit_date) with false.
  change (list_eqb k_text k_done_date) with false. cbn [orb rbind].
  (* the accumulated dictionary, in insertion order *)
  change (dset (dset (dset (dset (dset (dset (dset (dset [] k_id (VStr (r_id r))) k_sub (VInt (r_sub r)))
            k_dlvrd (VInt (r_dlvrd r))) k_submit_date (VDate y1 mo1 d1 h1 mi1)) k_done_date (VDate y2 mo2 d2 h2 mi2))
            k_stat (VStr (r_stat r))) k_err (VInt (r_err r))) k_text (VStr (pad20 (r_text r))))
    with [(k_id, VStr (r_id r)); (k_sub, VInt (r_sub r)); (k_dlvrd, VInt (r_dlvrd r));
          (k_submit_date, VDate y1 mo1 d1 h1 mi1); (k_done_date, VDate y2 mo2 d2 h2 mi2);
          (k_stat, VStr (r_stat r)); (k_err, VInt (r_err r)); (k_text, VStr (pad20 (r_text r)))].
  unfold expected_dict. rewrite Es, Ed. cbn [date_val].
  change (dget ((k_id, VStr (r_id r)) :: _) k_id) with (Some (VStr (r_id r))).
  destruct (r_id r) as [|c idt]; [|reflexivity].
  destruct tlv as [v|]; reflexivity.
Qed.

(* a token the library does not know is kept as a string under its lower-cased name *)
Lemma unknown_field_kept f name v rest acc :
  ~ In 58 name -> ~ In 32 v ->
  list_eqb (lower name) k_text = false ->
  list_eqb (lower name) k_sub || list_eqb (lower name) k_dlvrd || list_eqb (lower name) k_err
  || list_eqb (lower name) k_submit_date || list_eqb (lower name) k_done_date = false ->
  scan (S f) (name ++ 58 :: v ++ 32 :: rest) acc = scan f rest (dset acc (lower name) (VStr v)).
Proof.
  intros Hn Hv Ht Hk. rewrite scan_field by assumption. unfold set_param.
  apply orb_false_iff in Hk as [Hk H5]. apply orb_false_iff in Hk as [Hk H4].
  apply orb_false_iff in Hk as [Hk H3]. apply orb_false_iff in Hk as [H1 H2].
  rewrite H1, H2, H3, H4, H5. reflexivity.
Qed.

Lemma non_receipt_is_empty esm text tlv : is_receipt esm = false -> parse_receipt esm text tlv = Ok [].
Proof. intros H. unfold parse_receipt. rewrite H. reflexivity. Qed.

Lemma pad20_strip s : exists k, pad20 s = s ++ repeat 32 k.
Proof. unfold pad20. eauto. Qed.
