(* Lemmas for C18: token bucket bound and liveness, throttle decision. *)
From Coq Require Import ZArith QArith Qround Lqa Lia List Bool.
Import ListNotations.
Require Import AV.Generated.ExnOrder AV.Model.Base AV.Model.Limiter.
Open Scope Q_scope.

Lemma qlt_true a b : qlt a b = true <-> a < b.
Proof.
  unfold qlt. rewrite negb_true_iff. split.
  - intros H. apply Qnot_le_lt. intros Hle. apply Qle_bool_iff in Hle. congruence.
  - intros H. destruct (Qle_bool b a) eqn:E; [|reflexivity]. apply Qle_bool_iff in E. lra.
Qed.
Lemma qlt_false a b : qlt a b = false <-> b <= a.
Proof.
  unfold qlt. rewrite negb_false_iff. apply Qle_bool_iff.
Qed.

Lemma qmin_le_l a b : qmin a b <= a.
Proof. unfold qmin. destruct (Qle_bool a b) eqn:E; [lra|]. assert (qlt b a = true) by (unfold qlt; rewrite E; reflexivity). apply qlt_true in H. lra. Qed.
Lemma qmin_le_r a b : qmin a b <= b.
Proof. unfold qmin. destruct (Qle_bool a b) eqn:E; [apply Qle_bool_iff in E; lra|lra]. Qed.
Lemma qmin_ge a b c : c <= a -> c <= b -> c <= qmin a b.
Proof. unfold qmin. destruct (Qle_bool a b); auto. Qed.
Lemma qmax_ge_r a b : b <= qmax a b.
Proof. unfold qmax. destruct (Qle_bool a b) eqn:E; [lra|]. assert (qlt b a = true) by (unfold qlt; rewrite E; reflexivity). apply qlt_true in H. lra. Qed.
Lemma qmax_ge_l a b : a <= qmax a b.
Proof. unfold qmax. destruct (Qle_bool a b) eqn:E; [apply Qle_bool_iff in E; lra|lra]. Qed.
Lemma qmax_cases a b : (qmax a b == a /\ b <= a) \/ (qmax a b == b /\ a <= b).
Proof.
  unfold qmax. destruct (Qle_bool a b) eqn:E.
  - right. apply Qle_bool_iff in E. split.
    + apply Qeq_refl.
    + exact E.
  - left. assert (qlt b a = true) as H by (unfold qlt; rewrite E; reflexivity). apply qlt_true in H. split.
    + apply Qeq_refl.
    + lra.
Qed.

(* ---------- the bucket ---------- *)

(* what holds between clock readings *)
Definition wf (s : lim) : Prop :=
  0 < l_rate s /\ l_max s == qmax (l_rate s) 1 /\ 0 <= l_tokens s <= l_max s
  /\ (l_rate s < 1 -> l_tokens s < 1).

(* supply available up to time t if nothing were sent *)
Definition supply (s : lim) (t : Q) : Q := l_tokens s + (t - l_upd s) * l_rate s.

Lemma wf_init rate now : 0 < rate -> wf (lim_init rate now).
Proof.
  intros H. unfold wf, lim_init. cbn [l_rate l_max l_tokens].
  pose proof (qmax_ge_l rate 1). repeat split; try lra; try reflexivity.
Qed.

Definition after_pass_bound (s : lim) : Q := if qlt (l_rate s) 1 then 0 else l_rate s.

Lemma step_props s now :
  wf s -> l_upd s <= now ->
  exists s' p, lim_step s now = Ok (s', p) /\ wf s' /\ l_rate s' = l_rate s
    /\ l_upd s <= l_upd s' <= now
    /\ (forall t, supply s' t <= supply s t - (if p then 1 else 0))
    /\ (p = true -> supply s' now <= after_pass_bound s)
    /\ (p = false -> s' = s \/ (l_upd s' == now /\ False)).
Proof.
  intros (Hr & Hm & Ht & Hj) Hnow. unfold lim_step, add_new_tokens.
  pose proof (qmax_ge_r (l_rate s) 1) as Hmax1. pose proof (qmax_ge_l (l_rate s) 1) as Hmaxr.
  destruct (qlt 1 ((now - l_upd s) * l_rate s)) eqn:Ef.
  - (* tokens added *)
    apply qlt_true in Ef. cbn [l_tokens l_rate l_max l_upd l_deliv].
    set (tk := qmin (l_tokens s + (now - l_upd s) * l_rate s) (l_max s)).
    assert (1 <= tk) as Htk1 by (apply qmin_ge; lra).
    assert (tk <= l_max s) as Htkm by apply qmin_le_r.
    assert (tk <= l_tokens s + (now - l_upd s) * l_rate s) as Htks by apply qmin_le_l.
    assert (qlt tk 1 = false) as -> by (apply qlt_false; exact Htk1).
    eexists. exists true. split; [reflexivity|].
    unfold wf, supply, after_pass_bound. cbn [l_tokens l_rate l_max l_upd].
    split; [|split; [reflexivity|split; [lra|split; [|split; [|intros; discriminate]]]]].
    + split; [exact Hr|]. split; [exact Hm|]. split; [lra|]. intros Hlt.
      destruct (qmax_cases (l_rate s) 1) as [[E _]|[E _]]; lra.
    + intros t. nra.
    + intros _. destruct (qlt (l_rate s) 1) eqn:Er.
      * apply qlt_true in Er. destruct (qmax_cases (l_rate s) 1) as [[E _]|[E _]]; lra.
      * apply qlt_false in Er. destruct (qmax_cases (l_rate s) 1) as [[E _]|[E _]]; lra.
  - (* not enough elapsed: nothing added *)
    apply qlt_false in Ef.
    destruct (qlt (l_tokens s) 1) eqn:E1.
    + exists s, false. split; [reflexivity|]. split; [unfold wf; auto|]. split; [reflexivity|].
      split; [lra|]. split; [intros; lra|]. split; [discriminate|]. intros _. left. reflexivity.
    + apply qlt_false in E1. eexists. exists true. split; [reflexivity|].
      unfold wf, supply, after_pass_bound. cbn [l_tokens l_rate l_max l_upd].
      split; [|split; [reflexivity|split; [lra|split; [|split; [|intros; discriminate]]]]].
      * split; [exact Hr|]. split; [exact Hm|]. split; [lra|]. intros Hlt. specialize (Hj Hlt). lra.
      * intros t. lra.
      * intros _. destruct (qlt (l_rate s) 1) eqn:Er.
        -- apply qlt_true in Er. specialize (Hj Er). lra.
        -- apply qlt_false in Er. destruct (qmax_cases (l_rate s) 1) as [[E _]|[E _]]; nra.
Qed.

Fixpoint increasing (prev : Q) (l : list Q) : Prop :=
  match l with [] => True | x :: t => prev <= x /\ increasing x t end.

Definition count_true (ps : list bool) : Z := Z.of_nat (length (filter (fun b : bool => b) ps)).

Lemma count_true_cons p ps : count_true (p :: ps) = ((if p then 1 else 0) + count_true ps)%Z.
Proof. unfold count_true. cbn [filter]. destruct p; cbn [length]; lia. Qed.

(* a strictly increasing clock never raises, and what passes is bounded by the supply *)
Lemma run_supply : forall l s t_end,
  wf s -> increasing (l_upd s) l -> Forall (fun x => x <= t_end) l -> l_upd s <= t_end ->
  exists s' ps, lim_run s l = Ok (s', ps) /\ wf s' /\ l_rate s' = l_rate s
                /\ inject_Z (count_true ps) <= supply s t_end.
Proof.
  induction l as [|now rest IH]; intros s t_end Hwf Hinc Hall Hu.
  - exists s, []. split; [reflexivity|]. split; [exact Hwf|]. split; [reflexivity|].
    unfold supply. change (inject_Z (count_true [])) with 0. destruct Hwf as (Hr & _ & Ht & _).
    assert (0 <= (t_end - l_upd s) * l_rate s) by (apply Qmult_le_0_compat; lra). lra.
  - cbn [increasing] in Hinc. destruct Hinc as [Hlt Hinc]. inversion_clear Hall as [|? ? Hn Hall'].
    destruct (step_props s now Hwf Hlt) as (s1 & p & Hs & Hwf1 & Hr1 & Hu1 & Hsup & _ & _).
    assert (increasing (l_upd s1) rest) as Hinc1.
    { destruct rest as [|x t]; [exact I|]. cbn [increasing] in *. destruct Hinc as [Hx Ht]. split; [lra|exact Ht]. }
    destruct (IH s1 t_end Hwf1 Hinc1 Hall' ltac:(lra)) as (s2 & ps & Hrun & Hwf2 & Hr2 & Hc).
    exists s2, (p :: ps). cbn [lim_run]. rewrite Hs, Hrun. split; [reflexivity|]. split; [exact Hwf2|].
    split; [congruence|]. rewrite count_true_cons, inject_Z_plus. specialize (Hsup t_end).
    destruct p; cbv iota in Hsup; [change (inject_Z 1) with 1|change (inject_Z 0) with 0]; lra.
Qed.

(* the window bound: at most r*T + r + 1 passes among readings that lie in [a, a+T] *)
Theorem window_bound : forall l s a T,
  wf s -> increasing (l_upd s) l -> Forall (fun x => a <= x <= a + T) l -> 0 <= T ->
  exists s' ps, lim_run s l = Ok (s', ps) /\ wf s' /\ l_rate s' = l_rate s
                /\ inject_Z (count_true ps) <= l_rate s * T + l_rate s + 1.
Proof.
  induction l as [|now rest IH]; intros s a T Hwf Hinc Hall HT.
  - exists s, []. split; [reflexivity|]. split; [exact Hwf|]. split; [reflexivity|].
    change (inject_Z (count_true [])) with 0. destruct Hwf as (Hr & _).
    assert (0 <= l_rate s * T) by (apply Qmult_le_0_compat; lra). lra.
  - cbn [increasing] in Hinc. destruct Hinc as [Hlt Hinc]. inversion_clear Hall as [|? ? Hn Hall'].
    destruct (step_props s now Hwf Hlt) as (s1 & p & Hs & Hwf1 & Hr1 & Hu1 & Hsup & Hpass & _).
    assert (increasing (l_upd s1) rest) as Hinc1.
    { destruct rest as [|x t]; [exact I|]. cbn [increasing] in *. destruct Hinc as [Hx Ht]. split; [lra|exact Ht]. }
    destruct p.
    + (* first pass in the window: everything after it is paid from the supply left at that moment *)
      assert (Forall (fun x => x <= a + T) rest) as Hall2
        by (eapply Forall_impl; [|exact Hall']; intros x Hx; cbn in Hx; lra).
      destruct (run_supply rest s1 (a + T) Hwf1 Hinc1 Hall2 ltac:(lra)) as (s2 & ps & Hrun & Hwf2 & Hr2 & Hc).
      exists s2, (true :: ps). cbn [lim_run]. rewrite Hs, Hrun. split; [reflexivity|]. split; [exact Hwf2|].
      split; [congruence|]. rewrite count_true_cons, inject_Z_plus.
      specialize (Hpass eq_refl). unfold supply in *.
      assert (after_pass_bound s <= l_rate s) as Hb.
      { unfold after_pass_bound. destruct Hwf as (Hr & _). destruct (qlt (l_rate s) 1); lra. }
      rewrite Hr1 in *. destruct Hwf as (Hr & _). change (inject_Z 1) with 1.
      assert ((a + T - l_upd s1) * l_rate s <= (now - l_upd s1) * l_rate s + T * l_rate s) by nra. lra.
    + destruct (IH s1 a T Hwf1 Hinc1 Hall' HT) as (s2 & ps & Hrun & Hwf2 & Hr2 & Hc).
      exists s2, (false :: ps). cbn [lim_run]. rewrite Hs, Hrun. split; [reflexivity|]. split; [exact Hwf2|].
      split; [congruence|]. rewrite count_true_cons, inject_Z_plus. rewrite Hr1 in Hc. change (inject_Z 0) with 0. lra.
Qed.

Lemma last_nonempty_default (x : Q) (t : list Q) d1 d2 : last (x :: t) d1 = last (x :: t) d2.
Proof. revert x. induction t as [|y t IH]; intros x; [reflexivity|]. apply (IH y). Qed.

Lemma increasing_app prev l1 l2 : increasing prev (l1 ++ l2) ->
  increasing prev l1 /\ increasing (last l1 prev) l2.
Proof.
  revert prev. induction l1 as [|x t IH]; intros prev H; [split; [exact I|exact H]|].
  cbn [app increasing] in H. destruct H as [Hx Ht]. destruct (IH x Ht) as [H1 H2].
  split; [split; assumption|]. destruct t as [|y t']; [exact H2|].
  change (last (x :: y :: t') prev) with (last (y :: t') prev).
  rewrite (last_nonempty_default y t' prev x). exact H2.
Qed.

Lemma run_prefix : forall l s, wf s -> increasing (l_upd s) l ->
  exists s' ps, lim_run s l = Ok (s', ps) /\ wf s' /\ l_rate s' = l_rate s /\ l_upd s' <= last l (l_upd s)
                /\ l_upd s <= l_upd s'.
Proof.
  induction l as [|now rest IH]; intros s Hwf Hinc.
  - exists s, []. split; [reflexivity|]. split; [exact Hwf|]. split; [reflexivity|]. cbn. lra.
  - cbn [increasing] in Hinc. destruct Hinc as [Hlt Hinc].
    destruct (step_props s now Hwf Hlt) as (s1 & p & Hs & Hwf1 & Hr1 & Hu1 & _).
    assert (increasing (l_upd s1) rest) as Hinc1.
    { destruct rest as [|x t]; [exact I|]. cbn [increasing] in *. destruct Hinc as [Hx Ht]. split; [lra|exact Ht]. }
    destruct (IH s1 Hwf1 Hinc1) as (s2 & ps & Hrun & Hwf2 & Hr2 & Hu2 & Hu3).
    exists s2, (p :: ps). cbn [lim_run]. rewrite Hs, Hrun. split; [reflexivity|]. split; [exact Hwf2|].
    split; [congruence|]. split; [|lra].
    destruct rest as [|x t]; [cbn in *; lra|].
    change (last (now :: x :: t) (l_upd s)) with (last (x :: t) (l_upd s)).
    assert (forall d1 d2, last (x :: t) d1 = last (x :: t) d2) as Hd.
    { clear. revert x. induction t as [|y t IH]; intros x d1 d2; [reflexivity|]. apply (IH y). }
    rewrite (Hd (l_upd s) (l_upd s1)). exact Hu2.
Qed.

Lemma lim_run_app l1 : forall s l2 s1 ps1,
  lim_run s l1 = Ok (s1, ps1) ->
  lim_run s (l1 ++ l2) = match lim_run s1 l2 with Ok (s2, ps2) => Ok (s2, ps1 ++ ps2) | Err e => Err e end.
Proof.
  induction l1 as [|x t IH]; intros s l2 s1 ps1 H; cbn [lim_run app] in *.
  - injection H as <- <-. destruct (lim_run s l2) as [[s2 ps2]|]; reflexivity.
  - destruct (lim_step s x) as [[sa p]|]; [|discriminate].
    destruct (lim_run sa t) as [[sb pb]|] eqn:E; [|discriminate]. injection H as <- <-.
    rewrite (IH sa l2 sb pb E). destruct (lim_run sb l2) as [[s2 ps2]|]; reflexivity.
Qed.

(* from construction: for every rate > 0, every strictly increasing clock and every window [a, a+T],
   the readings inside the window let at most r*T + r + 1 messages through *)
Theorem limiter_window rate t0 before inside a T :
  0 < rate -> 0 <= T -> increasing t0 (before ++ inside) -> Forall (fun x => a <= x <= a + T) inside ->
  exists s1 ps1 s2 ps2,
    lim_run (lim_init rate t0) before = Ok (s1, ps1)
    /\ lim_run (lim_init rate t0) (before ++ inside) = Ok (s2, ps1 ++ ps2)
    /\ inject_Z (count_true ps2) <= rate * T + rate + 1.
Proof.
  intros Hr HT Hinc Hin. pose proof (wf_init rate t0 Hr) as Hwf.
  apply increasing_app in Hinc as [Hi1 Hi2].
  destruct (run_prefix before (lim_init rate t0) Hwf Hi1) as (s1 & ps1 & Hrun1 & Hwf1 & Hr1 & Hu1 & _).
  assert (increasing (l_upd s1) inside) as Hi2'.
  { destruct inside as [|x t]; [exact I|]. cbn [increasing] in *. destruct Hi2 as [Hx Ht].
    split; [|exact Ht]. change (l_upd (lim_init rate t0)) with t0 in Hu1. lra. }
  destruct (window_bound inside s1 a T Hwf1 Hi2' Hin HT) as (s2 & ps2 & Hrun2 & _ & _ & Hc).
  exists s1, ps1, s2, ps2. split; [exact Hrun1|]. split.
  - rewrite (lim_run_app before _ inside s1 ps1 Hrun1), Hrun2. reflexivity.
  - rewrite Hr1 in Hc. exact Hc.
Qed.

(* ---------- liveness: a waiting message is let through after at most floor(1/r)+1 one-second sleeps ---------- *)

Lemma step_fires s now : wf s -> 1 < (now - l_upd s) * l_rate s -> l_upd s < now ->
  exists s', lim_step s now = Ok (s', true).
Proof.
  intros (Hr & Hm & Ht & Hj) Hf Hlt. unfold lim_step, add_new_tokens.
  assert (qlt 1 ((now - l_upd s) * l_rate s) = true) as -> by (apply qlt_true; exact Hf).
  cbn [l_tokens]. pose proof (qmax_ge_r (l_rate s) 1).
  assert (qlt (qmin (l_tokens s + (now - l_upd s) * l_rate s) (l_max s)) 1 = false) as ->
    by (apply qlt_false, qmin_ge; lra).
  eexists. reflexivity.
Qed.

Lemma all_sleep_same_state : forall l s s' ps,
  wf s -> increasing (l_upd s) l -> lim_run s l = Ok (s', ps) -> Forall (fun p => p = false) ps -> s' = s.
Proof.
  induction l as [|now rest IH]; intros s s' ps Hwf Hinc Hrun Hall.
  - cbn in Hrun. injection Hrun as <- _. reflexivity.
  - cbn [increasing] in Hinc. destruct Hinc as [Hlt Hinc].
    destruct (step_props s now Hwf Hlt) as (s1 & p & Hs & Hwf1 & Hr1 & Hu1 & _ & _ & Hsame).
    cbn [lim_run] in Hrun. rewrite Hs in Hrun.
    destruct (lim_run s1 rest) as [[s2 ps2]|] eqn:E; [|discriminate]. injection Hrun as <- <-.
    inversion_clear Hall as [|? ? Hp Hall']. subst p.
    destruct (Hsame eq_refl) as [->|[_ []]].
    assert (increasing (l_upd s) rest) as Hinc1.
    { destruct rest as [|x t]; [exact I|]. cbn [increasing] in *. destruct Hinc as [Hx Ht]. split; [lra|exact Ht]. }
    exact (IH s s2 ps2 Hwf Hinc1 E Hall').
Qed.

Theorem limiter_liveness s waits t_last :
  wf s -> increasing (l_upd s) (waits ++ [t_last]) ->
  1 < (t_last - l_upd s) * l_rate s ->
  exists s' ps, lim_run s (waits ++ [t_last]) = Ok (s', ps) /\ existsb (fun p : bool => p) ps = true.
Proof.
  intros Hwf Hinc Hlong.
  destruct (run_prefix (waits ++ [t_last]) s Hwf Hinc) as (s' & ps & Hrun & _).
  exists s', ps. split; [exact Hrun|].
  apply increasing_app in Hinc as [Hi1 Hi2].
  destruct (run_prefix waits s Hwf Hi1) as (s1 & ps1 & Hrun1 & Hwf1 & _ & _ & _).
  rewrite (lim_run_app waits s [t_last] s1 ps1 Hrun1) in Hrun.
  destruct (existsb (fun p : bool => p) ps1) eqn:Eex.
  - destruct (lim_run s1 [t_last]) as [[s2 ps2]|]; [|discriminate]. injection Hrun as _ <-.
    rewrite existsb_app, Eex. reflexivity.
  - assert (Forall (fun p => p = false) ps1) as Hall.
    { apply Forall_forall. intros p Hp. destruct p; [|reflexivity].
      assert (existsb (fun p : bool => p) ps1 = true) by (apply existsb_exists; exists true; auto). congruence. }
    pose proof (all_sleep_same_state waits s s1 ps1 Hwf Hi1 Hrun1 Hall) as ->.
    cbn [increasing] in Hi2. destruct Hi2 as [Hlt _].
    assert (l_upd s < t_last) as Hlt'.
    { destruct Hwf as (Hr & _). destruct (Qlt_le_dec (l_upd s) t_last); [assumption|]. nra. }
    destruct (step_fires s t_last Hwf Hlong Hlt') as [s2 Hs2].
    cbn [lim_run] in Hrun. rewrite Hs2 in Hrun. injection Hrun as _ <-.
    rewrite existsb_app. cbn. apply orb_true_r.
Qed.

(* with one-second sleeps: k sleeps with k * rate > 1 are enough *)
Fixpoint spaced (prev : Q) (l : list Q) : Prop :=
  match l with [] => True | x :: t => prev + 1 <= x /\ spaced x t end.

Lemma spaced_last : forall l prev, spaced prev l -> prev + inject_Z (Z.of_nat (length l)) <= last l prev.
Proof.
  induction l as [|x t IH]; intros prev H.
  - cbn [length last]. change (inject_Z (Z.of_nat 0)) with 0. lra.
  - cbn [spaced] in H. destruct H as [Hx Ht]. specialize (IH x Ht).
    cbn [length]. rewrite Nat2Z.inj_succ, <- Z.add_1_r, inject_Z_plus. change (inject_Z 1) with 1.
    destruct t as [|y t']; [cbn [length last] in *; change (inject_Z (Z.of_nat 0)) with 0 in *; lra|].
    change (last (x :: y :: t') prev) with (last (y :: t') prev).
    rewrite (last_nonempty_default y t' prev x). lra.
Qed.

Lemma spaced_increasing : forall l prev, spaced prev l -> increasing prev l.
Proof.
  induction l as [|x t IH]; intros prev H; [exact I|]. cbn [spaced increasing] in *.
  destruct H as [Hx Ht]. split; [lra|auto].
Qed.

Theorem limiter_liveness_sleeps s t0 sleeps :
  wf s -> l_upd s < t0 -> spaced t0 sleeps -> sleeps <> [] ->
  1 < inject_Z (Z.of_nat (length sleeps)) * l_rate s ->
  exists s' ps, lim_run s (t0 :: sleeps) = Ok (s', ps) /\ existsb (fun p : bool => p) ps = true.
Proof.
  intros Hwf Ht0 Hsp Hne Hk.
  destruct (exists_last Hne) as (waits & t_last & E).
  assert (t0 :: sleeps = (t0 :: waits) ++ [t_last]) as El by (rewrite E; reflexivity).
  rewrite El. apply limiter_liveness; [exact Hwf| |].
  - rewrite <- El. cbn [increasing]. split; [lra|apply spaced_increasing; exact Hsp].
  - pose proof (spaced_last sleeps t0 Hsp) as Hl.
    assert (last sleeps t0 = t_last) as Elast by (rewrite E; apply last_last).
    rewrite Elast in Hl. destruct Hwf as (Hr & _). nra.
Qed.

(* ---------- throttle handler ---------- *)

Lemma round2_close x : exists n : Z, round2 x = inject_Z n / 100 /\ - (1 # 2) <= inject_Z n - x * 100 <= 1 # 2.
Proof.
  unfold round2. set (y := x * 100). set (f := Qfloor y).
  pose proof (Qfloor_le y) as H1. pose proof (Qlt_floor y) as H2. fold f in H1, H2.
  rewrite inject_Z_plus in H2. change (inject_Z 1) with 1 in H2.
  destruct (qlt (y - inject_Z f) (1 # 2)) eqn:E1.
  - apply qlt_true in E1. exists f. split; [reflexivity|]. lra.
  - apply qlt_false in E1. destruct (qlt (1 # 2) (y - inject_Z f)) eqn:E2.
    + apply qlt_true in E2. exists (f + 1)%Z. split; [reflexivity|].
      rewrite inject_Z_plus. change (inject_Z 1) with 1. lra.
    + apply qlt_false in E2. destruct (Z.even f).
      * exists f. split; [reflexivity|]. lra.
      * exists (f + 1)%Z. split; [reflexivity|]. rewrite inject_Z_plus. change (inject_Z 1) with 1. lra.
Qed.

Definition exact_percent (s : thr) : Q := inject_Z (t_thr s) / inject_Z (t_non s + t_thr s) * 100.

(* the decision, state-wise: denied iff enough responses were counted since the last reset and the exact share of throttled ones
   exceeds deny_request_at percent (throttled * 100 > deny_request_at * total); the window restarts at the first call later than
   sampling_period after the previous restart *)
Theorem throttle_decision s now s' b :
  allow_request s now = Ok (s', b) ->
  (b = false <-> (t_sample s <= inject_Z (t_non s + t_thr s) /\ (t_non s + t_thr s <> 0)%Z
                  /\ t_deny s * inject_Z (t_non s + t_thr s) < inject_Z (t_thr s * 100)))
  /\ (s' = if qlt (t_period s) (now - t_upd s)
           then {| t_non := 0; t_thr := 0; t_upd := now; t_period := t_period s; t_sample := t_sample s; t_deny := t_deny s |}
           else s).
Proof.
  unfold allow_request, percent_throttles.
  assert (forall x : res Q, (match x with Ok _ => True | Err _ => False end) ->
          match x with Err e => Err e | Ok _ => Ok (if qlt (t_period s) (now - t_upd s)
              then {| t_non := 0; t_thr := 0; t_upd := now; t_period := t_period s; t_sample := t_sample s; t_deny := t_deny s |} else s,
              qlt (inject_Z (t_non s + t_thr s)) (t_sample s) || (t_non s + t_thr s =? 0)%Z
              || Qle_bool (inject_Z (t_thr s * 100)) (t_deny s * inject_Z (t_non s + t_thr s))) end = Ok (s', b) ->
          (s' = if qlt (t_period s) (now - t_upd s)
           then {| t_non := 0; t_thr := 0; t_upd := now; t_period := t_period s; t_sample := t_sample s; t_deny := t_deny s |} else s)
          /\ b = qlt (inject_Z (t_non s + t_thr s)) (t_sample s) || (t_non s + t_thr s =? 0)%Z
                 || Qle_bool (inject_Z (t_thr s * 100)) (t_deny s * inject_Z (t_non s + t_thr s))) as Hgen.
  { intros [q|e] Hx H; [|destruct Hx]. injection H as <- <-. split; reflexivity. }
  intros H.
  assert (s' = (if qlt (t_period s) (now - t_upd s)
           then {| t_non := 0; t_thr := 0; t_upd := now; t_period := t_period s; t_sample := t_sample s; t_deny := t_deny s |} else s)
          /\ b = qlt (inject_Z (t_non s + t_thr s)) (t_sample s) || (t_non s + t_thr s =? 0)%Z
                 || Qle_bool (inject_Z (t_thr s * 100)) (t_deny s * inject_Z (t_non s + t_thr s))) as [Hs Hb].
  { cbv zeta in H. destruct (qlt (inject_Z (t_non s + t_thr s)) (t_sample s)); [|destruct ((t_non s + t_thr s =? 0)%Z)];
      injection H as <- <-; split; reflexivity. }
  split; [|exact Hs]. rewrite Hb.
  destruct (qlt (inject_Z (t_non s + t_thr s)) (t_sample s)) eqn:Es; cbn [orb].
  - apply qlt_true in Es. split; [discriminate|intros [Hc _]; lra].
  - apply qlt_false in Es. destruct ((t_non s + t_thr s =? 0)%Z) eqn:Ez; cbn [orb].
    + apply Z.eqb_eq in Ez. split; [discriminate|intros [_ [Hnz _]]; congruence].
    + apply Z.eqb_neq in Ez. split.
      * intros Hd. split; [exact Es|]. split; [exact Ez|]. apply qlt_true. unfold qlt. rewrite Hd. reflexivity.
      * intros [_ [_ Hd]]. apply qlt_true in Hd. unfold qlt in Hd. apply negb_true_iff in Hd. exact Hd.
Qed.

(* the two-decimal rounding moves the threshold by at most 0.005 *)
Theorem rounding_effect x deny (D : Z) :
  deny == inject_Z D / 100 ->
  (x <= deny -> round2 x <= deny) /\ (deny + (1 # 200) < x -> deny < round2 x).
Proof.
  intros Hd. destruct (round2_close x) as (n & -> & Hn). split.
  - intros Hx. assert (inject_Z n < inject_Z (D + 1)) as Hlt.
    { rewrite inject_Z_plus. change (inject_Z 1) with 1. rewrite Hd in Hx.
      assert (x * 100 <= inject_Z D) by (unfold Qdiv in Hx; change (/ 100) with (1 # 100) in Hx; lra). lra. }
    rewrite <- Zlt_Qlt in Hlt. assert (n <= D)%Z as Hle by lia. rewrite Zle_Qle in Hle.
    rewrite Hd. unfold Qdiv. change (/ 100) with (1 # 100). lra.
  - intros Hx. rewrite Hd in *. unfold Qdiv in *. change (/ 100) with (1 # 100) in *. lra.
Qed.
