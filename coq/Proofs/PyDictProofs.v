(* Facts about the association-list dict. *)
From Coq Require Import ZArith List Bool Lia.
Import ListNotations.
Require Import AV.Model.PyDict.
Open Scope Z_scope.

Section DictFacts.
  Context {V : Type}.
  Implicit Types d : dict V.

  Lemma dget_In k d v : dget k d = Some v -> In (k, v) d.
  Proof.
    induction d as [|[k' v'] t IH]; cbn [dget]; [discriminate|].
    destruct (Z.eqb_spec k k') as [->|Hne]; [intros H; injection H as ->; left; reflexivity|right; auto].
  Qed.

  Lemma dget_None_notin k d : dget k d = None -> forall v, ~ In (k, v) d.
  Proof.
    induction d as [|[k' v'] t IH]; cbn [dget]; intros H v Hin; [destruct Hin|].
    destruct (Z.eqb_spec k k') as [->|Hne]; [discriminate|].
    destruct Hin as [E|Hin]; [injection E as <- _; congruence|eapply IH; eauto].
  Qed.

  Lemma ddel_subset k d kv : In kv (ddel k d) -> In kv d.
  Proof.
    induction d as [|[k' v'] t IH]; cbn [ddel]; [auto|].
    destruct (k =? k'); [right; auto|]. intros [H|H]; [left|right]; auto.
  Qed.

  Lemma dset_In d k v kv : In kv (dset d k v) -> kv = (k, v) \/ In kv d.
  Proof.
    induction d as [|[k' v'] t IH]; cbn [dset].
    - intros [H|[]]; auto.
    - destruct (k =? k').
      + intros [H|H]; [left; auto|right; right; auto].
      + intros [H|H]; [right; left; auto|]. destruct (IH H); [left|right; right]; auto.
  Qed.

  Lemma dset_In_other d k v k2 v2 : In (k2, v2) (dset d k v) -> k2 <> k -> In (k2, v2) d.
  Proof. intros H Hne. apply dset_In in H as [E|H]; [injection E as -> _; congruence|exact H]. Qed.

  Lemma dkeys_dset_NoDup d k v : NoDup (dkeys d) -> NoDup (dkeys (dset d k v)).
  Proof.
    unfold dkeys. induction d as [|[k' v'] t IH]; cbn [dset map fst]; intros H.
    - constructor; [intros []|constructor].
    - inversion_clear H as [|? ? Hn Ht]. destruct (Z.eqb_spec k k') as [->|Hne]; cbn [map fst].
      + constructor; assumption.
      + constructor; [|apply IH; exact Ht]. intros Hin. apply in_map_iff in Hin as [[k2 v2] [E Hin]]. cbn in E. subst k2.
        apply dset_In in Hin as [E|Hin]; [injection E as -> _; congruence|].
        apply Hn. apply in_map_iff. exists (k', v2). auto.
  Qed.

  Lemma dkeys_ddel_NoDup d k : NoDup (dkeys d) -> NoDup (dkeys (ddel k d)).
  Proof.
    unfold dkeys. induction d as [|[k' v'] t IH]; cbn [ddel map fst]; intros H; [constructor|].
    inversion_clear H as [|? ? Hn Ht]. destruct (k =? k'); [exact Ht|]. cbn [map fst].
    constructor; [|apply IH; exact Ht]. intros Hin. apply Hn.
    apply in_map_iff in Hin as [[k2 v2] [E Hin]]. cbn in E. subst k2.
    apply in_map_iff. exists (k', v2). split; [reflexivity|]. eapply ddel_subset; eauto.
  Qed.

  (* after deleting key k from a dict with unique keys, no entry has key k *)
  Lemma ddel_removes k d : NoDup (dkeys d) -> forall v, ~ In (k, v) (ddel k d).
  Proof.
    unfold dkeys. induction d as [|[k' v'] t IH]; cbn [ddel map fst]; intros H v Hin; [destruct Hin|].
    inversion_clear H as [|? ? Hn Ht]. destruct (Z.eqb_spec k k') as [->|Hne].
    - apply Hn. apply in_map_iff. exists (k', v). auto.
    - destruct Hin as [E|Hin]; [injection E as <- _; congruence|eapply IH; eauto].
  Qed.

  Lemma In_dkeys k v d : In (k, v) d -> In k (dkeys d).
  Proof. intros H. unfold dkeys. apply in_map_iff. exists (k, v). auto. Qed.

  Lemma dget_dset_same d k v : dget k (dset d k v) = Some v.
  Proof.
    induction d as [|[k' v'] t IH]; cbn [dset dget]; [rewrite Z.eqb_refl; reflexivity|].
    destruct (Z.eqb_spec k k') as [->|Hne]; cbn [dget]; [rewrite Z.eqb_refl; reflexivity|].
    destruct (Z.eqb_spec k k'); [congruence|exact IH].
  Qed.

  (* occurrence counting of a projection, for ownership invariants *)
  Variable f : V -> Z.
  Definition dcount (x : Z) (d : dict V) : nat := count_occ Z.eq_dec (map (fun kv => f (snd kv)) d) x.

  Lemma dcount_cons x k v d : dcount x ((k, v) :: d) = ((if Z.eq_dec (f v) x then 1 else 0) + dcount x d)%nat.
  Proof. unfold dcount. cbn [map snd count_occ]. destruct (Z.eq_dec (f v) x); reflexivity. Qed.

  Lemma dcount_ddel x k d :
    dcount x d = (dcount x (ddel k d) + match dget k d with Some v => if Z.eq_dec (f v) x then 1 else 0 | None => 0 end)%nat.
  Proof.
    induction d as [|[k' v'] t IH]; cbn [ddel dget]; [reflexivity|].
    destruct (k =? k'); rewrite !dcount_cons; lia.
  Qed.

  Lemma dcount_dset x k v d :
    (dcount x (dset d k v) <= dcount x d + (if Z.eq_dec (f v) x then 1 else 0))%nat.
  Proof.
    induction d as [|[k' v'] t IH]; cbn [dset].
    - rewrite dcount_cons. unfold dcount. cbn. lia.
    - destruct (k =? k'); rewrite !dcount_cons; [destruct (Z.eq_dec (f v) x), (Z.eq_dec (f v') x); lia|lia].
  Qed.
End DictFacts.

Section DictFacts2.
  Context {V : Type}.
  Implicit Types d : dict V.

  Lemma dget_dset_other d k v k2 : k2 <> k -> dget k2 (dset d k v) = dget k2 d.
  Proof.
    intros Hne. induction d as [|[k' v'] t IH]; cbn [dset dget].
    - destruct (Z.eqb_spec k2 k); [congruence|reflexivity].
    - destruct (Z.eqb_spec k k') as [->|Hk]; cbn [dget].
      + destruct (Z.eqb_spec k2 k'); [congruence|reflexivity].
      + destruct (k2 =? k'); [reflexivity|exact IH].
  Qed.

  Lemma dget_ddel_other d k k2 : k2 <> k -> dget k2 (ddel k d) = dget k2 d.
  Proof.
    intros Hne. induction d as [|[k' v'] t IH]; cbn [ddel dget]; [reflexivity|].
    destruct (Z.eqb_spec k k') as [->|Hk]; cbn [dget].
    - destruct (Z.eqb_spec k2 k'); [congruence|reflexivity].
    - destruct (k2 =? k'); [reflexivity|exact IH].
  Qed.

  Lemma dget_ddel_same d k : NoDup (dkeys d) -> dget k (ddel k d) = None.
  Proof.
    intros H. destruct (dget k (ddel k d)) as [v|] eqn:E; [|reflexivity].
    apply dget_In in E. exfalso. eapply ddel_removes; eauto.
  Qed.

  Lemma dget_None_dkeys k d : dget k d = None <-> ~ In k (dkeys d).
  Proof.
    split.
    - intros H Hin. unfold dkeys in Hin. apply in_map_iff in Hin as [[k' v] [E Hin]]. cbn in E. subst k'.
      eapply dget_None_notin; eauto.
    - intros H. destruct (dget k d) as [v|] eqn:E; [|reflexivity]. exfalso. apply H. eapply In_dkeys, dget_In; eauto.
  Qed.

  (* setting a new key appends *)
  Lemma dset_new d k v : dget k d = None -> dset d k v = d ++ [(k, v)].
  Proof.
    induction d as [|[k' v'] t IH]; cbn [dget dset app]; [reflexivity|].
    destruct (k =? k'); [discriminate|]. intros H. rewrite (IH H). reflexivity.
  Qed.
End DictFacts2.
